package c06

import (
	"crypto/sha256"
	"encoding/hex"
	"fmt"
	"sort"
	"strings"
	"sync"
	"time"

	"github.com/nspcc-dev/neo-go/pkg/core/block"
	"github.com/nspcc-dev/neo-go/pkg/core/native/nativehashes"
	"github.com/nspcc-dev/neo-go/pkg/core/state"
	"github.com/nspcc-dev/neo-go/pkg/core/storage"
	"github.com/nspcc-dev/neo-go/pkg/core/transaction"
	"github.com/nspcc-dev/neo-go/pkg/crypto/hash"
	"github.com/nspcc-dev/neo-go/pkg/crypto/keys"
	"github.com/nspcc-dev/neo-go/pkg/io"
	"github.com/nspcc-dev/neo-go/pkg/neotest"
	"github.com/nspcc-dev/neo-go/pkg/util"
	"github.com/nspcc-dev/neo-go/pkg/vm/opcode"

	"verif/lib/chainx"
)

const gas = 100000000

// mode is the node-local part of a chain state: what is pooled, whether the
// write cache was flushed and whether the header of the valid next block is
// already known (delivered through AddHeaders) when the candidate arrives.
type mode struct {
	Name     string
	Pool     string // none | bystander | own (the valid block's transactions + bystander)
	Flushed  bool
	HdrKnown bool
}

var modes = []mode{
	{Name: "plain", Pool: "none"},
	{Name: "pooled-own+flushed", Pool: "own", Flushed: true},
	{Name: "bystander+hdr-known", Pool: "bystander", HdrKnown: true},
	{Name: "pooled-own+hdr-known+flushed", Pool: "own", Flushed: true, HdrKnown: true},
}

func modeByName(s string) (mode, bool) {
	for _, m := range modes {
		if m.Name == s {
			return m, true
		}
	}
	return mode{}, false
}

// ---- byte-level helpers (hash caches of blocks/transactions are only correct
// after a decode, so every edit is followed by encode+decode) ---------------------

func reblock(b *block.Block) *block.Block {
	bb, err := chainx.BlockBytes(b)
	if err != nil {
		panic(err)
	}
	nb, err := chainx.DecodeBlock(bb, b.StateRootEnabled)
	if err != nil {
		panic(fmt.Errorf("reblock: %w", err))
	}
	return nb
}

func retx(t *transaction.Transaction) *transaction.Transaction {
	bb := t.Bytes()
	if bb == nil {
		panic("tx encode failed")
	}
	nt, err := transaction.NewTransactionFromBytes(bb)
	if err != nil {
		panic(fmt.Errorf("retx: %w", err))
	}
	return nt
}

func sigPush(sig []byte) []byte {
	return append([]byte{byte(opcode.PUSHDATA1), byte(len(sig))}, sig...)
}

// signTx gives tx (one signer) the standard witness of account i.
func signTx(t *transaction.Transaction, i int, magic uint32) *transaction.Transaction {
	acc := chainx.Acc(i)
	t.Scripts = []transaction.Witness{{InvocationScript: []byte{}, VerificationScript: acc.Contract.Script}}
	t = retx(t)
	sig := acc.PrivateKey().SignHashable(magic, t)
	t.Scripts[0].InvocationScript = sigPush(sig)
	return retx(t)
}

// handTx builds a transaction of account i by hand: every field is fixed by
// the caller, so the hash does not depend on the state it is built in.
func handTx(i int, magic uint32, script []byte, nonce, vub uint32, sysFee, netFee int64, attrs ...transaction.Attribute) *transaction.Transaction {
	t := transaction.New(script, sysFee)
	t.Nonce = nonce
	t.ValidUntilBlock = vub
	t.NetworkFee = netFee
	t.Signers = []transaction.Signer{{Account: chainx.Acc(i).ScriptHash(), Scopes: transaction.CalledByEntry}}
	t.Attributes = attrs
	return signTx(t, i, magic)
}

func transferScript(from, to int, amount int64) []byte {
	return chainx.CallScript(nativehashes.GasToken, "transfer", chainx.Acc(from).ScriptHash(), chainx.Acc(to).ScriptHash(), amount, nil)
}

func conflictsAttr(h util.Uint256) transaction.Attribute {
	return transaction.Attribute{Type: transaction.ConflictsT, Value: &transaction.Conflicts{Hash: h}}
}

func nvbAttr(h uint32) transaction.Attribute {
	return transaction.Attribute{Type: transaction.NotValidBeforeT, Value: &transaction.NotValidBefore{Height: h}}
}

// The anchor template puts two transactions with Conflicts attributes on
// chain: C1 by account 1 naming Z1 (a transaction of account 1) and C2 by
// account 2 naming Z2 (another transaction of account 1). Later Z1 is invalid
// (an on-chain transaction of the same signer conflicts with it), Z2 is valid.
const anchorName = "c06-conflict-anchor"

func anchorZ(k int, magic uint32) *transaction.Transaction {
	return handTx(1, magic, transferScript(1, 2, int64(10+k)), uint32(0xC06A0000+k), 60, 1*gas, gas/10)
}

func anchorTpl() chainx.Tpl {
	return chainx.Tpl{Name: anchorName, Build: func(w *chainx.World) ([]*transaction.Transaction, error) {
		magic := uint32(w.N.BC.GetConfig().Magic)
		h := w.N.Height()
		c1 := handTx(1, magic, transferScript(1, 3, 1), 0xC06A0011, h+20, 1*gas, gas/10, conflictsAttr(anchorZ(1, magic).Hash()))
		c2 := handTx(2, magic, transferScript(2, 3, 1), 0xC06A0012, h+20, 1*gas, gas/10, conflictsAttr(anchorZ(2, magic).Hash()))
		return []*transaction.Transaction{c1, c2}, nil
	}}
}

func tplByName(names ...string) []chainx.Tpl {
	var out []chainx.Tpl
	for _, n := range names {
		if n == anchorName {
			out = append(out, anchorTpl())
		} else if n == oracleSetupName {
			out = append(out, oracleSetupTpl())
		} else {
			out = append(out, chainx.TplByName(n)...)
		}
	}
	return out
}

// ---- the chain state under test ------------------------------------------------------

type snap struct {
	Height    uint32   `json:"height"`
	Hash      string   `json:"hash"`
	HdrHeight uint32   `json:"header_height"`
	HdrHash   string   `json:"header_hash"`
	Root      string   `json:"state_root"`
	Storage   string   `json:"storage_digest"`
	Mempool   []string `json:"mempool"`
	Natives   string   `json:"native_getters"` // policy values, committee and validators as the node's getters (native caches) report them
}

func (a snap) diff(b snap, headerToo bool) []string {
	var d []string
	add := func(n, x, y string) {
		if x != y {
			d = append(d, fmt.Sprintf("%s: %s -> %s", n, x, y))
		}
	}
	add("BlockHeight", fmt.Sprint(a.Height), fmt.Sprint(b.Height))
	add("CurrentBlockHash", a.Hash, b.Hash)
	add("StateRoot", a.Root, b.Root)
	add("storage", a.Storage, b.Storage)
	add("mempool", strings.Join(a.Mempool, ","), strings.Join(b.Mempool, ","))
	add("native getters", a.Natives, b.Natives)
	if headerToo {
		add("HeaderHeight", fmt.Sprint(a.HdrHeight), fmt.Sprint(b.HdrHeight))
		add("CurrentHeaderHash", a.HdrHash, b.HdrHash)
	}
	return d
}

func digest(m map[string]string) string {
	ks := make([]string, 0, len(m))
	for k := range m {
		ks = append(ks, k)
	}
	sort.Strings(ks)
	h := sha256.New()
	for _, k := range ks {
		h.Write([]byte(k))
		h.Write([]byte{0})
		h.Write([]byte(m[k]))
		h.Write([]byte{1})
	}
	return hex.EncodeToString(h.Sum(nil))[:24]
}

func takeSnap(n *chainx.Node, maxID int32) (snap, error) {
	bc := n.BC
	s := snap{Height: bc.BlockHeight(), Hash: bc.CurrentBlockHash().StringLE(), HdrHeight: bc.HeaderHeight(), HdrHash: bc.CurrentHeaderHash().StringLE()}
	sr, err := bc.GetStateRoot(s.Height)
	if err != nil {
		return s, fmt.Errorf("GetStateRoot(%d): %w", s.Height, err)
	}
	s.Root = sr.Root.StringLE()
	s.Storage = digest(n.StorageDump(n.ContractIDs(maxID)))
	for _, t := range bc.GetMemPool().GetVerifiedTransactions() {
		// hash prefix + digest of the full encoding (the hash does not cover witnesses)
		full := sha256.Sum256(t.Bytes())
		s.Mempool = append(s.Mempool, t.Hash().StringLE()[:16]+"/"+hex.EncodeToString(full[:4]))
	}
	s.Natives = nativeGetters(n)
	return s, nil
}

type control struct {
	pre    snap              // after replay + mode setup (before any delivery)
	dump   map[string]string // raw database after a flush, nothing delivered
	afterB snap              // after the valid block alone
	dumpB  map[string]string // raw database after the valid block alone + flush
}

type stateCtx struct {
	sc    *chainx.Scenario
	h     []int
	names []string
	mode  mode
	fam   chainx.Family
	magic uint32
	maxID int32

	blocks [][]byte // wire bytes of preamble + history
	cv     *chainView
	grand  *block.Header
	first  *block.Header // header of block 1
	vals   keys.PublicKeys
	m      int

	b       *block.Block // the valid next block (decoded, never mutated)
	bBytes  []byte
	b2Bytes []byte // a valid block on top of b
	b2      *block.Block
	b2Root  string          // reference state root after b and b2
	cv2     *chainView      // what the predicate knows about the state after b
	vals2   keys.PublicKeys // validators of the height of b2
	ph      map[string]*poolHist
	pw      *pwCast // cast of the witness histories (poolwit_test.go)
	chain   []link // the valid blocks at tip+1 .. tip+4 (b, b2, b3, b4), see ext_test.go
	pagedOnce sync.Once
	pagedC    *pagedChain
	bRoot   string // reference state root after b (replica that only ever saw b)
	root0   util.Uint256 // state root of the genesis block
	root1   util.Uint256 // state root after block 1

	sp        map[string]*transaction.Transaction // special transactions, see buildSpecials
	bystander *transaction.Transaction
	hasAnchor bool
	feat      []string

	ctlOnce sync.Once
	ctl     *control
	ctlErr  error
}

func (c *stateCtx) label() string {
	return fmt.Sprintf("%s/pad%d/[%s]/%s", c.fam.Name, c.sc.Pad, strings.Join(c.names, ","), c.mode.Name)
}

func decodeAll(blocks [][]byte, srih bool) ([]*block.Block, error) {
	var out []*block.Block
	for _, bb := range blocks {
		b, err := chainx.DecodeBlock(bb, srih)
		if err != nil {
			return nil, err
		}
		out = append(out, b)
	}
	return out, nil
}

// buildState prepares everything that is shared by the corruptions of one
// chain state. It works on a scratch replica that is thrown away.
func buildState(sc *chainx.Scenario, h []int, md mode) (c *stateCtx, err error) {
	c = &stateCtx{sc: sc, h: append([]int{}, h...), names: sc.Names(h), mode: md, fam: sc.Fam, maxID: sc.World.MaxID}
	c.blocks, _ = sc.Blocks(h)
	n, w, err := sc.RefNode(h)
	if err != nil {
		return nil, err
	}
	defer n.Close()
	bc := n.BC
	c.magic = uint32(bc.GetConfig().Magic)
	hist, err := decodeAll(c.blocks, c.fam.SRIH)
	if err != nil {
		return nil, err
	}
	tip := hist[len(hist)-1]
	c.grand = &hist[len(hist)-2].Header
	c.first = &hist[0].Header
	cv := &chainView{Magic: c.magic, SRIH: c.fam.SRIH, Tip: &tip.Header, MaxVUBInc: bc.GetMaxValidUntilBlockIncrement(), MTB: bc.GetMaxTraceableBlocks(),
		FeePerByte: bc.FeePerByte(), BaseExecFee: bc.GetBaseExecFee(),
		OnChain: map[util.Uint256]uint32{}, Conflicts: map[util.Uint256][]conflictRec{}, Balance: map[util.Uint160]int64{}, Blocked: map[util.Uint160]bool{}}
	c.cv = cv
	sr, err := bc.GetStateRoot(tip.Index)
	if err != nil {
		return nil, err
	}
	cv.LocalRoot = sr.Root
	if r0, err := bc.GetStateRoot(0); err == nil {
		c.root0 = r0.Root
	}
	if r1, err := bc.GetStateRoot(1); err == nil {
		c.root1 = r1.Root
	}
	for _, hb := range hist {
		for _, t := range hb.Transactions {
			cv.OnChain[t.Hash()] = hb.Index
			var sg []util.Uint160
			for _, s := range t.Signers {
				sg = append(sg, s.Account)
			}
			for _, a := range t.GetAttributes(transaction.ConflictsT) {
				ch := a.Value.(*transaction.Conflicts).Hash
				cv.Conflicts[ch] = append(cv.Conflicts[ch], conflictRec{Signers: sg, Index: hb.Index})
			}
		}
	}
	c.hasAnchor = len(cv.Conflicts[anchorZ(1, c.magic).Hash()]) > 0
	accs := []util.Uint160{n.Validator.ScriptHash(), n.Committee.ScriptHash(), nativehashes.OracleContract}
	for i := 1; i <= 8; i++ {
		accs = append(accs, chainx.Acc(i).ScriptHash())
	}
	for _, a := range accs {
		cv.Balance[a] = bc.GetUtilityTokenBalance(a, util.Uint160{}).Int64()
	}
	// blocked accounts: Policy storage, prefix 15 + account
	for k := range n.StorageDump([]int32{-7}) {
		kb, _ := hex.DecodeString(strings.TrimPrefix(k, "-7:"))
		if len(kb) == 21 && kb[0] == 15 {
			a, _ := util.Uint160DecodeBytesBE(kb[1:])
			cv.Blocked[a] = true
		}
	}
	c.fillPolicy(n, cv)
	if c.vals, err = bc.GetNextBlockValidators(); err != nil {
		return nil, err
	}
	c.m = len(c.vals) - (len(c.vals)-1)/3

	// the valid next block: a GAS transfer, a storage write through U, a vote
	tipH := tip.Index
	var txs []*transaction.Transaction
	mk := func(nonce uint32, signer int, script []byte) error {
		t, err := n.MakeTx(script, []neotest.Signer{chainx.Signer(signer)}, func(t *transaction.Transaction) { t.Nonce = nonce; t.ValidUntilBlock = tipH + 7 })
		if err != nil {
			return err
		}
		txs = append(txs, retx(t))
		return nil
	}
	if err = mk(0xC0600001, 1, transferScript(1, 2, 3*gas)); err != nil {
		return nil, fmt.Errorf("b tx0: %w", err)
	}
	if err = mk(0xC0600002, 2, chainx.CallScript(w.UA.Hash, "run", []any{[]any{chainx.OpPut, []byte("c06"), []byte("1")}, []any{chainx.OpNotify, 6}})); err != nil {
		return nil, fmt.Errorf("b tx1: %w", err)
	}
	if err = mk(0xC0600003, 2, chainx.CallScript(nativehashes.NeoToken, "vote", chainx.Acc(2).ScriptHash(), chainx.Acc(1).PublicKey().Bytes())); err != nil {
		return nil, fmt.Errorf("b tx2: %w", err)
	}
	if err = c.buildSpecials(n, tipH); err != nil {
		return nil, err
	}
	if err = c.buildSpecialsExt(n, tipH, txs); err != nil {
		return nil, err
	}
	b, err := n.NewBlock(txs...)
	if err != nil {
		return nil, fmt.Errorf("NewBlock: %w", err)
	}
	if c.bBytes, err = chainx.BlockBytes(b); err != nil {
		return nil, err
	}
	if c.b, err = chainx.DecodeBlock(c.bBytes, c.fam.SRIH); err != nil {
		return nil, err
	}
	if v := cv.judge(c.b); !v.Valid() {
		return nil, fmt.Errorf("harness: the predicate rejects the valid block: %v", v.Why)
	}
	if err = n.AddBytes(c.bBytes); err != nil {
		return nil, fmt.Errorf("harness: scratch replica rejects the valid block: %w", err)
	}
	sr, err = bc.GetStateRoot(b.Index)
	if err != nil {
		return nil, err
	}
	c.bRoot = sr.Root.StringLE()
	// the view of the state after b (for candidates at the height of b2)
	cv2 := *cv
	cv2.Tip = &c.b.Header
	cv2.LocalRoot = sr.Root
	cv2.OnChain = map[util.Uint256]uint32{}
	for k, v := range cv.OnChain {
		cv2.OnChain[k] = v
	}
	for _, t := range c.b.Transactions {
		cv2.OnChain[t.Hash()] = c.b.Index
	}
	cv2.Balance = map[util.Uint160]int64{}
	for _, a := range accs {
		cv2.Balance[a] = bc.GetUtilityTokenBalance(a, util.Uint160{}).Int64()
	}
	c.cv2 = &cv2
	if c.vals2, err = bc.GetNextBlockValidators(); err != nil {
		return nil, err
	}
	t3, err := n.MakeTx(transferScript(2, 1, 1*gas), []neotest.Signer{chainx.Signer(2)}, func(t *transaction.Transaction) { t.Nonce = 0xC0600004 })
	if err != nil {
		return nil, fmt.Errorf("b2 tx: %w", err)
	}
	b2, err := n.AddBlock(t3)
	if err != nil {
		return nil, fmt.Errorf("harness: b2: %w", err)
	}
	if c.b2Bytes, err = chainx.BlockBytes(b2); err != nil {
		return nil, err
	}
	if c.b2, err = chainx.DecodeBlock(c.b2Bytes, c.fam.SRIH); err != nil {
		return nil, err
	}
	if v := c.cv2.judge(c.b2); !v.Valid() {
		return nil, fmt.Errorf("harness: the predicate rejects the valid successor: %v", v.Why)
	}
	if sr, err = bc.GetStateRoot(b2.Index); err != nil {
		return nil, err
	}
	c.b2Root = sr.Root.StringLE()
	if err = c.extendChain(n, hist); err != nil {
		return nil, fmt.Errorf("harness: chain extension: %w", err)
	}
	c.buildPoolHist()
	c.buildPoolWitCast()
	// features (for the coverage report and the choice of quick states)
	idx := c.b.Index
	if n.Opts.Multi {
		switch idx % 6 {
		case 0:
			c.feat = append(c.feat, "b-is-first-of-epoch")
		case 5:
			c.feat = append(c.feat, "b-is-last-of-epoch")
		}
		if tip.NextConsensus != hist[0].NextConsensus {
			c.feat = append(c.feat, "b-signed-by-elected-validators")
		}
		if c.b.NextConsensus != tip.NextConsensus {
			c.feat = append(c.feat, "b-announces-new-validators")
		}
		if tip.NextConsensus != c.grand.NextConsensus {
			c.feat = append(c.feat, "validators-changed-at-tip")
		}
	}
	if c.hasAnchor {
		c.feat = append(c.feat, "conflict-records-on-chain")
	}
	if len(cv.Blocked) > 0 {
		c.feat = append(c.feat, "blocked-account")
	}
	return c, nil
}

// buildSpecials prepares well-signed transactions that break (or just keep)
// exactly one rule at this state. n is the scratch replica at the tip.
func (c *stateCtx) buildSpecials(n *chainx.Node, tip uint32) error {
	c.sp = map[string]*transaction.Transaction{}
	cv := c.cv
	nonce := uint32(0xC0610000)
	// a transaction of account a with the exact minimal network fee
	mk := func(name string, a int, script []byte, opt func(t *transaction.Transaction)) error {
		nonce++
		nn := nonce
		t, err := n.MakeTx(script, []neotest.Signer{chainx.Signer(a)}, chainx.SysFee(1*gas), func(t *transaction.Transaction) {
			t.Nonce = nn
			t.ValidUntilBlock = tip + 7
			if opt != nil {
				opt(t)
			}
		})
		if err != nil {
			return fmt.Errorf("special %s: %w", name, err)
		}
		c.sp[name] = retx(t)
		return nil
	}
	steps := []struct {
		name string
		a    int
		opt  func(t *transaction.Transaction)
	}{
		{"extra-valid", 4, nil},
		{"bystander", 4, nil},
		{"expired", 4, func(t *transaction.Transaction) { t.ValidUntilBlock = tip }},
		{"vub-last-ok", 4, func(t *transaction.Transaction) { t.ValidUntilBlock = tip + 1 }},
		{"vub-too-far", 4, func(t *transaction.Transaction) { t.ValidUntilBlock = tip + cv.MaxVUBInc + 1 }},
		{"vub-max-ok", 4, func(t *transaction.Transaction) { t.ValidUntilBlock = tip + cv.MaxVUBInc }},
		{"nvb-future", 4, func(t *transaction.Transaction) { t.Attributes = append(t.Attributes, nvbAttr(tip+2)) }},
		{"nvb-ok", 4, func(t *transaction.Transaction) { t.Attributes = append(t.Attributes, nvbAttr(tip)) }},
		{"pair-x", 5, nil},
	}
	for _, s := range steps {
		if err := mk(s.name, s.a, transferScript(s.a, 1, 1), s.opt); err != nil {
			return err
		}
	}
	c.bystander = c.sp["bystander"]
	delete(c.sp, "bystander")
	x := c.sp["pair-x"]
	// Y names X; same signer; once paying more, once paying less than X
	for _, v := range []struct {
		name string
		dfee int64
	}{{"pair-y-more", 1000000}, {"pair-y-equal", 0}} {
		d := v.dfee
		if err := mk(v.name, 5, transferScript(5, 1, 2), func(t *transaction.Transaction) {
			t.Attributes = append(t.Attributes, conflictsAttr(x.Hash()))
			t.NetworkFee = d
		}); err != nil {
			return err
		}
	}
	// X' pays more than Y-more (for the order Y, X)
	if err := mk("pair-x-most", 5, transferScript(5, 1, 3), func(t *transaction.Transaction) { t.NetworkFee = 5000000 }); err != nil {
		return err
	}
	xm := c.sp["pair-x-most"]
	if err := mk("pair-y-of-x-most", 5, transferScript(5, 1, 4), func(t *transaction.Transaction) {
		t.Attributes = append(t.Attributes, conflictsAttr(xm.Hash()))
	}); err != nil {
		return err
	}
	// names an on-chain transaction in its own Conflicts attribute
	var onchain *transaction.Transaction
	hist, _ := decodeAll(c.blocks, c.fam.SRIH)
	for i := len(hist) - 1; i >= 0 && onchain == nil; i-- {
		if len(hist[i].Transactions) > 0 {
			onchain = hist[i].Transactions[0]
		}
	}
	c.sp["onchain-dup"] = retx(onchain)
	if err := mk("conflicts-names-onchain", 4, transferScript(4, 1, 5), func(t *transaction.Transaction) {
		t.Attributes = append(t.Attributes, conflictsAttr(onchain.Hash()))
	}); err != nil {
		return err
	}
	if c.hasAnchor {
		c.sp["anchor-same-signer"] = anchorZ(1, c.magic)
		c.sp["anchor-other-signer"] = anchorZ(2, c.magic)
	}
	// network fee one unit short (re-signed by its sender)
	short := retx(c.sp["extra-valid"])
	short.NetworkFee--
	short.Nonce = 0xC0620001
	c.sp["netfee-short"] = signTx(short, 4, c.magic)
	exact := retx(c.sp["extra-valid"])
	exact.Nonce = 0xC0620001
	c.sp["netfee-exact"] = signTx(exact, 4, c.magic)
	// funds: account 6 sends two transactions
	bal := cv.Balance[chainx.Acc(6).ScriptHash()]
	if err := mk("fund-a", 6, transferScript(6, 1, 1), nil); err != nil {
		return err
	}
	nf := c.sp["fund-a"].NetworkFee
	fund := func(name string, nn uint32, sys int64) {
		t := retx(c.sp["fund-a"])
		t.Nonce = nn
		t.SystemFee = sys
		c.sp[name] = signTx(t, 6, c.magic)
	}
	half := bal * 6 / 10
	fund("fund-a", 0xC0630001, half)
	fund("fund-b-over", 0xC0630002, bal-half-2*nf+1)  // a+b = balance+1
	fund("fund-b-exact", 0xC0630003, bal-half-2*nf)   // a+b = balance
	fund("fund-single-over", 0xC0630004, bal-nf+1)    // alone: balance+1
	fund("fund-single-exact", 0xC0630005, bal-nf)     // alone: balance
	c.sp["big-max"] = c.bigTx(transaction.MaxTransactionSize, 0xC0650001, tip+7)
	c.sp["big-over"] = c.bigTx(transaction.MaxTransactionSize+1, 0xC0650002, tip+7)
	if cv.Blocked[chainx.Acc(3).ScriptHash()] {
		t := handTx(3, c.magic, transferScript(3, 1, 1), 0xC0640001, tip+7, 1*gas, gas/10)
		t.Signers[0].Scopes = transaction.Global
		c.sp["blocked-sender"] = signTx(t, 3, c.magic)
	}
	return nil
}

// ---- replicas ---------------------------------------------------------------------------

// prepare builds a fresh replica at state S (history replayed from wire bytes,
// mode applied).
func (c *stateCtx) prepare() (*chainx.Node, error) { return c.prepareWith(c.mode) }

func (c *stateCtx) prepareWith(md mode) (*chainx.Node, error) { return c.prepareOpts(md, c.fam.Opts()) }

// prepareOpts is prepareWith for a replica with node-local options of its own.
func (c *stateCtx) prepareOpts(md mode, opts chainx.Opts) (*chainx.Node, error) {
	t0 := time.Now()
	n, err := chainx.New(opts)
	tNew.Add(int(time.Since(t0).Microseconds()))
	if err != nil {
		return nil, err
	}
	if rs, ok := n.Store.(*chainx.RecStore); ok {
		rs.NoLog = true
	}
	for i, bb := range c.blocks {
		if err := n.AddBytes(bb); err != nil {
			n.Close()
			return nil, fmt.Errorf("replay block %d: %w", i+1, err)
		}
	}
	if err := c.applyPool(n, md); err != nil {
		n.Close()
		return nil, err
	}
	if md.HdrKnown {
		if err := c.applyHdrKnown(n); err != nil {
			n.Close()
			return nil, err
		}
	}
	if md.Flushed {
		if err := n.Persist(); err != nil {
			n.Close()
			return nil, err
		}
	}
	return n, nil
}

// applyPool pools what the mode wants pooled.
func (c *stateCtx) applyPool(n *chainx.Node, md mode) error {
	switch md.Pool {
	case "own", "bystander":
		if md.Pool == "own" {
			for _, t := range c.b.Transactions {
				if err := n.BC.PoolTx(retx(t)); err != nil {
					return fmt.Errorf("pool own tx: %w", err)
				}
			}
		}
		if err := n.BC.PoolTx(retx(c.bystander)); err != nil {
			return fmt.Errorf("pool bystander: %w", err)
		}
	}
	return nil
}

// applyHdrKnown delivers the header of the valid next block through AddHeaders.
func (c *stateCtx) applyHdrKnown(n *chainx.Node) error {
	hb, err := chainx.DecodeBlock(c.bBytes, c.fam.SRIH)
	if err == nil {
		err = n.BC.AddHeaders(&hb.Header)
	}
	if err != nil {
		return fmt.Errorf("make header known: %w", err)
	}
	return nil
}

// control is the replica that never sees a corrupted block.
func (c *stateCtx) control() (*control, error) {
	c.ctlOnce.Do(func() {
		ctl := &control{}
		n, err := c.prepare()
		if err != nil {
			c.ctlErr = err
			return
		}
		if ctl.pre, err = takeSnap(n, c.maxID); err == nil {
			err = n.Persist()
		}
		if err != nil {
			n.Close()
			c.ctlErr = err
			return
		}
		ctl.dump = rawDump(n.Store)
		n.Close()
		// a second one for "only ever saw b" (the flush above is part of the
		// treatment of the replica under test as well)
		n, err = c.prepare()
		if err != nil {
			c.ctlErr = err
			return
		}
		defer n.Close()
		if err = n.Persist(); err == nil {
			err = n.AddBytes(c.bBytes)
		}
		if err == nil {
			ctl.afterB, err = takeSnap(n, c.maxID)
		}
		if err == nil {
			err = n.Persist()
		}
		if err != nil {
			c.ctlErr = fmt.Errorf("control: valid block: %w", err)
			return
		}
		ctl.dumpB = rawDump(n.Store)
		if ctl.afterB.Root != c.bRoot {
			c.ctlErr = fmt.Errorf("control: root after b %s differs from the scratch replica's %s", ctl.afterB.Root, c.bRoot)
			return
		}
		c.ctl = ctl
	})
	return c.ctl, c.ctlErr
}

// rawDump is the raw database content. Values of STTokenTransferInfo entries
// are decoded and re-rendered in key order: TokenTransferInfo.EncodeBinary
// writes its LastUpdated map in Go map iteration order, so the stored bytes of
// one and the same value differ from replica to replica.
func rawDump(s storage.Store) map[string]string {
	m := chainx.DumpMap(s)
	for k, v := range m {
		if len(k) > 0 && storage.KeyPrefix(k[0]) == storage.STTokenTransferInfo {
			var ti state.TokenTransferInfo
			r := io.NewBinReaderFromBuf([]byte(v))
			ti.DecodeBinary(r)
			if r.Err != nil || r.Len() != 0 {
				continue
			}
			ids := make([]int, 0, len(ti.LastUpdated))
			for id := range ti.LastUpdated {
				ids = append(ids, int(id))
			}
			sort.Ints(ids)
			out := fmt.Sprintf("tti %d %d %d %d %v %v", ti.NextNEP11Batch, ti.NextNEP17Batch, ti.NextNEP11NewestTimestamp, ti.NextNEP17NewestTimestamp, ti.NewNEP11Batch, ti.NewNEP17Batch)
			for _, id := range ids {
				out += fmt.Sprintf(" %d:%d", id, ti.LastUpdated[int32(id)])
			}
			m[k] = out
		}
	}
	return m
}

// paddedSigScript is a signature contract of account k preceded by a pushed
// and dropped filler, 1024 bytes in total (the largest verification script).
func paddedSigScript(k int) []byte {
	std := chainx.Acc(k).Contract.Script
	fill := transaction.MaxVerificationScript - len(std) - 4
	out := []byte{byte(opcode.PUSHDATA2), byte(fill), byte(fill >> 8)}
	for i := 0; i < fill; i++ {
		out = append(out, byte(k))
	}
	out = append(out, byte(opcode.DROP))
	return append(out, std...)
}

// bigTx builds a well-signed transaction of account 4 whose serialized size is
// exactly target bytes: 16 signers with full custom scopes, 15 of them with
// padded verification scripts, and a script of NOPs that takes up the rest.
func (c *stateCtx) bigTx(target int, nonce, vub uint32) *transaction.Transaction {
	pub := chainx.Acc(1).PublicKey()
	var contracts []util.Uint160
	var groups []*keys.PublicKey
	var conds []transaction.WitnessCondition
	for i := 0; i < 16; i++ {
		contracts = append(contracts, util.Uint160{byte(i + 1)})
		groups = append(groups, pub)
		g := transaction.ConditionGroup(*pub)
		conds = append(conds, &g)
	}
	or := transaction.ConditionOr(conds)
	var rules []transaction.WitnessRule
	for i := 0; i < 16; i++ {
		rules = append(rules, transaction.WitnessRule{Action: transaction.WitnessAllow, Condition: &or})
	}
	build := func(scriptLen int) *transaction.Transaction {
		script := make([]byte, scriptLen)
		for i := range script {
			script[i] = byte(opcode.NOP)
		}
		script[scriptLen-1] = byte(opcode.RET)
		t := transaction.New(script, 1*gas)
		t.Nonce, t.ValidUntilBlock, t.NetworkFee = nonce, vub, 4*gas
		t.Signers = []transaction.Signer{{Account: chainx.Acc(4).ScriptHash(), Scopes: transaction.CustomContracts | transaction.CustomGroups | transaction.Rules,
			AllowedContracts: contracts, AllowedGroups: groups, Rules: rules}}
		t.Scripts = []transaction.Witness{{InvocationScript: make([]byte, 66), VerificationScript: chainx.Acc(4).Contract.Script}}
		for k := 20; k < 35; k++ {
			vs := paddedSigScript(k)
			t.Signers = append(t.Signers, transaction.Signer{Account: hash.Hash160(vs), Scopes: transaction.CustomContracts | transaction.CustomGroups, AllowedContracts: contracts, AllowedGroups: groups})
			t.Scripts = append(t.Scripts, transaction.Witness{InvocationScript: make([]byte, 66), VerificationScript: vs})
		}
		return retx(t)
	}
	t := build(60000)
	t = build(60000 + target - t.Size())
	if t.Size() != target {
		panic(fmt.Sprintf("big transaction: size %d, wanted %d", t.Size(), target))
	}
	t.Scripts[0].InvocationScript = sigPush(chainx.Acc(4).PrivateKey().SignHashable(c.magic, t))
	for k := 20; k < 35; k++ {
		t.Scripts[k-19].InvocationScript = sigPush(chainx.Acc(k).PrivateKey().SignHashable(c.magic, t))
	}
	return retx(t)
}
