// C06: only valid chain extensions are accepted; a rejected block changes
// nothing. (reachable chain states) x (every corruption of a menu applied to
// the valid next block), each pair on a fresh real replica, with an
// independent validity predicate deciding what may happen (DESIGN.md, C06 and
// the "C06, recorded headers" oracle note).
package c06

import (
	"bytes"
	"errors"
	"fmt"
	"os"
	"regexp"
	"runtime/debug"
	"sort"
	"strings"
	"sync"
	"testing"
	"time"

	"github.com/nspcc-dev/neo-go/pkg/core/block"
	"github.com/nspcc-dev/neo-go/pkg/core/storage"
	"github.com/nspcc-dev/neo-go/pkg/util"

	"verif/lib/chainx"
	"verif/lib/vk"
)

type caseRec struct {
	Family   string   `json:"family"`
	Pad      int      `json:"pad"`
	History  []string `json:"history"`
	Mode     string   `json:"mode"`
	Item     string   `json:"corruption"`
	Path     string   `json:"path"` // block (AddBlock) | header (AddHeaders)
	Class    string   `json:"predicted_class,omitempty"`
	Why      []string `json:"rules_broken,omitempty"`
	What     string   `json:"what"`
	Err      string   `json:"node_error,omitempty"`
	Diff     []string `json:"diff,omitempty"`
	Features []string `json:"state_features,omitempty"`
	Note     string   `json:"note,omitempty"`
}

var tPrepare, tClose, tCase, tSnap, tNew vk.Counter

var extGroups = map[string]bool{"header-batch": true, "deep-ahead": true, "restart": true, "paged": true, "pool-witness": true, "pool-kinds": true, "pool-replay": true, "pool-solvency": true, "pool-evict": true, rsGroup: true}

type viol struct {
	what string // stable first part of the key
	rec  caseRec
}

type outcome struct {
	class   string // i | ii | iii | valid | decode | n/a
	result  string // accepted | rejected | decode-failed | n/a | ignored
	errText string
	recHdr  bool // the header of the candidate was recorded by the rejecting node
	viols   []viol
	harness string
	execs   int
}

func headerKey(k string, h util.Uint256) bool {
	if len(k) == 0 {
		return false
	}
	switch storage.KeyPrefix(k[0]) {
	case storage.DataExecutable:
		return len(k) == 33 && bytes.Equal([]byte(k[1:]), h.BytesBE())
	case storage.SYSCurrentHeader:
		return len(k) == 1
	case storage.IXHeaderHashList:
		return true
	}
	return false
}

// dumpDiff lists the keys in which two raw database dumps differ; allowed
// filters the keys that may differ.
func dumpDiff(want, got map[string]string, allowed func(k string) bool) (bad []string, okChanged int) {
	see := func(k, what string) {
		if allowed != nil && allowed(k) {
			okChanged++
			return
		}
		if len(bad) < 8 {
			bad = append(bad, fmt.Sprintf("%s key %x", what, k))
		}
	}
	for k, v := range want {
		g, ok := got[k]
		if !ok {
			see(k, "missing")
		} else if g != v {
			see(k, "changed")
		}
	}
	for k := range got {
		if _, ok := want[k]; !ok {
			see(k, "new")
		}
	}
	sort.Strings(bad)
	return
}

var reNoise = regexp.MustCompile(`[0-9a-f]{8,}|[0-9]+`)

func errClass(err error) string {
	if err == nil {
		return "nil"
	}
	s := reNoise.ReplaceAllString(err.Error(), "#")
	if len(s) > 70 {
		s = s[:70]
	}
	return s
}

func (c *stateCtx) rec(it item, path string) caseRec {
	return caseRec{Family: c.fam.Name, Pad: c.sc.Pad, History: c.names, Mode: c.mode.Name, Item: it.ID, Path: path, Features: c.feat}
}

func sameBlock(a *block.Block, bb []byte) bool {
	x, err := chainx.BlockBytes(a)
	return err == nil && bytes.Equal(x, bb)
}

// runCase executes one (state, corruption, path) on a fresh replica.
func (c *stateCtx) runCase(it item, path string) (o outcome) {
	base := c.rec(it, path)
	var d *delivery
	bad := func(what, errText string, diff []string, note string) {
		r := base
		if d != nil && d.RS != nil {
			note = strings.TrimSpace(note + fmt.Sprintf(" [delivered to a replica that was restarted (%s store, graceful stop + start on the same store); %d valid block(s) of the history were added between the start and this delivery]", d.RS.Backend, d.RS.After))
		}
		r.What, r.Err, r.Diff, r.Note, r.Class = what, errText, diff, note, o.class
		o.viols = append(o.viols, viol{what: what, rec: r})
	}
	if err := chainx.Try(func() { d = it.Make(c) }); err != nil {
		o.harness = "menu item cannot be built: " + err.Error()
		return
	}
	if d == nil {
		o.class, o.result = "n/a", "n/a"
		return
	}
	if path == "header" && d.RS != nil && !c.fam.SRIH && !rsThorough {
		// quick tier: restarted header deliveries only where headers carry state roots
		o.class, o.result = "n/a", "n/a"
		return
	}
	if path == "header" && c.mode.HdrKnown && d.Seq == "gap" {
		// the header of the valid block is known already, so the header at tip+2
		// extends the header chain correctly: not a corruption in this mode
		o.class, o.result = "n/a", "n/a"
		return
	}
	if d.Seq == "poolhist" {
		base.Why = c.ph[d.PH].V.Why
		c.runPoolHist(d, &o, bad)
		return
	}
	if d.Seq == "ext" {
		c.runExt(d, &o, &base, bad)
		return
	}
	if d.Seq == "poolwit" {
		c.runPoolWit(d, &o, &base, bad)
		return
	}
	if d.Seq == "poolrep" {
		c.runPoolRep(d, &o, &base, bad)
		return
	}
	ctl, err := c.control()
	if err != nil {
		o.harness = "control replica: " + err.Error()
		return
	}
	blk, derr := chainx.DecodeBlock(d.Raw, d.Flag)
	if derr != nil {
		// nothing reaches the ledger: rejected at decode
		o.class, o.result, o.errText = "decode", "decode-failed", errClass(derr)
		return
	}
	v := c.cv.judge(blk)
	o.class = v.class(blk.Hash(), c.b.Hash())
	if d.Seq == "ahead" {
		v = c.cv2.judge(blk)
		o.class = "ahead-" + v.class(blk.Hash(), c.b2.Hash())
	}
	if d.Seq == "mirror" {
		o.class = "mirror-" + o.class
	}
	base.Why = v.Why
	if d.Seq == "twice" {
		o.class = "i" // relative to the tip after the first delivery
	}
	t0 := time.Now()
	var n *chainx.Node
	rsSkip := func(why string) {
		// the restart itself went wrong: not a matter of this property, the case is counted and skipped
		rsCount(&rsStats.problems, why)
		fmt.Printf("note: %s %s/%s: %s\n", c.label(), it.ID, path, why)
		o.class, o.result, o.errText = "n/a", "n/a", "restart problem"
		o.viols = nil
	}
	var rh *rsHandle
	if d.RS != nil {
		rh, err = c.prepareRestarted(c.mode, d.RS)
		n = rh.n
	} else {
		n, err = c.prepare()
	}
	tPrepare.Add(int(time.Since(t0).Microseconds()))
	if err != nil {
		if rh != nil {
			rh.close()
		}
		var rp *rsProblem
		var rr *rsRefused
		switch {
		case errors.As(err, &rp):
			rsSkip(rp.msg)
		case errors.As(err, &rr):
			bad("valid-block-rejected-after-restart", rr.msg, nil, "the block is part of the state's history: the reference replica and every replica that was not restarted have accepted it")
			o.class, o.result = "restart", "history-block-refused"
		default:
			o.harness = "prepare: " + err.Error()
		}
		return
	}
	defer func() {
		t1 := time.Now()
		if rh != nil {
			rh.close()
		} else {
			n.Close()
		}
		tClose.Add(int(time.Since(t1).Microseconds()))
		tCase.Add(int(time.Since(t0).Microseconds()))
	}()
	t2 := time.Now()
	pre, err := takeSnap(n, c.maxID)
	tSnap.Add(int(time.Since(t2).Microseconds()))
	if err != nil {
		o.harness = "snapshot: " + err.Error()
		return
	}
	if df := ctl.pre.diff(pre, true); len(df) != 0 {
		if d.RS == nil {
			o.harness = "replica differs from the control before the delivery: " + strings.Join(df, "; ")
			return
		}
		// The restart changed what the getters report. That alone is not judged here (C02); the case goes
		// on with the started node's own state as the baseline of "nothing changes" (flushed now), while
		// the predicate keeps judging the candidate by the chain and "the valid block gives the control's
		// state" keeps the control that never restarted.
		why := "observable state after the restart differs from the replica that never restarted: " + strings.Join(df, "; ")
		rsCount(&rsStats.problems, why)
		fmt.Printf("note: %s %s/%s: %s\n", c.label(), it.ID, path, why)
		if err := n.Persist(); err != nil {
			rsSkip("flush after the restart failed: " + err.Error())
			return
		}
		own := *ctl
		own.pre, own.dump = pre, rawDump(n.Store)
		ctl = &own
	}
	deliver := func(b *block.Block) (err error) {
		o.execs++
		if perr := chainx.Try(func() {
			if path == "header" {
				err = n.BC.AddHeaders(&b.Header)
			} else {
				err = n.BC.AddBlock(b)
			}
		}); perr != nil {
			bad("panic", perr.Error(), nil, "")
			return perr
		}
		return err
	}
	addValid := func(tag string) bool {
		o.execs++
		if err := n.AddBytes(c.bBytes); err != nil {
			bad("valid-block-rejected-"+tag, err.Error(), nil, "")
			return false
		}
		s, err := takeSnap(n, c.maxID)
		if err != nil {
			bad("valid-block-unreadable-"+tag, err.Error(), nil, "")
			return false
		}
		if df := ctl.afterB.diff(s, true); len(df) != 0 {
			bad("valid-block-gives-other-state-"+tag, "", df, "compared with a replica that only ever saw the valid block")
			return false
		}
		if err := n.Persist(); err != nil {
			bad("flush-failed-"+tag, err.Error(), nil, "")
			return false
		}
		if df, _ := dumpDiff(ctl.dumpB, rawDump(n.Store), nil); len(df) != 0 {
			bad("database-after-valid-block-differs-"+tag, "", df, "compared with a replica that only ever saw the valid block")
			return false
		}
		return true
	}
	if d.Seq == "ahead" || d.Seq == "mirror" {
		c.runAhead(n, rh, d, blk, v, pre, ctl, &o, bad)
		return
	}
	if d.Seq == "twice" {
		if err := n.Persist(); err != nil {
			o.harness = err.Error()
			return
		}
		first, _ := chainx.DecodeBlock(c.bBytes, c.fam.SRIH)
		if err := deliver(first); err != nil {
			bad("valid-"+path+"-rejected", err.Error(), nil, "first delivery")
			return
		}
		mid, _ := takeSnap(n, c.maxID)
		_ = n.Persist()
		midDump := rawDump(n.Store)
		err := deliver(blk)
		o.errText = errClass(err)
		if err == nil && path == "block" {
			bad("same-block-accepted-twice", "", nil, "")
			return
		}
		o.result = "rejected"
		if err == nil {
			o.result = "ignored"
		}
		end, _ := takeSnap(n, c.maxID)
		if df := mid.diff(end, true); len(df) != 0 {
			bad("second-delivery-changed-state", o.errText, df, "")
		}
		_ = n.Persist()
		if df, _ := dumpDiff(midDump, rawDump(n.Store), nil); len(df) != 0 {
			bad("second-delivery-changed-database", o.errText, df, "")
		}
		if path == "header" {
			addValid("after-header-twice")
		}
		return
	}
	if path == "header" {
		hv := len(c.cv.headerRules(&blk.Header)) == 0
		if hv {
			o.class = "hdr-valid"
		} else {
			o.class = "hdr-invalid"
		}
		err := deliver(blk)
		o.errText = errClass(err)
		post, serr := takeSnap(n, c.maxID)
		if serr != nil {
			bad("unreadable-after-header", serr.Error(), nil, "")
			return
		}
		o.recHdr = post.HdrHash != pre.HdrHash
		o.result = "rejected"
		if err == nil {
			o.result = "ignored"
			if o.recHdr {
				o.result = "accepted"
			}
		}
		if !hv && o.recHdr {
			bad("invalid-header-recorded", o.errText, pre.diff(post, true), "")
			return
		}
		if hv && o.recHdr && (post.HdrHeight != pre.HdrHeight+1 || post.HdrHash != blk.Hash().StringLE()) {
			bad("header-chain-inconsistent", o.errText, pre.diff(post, true), "")
		}
		if df := pre.diff(post, !hv || c.mode.HdrKnown); len(df) != 0 {
			bad("header-delivery-changed-state", o.errText, df, "")
			return
		}
		if err := n.Persist(); err != nil {
			bad("flush-failed", err.Error(), nil, "")
			return
		}
		allowed := func(k string) bool { return hv && headerKey(k, blk.Hash()) }
		if df, _ := dumpDiff(ctl.dump, rawDump(n.Store), allowed); len(df) != 0 {
			bad("header-delivery-changed-database", o.errText, df, "raw database after a flush, compared with a replica that got nothing")
			return
		}
		if !hv || blk.Hash() == c.b.Hash() {
			addValid("after-header")
		}
		return
	}
	// ---- block path ----
	aerr := deliver(blk)
	o.errText = errClass(aerr)
	post, serr := takeSnap(n, c.maxID)
	if serr != nil {
		bad("unreadable-after-delivery", serr.Error(), nil, "")
		return
	}
	identical := sameBlock(blk, c.bBytes)
	if aerr == nil {
		o.result = "accepted"
		if o.class != "valid" {
			what := "accepted-invalid-block"
			note := ""
			switch {
			case d.TxWitness && c.mode.Pool == "own":
				what = "accepted-invalid-tx-witness:mempool-shortcut"
				note = "the transactions of the valid block were in the node's mempool in their valid form; the delivered block carries the same transaction hashes with a damaged witness."
			case it.Group == "witness" && c.mode.HdrKnown && blk.Hash() == c.b.Hash():
				what = "accepted-invalid-header-witness:known-header-shortcut"
				note = "the valid header of this height was already in the header chain (AddHeaders); the delivered block has the same hash (same signed fields) but a damaged header witness."
			case strings.HasPrefix(it.ID, "sp.conflicting-pair"):
				what = "accepted-mutually-conflicting-txs:later-pays-more"
				note = "two transactions of one sender, one naming the other in a Conflicts attribute, both in the block; the later one pays the higher network fee."
			}
			note += c.probeAccepted(n, blk, post)
			bad(what, "", pre.diff(post, true), note)
			return
		}
		if post.Height != pre.Height+1 || post.Hash != blk.Hash().StringLE() {
			bad("accepted-but-tip-not-advanced", "", pre.diff(post, true), "")
		}
		if identical {
			// same bytes as the valid block: everything must equal the control
			if df := ctl.afterB.diff(post, true); len(df) != 0 {
				bad("valid-block-gives-other-state", "", df, "")
			}
		}
		return
	}
	o.result = "rejected"
	if identical {
		bad("valid-block-rejected", aerr.Error(), nil, "")
		return
	}
	o.recHdr = post.HdrHash != pre.HdrHash
	hdrMay := o.class != "i" && !c.mode.HdrKnown
	if df := pre.diff(post, !hdrMay); len(df) != 0 {
		bad("rejected-block-changed-state", aerr.Error(), df, "")
		return
	}
	if o.recHdr && (post.HdrHeight != pre.HdrHeight+1 || post.HdrHash != blk.Hash().StringLE()) {
		bad("header-chain-inconsistent", aerr.Error(), pre.diff(post, true), "")
	}
	if err := n.Persist(); err != nil {
		bad("flush-failed", err.Error(), nil, "")
		return
	}
	allowed := func(k string) bool { return o.class != "i" && headerKey(k, blk.Hash()) }
	if df, _ := dumpDiff(ctl.dump, rawDump(n.Store), allowed); len(df) != 0 {
		bad("rejected-block-changed-database", aerr.Error(), df, "raw database after a flush, compared with a replica that got nothing")
		return
	}
	if o.class == "i" || o.class == "ii" {
		if addValid("after-rejection") && d.Seq == "gap" {
			o.execs++
			if err := n.AddBytes(d.Raw); err != nil {
				bad("successor-rejected-after-gap-filled", err.Error(), nil, "")
			}
		}
	}
	return
}

// runAhead handles the two sequences in which headers are known in advance.
//
//	ahead:  AddHeaders(b, x) ; AddBlock(b) ; AddBlock(x)      x = corrupted successor of b
//	mirror: AddHeaders(b, b2); AddBlock(x) ; AddBlock(b) ; AddBlock(b2)   x = corrupted b
//
// Demanded: no invalid block is ever accepted; every rejected delivery leaves
// ledger state, mempool and (after a flush) the raw database unchanged except
// for header keys of headers that are validly signed and linked. A header
// whose only defect is its previous state root counts as signed and linked:
// the node cannot know better before the predecessor block is processed. In
// that situation (and only then) the valid b may be refused as well.
func (c *stateCtx) runAhead(n *chainx.Node, rh *rsHandle, d *delivery, x *block.Block, v verdict, pre snap, ctl *control, o *outcome, bad func(what, errText string, diff []string, note string)) {
	try := func(f func() error) (err error) {
		o.execs++
		if perr := chainx.Try(func() { err = f() }); perr != nil {
			bad("panic", perr.Error(), nil, "")
			return perr
		}
		return err
	}
	bb, _ := chainx.DecodeBlock(c.bBytes, c.fam.SRIH)
	second := x
	if d.Seq == "mirror" {
		second, _ = chainx.DecodeBlock(c.b2Bytes, c.fam.SRIH)
	}
	// is the second header signed and linked (state root aside)?
	linked := true
	for _, w := range c.cv2.headerRules(&second.Header) {
		if w != ruleStateRoot {
			linked = false
		}
	}
	herr := try(func() error { return n.BC.AddHeaders(&bb.Header, &second.Header) })
	s1, err := takeSnap(n, c.maxID)
	if err != nil {
		bad("unreadable-after-headers", err.Error(), nil, "")
		return
	}
	if df := pre.diff(s1, false); len(df) != 0 {
		bad("header-delivery-changed-state", errClass(herr), df, "")
		return
	}
	secondRecorded := s1.HdrHash == second.Hash().StringLE()
	if secondRecorded && !linked {
		bad("invalid-header-recorded", errClass(herr), pre.diff(s1, true), "second header of an AddHeaders batch")
		return
	}
	if d.Seq == "mirror" && !secondRecorded {
		o.harness = "mirror: the headers of b and b2 were not recorded: " + errClass(herr)
		return
	}
	if err := n.Persist(); err != nil {
		bad("flush-failed", err.Error(), nil, "")
		return
	}
	hdrKeys := func(k string) bool {
		return headerKey(k, bb.Hash()) || (linked && headerKey(k, second.Hash()))
	}
	if d.RS != nil && d.RS.Mid {
		// round 4: the node is restarted between the header batch and the blocks
		err := rh.restartMid()
		n = rh.n
		var rp *rsProblem
		if errors.As(err, &rp) {
			rsCount(&rsStats.problems, rp.msg)
			fmt.Printf("note: %s: %s\n", c.label(), rp.msg)
			o.class, o.result, o.errText, o.viols = "n/a", "n/a", "restart problem", nil
			return
		} else if err != nil {
			o.harness = "restart: " + err.Error()
			return
		}
		sr, err := takeSnap(n, c.maxID)
		if err != nil {
			bad("unreadable-after-restart", err.Error(), nil, "")
			return
		}
		if df := s1.diff(sr, true); len(df) != 0 {
			// not judged here (C02); the case goes on from what the started node reports
			why := "observable state after the restart between header batch and blocks differs from the one before it: " + strings.Join(df, "; ")
			rsCount(&rsStats.problems, why)
			fmt.Printf("note: %s: %s\n", c.label(), why)
			s1 = sr
			secondRecorded = s1.HdrHash == second.Hash().StringLE()
		}
	}
	if d.Seq == "mirror" {
		xerr := try(func() error { return n.BC.AddBlock(x) })
		o.errText = errClass(xerr)
		s2, _ := takeSnap(n, c.maxID)
		if xerr == nil {
			o.result = "accepted"
			if !v.Valid() {
				bad("accepted-invalid-block", "", s1.diff(s2, true), "headers of the valid block and of its valid successor were known in advance."+c.probeAccepted(n, x, s2))
			}
			return
		}
		o.result = "rejected"
		if df := s1.diff(s2, true); len(df) != 0 {
			bad("rejected-block-changed-state", xerr.Error(), df, "headers of b and b2 known in advance")
			return
		}
		_ = n.Persist()
		if df, _ := dumpDiff(ctl.dump, rawDump(n.Store), hdrKeys); len(df) != 0 {
			bad("rejected-block-changed-database", xerr.Error(), df, "headers of b and b2 known in advance")
			return
		}
		if err := try(func() error { return n.AddBytes(c.bBytes) }); err != nil {
			bad("valid-block-rejected-after-rejection", err.Error(), nil, "headers of b and b2 known in advance")
			return
		}
		if err := try(func() error { return n.AddBytes(c.b2Bytes) }); err != nil {
			bad("valid-successor-rejected", err.Error(), nil, "headers of b and b2 known in advance")
			return
		}
		s3, _ := takeSnap(n, c.maxID)
		if s3.Root != c.b2Root {
			bad("valid-blocks-give-other-state", "", []string{"StateRoot: " + s3.Root + " != " + c.b2Root}, "")
		}
		return
	}
	// ---- ahead ----
	berr := try(func() error { return n.BC.AddBlock(bb) })
	s2, err := takeSnap(n, c.maxID)
	if err != nil {
		bad("unreadable-after-valid-block", err.Error(), nil, "")
		return
	}
	base := ctl.dumpB
	if berr == nil {
		if df := ctl.afterB.diff(s2, false); len(df) != 0 {
			bad("valid-block-gives-other-state", "", df, "successor header known in advance")
			return
		}
	} else {
		base = ctl.dump
		if !(secondRecorded && !v.HeaderOK) {
			bad("valid-block-rejected", berr.Error(), nil, "successor header known in advance")
			return
		}
		o.errText = "b refused: " + errClass(berr) + " / "
		if df := s1.diff(s2, false); len(df) != 0 {
			bad("rejected-block-changed-state", berr.Error(), df, "the valid block, refused because of the recorded successor header")
			return
		}
	}
	xerr := try(func() error { return n.BC.AddBlock(x) })
	o.errText += errClass(xerr)
	s3, err := takeSnap(n, c.maxID)
	if err != nil {
		bad("unreadable-after-delivery", err.Error(), nil, "")
		return
	}
	if xerr == nil {
		o.result = "accepted"
		if !v.Valid() {
			bad("accepted-invalid-block", "", s2.diff(s3, true), "its header and the header of its predecessor were delivered through AddHeaders before the predecessor block."+c.probeAccepted(n, x, s3))
		} else if s3.Height != s2.Height+1 || s3.Hash != x.Hash().StringLE() {
			bad("accepted-but-tip-not-advanced", "", s2.diff(s3, true), "")
		}
		return
	}
	o.result = "rejected"
	if v.Valid() && berr == nil && sameBlock(x, c.b2Bytes) {
		bad("valid-successor-rejected", xerr.Error(), nil, "")
		return
	}
	if df := s2.diff(s3, false); len(df) != 0 {
		bad("rejected-block-changed-state", xerr.Error(), df, "successor delivered after its header")
		return
	}
	if err := n.Persist(); err != nil {
		bad("flush-failed", err.Error(), nil, "")
		return
	}
	if df, _ := dumpDiff(base, rawDump(n.Store), hdrKeys); len(df) != 0 {
		if berr != nil {
			bad("refused-block-changed-database:dropped-after-execution", berr.Error(), df, "the valid block was executed and then refused by storeBlock because the recorded successor header carries another previous state root; raw database after a flush compared with a replica that got nothing (keys 0x73/0x72 = NEP-17/11 transfer logs)")
			return
		}
		bad("rejected-block-changed-database", xerr.Error(), df, "raw database after a flush; headers delivered in advance")
	}
}

// probeAccepted describes what the ledger holds after it accepted an invalid
// candidate (for the finding report; not an oracle).
func (c *stateCtx) probeAccepted(n *chainx.Node, blk *block.Block, post snap) string {
	var sb strings.Builder
	if post.Root == c.bRoot {
		sb.WriteString(" State root after acceptance equals the one after the valid block.")
	} else {
		sb.WriteString(" State root after acceptance differs from the one after the valid block.")
	}
	if h, err := n.BC.GetHeader(blk.Hash()); err != nil {
		fmt.Fprintf(&sb, " GetHeader(accepted block) fails: %v.", err)
	} else if !bytes.Equal(h.Script.InvocationScript, c.b.Script.InvocationScript) || !bytes.Equal(h.Script.VerificationScript, c.b.Script.VerificationScript) {
		if blk.Hash() == c.b.Hash() {
			sb.WriteString(" The stored header carries the damaged witness, not the valid one.")
		}
	}
	if _, err := n.BC.GetBlock(blk.Hash()); err != nil {
		fmt.Fprintf(&sb, " GetBlock(accepted block) fails: %v.", err)
	}
	for i, t := range blk.Transactions {
		st, _, err := n.BC.GetTransaction(t.Hash())
		if err != nil {
			fmt.Fprintf(&sb, " GetTransaction(tx %d of the accepted block) fails: %v.", i, err)
			continue
		}
		if i < len(c.b.Transactions) && t.Hash() == c.b.Transactions[i].Hash() && !bytes.Equal(st.Scripts[0].InvocationScript, c.b.Transactions[i].Scripts[0].InvocationScript) {
			fmt.Fprintf(&sb, " The stored tx %d carries the damaged witness.", i)
		}
	}
	return sb.String()
}

// ---- state space -------------------------------------------------------------------------

var tplNames = []string{"empty", "vote1", "gas-transfer", "u-storage2", "policy-fee+tx", "block-account3", anchorName, "fault-between"}

// extTplNames are used by the extra states only (kept out of the thorough tree).
var extTplNames = []string{oracleSetupName}

type stateSpec struct {
	fam   string
	pad   int
	hist  []string
	mode  string
	ext   bool // scenario with the extended template list (extra states)
	build *stateCtx
}

func quickStates() []stateSpec {
	return []stateSpec{
		{fam: "single", hist: nil, mode: "plain"},
		{fam: "single", hist: nil, mode: "pooled-own+flushed"},
		{fam: "single", hist: nil, mode: "bystander+hdr-known"},
		{fam: "single", hist: []string{"gas-transfer"}, mode: "pooled-own+hdr-known+flushed"},
		{fam: "single", hist: []string{anchorName, "empty"}, mode: "plain"},
		// round 4: was bystander+hdr-known, where every re-signed candidate ends at the hash comparison with the
		// known header and the blocked-sender rule was never reached in this tier
		{fam: "single", hist: []string{"block-account3"}, mode: "pooled-own+flushed"},
		{fam: "single-srih", hist: nil, mode: "pooled-own+flushed"},
		{fam: "single-srih", hist: []string{"u-storage2", "policy-fee+tx"}, mode: "plain"},
		{fam: "single-srih", hist: []string{"vote1"}, mode: "pooled-own+hdr-known+flushed"},
		{fam: "single-srih", hist: []string{anchorName}, mode: "bystander+hdr-known"},
		{fam: "multi", pad: 0, hist: nil, mode: "plain"},
		{fam: "multi", pad: 1, hist: nil, mode: "pooled-own+flushed"},
		{fam: "multi", pad: 2, hist: nil, mode: "bystander+hdr-known"},
		{fam: "multi", pad: 0, hist: []string{"vote1", "empty"}, mode: "plain"},
		{fam: "multi", pad: 1, hist: []string{"vote1", "empty"}, mode: "pooled-own+flushed"},
		{fam: "multi", pad: 0, hist: []string{anchorName, "gas-transfer"}, mode: "pooled-own+hdr-known+flushed"},
		{fam: "multi-srih", pad: 0, hist: []string{"vote1", "empty"}, mode: "pooled-own+flushed"},
		{fam: "multi-srih", pad: 1, hist: []string{"vote1", "empty"}, mode: "plain"},
		{fam: "multi-srih", pad: 2, hist: []string{"policy-fee+tx"}, mode: "bystander+hdr-known"},
		{fam: "multi-srih", pad: 1, hist: nil, mode: "plain"},
	}
}

func famByName(n string) chainx.Family {
	for _, f := range families() {
		if f.Name == n {
			return f
		}
	}
	panic("no family " + n)
}

type scKey struct {
	fam string
	pad int
	ext bool
}

func idxOf(names []string, tpls []chainx.Tpl) []int {
	var h []int
	for _, n := range names {
		found := -1
		for i, t := range tpls {
			if t.Name == n {
				found = i
			}
		}
		if found < 0 {
			panic("template not in the scenario: " + n)
		}
		h = append(h, found)
	}
	return h
}

func fatal(a ...any) {
	fmt.Println(append([]any{"CHECK-ERROR:"}, a...)...)
	os.Exit(3)
}

func TestCheck(t *testing.T) {
	vk.UseT(t)
	r := vk.Start("C06", "model_checking", 210*time.Second, 24*time.Minute)
	defer vk.CleanScratch()
	rsThorough = r.Thorough()
	debug.SetGCPercent(800) // thousands of short-lived replicas: trade memory for collector time
	if r.Replay != "" {
		replay(r)
		return
	}
	tpls := tplByName(tplNames...)
	tplsAll := tplByName(append(append([]string{}, tplNames...), extTplNames...)...)
	tplsOf := func(k scKey) []chainx.Tpl {
		if k.ext {
			return tplsAll
		}
		return tpls
	}
	scs := map[scKey]*chainx.Scenario{}
	var scMu sync.Mutex
	getSc := func(k scKey) *chainx.Scenario {
		scMu.Lock()
		defer scMu.Unlock()
		return scs[k]
	}
	// ---- stage 1: scenarios and states ----
	var specs []stateSpec
	var keys []scKey
	extra := extraStates()
	for i := range extra {
		extra[i].ext = true
	}
	explicit := extra // states whose history prefixes are grown one by one
	if !r.Thorough() {
		explicit = append(quickStates(), extra...)
	}
	seen := map[scKey]bool{}
	for _, s := range explicit {
		k := scKey{s.fam, s.pad, s.ext}
		if !seen[k] {
			seen[k] = true
			keys = append(keys, k)
		}
	}
	nExplicitKeys := len(keys)
	if !r.Thorough() {
		specs = explicit
	} else {
		for _, f := range chainx.Families() {
			pads := []int{0}
			if f.Multi {
				pads = []int{0, 1, 2}
			}
			for _, p := range pads {
				keys = append(keys, scKey{f.Name, p, false})
			}
		}
	}
	errs := make([]error, len(keys))
	built := make([]*chainx.Scenario, len(keys))
	r.Parallel(len(keys), func(i int) {
		built[i], errs[i] = chainx.NewScenario(famByName(keys[i].fam), keys[i].pad, tplsOf(keys[i]))
	})
	for i, k := range keys {
		if errs[i] != nil || built[i] == nil {
			fatal("cannot build the preamble of", k, errs[i])
		}
		scs[k] = built[i]
	}
	{
		// grow exactly the prefixes the hand-picked states need
		r.Parallel(nExplicitKeys, func(i int) {
			sc := built[i]
			for _, s := range explicit {
				if (scKey{s.fam, s.pad, s.ext}) != keys[i] {
					continue
				}
				h := idxOf(s.hist, tplsOf(keys[i]))
				for d := 1; d <= len(h); d++ {
					if sc.Get(h[:d]) == nil {
						if err := sc.Grow(h[:d]); err != nil {
							fatal("cannot grow", keys[i], s.hist[:d], err)
						}
					}
				}
			}
		})
	}
	if r.Thorough() {
		for _, k := range keys[nExplicitKeys:] {
			sc := getSc(k)
			sc.BuildTree(2, func(n int, f func(int)) { r.Parallel(n, f) })
			var hs [][]int
			hs = append(hs, []int{})
			for a := range tpls {
				if sc.Get([]int{a}) == nil {
					continue
				}
				hs = append(hs, []int{a})
			}
			for a := range tpls {
				for b := range tpls {
					if sc.Get([]int{a, b}) != nil {
						hs = append(hs, []int{a, b})
					}
				}
			}
			for i, h := range hs {
				// the four node-local modes rotate over the nodes of the tree (each
				// template block is the tip under every mode somewhere in the tree)
				specs = append(specs, stateSpec{fam: k.fam, pad: k.pad, hist: sc.Names(h), mode: modes[(i+len(h))%len(modes)].Name})
			}
		}
		specs = append(specs, extra...)
	}
	r.Parallel(len(specs), func(i int) {
		s := &specs[i]
		md, _ := modeByName(s.mode)
		k := scKey{s.fam, s.pad, s.ext}
		c, err := buildState(getSc(k), idxOf(s.hist, tplsOf(k)), md)
		if err != nil {
			fmt.Printf("note: state %s pad%d %v %s cannot be prepared: %v\n", s.fam, s.pad, s.hist, s.mode, err)
			r.Outcome("state-not-prepared")
			return
		}
		if _, err := c.control(); err != nil {
			fatal("control replica of", c.label(), err)
		}
		s.build = c
	})
	var states []*stateCtx
	feats := map[string]int{}
	for _, s := range specs {
		if s.build != nil {
			states = append(states, s.build)
			for _, f := range s.build.feat {
				feats[f]++
			}
			feats["family:"+s.fam]++
			feats["mode:"+s.mode]++
		}
	}
	if len(states) == 0 {
		if r.IsCapped() {
			r.Finish(map[string]any{"states": 0, "transitions": 0, "traces_validated_against_impl": 0}, nil)
		}
		fatal("no state could be prepared")
	}
	// ---- stage 2: states x corruptions ----
	its := menu()
	if f := os.Getenv("C06_ITEMS"); f != "" { // development aid: only the items whose ID starts with one of the prefixes
		var sel []item
		for _, it := range its {
			for _, p := range strings.Split(f, ",") {
				if strings.HasPrefix(it.ID, p) {
					sel = append(sel, it)
					break
				}
			}
		}
		its = sel
	}
	type job struct {
		c    *stateCtx
		it   item
		path string
	}
	var jobs []job
	// the restarted menu (round 4) comes after everything else: when the deadline of a tier stops the run, the
	// families of the earlier rounds are not the ones that lose states
	// (thorough tier only; in the quick tier, which is far from its deadline on an idle machine, the cases of a
	// state stay together)
	for _, late := range []bool{false, true} {
		for _, c := range states {
			sel := func(it item) bool { return !r.Thorough() && !late || r.Thorough() && (it.Group == rsGroup) == late }
			for _, it := range its {
				if sel(it) {
					jobs = append(jobs, job{c, it, "block"})
				}
			}
			for _, it := range its {
				if it.Hdr && sel(it) {
					jobs = append(jobs, job{c, it, "header"})
				}
			}
		}
	}
	type found struct {
		idx int
		v   viol
	}
	var mu sync.Mutex
	finds := map[string]found{}
	var harness []string
	classCnt := map[string]int{}
	groupCnt := map[string]int{}
	rejectedBy := map[string]int{}  // item -> rejections (block path)
	deliveredBy := map[string]int{} // item -> deliveries (block path)
	acceptedTwins := map[string]int{}
	rejectedTwins := map[string]int{}
	hdrRecorded := map[string]int{}
	mismatch := map[string]string{}
	grpOutcomes := map[string]map[string]int{} // group -> outcome class -> cases (families of the extension round)
	naWhy := map[string]int{} // extension families: why a case was not applicable at a state
	rsByVariant := map[string]int{} // round 4: restarted cases by rs<After>.<backend>/<path>/<base group> and by family
	rsAccInvalidPSR := 0
	rsBaseRun := map[string]int{} // base item -> restarted cases
	var execs, cases, decodeFails vk.Counter
	r.Parallel(len(jobs), func(i int) {
		mu.Lock()
		stop := len(finds) > 60 || len(harness) > 20
		mu.Unlock()
		if stop {
			return
		}
		j := jobs[i]
		o := j.c.runCase(j.it, j.path)
		execs.Add(o.execs)
		if o.result == "n/a" {
			if extGroups[j.it.Group] && o.errText != "" {
				mu.Lock()
				naWhy[j.it.Group+": "+o.errText]++
				mu.Unlock()
			}
			return
		}
		cases.Inc()
		r.Outcome(fmt.Sprintf("%s/%s/%s: %s", j.path, j.it.Group, o.result, o.errText))
		mu.Lock()
		defer mu.Unlock()
		if o.harness != "" {
			harness = append(harness, j.c.label()+" "+j.it.ID+"/"+j.path+": "+o.harness)
			return
		}
		classCnt[j.path+":"+o.class]++
		groupCnt[j.path+":"+j.it.Group]++
		if extGroups[j.it.Group] || strings.HasPrefix(j.c.fam.Name, "single-hf") || j.c.cv.OracleAddr != (util.Uint160{}) {
			g := j.it.Group
			if !extGroups[g] {
				g = "state:" + j.c.fam.Name + "/" + strings.Join(j.c.names, ",")
			}
			if grpOutcomes[g] == nil {
				grpOutcomes[g] = map[string]int{}
			}
			grpOutcomes[g][o.class+" "+o.result+": "+o.errText]++
		}
		if o.result == "decode-failed" {
			decodeFails.Inc()
		}
		if j.it.Group == rsGroup {
			if p := strings.SplitN(j.it.ID, ".", 4); len(p) == 4 {
				rsByVariant[p[0]+"."+p[1]+"/"+j.path+"/"+p[2]]++
				rsByVariant["family:"+j.c.fam.Name+"/"+p[0]]++
				rsBaseRun[p[2]+"."+p[3]]++
				if strings.Contains(j.it.ID, "PrevStateRoot") && o.result == "rejected" {
					rsAccInvalidPSR++
				}
			}
		}
		if j.path == "block" {
			deliveredBy[j.it.ID]++
			if o.result == "rejected" || o.result == "decode-failed" {
				rejectedBy[j.it.ID]++
			}
			if strings.HasSuffix(o.class, "valid") && o.result == "accepted" {
				acceptedTwins[j.it.ID]++
			}
			if strings.HasSuffix(o.class, "valid") && o.result == "rejected" {
				rejectedTwins[j.it.ID+" ("+o.errText+")"]++
			}
			if o.recHdr {
				hdrRecorded["block:"+o.class]++
			}
			if j.it.Want != "" && j.it.Want != o.class && len(o.viols) == 0 {
				mismatch[j.it.ID] = fmt.Sprintf("menu intends %s, predicate says %s at %s", j.it.Want, o.class, j.c.label())
			}
		} else if o.recHdr {
			hdrRecorded["header:"+o.class]++
		}
		for _, v := range o.viols {
			key := fmt.Sprintf("%s:%s:%s:%s", v.what, j.c.fam.Name, j.it.ID, j.path)
			if strings.Contains(v.what, ":") {
				// recognised acceptance paths: one finding per family
				key = v.what + ":" + j.c.fam.Name
			}
			if f, ok := finds[key]; !ok || i < f.idx {
				finds[key] = found{i, v}
			}
		}
		if len(o.viols) == 0 {
			r.Sample(map[string]any{"state": j.c.label(), "corruption": j.it.ID, "path": j.path, "class": o.class, "result": o.result, "node_error": o.errText, "header_recorded": o.recHdr})
		}
	})
	if os.Getenv("C06_TIMING") != "" {
		fmt.Printf("timing (us, summed over %d cases): case=%d prepare=%d close=%d one-snapshot=%d new=%d\n", cases.Get(), tCase.Get(), tPrepare.Get(), tClose.Get(), tSnap.Get(), tNew.Get())
	}
	if len(harness) > 0 {
		sort.Strings(harness)
		for _, h := range harness {
			fmt.Println("CHECK-ERROR:", h)
		}
		os.Exit(3)
	}
	if len(mismatch) > 0 {
		for k, v := range mismatch {
			fmt.Println("CHECK-ERROR: menu and predicate disagree:", k, v)
		}
		os.Exit(3)
	}
	var order []string
	for k := range finds {
		order = append(order, k)
	}
	sort.Slice(order, func(a, b int) bool { return finds[order[a]].idx < finds[order[b]].idx })
	for _, k := range order {
		r.Violation(k, finds[k].v.rec)
	}
	var allNA []string
	for _, it := range its {
		if deliveredBy[it.ID] == 0 && it.Group != rsGroup {
			allNA = append(allNA, it.ID)
		}
	}
	var neverRejectedNonTwin []string
	for _, it := range its {
		if deliveredBy[it.ID] > 0 && rejectedBy[it.ID] == 0 && acceptedTwins[it.ID] != deliveredBy[it.ID] && !extGroups[it.Group] {
			neverRejectedNonTwin = append(neverRejectedNonTwin, it.ID)
		}
	}
	hdrItems := 0
	for _, it := range its {
		if it.Hdr {
			hdrItems++
		}
	}
	famAdded := map[string]any{}
	for g, m := range grpOutcomes {
		n := 0
		for _, v := range m {
			n += v
		}
		e := map[string]any{"cases": n, "distinct_outcomes": len(m)}
		if extGroups[g] {
			e["outcomes"] = m
		}
		famAdded[g] = e
	}
	cov3 := prCoverage(its, deliveredBy, naWhy)
	r3 := map[string]int{}
	for _, g := range []string{"pool-replay", "pool-solvency", "pool-evict"} {
		n := 0
		for _, v := range grpOutcomes[g] {
			n += v
		}
		r3[g+"/cases"], r3[g+"/outcomes"] = n, len(grpOutcomes[g])
	}
	rs4 := rsCoverage(grpOutcomes[rsGroup], rsByVariant)
	{
		var never []string
		seenBase := map[string]bool{}
		for _, it := range its {
			if it.Group != rsGroup {
				continue
			}
			if p := strings.SplitN(it.ID, ".", 3); len(p) == 3 && !seenBase[p[2]] {
				seenBase[p[2]] = true
				if rsBaseRun[p[2]] == 0 {
					never = append(never, p[2])
				}
			}
		}
		rs4["base_items"] = len(seenBase)
		nr, np := 0, 0
		for _, v := range rs4["restarts"].(map[string]int) {
			nr += v
		}
		for _, v := range rs4["restart_problems(must be empty)"].(map[string]int) {
			np += v
		}
		rs4["restarts_total"], rs4["restart_problems_total"] = nr, np
		rs4["base_items_never_applicable_at_a_restarted_state"] = never
	}
	r.Finish(map[string]any{
		"round4_restart_menu_cases":                rs4["cases"],
		"round4_restart_menu_distinct_outcomes":    rs4["distinct_outcomes"],
		"round4_restart_menu_prev_state_root_corruptions_rejected": rsAccInvalidPSR,
		"round4_restart_menu":                      rs4,
		"round4_restart_menu_base_items":           rs4["base_items"],
		"round4_restarts_performed":                rs4["restarts_total"],
		"round4_restart_problems_must_be_0":        rs4["restart_problems_total"],
		"round4_restart_variants":                  "first / second block after the start x {MemoryStore, BoltDB, LevelDB}; restart between header batch and blocks; restart with a header chain across a hash-list page",
		"round3_pool_replay_cases":                 r3["pool-replay/cases"],
		"round3_pool_replay_distinct_outcomes":     r3["pool-replay/outcomes"],
		"round3_pool_solvency_cases":               r3["pool-solvency/cases"],
		"round3_pool_solvency_distinct_outcomes":   r3["pool-solvency/outcomes"],
		"round3_pool_evict_cases":                  r3["pool-evict/cases"],
		"round3_pool_evict_distinct_outcomes":      r3["pool-evict/outcomes"],
		"round3_pool_history_specs":                cov3["specs"],
		"round3_pool_view_comparisons":             cov3["pool_view_comparisons"],
		"round3_histories_with_disagreeing_views":  cov3["histories_with_disagreeing_pool_views"],
		"families_added_in_extension":   famAdded,
		"witness_histories":             pwCoverage(its, deliveredBy, rejectedBy, naWhy),
		"pool_histories_round3":         cov3,
		"states":                        len(states),
		"transitions":                   int(execs.Get()),
		"traces_validated_against_impl": int(cases.Get()),
		"menu_items_block_path":         len(its),
		"menu_items_header_path":        hdrItems,
		"cases_by_predicted_class":      classCnt,
		"cases_by_group":                groupCnt,
		"decode_failures":               int(decodeFails.Get()),
		"accepted_valid_twins":          acceptedTwins,
		"rejected_valid_twins":          rejectedTwins,
		"header_recorded_by_rejection":  hdrRecorded,
		"items_never_rejected_and_not_recognised_as_valid": neverRejectedNonTwin,
		"items_not_applicable_in_any_state":                allNA,
		"state_features":                                   feats,
		"block_alphabet":                                   tplNames,
		"modes":                                            modes,
		"rule": "state = (family, preamble pad, history of <=2 template blocks, node-local mode); every menu item is applied to the valid next block of every state (block path), header/witness items also through AddHeaders; one fresh replica per case",
	}, []string{
		"classes: (i) header invalid -> nothing may change and the valid block is accepted afterwards with the control's state and database; (ii) header identical to the valid block's, body damaged -> only the header keys of that hash may change, valid block accepted afterwards; (iii) another validly signed+linked header over a bad body -> only header keys may change; predicted-valid candidates (twins) may be accepted or rejected (rejection is then held to the class (iii) rule)",
		"header-field corruptions are delivered both with the original witness and re-signed by the validators of the height (needed to reach the index/link/timestamp/state-root rules behind the witness rule); a re-signed header that breaks one of those rules is class (i)",
		"the predicate takes no position on Version, Nonce, PrimaryIndex and NextConsensus of the candidate (the property names no rule for them): re-signed changes of them are twins",
		"NotValidBefore is only used at tip+2 (invalid) and tip (valid); the boundary tip+1 is not asserted",
		"header keys = DataExecutable||hash, SYSCurrentHeader, IXHeaderHashList pages (dao.StoreHeader / PutCurrentHeader / StoreHeaderHashes)",
		"the raw database is compared after a forced flush with a control replica of the same state and mode that received nothing; after the valid block with a control that only ever saw the valid block",
		"header batches: a recorded header is held to: signed by the consensus address its recorded predecessor designates, index/previous hash/later timestamp relative to it, and (only when the predecessor block is the local tip) the local previous state root; nothing is demanded about HOW MANY valid headers of a batch get recorded",
		"deep-ahead and restart families: 'headers-refused' (the node did not record the valid header batch) ends a case without a demand; it must not occur on a correct tree (see families_added_in_extension)",
		"snapshots now include the native getters (policy values, committee, validators): a rejected or refused block must leave them unchanged",
		"MaxBlockSize / MaxBlockSystemFee / MaxTransactionsPerBlock of the node configuration are not rules of block acceptance in the property text (nor in AddBlock): no case asserts them",
		"witness histories (pool-witness, pool-kinds): a prelude block (valid, checked by the predicate) deploys the verification contract V and funds the cast; the predicate knows the meaning of every non-standard script of the cast (signature AND one comparison over height / V's storage / a Policy getter / a GAS balance) and evaluates it on the view of the state the block is delivered at; transactions of a block are judged against the state BEFORE the block (X = [revalidating tx, T] is invalid, X = [invalidating tx, T] is valid); verification cost of a non-standard witness is measured once per script on the reference replica and scaled linearly with the base execution fee",
		"witness histories: a condition that reads a native contract is not used at states where a verification context is created one block before a hardfork (heights N-1..N+1): there the node resolves native methods by the next hardfork's table over the stored (old) offsets and a getter answers for another method - all replicas agree, so it is outside this property; counted in witness_histories.not_applicable",
		"witness histories: re-relaying T (PoolTx) is an alarm only if PoolTx newly accepts what isolated verification (VerifyTx) on the reference replica with the same chain rejects",
		"pool histories of round 3 (pool-replay, pool-solvency, pool-evict): programs of pool / relay / block steps built on a reference replica that never pools anything; EVERY block of a history is judged by the predicate on the view of the state it is delivered at and must get the reference replica's verdict and state root on the node under test; a history ends with its first invalid block (the validly signed header of a rejected block stays recorded, nothing can follow at that height - oracle note 'C06, recorded headers' class iii)",
		"pool histories of round 3: which of a payer's transactions survive a balance cut is NOT asserted (pool policy, C08); only block verdicts, state roots and the unchanged state after a rejection are",
		"pool histories of round 3: the three views of the pool (GetVerifiedTransactions, ContainsKey/TryGetValue for every history transaction, Count) are compared after every pool/relay step and every accepted block; a disagreement alone is no violation of this property: it starts a probe (block carrying that transaction alone, then the same once more, against a fresh reference replica with the same chain) that is judged by the accepted-invalid-block / verdict-depends-on-mempool-history oracles",
		"Notary-paid transactions (sender = native Notary, fees from the second signer's deposit): the predicate demands the NotaryAssisted attribute, scope None, exactly two signers, one signature of a node of the latest P2PNotary designation, deposit >= fees of the transaction, attribute fee (NKeys+1) x Policy fee, and deposit >= the sum of the depositor's transactions in a block; the verification cost of the contract witness is measured once on the reference replica and scaled linearly with the base execution fee; deposit expiry (till) plays no role in these histories",
		"pool-evict/capacity histories run on a node whose own MemPoolSize is 2 (node-local setting) and without the pool content of the state's mode",
		"restart-menu (round 4): an ordinary menu case on a replica that was stopped gracefully and started again on the same store (MemoryStore surviving Close, or a BoltDB / LevelDB file closed and opened again) before the delivery; After=0: the candidate is the first block / header batch the started node sees, After=1: the last history block is delivered first; for the hdr-known modes the headers running ahead of the blocks are delivered BEFORE the restart; pool and flush of the mode are applied after it; predicate, classes, control replica (one that never restarted) and oracle are those of the base item. A restart that fails or changes the observable state is not judged here (C02): the case is skipped and counted in round4_restart_menu.restart_problems, which must be empty",
	})
}

func replay(r *vk.Run) {
	var c caseRec
	if err := r.ReadReplay(&c); err != nil {
		fatal("cannot read replay:", err)
	}
	tpls := tplByName(c.History...)
	h := make([]int, len(tpls))
	for i := range h {
		h[i] = i
	}
	md, ok := modeByName(c.Mode)
	it, ok2 := itemByID(c.Item)
	if !ok || !ok2 {
		fatal("replay names an unknown mode or corruption", c.Mode, c.Item)
	}
	n := 0
	for i := 0; i < 5; i++ {
		sc, err := chainx.NewScenario(famByName(c.Family), c.Pad, tpls)
		if err != nil {
			fatal("replay: preamble:", err)
		}
		for d := 1; d <= len(h); d++ {
			if err := sc.Grow(h[:d]); err != nil {
				fatal("replay: grow:", err)
			}
		}
		st, err := buildState(sc, h, md)
		if err != nil {
			fatal("replay: state:", err)
		}
		o := st.runCase(it, c.Path)
		n += o.execs
		if o.harness != "" {
			fatal("replay:", o.harness)
		}
		if len(o.viols) == 0 {
			fmt.Printf("replay %d: no violation (class %s, %s, %s)\n", i, o.class, o.result, o.errText)
		}
		for _, v := range o.viols {
			fmt.Printf("replay %d: REPRODUCED %s: %s %v\n", i, v.what, v.rec.Err, v.rec.Diff)
			r.Violation("replay:"+v.what, v.rec)
		}
	}
	r.Finish(map[string]any{"states": 1, "transitions": n, "traces_validated_against_impl": 5}, nil)
}
