package c06

// Extension round: families that reach what the corruption menu of a single
// candidate could not.
//
//	header-batch  AddHeaders with batches of 1..4 headers over the valid chain
//	              b, b2, b3, b4: one bad header at every position, duplicates,
//	              gaps, reversed order, stale prefixes, an equivocating valid
//	              alternative chain. Oracle: ledger state untouched; every header
//	              the node recorded is signed by the consensus address its recorded
//	              predecessor designates and linked to it; raw database differs in
//	              header keys of exactly those hashes; the valid blocks are accepted
//	              afterwards as far as no other validly signed header took their slot.
//	deep-ahead    headers of k = 2..4 valid blocks known, blocks delivered in order,
//	              a corrupted candidate at every position j < k (optionally after a
//	              restart), and header chains whose p-th header carries a wrong
//	              previous state root (the predecessor block is executed and then
//	              refused). Oracle: nothing at all may change by a rejection (all
//	              headers are known already); no invalid block is accepted; the
//	              valid blocks are accepted afterwards and give the reference root.
//	restart       a rejection followed by flush + restart: the state after the
//	              restart is the one before the delivery, the valid block is accepted.
//
// plus transactions for the txspecial group (see buildSpecialsExt) and states
// (oracle requests pending, hardforks activating at the heights of b..b3).

import (
	"bytes"
	"fmt"
	"strings"

	"github.com/nspcc-dev/neo-go/pkg/config"
	"github.com/nspcc-dev/neo-go/pkg/core/block"
	"github.com/nspcc-dev/neo-go/pkg/core/native/nativehashes"
	"github.com/nspcc-dev/neo-go/pkg/core/native/nativeids"
	"github.com/nspcc-dev/neo-go/pkg/core/native/noderoles"
	"github.com/nspcc-dev/neo-go/pkg/core/state"
	"github.com/nspcc-dev/neo-go/pkg/core/transaction"
	"github.com/nspcc-dev/neo-go/pkg/crypto/hash"
	"github.com/nspcc-dev/neo-go/pkg/crypto/keys"
	"github.com/nspcc-dev/neo-go/pkg/neotest"
	"github.com/nspcc-dev/neo-go/pkg/smartcontract"
	"github.com/nspcc-dev/neo-go/pkg/util"
	"github.com/nspcc-dev/neo-go/pkg/vm/opcode"
	"github.com/nspcc-dev/neo-go/pkg/vm/stackitem"

	"verif/lib/chainx"
)

type badFn func(what, errText string, diff []string, note string)

// ---- families (protocol configurations) ---------------------------------------------------

// families is the standard set plus one in which hardforks activate at the
// heights of the candidate blocks (preamble = heights 1..3, so with an empty
// history b is the Echidna block, b2 the Faun block, b3 the Gorgon block).
func families() []chainx.Family {
	return append(chainx.Families(), chainx.Family{Name: "single-hf", MTB: 6, Extra: func(c *config.Blockchain) {
		c.Hardforks = map[string]uint32{"Aspidochelone": 0, "Basilisk": 0, "Cockatrice": 0, "Domovoi": 0, "Echidna": 4, "Faun": 5, "Gorgon": 6}
	}})
}

// extraStates are appended to the states of both tiers.
func extraStates() []stateSpec {
	return []stateSpec{
		{fam: "single", hist: []string{oracleSetupName}, mode: "plain"},
		{fam: "multi-srih", pad: 0, hist: []string{oracleSetupName}, mode: "pooled-own+flushed"},
		{fam: "single-hf", hist: nil, mode: "plain"},
		{fam: "single-hf", hist: []string{"empty"}, mode: "pooled-own+hdr-known+flushed"},
		{fam: "single-hf", hist: []string{"gas-transfer", "empty"}, mode: "bystander+hdr-known"},
	}
}

// ---- the oracle state ---------------------------------------------------------------------------

// The setup template designates account 3 as the only oracle node and makes
// two oracle requests (0.1 GAS reserved for each response), so that the native
// Oracle contract can pay for two responses in one block.
const oracleSetupName = "c06-oracle-setup"

func oracleSetupTpl() chainx.Tpl {
	return chainx.Tpl{Name: oracleSetupName, Build: func(w *chainx.World) ([]*transaction.Transaction, error) {
		d, err := w.N.CallTx([]neotest.Signer{w.N.Committee}, nativehashes.RoleManagement, "designateAsRole", int64(noderoles.Oracle), []any{chainx.Acc(3).PublicKey().Bytes()})
		if err != nil {
			return nil, err
		}
		out := []*transaction.Transaction{d}
		for i := 0; i < 2; i++ {
			r, err := w.URun(1, w.UA, []any{
				[]any{chainx.OpCall, nativehashes.OracleContract.BytesBE(), "request", 15, []any{fmt.Sprintf("https://x.y/%d", i), nil, "other", nil, int64(gas / 10)}},
			})
			if err != nil {
				return nil, err
			}
			out = append(out, r)
		}
		return out, nil
	}}
}

func oracleNodesScript() []byte {
	ver, err := smartcontract.CreateMajorityMultiSigRedeemScript(keys.PublicKeys{chainx.Acc(3).PublicKey()})
	if err != nil {
		panic(err)
	}
	return ver
}

// oracleTx is a response to request id: sender = native Oracle, second signer =
// the oracle nodes' account, script = Oracle.finish.
func oracleTx(magic uint32, id uint64, nonce, vub uint32, sysFee, netFee int64, result []byte) *transaction.Transaction {
	ver := oracleNodesScript()
	t := transaction.New(chainx.CallScript(nativehashes.OracleContract, "finish"), sysFee)
	t.NetworkFee, t.Nonce, t.ValidUntilBlock = netFee, nonce, vub
	t.Signers = []transaction.Signer{
		{Account: nativehashes.OracleContract, Scopes: transaction.None},
		{Account: hash.Hash160(ver), Scopes: transaction.None},
	}
	t.Attributes = []transaction.Attribute{{Type: transaction.OracleResponseT, Value: &transaction.OracleResponse{ID: id, Code: transaction.Success, Result: result}}}
	t.Scripts = []transaction.Witness{{InvocationScript: []byte{}, VerificationScript: []byte{}}, {InvocationScript: make([]byte, 66), VerificationScript: ver}}
	t = retx(t)
	t.Scripts[1].InvocationScript = sigPush(chainx.Acc(3).PrivateKey().SignHashable(magic, t))
	return retx(t)
}

// fillExt collects what the predicate needs for the attribute rules.
func (c *stateCtx) fillExt(n *chainx.Node, cv *chainView) {
	if com, err := n.BC.GetCommittee(); err == nil && len(com) > 0 {
		if s, err := smartcontract.CreateMajorityMultiSigRedeemScript(com); err == nil {
			cv.CommitteeAddr = hash.Hash160(s)
		}
	}
	if nodes, _, err := n.BC.GetDesignatedByRole(noderoles.Oracle); err == nil && len(nodes) > 0 {
		if s, err := smartcontract.CreateMajorityMultiSigRedeemScript(nodes); err == nil {
			cv.OracleAddr = hash.Hash160(s)
		}
	}
	cv.OraclePending = map[uint64]int64{}
	n.BC.SeekStorage(nativeids.OracleContract, []byte{7}, func(k, v []byte) bool {
		if len(k) != 8 {
			return true
		}
		it, err := stackitem.Deserialize(v)
		if err != nil {
			return true
		}
		var req state.OracleRequest
		if req.FromStackItem(it) != nil {
			return true
		}
		var id uint64
		for _, b := range k {
			id = id<<8 | uint64(b)
		}
		cv.OraclePending[id] = int64(req.GasForResponse)
		return true
	})
}

func (cv *chainView) oracleRules(t *transaction.Transaction, r *transaction.OracleResponse) []string {
	var why []string
	if cv.OracleAddr == (util.Uint160{}) {
		return []string{"oracle response while no oracle nodes are designated"}
	}
	for _, s := range t.Signers {
		if s.Scopes != transaction.None {
			why = append(why, "oracle response with a signer scope")
			break
		}
	}
	if !hasSigner(t, cv.OracleAddr) {
		why = append(why, "oracle response not signed by the oracle nodes")
	}
	if !bytes.Equal(t.Script, chainx.CallScript(nativehashes.OracleContract, "finish")) {
		why = append(why, "oracle response with another script")
	}
	if g, ok := cv.OraclePending[r.ID]; !ok {
		why = append(why, "oracle response to no pending request")
	} else if t.NetworkFee+t.SystemFee < g {
		why = append(why, "oracle response pays less than the request reserved")
	}
	return why
}

// scriptParses walks the instruction stream and reports whether every operand
// lies inside the script (the one well-formedness rule the harness breaks).
func scriptParses(s []byte) bool {
	for i := 0; i < len(s); {
		op := opcode.Opcode(s[i])
		i++
		n := 0
		switch {
		case op <= opcode.PUSHINT256:
			n = 1 << uint(op-opcode.PUSHINT8)
		case op == opcode.PUSHA, op == opcode.SYSCALL, op == opcode.CALLL, op == opcode.ENDTRYL:
			n = 4
		case op == opcode.PUSHDATA1, op == opcode.PUSHDATA2, op == opcode.PUSHDATA4:
			w := map[opcode.Opcode]int{opcode.PUSHDATA1: 1, opcode.PUSHDATA2: 2, opcode.PUSHDATA4: 4}[op]
			if i+w > len(s) {
				return false
			}
			for k := w - 1; k >= 0; k-- {
				n = n<<8 | int(s[i+k])
			}
			i += w
			if n < 0 {
				return false
			}
		case op >= opcode.JMP && op <= opcode.JMPLEL:
			if (op-opcode.JMP)%2 == 0 {
				n = 1
			} else {
				n = 4
			}
		case op == opcode.CALL, op == opcode.ENDTRY, op == opcode.INITSSLOT, op == opcode.LDSFLD, op == opcode.STSFLD, op == opcode.LDLOC, op == opcode.STLOC,
			op == opcode.LDARG, op == opcode.STARG, op == opcode.NEWARRAYT, op == opcode.ISTYPE, op == opcode.CONVERT:
			n = 1
		case op == opcode.CALLT, op == opcode.TRY, op == opcode.INITSLOT:
			n = 2
		case op == opcode.TRYL:
			n = 8
		}
		if i+n > len(s) {
			return false
		}
		i += n
	}
	return true
}

// nativeGetters renders what the node's getters (served from native caches)
// report: part of the ledger state a rejected block must not touch.
func nativeGetters(n *chainx.Node) string {
	bc := n.BC
	var sb strings.Builder
	fmt.Fprintf(&sb, "fpb=%d exec=%d stor=%d mvub=%d mtb=%d", bc.FeePerByte(), bc.GetBaseExecFee(), bc.GetStoragePrice(), bc.GetMaxValidUntilBlockIncrement(), bc.GetMaxTraceableBlocks())
	ks := func(name string, p keys.PublicKeys, err error) {
		fmt.Fprintf(&sb, " %s=", name)
		if err != nil {
			sb.WriteString("err")
			return
		}
		for _, k := range p {
			sb.WriteString(k.StringCompressed()[:8] + ",")
		}
	}
	com, err := bc.GetCommittee()
	ks("committee", com, err)
	nv, err := bc.GetNextBlockValidators()
	ks("validators", nv, err)
	ks("computed", bc.ComputeNextBlockValidators(), nil)
	return sb.String()
}

// ---- more transactions for the txspecial group ---------------------------------------------------

func (c *stateCtx) buildSpecialsExt(n *chainx.Node, tip uint32, base []*transaction.Transaction) error {
	cv := c.cv
	hand := func(name string, a int, nonce uint32, script []byte, attrs ...transaction.Attribute) {
		c.sp[name] = handTx(a, c.magic, script, nonce, tip+7, 1*gas, gas/10, attrs...)
	}
	// malformed script: PUSHDATA1 announcing more bytes than there are
	hand("bad-script", 4, 0xC0660001, []byte{byte(opcode.PUSHDATA1), 10, 1, 2})
	hand("good-script-twin", 4, 0xC0660001, []byte{byte(opcode.PUSHDATA1), 2, 1, 2, byte(opcode.DROP)})
	some := util.Uint256{0xC0, 0x66}
	hand("conflicts-twice-same-hash", 4, 0xC0660002, transferScript(4, 1, 1), conflictsAttr(some), conflictsAttr(some))
	hand("conflicts-two-hashes", 4, 0xC0660003, transferScript(4, 1, 1), conflictsAttr(some), conflictsAttr(util.Uint256{0xC0, 0x67}))
	hand("reserved-attribute", 4, 0xC0660004, transferScript(4, 1, 1), transaction.Attribute{Type: transaction.ReservedLowerBound, Value: &transaction.Reserved{Value: []byte{1}}})
	hand("high-priority-stranger", 4, 0xC0660005, transferScript(4, 1, 1), transaction.Attribute{Type: transaction.HighPriority})
	if n.Committee.ScriptHash() == cv.CommitteeAddr {
		t, err := n.MakeTx(transferScript(1, 2, 1), []neotest.Signer{n.Committee}, chainx.SysFee(1*gas), func(t *transaction.Transaction) {
			t.Nonce, t.ValidUntilBlock = 0xC0660006, tip+7
			t.Attributes = append(t.Attributes, transaction.Attribute{Type: transaction.HighPriority})
		})
		if err == nil {
			c.sp["high-priority-committee"] = retx(t)
		}
	}
	// Conflicts between transactions of different signers, and two transactions naming a third
	if x := c.sp["pair-x"]; x != nil {
		hand("cross-y", 4, 0xC0660007, transferScript(4, 1, 2), conflictsAttr(x.Hash()))
		y2 := handTx(5, c.magic, transferScript(5, 1, 6), 0xC0660008, tip+7, 1*gas, x.NetworkFee+2000000, conflictsAttr(x.Hash()))
		c.sp["pair-y2"] = y2
	}
	// the fee sum of a sender whose other transactions are the ones of the valid block (account 2)
	acc2 := chainx.Acc(2).ScriptHash()
	var spent int64
	for _, t := range base {
		if t.Sender() == acc2 {
			spent += t.SystemFee + t.NetworkFee
		}
	}
	if bal := cv.Balance[acc2]; bal > spent+2*gas {
		for _, v := range []struct {
			name  string
			nonce uint32
			over  int64
		}{{"sum-with-base-over", 0xC0660009, 1}, {"sum-with-base-exact", 0xC066000A, 0}} {
			t := handTx(2, c.magic, transferScript(2, 2, 1), v.nonce, tip+7, bal-spent-gas/10+v.over, gas/10)
			c.sp[v.name] = t
		}
	}
	// three transactions of account 6 whose fees add up to balance(+1)
	if fa := c.sp["fund-a"]; fa != nil {
		bal := cv.Balance[chainx.Acc(6).ScriptHash()]
		nf := fa.NetworkFee
		third := (bal - 3*nf) / 3
		mk := func(name string, nonce uint32, sys int64) {
			t := retx(fa)
			t.Nonce, t.SystemFee = nonce, sys
			c.sp[name] = signTx(t, 6, c.magic)
		}
		mk("fund3-a", 0xC066000B, third)
		mk("fund3-b", 0xC066000C, third)
		mk("fund3-c-exact", 0xC066000D, bal-3*nf-2*third)
		mk("fund3-c-over", 0xC066000E, bal-3*nf-2*third+1)
	}
	// oracle responses
	if len(cv.OraclePending) >= 2 && cv.OracleAddr == hash.Hash160(oracleNodesScript()) {
		half := int64(gas / 20)
		c.sp["oracle-r0"] = oracleTx(c.magic, 0, 0xC0670001, tip+7, half, half, []byte{1})
		c.sp["oracle-r0-again-equal"] = oracleTx(c.magic, 0, 0xC0670002, tip+7, half, half, []byte{2})
		c.sp["oracle-r0-again-more"] = oracleTx(c.magic, 0, 0xC0670003, tip+7, half-1000000, half+1000000, []byte{3})
		c.sp["oracle-r0-again-less"] = oracleTx(c.magic, 0, 0xC0670004, tip+7, half+1000000, half-1000000, []byte{4})
		c.sp["oracle-r1"] = oracleTx(c.magic, 1, 0xC0670005, tip+7, half, half, []byte{5})
		c.sp["oracle-r9"] = oracleTx(c.magic, 9, 0xC0670006, tip+7, half, half, []byte{6})
		c.sp["oracle-r0-underpaid"] = oracleTx(c.magic, 0, 0xC0670007, tip+7, half, half-1, []byte{7})
	}
	return nil
}

// extSpecials are the (id, intended class, transactions appended to the valid
// block's, header re-signed) entries added to the txspecial group.
func extSpecials(sp func(id, want string, names ...string)) {
	sp("malformed-script", "iii", "bad-script")
	sp("well-formed-script-twin", "valid", "good-script-twin")
	sp("conflicts-attribute-twice-with-one-hash", "iii", "conflicts-twice-same-hash")
	sp("conflicts-attributes-with-two-hashes", "valid", "conflicts-two-hashes")
	sp("reserved-attribute", "iii", "reserved-attribute")
	sp("high-priority-without-committee", "iii", "high-priority-stranger")
	sp("high-priority-by-committee", "valid", "high-priority-committee")
	sp("two-signers-conflict:x,y(y-names-x)", "iii", "pair-x", "cross-y")
	sp("two-signers-conflict:y,x(y-names-x)", "iii", "cross-y", "pair-x")
	sp("conflicting-triple:y1,y2,x", "iii", "pair-y-more", "pair-y2", "pair-x")
	sp("conflicting-triple:x,y1,y2", "iii", "pair-x", "pair-y-more", "pair-y2")
	sp("conflicting-triple:y1,x,y2", "iii", "pair-y-more", "pair-x", "pair-y2")
	sp("underfunded-for-sum-with-valid-block's-txs(+1)", "iii", "sum-with-base-over")
	sp("funded-for-sum-with-valid-block's-txs-exactly", "valid", "sum-with-base-exact")
	sp("underfunded-for-sum-of-three(+1)", "iii", "fund3-a", "fund3-b", "fund3-c-over")
	sp("funded-for-sum-of-three-exactly", "valid", "fund3-a", "fund3-b", "fund3-c-exact")
	sp("oracle-response", "valid", "oracle-r0")
	sp("oracle-responses-to-two-requests", "valid", "oracle-r0", "oracle-r1")
	sp("oracle-request-answered-twice(equal-fee)", "iii", "oracle-r0", "oracle-r0-again-equal")
	sp("oracle-request-answered-twice(later-pays-more)", "iii", "oracle-r0", "oracle-r0-again-more")
	sp("oracle-request-answered-twice(later-pays-less)", "iii", "oracle-r0", "oracle-r0-again-less")
	sp("oracle-request-answered-twice-around-another", "iii", "oracle-r0", "oracle-r1", "oracle-r0-again-more")
	sp("oracle-response-to-unknown-request", "iii", "oracle-r9")
	sp("oracle-response-underpaid", "iii", "oracle-r0-underpaid")
}

// ---- the valid chain b, b2, b3, b4 -----------------------------------------------------------------

type link struct {
	Bytes []byte
	B     *block.Block    // decoded, never mutated
	Vals  keys.PublicKeys // validators that sign this height
	View  *chainView      // what the predicate knows about the state before this block
	Root  string          // reference state root after it
}

// extendChain builds b3 (a transfer and, where the committee can be signed
// for, a Policy change) and b4 (empty) on the scratch replica that holds b2.
func (c *stateCtx) extendChain(n *chainx.Node, hist []*block.Block) error {
	c.chain = []link{
		{Bytes: c.bBytes, B: c.b, Vals: c.vals, View: c.cv, Root: c.bRoot},
		{Bytes: c.b2Bytes, B: c.b2, Vals: c.vals2, View: c.cv2, Root: c.b2Root},
	}
	cur := append(append([]*block.Block{}, hist...), c.b, c.b2)
	for i := 2; i < 4; i++ {
		view, err := c.viewOf(n, cur)
		if err != nil {
			return err
		}
		vals, err := n.BC.GetNextBlockValidators()
		if err != nil {
			return err
		}
		var txs []*transaction.Transaction
		if i == 2 {
			t, err := n.MakeTx(transferScript(5, 1, 7), []neotest.Signer{chainx.Signer(5)}, func(t *transaction.Transaction) { t.Nonce = 0xC0600005 })
			if err != nil {
				return fmt.Errorf("b3 tx: %w", err)
			}
			txs = append(txs, retx(t))
			if p, err := n.MakeTx(chainx.CallScript(nativehashes.PolicyContract, "setFeePerByte", n.BC.FeePerByte()+10), []neotest.Signer{n.Committee}, func(t *transaction.Transaction) { t.Nonce = 0xC0600006 }); err == nil {
				txs = append(txs, retx(p))
			}
		}
		nb, err := n.NewBlock(txs...)
		if err != nil {
			return err
		}
		bb, err := chainx.BlockBytes(nb)
		if err != nil {
			return err
		}
		dec, err := chainx.DecodeBlock(bb, c.fam.SRIH)
		if err != nil {
			return err
		}
		if v := view.judge(dec); !v.Valid() {
			return fmt.Errorf("the predicate rejects valid block b%d: %v", i+1, v.Why)
		}
		if err := n.AddBytes(bb); err != nil {
			return fmt.Errorf("scratch replica rejects b%d: %w", i+1, err)
		}
		sr, err := n.BC.GetStateRoot(dec.Index)
		if err != nil {
			return err
		}
		c.chain = append(c.chain, link{Bytes: bb, B: dec, Vals: vals, View: view, Root: sr.Root.StringLE()})
		cur = append(cur, dec)
	}
	return nil
}

func (c *stateCtx) hcopy(pos int) *block.Block {
	b, err := chainx.DecodeBlock(c.chain[pos].Bytes, c.fam.SRIH)
	if err != nil {
		panic(err)
	}
	return b
}

func (c *stateCtx) parentOf(pos int) *block.Header {
	if pos == 0 {
		return c.cv.Tip
	}
	return &c.chain[pos-1].B.Header
}

func (c *stateCtx) grandOf(pos int) *block.Header {
	if pos == 0 {
		return c.grand
	}
	return c.parentOf(pos - 1)
}

// signAs re-signs b with the keys of the validators of chain position pos.
func (c *stateCtx) signAs(b *block.Block, pos int) *block.Block {
	b = reblock(b)
	if err := chainx.SignBlock(b, c.chain[pos].Vals, c.magic); err != nil {
		panic(err)
	}
	return b
}

// linkRules lists the rules header h breaks as a successor of parent.
// localRoot is the local state root after parent when the node has processed
// parent's block (nil: the previous state root cannot be judged yet).
func linkRules(parent, h *block.Header, srih bool, magic uint32, localRoot *util.Uint256) []string {
	var why []string
	if h.Index != parent.Index+1 {
		why = append(why, "index is not parent+1")
	}
	if h.PrevHash != parent.Hash() {
		why = append(why, "previous hash is not the parent")
	}
	if h.Timestamp <= parent.Timestamp {
		why = append(why, "timestamp not strictly later")
	}
	if h.StateRootEnabled != srih {
		why = append(why, "state-root-in-header setting differs")
	} else if srih && localRoot != nil && h.PrevStateRoot != *localRoot {
		why = append(why, ruleStateRoot)
	}
	if ok, s := witnessOK(parent.NextConsensus, &h.Script, magic, h); !ok {
		why = append(why, "witness: "+s)
	}
	return why
}

// ---- header edits -------------------------------------------------------------------------------------

type hEdit struct {
	name string
	srih bool
	f    func(c *stateCtx, pos int, b *block.Block) *block.Block
}

func hEdits() []hEdit {
	resigned := func(f func(c *stateCtx, pos int, h *block.Header)) func(c *stateCtx, pos int, b *block.Block) *block.Block {
		return func(c *stateCtx, pos int, b *block.Block) *block.Block {
			f(c, pos, &b.Header)
			return c.signAs(b, pos)
		}
	}
	return []hEdit{
		{"sig^1", false, func(c *stateCtx, pos int, b *block.Block) *block.Block {
			b.Script.InvocationScript[2+10] ^= 1
			return reblock(b)
		}},
		{"signed-by-strangers", false, func(c *stateCtx, pos int, b *block.Block) *block.Block {
			fv := foreignVals(len(c.chain[pos].Vals))
			vs, err := smartcontract.CreateDefaultMultiSigRedeemScript(fv)
			if err != nil {
				panic(err)
			}
			b.Script.VerificationScript = vs
			b = reblock(b)
			if err := chainx.SignBlock(b, fv, c.magic); err != nil {
				panic(err)
			}
			return b
		}},
		{"Timestamp=parent's", false, resigned(func(c *stateCtx, pos int, h *block.Header) { h.Timestamp = c.parentOf(pos).Timestamp })},
		{"PrevHash^1", false, resigned(func(c *stateCtx, pos int, h *block.Header) { flip(h.PrevHash[:]) })},
		{"PrevHash=grandparent", false, resigned(func(c *stateCtx, pos int, h *block.Header) { h.PrevHash = c.grandOf(pos).Hash() })},
		{"Index+1", false, resigned(func(c *stateCtx, pos int, h *block.Header) { h.Index++ })},
		{"Nonce+1(twin)", false, resigned(func(c *stateCtx, pos int, h *block.Header) { h.Nonce++ })},
		{"NextConsensus^1(twin)", false, resigned(func(c *stateCtx, pos int, h *block.Header) { flip(h.NextConsensus[:]) })},
		{"PrevStateRoot^1", true, resigned(func(c *stateCtx, pos int, h *block.Header) { flip(h.PrevStateRoot[:]) })},
	}
}

// relink puts the headers of chain positions from..to-1 on top of prev
// (previous hash replaced, re-signed): an alternative chain that is as well
// signed as the original.
func (c *stateCtx) relink(prev *block.Block, from, to int) []*block.Block {
	var out []*block.Block
	for pos := from; pos < to; pos++ {
		b := c.hcopy(pos)
		b.PrevHash = prev.Hash()
		b = c.signAs(b, pos)
		out = append(out, b)
		prev = b
	}
	return out
}

type extCase struct {
	kind string // batch | deep | psr | restart
	// batch
	build func(c *stateCtx) []*block.Block // headers to deliver (nil: not applicable)
	// deep / restart
	k, j   int
	corr   dCorr
	reopen bool
	// psr
	p    int
	edit func(h *block.Header)
}

// ---- corruptions of the block at a chain position ------------------------------------------------------

type dCorr struct {
	name string
	f    func(c *stateCtx, j int) *block.Block // nil: not applicable
}

func dCorrs() []dCorr {
	return []dCorr{
		{"wit.sig^1", func(c *stateCtx, j int) *block.Block {
			b := c.hcopy(j)
			b.Script.InvocationScript[2+10] ^= 1
			return reblock(b)
		}},
		{"wit.invocation-empty", func(c *stateCtx, j int) *block.Block {
			b := c.hcopy(j)
			b.Script.InvocationScript = []byte{}
			return reblock(b)
		}},
		{"txs.drop-all.K", func(c *stateCtx, j int) *block.Block {
			b := c.hcopy(j)
			if len(b.Transactions) == 0 {
				return nil
			}
			b.Transactions = nil
			return reblock(b)
		}},
		{"tx0.witness.sig^1", func(c *stateCtx, j int) *block.Block {
			b := c.hcopy(j)
			if len(b.Transactions) == 0 || len(b.Transactions[0].Scripts[0].InvocationScript) < 10 {
				return nil
			}
			b.Transactions[0].Scripts[0].InvocationScript[2+7] ^= 1
			return reblock(b)
		}},
		{"txs.add-expired.R", func(c *stateCtx, j int) *block.Block {
			b := c.hcopy(j)
			exp := handTx(4, c.magic, transferScript(4, 1, 1), uint32(0xC0680000+j), b.Index-1, 1*gas, gas/10)
			b.Transactions = append(b.Transactions, exp)
			b.RebuildMerkleRoot()
			return c.signAs(b, j)
		}},
		{"hdr.Timestamp=parent's.R", func(c *stateCtx, j int) *block.Block {
			b := c.hcopy(j)
			b.Timestamp = c.parentOf(j).Timestamp
			return c.signAs(b, j)
		}},
		{"hdr.Nonce+1.R(twin)", func(c *stateCtx, j int) *block.Block {
			b := c.hcopy(j)
			b.Nonce++
			return c.signAs(b, j)
		}},
		{"hdr.PrevStateRoot^1.R", func(c *stateCtx, j int) *block.Block {
			if !c.fam.SRIH {
				return nil
			}
			b := c.hcopy(j)
			flip(b.PrevStateRoot[:])
			return c.signAs(b, j)
		}},
		{"block-of-the-next-position", func(c *stateCtx, j int) *block.Block {
			if j+1 >= len(c.chain) {
				return nil
			}
			return c.hcopy(j + 1)
		}},
		{"block-of-the-previous-position", func(c *stateCtx, j int) *block.Block {
			if j == 0 {
				return nil
			}
			return c.hcopy(j - 1)
		}},
	}
}

// ---- menu entries ----------------------------------------------------------------------------------------

func menuExt() []item {
	var its []item
	add := func(group, id string, ec *extCase) {
		its = append(its, item{ID: id, Group: group, Make: func(c *stateCtx) *delivery {
			return &delivery{Seq: "ext", Ext: ec, Flag: c.fam.SRIH}
		}})
	}
	batch := func(id string, build func(c *stateCtx) []*block.Block) {
		add("header-batch", "hb."+id, &extCase{kind: "batch", build: build})
	}
	plain := func(c *stateCtx, pos ...int) []*block.Block {
		var out []*block.Block
		for _, p := range pos {
			out = append(out, c.hcopy(p))
		}
		return out
	}
	for L := 1; L <= 4; L++ {
		L := L
		batch(fmt.Sprintf("valid.L%d", L), func(c *stateCtx) []*block.Block {
			return plain(c, []int{0, 1, 2, 3}[:L]...)
		})
	}
	for L := 2; L <= 4; L++ {
		for j := 0; j < L; j++ {
			for _, e := range hEdits() {
				L, j, e := L, j, e
				batch(fmt.Sprintf("L%d.p%d.%s", L, j, e.name), func(c *stateCtx) []*block.Block {
					if e.srih && !c.fam.SRIH {
						return nil
					}
					hs := plain(c, []int{0, 1, 2, 3}[:L]...)
					hs[j] = e.f(c, j, hs[j])
					return hs
				})
			}
		}
	}
	batch("dup[H1,H1,H2]", func(c *stateCtx) []*block.Block { return plain(c, 0, 0, 1) })
	batch("dup[H1,H2,H2,H3]", func(c *stateCtx) []*block.Block { return plain(c, 0, 1, 1, 2) })
	batch("gap[H1,H3]", func(c *stateCtx) []*block.Block { return plain(c, 0, 2) })
	batch("gap[H2,H3]", func(c *stateCtx) []*block.Block { return plain(c, 1, 2) })
	batch("gap[H1,H2,H4]", func(c *stateCtx) []*block.Block { return plain(c, 0, 1, 3) })
	batch("reversed[H2,H1]", func(c *stateCtx) []*block.Block { return plain(c, 1, 0) })
	batch("reversed[H3,H2,H1]", func(c *stateCtx) []*block.Block { return plain(c, 2, 1, 0) })
	batch("empty[]", func(c *stateCtx) []*block.Block { return []*block.Block{} })
	tipBlock := func(c *stateCtx) *block.Block {
		b, err := chainx.DecodeBlock(c.blocks[len(c.blocks)-1], c.fam.SRIH)
		if err != nil {
			panic(err)
		}
		return b
	}
	batch("stale-prefix[tip,H1,H2]", func(c *stateCtx) []*block.Block {
		return append([]*block.Block{tipBlock(c)}, plain(c, 0, 1)...)
	})
	batch("stale-garbage[tip',H1,H2]", func(c *stateCtx) []*block.Block {
		t := tipBlock(c)
		t.Nonce++
		return append([]*block.Block{reblock(t)}, plain(c, 0, 1)...)
	})
	batch("stale-only[block1,tip]", func(c *stateCtx) []*block.Block {
		b1, err := chainx.DecodeBlock(c.blocks[0], c.fam.SRIH)
		if err != nil {
			panic(err)
		}
		return []*block.Block{b1, tipBlock(c)}
	})
	// a fork hanging off a forged copy of the header tip: P' = the header tip with NextConsensus replaced by a
	// stranger's address (so its hash differs and its witness is stale), C' = the next header re-linked to P' and
	// signed by the strangers P' designates. P' has a known index (stale part of the batch), C' is new.
	batch("fork-off-forged-header-tip[P',C'(on P', signed as P' designates)]", func(c *stateCtx) []*block.Block {
		p, child := tipBlock(c), 0
		if c.mode.HdrKnown {
			p, child = c.hcopy(0), 1
		}
		fv := foreignVals(len(c.chain[child].Vals))
		vs, err := smartcontract.CreateDefaultMultiSigRedeemScript(fv)
		if err != nil {
			panic(err)
		}
		p.NextConsensus = hash.Hash160(vs)
		p = reblock(p)
		ch := c.hcopy(child)
		ch.PrevHash = p.Hash()
		ch.Script.VerificationScript = vs
		ch = reblock(ch)
		if err := chainx.SignBlock(ch, fv, c.magic); err != nil {
			panic(err)
		}
		return []*block.Block{p, ch}
	})
	batch("alternative-chain[H1,H2',H3'](twin-relinked)", func(c *stateCtx) []*block.Block {
		t := c.hcopy(1)
		t.Nonce++
		t = c.signAs(t, 1)
		return append([]*block.Block{c.hcopy(0), t}, c.relink(t, 2, 3)...)
	})
	batch("unsigned-relinked[H1,H2'(sig^1),H3'(on H2')]", func(c *stateCtx) []*block.Block {
		t := c.hcopy(1)
		t.Nonce++
		t = c.signAs(t, 1)
		t.Script.InvocationScript[2+10] ^= 1
		t = reblock(t)
		return append([]*block.Block{c.hcopy(0), t}, c.relink(t, 2, 3)...)
	})

	// deep-ahead
	type kj struct{ k, j int }
	for _, p := range []kj{{2, 1}, {3, 0}, {3, 1}, {3, 2}, {4, 0}, {4, 1}, {4, 2}, {4, 3}} {
		for _, dc := range dCorrs() {
			if (p.j == 0 && dc.name == "block-of-the-previous-position") || (p.j == 3 && (dc.name == "block-of-the-next-position" || dc.name == "txs.drop-all.K" || dc.name == "tx0.witness.sig^1")) {
				continue // no previous / next position in the chain; b4 is empty
			}
			add("deep-ahead", fmt.Sprintf("deep.k%d.j%d.%s", p.k, p.j, dc.name), &extCase{kind: "deep", k: p.k, j: p.j, corr: dc})
			if p.k == 3 && (dc.name == "wit.sig^1" || dc.name == "txs.drop-all.K" || dc.name == "hdr.Nonce+1.R(twin)") {
				add("deep-ahead", fmt.Sprintf("deep.k%d.j%d.%s.restarted", p.k, p.j, dc.name), &extCase{kind: "deep", k: p.k, j: p.j, corr: dc, reopen: true})
			}
		}
	}
	for k := 2; k <= 4; k++ {
		for p := 2; p <= k; p++ {
			add("deep-ahead", fmt.Sprintf("deep.k%d.H%d.PrevStateRoot=0", k, p), &extCase{kind: "psr", k: k, p: p, edit: func(h *block.Header) { h.PrevStateRoot = util.Uint256{} }})
			add("deep-ahead", fmt.Sprintf("deep.k%d.H%d.PrevStateRoot^1", k, p), &extCase{kind: "psr", k: k, p: p, edit: func(h *block.Header) { flip(h.PrevStateRoot[:]) }})
		}
	}
	// restart
	for k := 0; k <= 3; k++ {
		for _, dc := range dCorrs() {
			switch dc.name {
			case "wit.sig^1", "txs.drop-all.K", "hdr.Timestamp=parent's.R", "txs.add-expired.R":
				add("restart", fmt.Sprintf("restart.k%d.%s", k, dc.name), &extCase{kind: "restart", k: k, corr: dc})
			}
		}
	}
	its = append(its, menuPaged()...)
	return its
}

// ---- execution ---------------------------------------------------------------------------------------------

func hdrsOf(bs []*block.Block) []*block.Header {
	out := make([]*block.Header, len(bs))
	for i, b := range bs {
		out[i] = &b.Header
	}
	return out
}

func (c *stateCtx) runExt(d *delivery, o *outcome, base *caseRec, bad badFn) {
	ec := d.Ext.(*extCase)
	ctl, err := c.control()
	if err != nil {
		o.harness = "control replica: " + err.Error()
		return
	}
	switch ec.kind {
	case "batch":
		c.runBatch(ec, ctl, o, base, bad)
	case "deep":
		c.runDeep(ec, o, base, bad)
	case "psr":
		c.runPSR(ec, o, base, bad)
	case "restart":
		c.runRestart(ec, o, base, bad)
	case "paged":
		c.runPaged(ec, ctl, o, base, bad)
	}
}

func tryFn(o *outcome, bad badFn) func(f func() error) error {
	return func(f func() error) (err error) {
		o.execs++
		if perr := chainx.Try(func() { err = f() }); perr != nil {
			bad("panic", perr.Error(), nil, "")
			return perr
		}
		return err
	}
}

func (c *stateCtx) runBatch(ec *extCase, ctl *control, o *outcome, base *caseRec, bad badFn) {
	var bs []*block.Block
	if err := chainx.Try(func() { bs = ec.build(c) }); err != nil {
		o.harness = "batch cannot be built: " + err.Error()
		return
	}
	if bs == nil {
		o.class, o.result = "n/a", "n/a"
		return
	}
	o.class = "batch"
	n, err := c.prepare()
	if err != nil {
		o.harness = "prepare: " + err.Error()
		return
	}
	defer n.Close()
	try := tryFn(o, bad)
	pre, err := takeSnap(n, c.maxID)
	if err != nil {
		o.harness = "snapshot: " + err.Error()
		return
	}
	if df := ctl.pre.diff(pre, true); len(df) != 0 {
		o.harness = "replica differs from the control before the delivery: " + strings.Join(df, "; ")
		return
	}
	herr := try(func() error { return n.BC.AddHeaders(hdrsOf(bs)...) })
	o.errText = errClass(herr)
	post, err := takeSnap(n, c.maxID)
	if err != nil {
		bad("unreadable-after-headers", err.Error(), nil, "")
		return
	}
	if df := pre.diff(post, false); len(df) != 0 {
		bad("header-batch-changed-state", o.errText, df, "")
		return
	}
	if post.HdrHeight < pre.HdrHeight {
		bad("header-chain-shrunk", o.errText, pre.diff(post, true), "")
		return
	}
	// what was recorded
	parent := c.cv.Tip
	if c.mode.HdrKnown {
		parent = &c.chain[0].B.Header
	}
	if pre.HdrHash != parent.Hash().StringLE() {
		o.harness = "unexpected header tip before the delivery"
		return
	}
	delivered := map[util.Uint256]bool{}
	for _, b := range bs {
		delivered[b.Hash()] = true
	}
	recorded := map[util.Uint256]bool{}
	var rec []*block.Header
	for i := pre.HdrHeight + 1; i <= post.HdrHeight; i++ {
		hh := n.BC.GetHeaderHash(i)
		h, err := n.BC.GetHeader(hh)
		if err != nil {
			bad("recorded-header-unreadable", err.Error(), nil, fmt.Sprintf("height %d", i))
			return
		}
		var local *util.Uint256
		if parent.Index == pre.Height {
			local = &c.cv.LocalRoot
		}
		if why := linkRules(parent, h, c.fam.SRIH, c.magic, local); len(why) != 0 {
			base.Why = why
			bad("invalid-header-recorded", o.errText, pre.diff(post, true), fmt.Sprintf("header recorded at height %d (position %d of the valid chain)", i, i-pre.Height-1))
			return
		}
		if !delivered[hh] {
			bad("undelivered-header-recorded", o.errText, pre.diff(post, true), fmt.Sprintf("height %d", i))
			return
		}
		recorded[hh] = true
		rec = append(rec, h)
		parent = h
	}
	if post.HdrHash != n.BC.GetHeaderHash(post.HdrHeight).StringLE() {
		bad("header-chain-inconsistent", o.errText, pre.diff(post, true), "CurrentHeaderHash is not the hash at HeaderHeight")
		return
	}
	o.recHdr = len(rec) > 0
	o.result = fmt.Sprintf("recorded %d of %d", len(rec), len(bs))
	if err := n.Persist(); err != nil {
		bad("flush-failed", err.Error(), nil, "")
		return
	}
	allowed := func(k string) bool {
		if len(k) == 33 && k[0] == byte(0x01) { // DataExecutable: must be one of the recorded hashes
			h, err := util.Uint256DecodeBytesBE([]byte(k[1:]))
			return err == nil && recorded[h]
		}
		return len(rec) > 0 && headerKey(k, util.Uint256{})
	}
	if df, _ := dumpDiff(ctl.dump, rawDump(n.Store), allowed); len(df) != 0 {
		bad("header-batch-changed-database", o.errText, df, "raw database after a flush, compared with a replica that got nothing; only header keys of recorded headers may differ")
		return
	}
	// the valid blocks afterwards
	recAt := func(pos int) *block.Header {
		h := pre.Height + 1 + uint32(pos)
		if h > post.HdrHeight {
			return nil
		}
		if h <= pre.HdrHeight {
			return &c.chain[pos].B.Header // known before (mode hdr-known)
		}
		return rec[h-pre.HdrHeight-1]
	}
	for pos := 0; pos < len(c.chain); pos++ {
		if r := recAt(pos); r != nil && r.Hash() != c.chain[pos].B.Hash() {
			break // another validly signed header holds the slot (equivocation): nothing demanded
		}
		mayRefuse := false
		if pos+1 < len(c.chain) {
			if r := recAt(pos + 1); r != nil && c.fam.SRIH && r.PrevStateRoot != c.chain[pos+1].B.PrevStateRoot {
				mayRefuse = true
			}
		}
		before, _ := takeSnap(n, c.maxID)
		berr := try(func() error { return n.AddBytes(c.chain[pos].Bytes) })
		if berr != nil {
			if !mayRefuse {
				bad("valid-block-rejected-after-headers", berr.Error(), nil, fmt.Sprintf("b%d", pos+1))
				return
			}
			after, _ := takeSnap(n, c.maxID)
			if df := before.diff(after, true); len(df) != 0 {
				bad("refused-block-changed-state", berr.Error(), df, fmt.Sprintf("b%d, refused because the recorded successor header carries another previous state root", pos+1))
			}
			return
		}
		s, err := takeSnap(n, c.maxID)
		if err != nil {
			bad("unreadable-after-valid-block", err.Error(), nil, "")
			return
		}
		if s.Root != c.chain[pos].Root {
			bad("valid-block-gives-other-state-after-headers", "", []string{"StateRoot: " + s.Root + " != " + c.chain[pos].Root}, fmt.Sprintf("b%d", pos+1))
			return
		}
		if mayRefuse {
			return
		}
	}
}

func (c *stateCtx) runDeep(ec *extCase, o *outcome, base *caseRec, bad badFn) {
	var x *block.Block
	if err := chainx.Try(func() { x = ec.corr.f(c, ec.j) }); err != nil {
		o.harness = "candidate cannot be built: " + err.Error()
		return
	}
	if x == nil {
		o.class, o.result = "n/a", "n/a"
		return
	}
	v := c.chain[ec.j].View.judge(x)
	base.Why = v.Why
	o.class = "deep-" + v.class(x.Hash(), c.chain[ec.j].B.Hash())
	n, err := c.prepare()
	if err != nil {
		o.harness = "prepare: " + err.Error()
		return
	}
	defer func() { n.Close() }()
	try := tryFn(o, bad)
	var hs []*block.Block
	for pos := 0; pos < ec.k; pos++ {
		hs = append(hs, c.hcopy(pos))
	}
	herr := try(func() error { return n.BC.AddHeaders(hdrsOf(hs)...) })
	if herr != nil || n.BC.HeaderHeight() != c.cv.Tip.Index+uint32(ec.k) {
		o.result, o.errText = "headers-refused", errClass(herr)
		return
	}
	for pos := 0; pos < ec.j; pos++ {
		if err := try(func() error { return n.AddBytes(c.chain[pos].Bytes) }); err != nil {
			bad("valid-block-rejected", err.Error(), nil, fmt.Sprintf("b%d, headers of %d blocks known in advance", pos+1, ec.k))
			return
		}
	}
	if err := n.Persist(); err != nil {
		bad("flush-failed", err.Error(), nil, "")
		return
	}
	if ec.reopen {
		m, err := n.Reopen()
		if err != nil {
			bad("restart-failed", err.Error(), nil, "headers ahead of blocks")
			return
		}
		n = m
		_ = n.Persist()
	}
	s1, err := takeSnap(n, c.maxID)
	if err != nil {
		bad("unreadable-before-delivery", err.Error(), nil, "")
		return
	}
	d1 := rawDump(n.Store)
	xerr := try(func() error { return n.BC.AddBlock(x) })
	o.errText = errClass(xerr)
	s2, err := takeSnap(n, c.maxID)
	if err != nil {
		bad("unreadable-after-delivery", err.Error(), nil, "")
		return
	}
	if xerr == nil {
		o.result = "accepted"
		if !v.Valid() {
			bad("accepted-invalid-block", "", s1.diff(s2, true), fmt.Sprintf("headers of %d valid blocks known in advance, candidate for position %d.", ec.k, ec.j+1)+c.probeAccepted(n, x, s2))
		}
		return
	}
	o.result = "rejected"
	if df := s1.diff(s2, true); len(df) != 0 {
		bad("rejected-block-changed-state", xerr.Error(), df, "all headers were known before the delivery")
		return
	}
	if err := n.Persist(); err != nil {
		bad("flush-failed", err.Error(), nil, "")
		return
	}
	if df, _ := dumpDiff(d1, rawDump(n.Store), nil); len(df) != 0 {
		bad("rejected-block-changed-database", xerr.Error(), df, "raw database after a flush compared with the flush before the delivery; all headers were known before")
		return
	}
	for pos := ec.j; pos < ec.k; pos++ {
		if err := try(func() error { return n.AddBytes(c.chain[pos].Bytes) }); err != nil {
			bad("valid-block-rejected-after-rejection", err.Error(), nil, fmt.Sprintf("b%d, headers of %d blocks known in advance", pos+1, ec.k))
			return
		}
	}
	s3, err := takeSnap(n, c.maxID)
	if err != nil {
		bad("unreadable-after-valid-blocks", err.Error(), nil, "")
		return
	}
	if s3.Root != c.chain[ec.k-1].Root {
		bad("valid-blocks-give-other-state", "", []string{"StateRoot: " + s3.Root + " != " + c.chain[ec.k-1].Root}, "")
	}
}

// runPSR: headers H1..H(p-1) valid, Hp with another previous state root
// (re-signed), H(p+1).. re-linked on top of it. The blocks before b(p-1) must
// be accepted; b(p-1) is executed and may be refused (nothing may change
// then); if it is accepted, the block whose header is Hp must be rejected.
func (c *stateCtx) runPSR(ec *extCase, o *outcome, base *caseRec, bad badFn) {
	if !c.fam.SRIH {
		o.class, o.result = "n/a", "n/a"
		return
	}
	o.class = "deep-psr"
	var hs []*block.Block
	var x *block.Block
	if err := chainx.Try(func() {
		for pos := 0; pos < ec.p-1; pos++ {
			hs = append(hs, c.hcopy(pos))
		}
		x = c.hcopy(ec.p - 1)
		ec.edit(&x.Header)
		x = c.signAs(x, ec.p-1)
		hs = append(hs, x)
		hs = append(hs, c.relink(x, ec.p, ec.k)...)
	}); err != nil {
		o.harness = "headers cannot be built: " + err.Error()
		return
	}
	v := c.chain[ec.p-1].View.judge(x)
	base.Why = v.Why
	if v.HeaderOK {
		o.harness = "the predicate accepts a header with a wrong previous state root"
		return
	}
	n, err := c.prepare()
	if err != nil {
		o.harness = "prepare: " + err.Error()
		return
	}
	defer n.Close()
	try := tryFn(o, bad)
	herr := try(func() error { return n.BC.AddHeaders(hdrsOf(hs)...) })
	if herr != nil || n.BC.HeaderHeight() != c.cv.Tip.Index+uint32(ec.k) {
		o.result, o.errText = "headers-refused", errClass(herr)
		return
	}
	for pos := 0; pos < ec.p-2; pos++ {
		if err := try(func() error { return n.AddBytes(c.chain[pos].Bytes) }); err != nil {
			bad("valid-block-rejected", err.Error(), nil, fmt.Sprintf("b%d; its successor's recorded header carries the right previous state root", pos+1))
			return
		}
	}
	if err := n.Persist(); err != nil {
		bad("flush-failed", err.Error(), nil, "")
		return
	}
	s0, err := takeSnap(n, c.maxID)
	if err != nil {
		bad("unreadable-before-delivery", err.Error(), nil, "")
		return
	}
	d0 := rawDump(n.Store)
	berr := try(func() error { return n.AddBytes(c.chain[ec.p-2].Bytes) })
	s1, err := takeSnap(n, c.maxID)
	if err != nil {
		bad("unreadable-after-delivery", err.Error(), nil, "")
		return
	}
	if berr != nil {
		o.result, o.errText = "refused", errClass(berr)
		if df := s0.diff(s1, true); len(df) != 0 {
			bad("refused-block-changed-state", berr.Error(), df, fmt.Sprintf("b%d was executed and refused because recorded header H%d carries another previous state root", ec.p-1, ec.p))
			return
		}
		if err := n.Persist(); err != nil {
			bad("flush-failed", err.Error(), nil, "")
			return
		}
		if df, _ := dumpDiff(d0, rawDump(n.Store), nil); len(df) != 0 {
			bad("refused-block-changed-database", berr.Error(), df, fmt.Sprintf("b%d was executed and refused because recorded header H%d carries another previous state root; raw database after a flush compared with the flush before", ec.p-1, ec.p))
		}
		return
	}
	xerr := try(func() error { return n.BC.AddBlock(x) })
	o.errText = "predecessor accepted / " + errClass(xerr)
	s2, _ := takeSnap(n, c.maxID)
	if xerr == nil {
		o.result = "accepted"
		bad("accepted-invalid-block", "", s1.diff(s2, true), fmt.Sprintf("headers of %d blocks known in advance; H%d carries a wrong previous state root (re-signed), its predecessor block was accepted before.", ec.k, ec.p)+c.probeAccepted(n, x, s2))
		return
	}
	o.result = "rejected"
	if df := s1.diff(s2, true); len(df) != 0 {
		bad("rejected-block-changed-state", xerr.Error(), df, "")
	}
}

func (c *stateCtx) runRestart(ec *extCase, o *outcome, base *caseRec, bad badFn) {
	var x *block.Block
	if err := chainx.Try(func() { x = ec.corr.f(c, 0) }); err != nil {
		o.harness = "candidate cannot be built: " + err.Error()
		return
	}
	if x == nil {
		o.class, o.result = "n/a", "n/a"
		return
	}
	v := c.cv.judge(x)
	base.Why = v.Why
	cls := v.class(x.Hash(), c.b.Hash())
	o.class = "restart-" + cls
	n, err := c.prepareWith(mode{Name: "restart", Pool: "none", Flushed: true}) // a mempool does not survive a restart
	if err != nil {
		o.harness = "prepare: " + err.Error()
		return
	}
	defer func() { n.Close() }()
	try := tryFn(o, bad)
	if ec.k > 0 {
		var hs []*block.Block
		for pos := 0; pos < ec.k; pos++ {
			hs = append(hs, c.hcopy(pos))
		}
		if herr := try(func() error { return n.BC.AddHeaders(hdrsOf(hs)...) }); herr != nil {
			o.result, o.errText = "headers-refused", errClass(herr)
			return
		}
	}
	restart := func(what string) bool {
		if err := n.Persist(); err != nil {
			bad("flush-failed", err.Error(), nil, what)
			return false
		}
		m, err := n.Reopen()
		if err != nil {
			bad("restart-failed", err.Error(), nil, what)
			return false
		}
		n = m
		if err := n.Persist(); err != nil {
			bad("flush-failed", err.Error(), nil, what)
			return false
		}
		return true
	}
	if !restart("before the delivery") {
		return
	}
	s0, err := takeSnap(n, c.maxID)
	if err != nil {
		bad("unreadable-after-restart", err.Error(), nil, "")
		return
	}
	d0 := rawDump(n.Store)
	xerr := try(func() error { return n.BC.AddBlock(x) })
	o.errText = errClass(xerr)
	s1, err := takeSnap(n, c.maxID)
	if err != nil {
		bad("unreadable-after-delivery", err.Error(), nil, "")
		return
	}
	if xerr == nil {
		o.result = "accepted"
		if !v.Valid() {
			bad("accepted-invalid-block", "", s0.diff(s1, true), fmt.Sprintf("after a restart with %d headers known in advance.", ec.k)+c.probeAccepted(n, x, s1))
		}
		return
	}
	o.result = "rejected"
	hdrMay := cls != "i" && s0.HdrHeight == s0.Height
	if df := s0.diff(s1, !hdrMay); len(df) != 0 {
		bad("rejected-block-changed-state", xerr.Error(), df, "")
		return
	}
	o.recHdr = s1.HdrHash != s0.HdrHash
	if !restart("after the rejection") {
		return
	}
	s2, err := takeSnap(n, c.maxID)
	if err != nil {
		bad("unreadable-after-restart", err.Error(), nil, "after the rejection")
		return
	}
	if df := s1.diff(s2, false); len(df) != 0 {
		bad("state-after-rejection-and-restart-differs", xerr.Error(), df, "")
		return
	}
	allowed := func(k string) bool { return hdrMay && headerKey(k, x.Hash()) }
	if df, _ := dumpDiff(d0, rawDump(n.Store), allowed); len(df) != 0 {
		bad("rejected-block-changed-database", xerr.Error(), df, "raw database after flush + restart + flush, compared with the one after the restart before the delivery")
		return
	}
	if cls == "iii" && hdrMay {
		return // another validly signed header may hold the slot
	}
	for pos := 0; pos < 2; pos++ {
		if err := try(func() error { return n.AddBytes(c.chain[pos].Bytes) }); err != nil {
			bad("valid-block-rejected-after-rejection-and-restart", err.Error(), nil, fmt.Sprintf("b%d", pos+1))
			return
		}
	}
	s3, err := takeSnap(n, c.maxID)
	if err != nil {
		bad("unreadable-after-valid-blocks", err.Error(), nil, "")
		return
	}
	if s3.Root != c.chain[1].Root {
		bad("valid-blocks-give-other-state", "", []string{"StateRoot: " + s3.Root + " != " + c.chain[1].Root}, "after rejection and restart")
	}
}

// ---- paged: header chains that cross a page of the header hash list (2000 hashes) ---------------------------
//
// Only where a long header chain can be signed without executing blocks: no
// state roots in headers, one validator that nobody votes out, and the header
// of b not known already. The chain E1..En consists of empty blocks on top of
// the tip (E1 is a valid next block just as b is).

type pagedChain struct {
	bytes [][]byte // wire bytes of E1..En
	err   error
}

func (c *stateCtx) pagedApplicable() bool {
	return !c.fam.SRIH && !c.fam.Multi && len(c.names) == 0 && !c.mode.HdrKnown
}

const pagedTop = 2003 // index of the last header of the long chain

func (c *stateCtx) paged() *pagedChain {
	c.pagedOnce.Do(func() {
		pc := &pagedChain{}
		c.pagedC = pc
		tipB, err := chainx.DecodeBlock(c.blocks[len(c.blocks)-1], c.fam.SRIH)
		if err != nil {
			pc.err = err
			return
		}
		prev := tipB
		for prev.Index < pagedTop {
			e := &block.Block{Header: block.Header{
				PrevHash: prev.Hash(), Timestamp: prev.Timestamp + 1, Index: prev.Index + 1, NextConsensus: tipB.NextConsensus,
				Script: transaction.Witness{VerificationScript: c.b.Script.VerificationScript},
			}}
			if err := chainx.SignBlock(e, c.vals, c.magic); err != nil {
				pc.err = err
				return
			}
			bb, err := chainx.BlockBytes(e)
			if err != nil {
				pc.err = err
				return
			}
			if prev, err = chainx.DecodeBlock(bb, c.fam.SRIH); err != nil {
				pc.err = err
				return
			}
			pc.bytes = append(pc.bytes, bb)
		}
		// E1..E3 must be acceptable blocks
		n, err := c.prepareWith(mode{Name: "scratch", Pool: "none"})
		if err != nil {
			pc.err = err
			return
		}
		defer n.Close()
		for i := 0; i < 3; i++ {
			if err := n.AddBytes(pc.bytes[i]); err != nil {
				pc.err = fmt.Errorf("E%d is not accepted as a block: %w", i+1, err)
				return
			}
		}
	})
	return c.pagedC
}

func (pc *pagedChain) blocks(srih bool, upto int) []*block.Block {
	out := make([]*block.Block, 0, upto)
	for _, bb := range pc.bytes[:upto] {
		b, err := chainx.DecodeBlock(bb, srih)
		if err != nil {
			panic(err)
		}
		out = append(out, b)
	}
	return out
}

func menuPaged() []item {
	var its []item
	for _, T := range []int{1998, 1999, 2000, 2001} {
		its = append(its, item{ID: fmt.Sprintf("paged.headers-to-%d.then-corrupted-E1", T), Group: "paged", Make: func(c *stateCtx) *delivery {
			if !c.pagedApplicable() {
				return nil
			}
			return &delivery{Seq: "ext", Ext: &extCase{kind: "paged", k: T}, Flag: c.fam.SRIH}
		}})
	}
	// round 4: the node is restarted after the long header chain was recorded and flushed (the started node
	// rebuilds its header hash list from a stored page plus the walk back from the current header)
	for _, T := range []int{1999, 2000, 2001} {
		its = append(its, item{ID: fmt.Sprintf("paged.headers-to-%d.restarted.then-corrupted-E1", T), Group: "paged", Make: func(c *stateCtx) *delivery {
			if !c.pagedApplicable() {
				return nil
			}
			return &delivery{Seq: "ext", Ext: &extCase{kind: "paged", k: T, reopen: true}, Flag: c.fam.SRIH}
		}})
	}
	for _, bad := range []int{1999, 2000, 2001} {
		its = append(its, item{ID: fmt.Sprintf("paged.batch-to-%d.unsigned-header-at-%d", bad+1, bad), Group: "paged", Make: func(c *stateCtx) *delivery {
			if !c.pagedApplicable() {
				return nil
			}
			return &delivery{Seq: "ext", Ext: &extCase{kind: "paged", k: bad + 1, j: bad}, Flag: c.fam.SRIH}
		}})
	}
	return its
}

// runPaged: ec.k = index of the last header delivered; ec.j = index of the
// header whose signature is damaged (0: none).
func (c *stateCtx) runPaged(ec *extCase, ctl *control, o *outcome, base *caseRec, bad badFn) {
	pc := c.paged()
	if pc.err != nil {
		o.harness = "long header chain: " + pc.err.Error()
		return
	}
	o.class = "paged"
	tip := c.cv.Tip.Index
	es := pc.blocks(c.fam.SRIH, ec.k-int(tip))
	at := func(index int) *block.Block { return es[index-int(tip)-1] }
	if ec.j != 0 {
		at(ec.j).Script.InvocationScript[2+10] ^= 1
	}
	n, err := c.prepare()
	if err != nil {
		o.harness = "prepare: " + err.Error()
		return
	}
	defer func() {
		if n != nil {
			n.Close()
		}
	}()
	try := tryFn(o, bad)
	pre, err := takeSnap(n, c.maxID)
	if err != nil {
		o.harness = "snapshot: " + err.Error()
		return
	}
	herr := try(func() error { return n.BC.AddHeaders(hdrsOf(es)...) })
	post, err := takeSnap(n, c.maxID)
	if err != nil {
		bad("unreadable-after-headers", err.Error(), nil, "")
		return
	}
	if df := pre.diff(post, false); len(df) != 0 {
		bad("header-batch-changed-state", errClass(herr), df, "")
		return
	}
	// what is recorded must be the chain's own (valid) headers below the damaged one
	for i := pre.HdrHeight + 1; i <= post.HdrHeight; i++ {
		if ec.j != 0 && int(i) >= ec.j {
			bad("invalid-header-recorded", errClass(herr), pre.diff(post, true), fmt.Sprintf("header at height %d recorded although the header at %d of the batch is not validly signed", i, ec.j))
			return
		}
		if n.BC.GetHeaderHash(i) != at(int(i)).Hash() {
			bad("header-chain-inconsistent", errClass(herr), nil, fmt.Sprintf("GetHeaderHash(%d) is not the hash of the header delivered for that height (header height %d)", i, post.HdrHeight))
			return
		}
	}
	if post.HdrHash != n.BC.GetHeaderHash(post.HdrHeight).StringLE() {
		bad("header-chain-inconsistent", errClass(herr), pre.diff(post, true), "CurrentHeaderHash is not the hash at HeaderHeight")
		return
	}
	o.result = fmt.Sprintf("recorded up to %d", post.HdrHeight)
	o.errText = errClass(herr)
	if err := n.Persist(); err != nil {
		bad("flush-failed", err.Error(), nil, "")
		return
	}
	d1 := rawDump(n.Store)
	if post.HdrHeight == pre.HdrHeight {
		if df, _ := dumpDiff(ctl.dump, d1, nil); len(df) != 0 {
			bad("header-batch-changed-database", errClass(herr), df, "nothing was recorded")
			return
		}
	}
	if ec.reopen {
		m, err := n.Reopen()
		n = m
		if err != nil {
			// not judged here (C02)
			rsCount(&rsStats.problems, "paged: restart failed: "+err.Error())
			fmt.Printf("note: %s: restart with the header chain up to %d recorded failed: %v\n", c.label(), post.HdrHeight, err)
			o.class, o.result, o.errText, o.viols = "n/a", "n/a", "restart problem", nil
			return
		}
		rsCount(&rsStats.restarts, fmt.Sprintf("paged/mem/headers-ahead=%d", post.HdrHeight-post.Height))
		if err := c.applyPool(n, c.mode); err != nil { // a mempool does not survive a restart
			o.harness = "pool after the restart: " + err.Error()
			return
		}
		if rs, err := takeSnap(n, c.maxID); err != nil {
			bad("unreadable-after-restart", err.Error(), nil, "")
			return
		} else if df := post.diff(rs, true); len(df) != 0 {
			why := "paged: observable state after the restart differs: " + strings.Join(df, "; ")
			rsCount(&rsStats.problems, why)
			fmt.Printf("note: %s: %s\n", c.label(), why)
		}
		if err := n.Persist(); err != nil {
			bad("flush-failed", err.Error(), nil, "after the restart")
			return
		}
		d1 = rawDump(n.Store)
		o.result += ", restarted"
	}
	fresh := pc.blocks(c.fam.SRIH, 2)
	deliveries := []struct {
		name string
		x    *block.Block
	}{
		{"E1 with a damaged header witness", func() *block.Block {
			b := pc.blocks(false, 1)[0]
			b.Script.InvocationScript[2+10] ^= 1
			return reblock(b)
		}()},
		{"a re-signed twin of E1 (nonce+1)", func() *block.Block { b := pc.blocks(false, 1)[0]; b.Nonce++; return c.resign(b) }()},
		{"E1 with a transaction its Merkle root does not cover", func() *block.Block {
			b := pc.blocks(false, 1)[0]
			b.Transactions = []*transaction.Transaction{retx(c.sp["extra-valid"])}
			return reblock(b)
		}()},
	}
	for _, dl := range deliveries {
		s1, _ := takeSnap(n, c.maxID)
		hdrMay := s1.HdrHeight == s1.Height // nothing recorded by the batch: a validly signed header may be recorded now
		if hdrMay && strings.HasPrefix(dl.name, "a re-signed twin") {
			continue // without the recorded header of E1 the twin is a valid next block
		}
		xerr := try(func() error { return n.BC.AddBlock(dl.x) })
		s2, err := takeSnap(n, c.maxID)
		if err != nil {
			bad("unreadable-after-delivery", err.Error(), nil, dl.name)
			return
		}
		if xerr == nil {
			if s2.HdrHeight != s1.HdrHeight || dl.x.Hash() != fresh[0].Hash() || len(dl.x.Transactions) != 0 || !bytes.Equal(dl.x.Script.InvocationScript, fresh[0].Script.InvocationScript) {
				if !(hdrMay && strings.HasPrefix(dl.name, "a re-signed twin")) {
					o.result = "accepted"
					bad("accepted-invalid-block", "", s1.diff(s2, true), fmt.Sprintf("%s, header chain up to %d known in advance", dl.name, s1.HdrHeight))
				}
			}
			return
		}
		if df := s1.diff(s2, !hdrMay); len(df) != 0 {
			bad("rejected-block-changed-state", xerr.Error(), df, dl.name)
			return
		}
		if err := n.Persist(); err != nil {
			bad("flush-failed", err.Error(), nil, "")
			return
		}
		if !hdrMay {
			if df, _ := dumpDiff(d1, rawDump(n.Store), nil); len(df) != 0 {
				bad("rejected-block-changed-database", xerr.Error(), df, dl.name+"; all headers were known before")
				return
			}
		} else if s2.HdrHeight != s1.HdrHeight {
			return // the twin's (valid) header took the slot of E1
		}
	}
	for i, b := range fresh {
		if err := try(func() error { return n.BC.AddBlock(b) }); err != nil {
			bad("valid-block-rejected-after-rejection", err.Error(), nil, fmt.Sprintf("E%d, header chain up to %d known in advance", i+1, post.HdrHeight))
			return
		}
	}
	if h := n.BC.CurrentBlockHash(); h != fresh[1].Hash() || n.BC.BlockHeight() != tip+2 {
		bad("accepted-but-tip-not-advanced", "", nil, "E1, E2")
	}
}
