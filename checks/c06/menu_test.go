package c06

// The corruption menu. Every item turns the valid next block b of a chain
// state into ONE candidate, given as wire bytes (so that what the node gets is
// what a decoder produces: hashes are recomputed from the bytes).

import (
	"fmt"
	"sort"

	"github.com/nspcc-dev/neo-go/pkg/core/block"
	"github.com/nspcc-dev/neo-go/pkg/core/transaction"
	"github.com/nspcc-dev/neo-go/pkg/crypto/keys"
	"github.com/nspcc-dev/neo-go/pkg/io"
	"github.com/nspcc-dev/neo-go/pkg/smartcontract"
	"github.com/nspcc-dev/neo-go/pkg/util"

	"verif/lib/chainx"
)

type delivery struct {
	Raw       []byte
	Flag      bool   // StateRootEnabled of the decoder for Raw
	Seq       string // "" | "twice" (b, then Raw=b again) | "gap" (Raw = block tip+2, then b, then Raw)
	TxWitness bool   // only witnesses of transactions differ from b (hashes are those of b)
	PH        string // name of the mempool history (Seq "poolhist")
	Ahead     bool   // poolhist: headers of block N and N+1 are delivered before block N
	Ext       any    // Seq "ext": the case of an extension family (ext_test.go)
	RS        *rsSpec // round 4: the delivery happens on a replica that was restarted (restartmenu_test.go)
}

type item struct {
	ID    string
	Group string
	Hdr   bool   // delivered through AddHeaders as well
	Want  string // class the menu intends ("" = whatever the predicate says): i | ii | iii | valid | decode
	Make  func(c *stateCtx) *delivery
}

func (c *stateCtx) clone() *block.Block {
	b, err := chainx.DecodeBlock(c.bBytes, c.fam.SRIH)
	if err != nil {
		panic(err)
	}
	return b
}

func rawOf(b *block.Block) *delivery {
	bb, err := chainx.BlockBytes(b)
	if err != nil {
		panic(err)
	}
	return &delivery{Raw: bb, Flag: b.StateRootEnabled}
}

// resign re-signs the header with the keys of the validators of this height.
func (c *stateCtx) resign(b *block.Block) *block.Block {
	b = reblock(b)
	if err := chainx.SignBlock(b, c.vals, c.magic); err != nil {
		panic(err)
	}
	return b
}

// sigsOf returns the signature of every validator (in key order) over b.
func (c *stateCtx) sigsOf(b *block.Block, vals keys.PublicKeys, magic uint32) [][]byte {
	sorted := vals.Copy()
	sort.Sort(sorted)
	n := len(sorted)
	m := n - (n-1)/3
	out := make([][]byte, n)
	tmp := reblock(b)
	for i := 0; i+m <= n; i++ {
		sub := sorted[i : i+m]
		if smartcontract.GetDefaultHonestNodeCount(len(sub)) != len(sub) {
			// pad the subset so that SignBlock asks for all of its keys
			panic("unsupported validator count")
		}
		if err := chainx.SignBlock(tmp, sub, magic); err != nil {
			panic(err)
		}
		sg, ok := pushedSigs(tmp.Script.InvocationScript)
		if !ok || len(sg) != m {
			panic("unexpected invocation script")
		}
		for k := range sg {
			out[i+k] = append([]byte{}, sg[k]...)
		}
	}
	return out
}

func invOf(sigs ...[]byte) []byte {
	var out []byte
	for _, s := range sigs {
		out = append(out, sigPush(s)...)
	}
	return out
}

func foreignVals(n int) keys.PublicKeys {
	var out keys.PublicKeys
	for i := 0; i < n; i++ {
		chainx.RegisterKey(chainx.Acc(7 + i))
		out = append(out, chainx.Acc(7+i).PublicKey())
	}
	return out
}

func flip(u []byte) { u[len(u)-1] ^= 1 }

type hdrEdit struct {
	name string
	srih int // 0 any, 1 only SRIH families, -1 only others
	f    func(c *stateCtx, b *block.Block) bool
}

func hdrEdits() []hdrEdit {
	set := func(f func(c *stateCtx, h *block.Header)) func(c *stateCtx, b *block.Block) bool {
		return func(c *stateCtx, b *block.Block) bool {
			before, _ := chainx.BlockBytes(b)
			f(c, &b.Header)
			after, _ := chainx.BlockBytes(b)
			return string(before) != string(after)
		}
	}
	return []hdrEdit{
		{"Version=1", 0, set(func(c *stateCtx, h *block.Header) { h.Version = 1 })},
		{"Version=max", 0, set(func(c *stateCtx, h *block.Header) { h.Version = ^uint32(0) })},
		{"PrevHash=0", 0, set(func(c *stateCtx, h *block.Header) { h.PrevHash = util.Uint256{} })},
		{"PrevHash=grandparent", 0, set(func(c *stateCtx, h *block.Header) { h.PrevHash = c.grand.Hash() })},
		{"PrevHash=block1", 0, set(func(c *stateCtx, h *block.Header) { h.PrevHash = c.first.Hash() })},
		{"PrevHash^1", 0, set(func(c *stateCtx, h *block.Header) { flip(h.PrevHash[:]) })},
		{"MerkleRoot=0", 0, set(func(c *stateCtx, h *block.Header) { h.MerkleRoot = util.Uint256{} })},
		{"MerkleRoot=parent's", 0, set(func(c *stateCtx, h *block.Header) { h.MerkleRoot = c.cv.Tip.MerkleRoot })},
		{"MerkleRoot^1", 0, set(func(c *stateCtx, h *block.Header) { flip(h.MerkleRoot[:]) })},
		{"Timestamp=parent's", 0, set(func(c *stateCtx, h *block.Header) { h.Timestamp = c.cv.Tip.Timestamp })},
		{"Timestamp=parent's-1", 0, set(func(c *stateCtx, h *block.Header) { h.Timestamp = c.cv.Tip.Timestamp - 1 })},
		{"Timestamp=0", 0, set(func(c *stateCtx, h *block.Header) { h.Timestamp = 0 })},
		{"Timestamp+1", 0, set(func(c *stateCtx, h *block.Header) { h.Timestamp++ })},
		{"Nonce+1", 0, set(func(c *stateCtx, h *block.Header) { h.Nonce++ })},
		{"Nonce=max", 0, set(func(c *stateCtx, h *block.Header) { h.Nonce = ^uint64(0) })},
		{"Index+1", 0, set(func(c *stateCtx, h *block.Header) { h.Index++ })},
		{"Index-1", 0, set(func(c *stateCtx, h *block.Header) { h.Index-- })},
		{"Index+1000", 0, set(func(c *stateCtx, h *block.Header) { h.Index += 1000 })},
		{"Index=0", 0, set(func(c *stateCtx, h *block.Header) { h.Index = 0 })},
		{"PrimaryIndex+1", 0, set(func(c *stateCtx, h *block.Header) { h.PrimaryIndex++ })},
		{"PrimaryIndex=255", 0, set(func(c *stateCtx, h *block.Header) { h.PrimaryIndex = 255 })},
		{"NextConsensus=0", 0, set(func(c *stateCtx, h *block.Header) { h.NextConsensus = util.Uint160{} })},
		{"NextConsensus^1", 0, set(func(c *stateCtx, h *block.Header) { flip(h.NextConsensus[:]) })},
		{"PrevStateRoot=0", 1, set(func(c *stateCtx, h *block.Header) { h.PrevStateRoot = util.Uint256{} })},
		{"PrevStateRoot^1", 1, set(func(c *stateCtx, h *block.Header) { flip(h.PrevStateRoot[:]) })},
		{"PrevStateRoot=parent's", 1, set(func(c *stateCtx, h *block.Header) { h.PrevStateRoot = c.cv.Tip.PrevStateRoot })},
		// round 4: roots of other heights (the parent's parent is "PrevStateRoot=parent's" above)
		{"PrevStateRoot=root-of-block1", 1, set(func(c *stateCtx, h *block.Header) { h.PrevStateRoot = c.root1 })},
		{"PrevStateRoot=root-of-genesis", 1, set(func(c *stateCtx, h *block.Header) { h.PrevStateRoot = c.root0 })},
		{"PrevStateRoot=root-after-this-block", 1, set(func(c *stateCtx, h *block.Header) {
			if r, err := util.Uint256DecodeStringLE(c.bRoot); err == nil {
				h.PrevStateRoot = r
			}
		})},
		{"StateRootEnabled=false", 1, set(func(c *stateCtx, h *block.Header) { h.StateRootEnabled = false; h.PrevStateRoot = util.Uint256{} })},
		{"StateRootEnabled=true", -1, set(func(c *stateCtx, h *block.Header) { h.StateRootEnabled = true; h.PrevStateRoot = c.cv.LocalRoot })},
	}
}

type txField struct {
	name string
	f    func(t *transaction.Transaction)
}

func txFields() []txField {
	return []txField{
		{"nonce+1", func(t *transaction.Transaction) { t.Nonce++ }},
		{"sysfee+1", func(t *transaction.Transaction) { t.SystemFee++ }},
		{"sysfee-1", func(t *transaction.Transaction) { t.SystemFee-- }},
		{"netfee+1", func(t *transaction.Transaction) { t.NetworkFee++ }},
		{"netfee-1", func(t *transaction.Transaction) { t.NetworkFee-- }},
		{"vub+1", func(t *transaction.Transaction) { t.ValidUntilBlock++ }},
		{"vub-1", func(t *transaction.Transaction) { t.ValidUntilBlock-- }},
		{"script^1", func(t *transaction.Transaction) { t.Script = append([]byte{}, t.Script...); t.Script[3] ^= 1 }},
		{"script+nop", func(t *transaction.Transaction) { t.Script = append(append([]byte{}, t.Script...), 0x21) }},
		{"scope=entry", func(t *transaction.Transaction) { t.Signers[0].Scopes = transaction.CalledByEntry }},
		{"signer^1", func(t *transaction.Transaction) { flip(t.Signers[0].Account[:]) }},
		{"attr+nvb0", func(t *transaction.Transaction) { t.Attributes = append(t.Attributes, nvbAttr(0)) }},
	}
}

// withTxs replaces the transaction list. mode K keeps Merkle root and witness,
// M recomputes the Merkle root only, R recomputes it and re-signs the header.
func (c *stateCtx) withTxs(txs []*transaction.Transaction, md string) *delivery {
	b := c.clone()
	b.Transactions = txs
	switch md {
	case "M":
		b.RebuildMerkleRoot()
	case "R":
		b.RebuildMerkleRoot()
		b = c.resign(b)
	}
	return rawOf(b)
}

func (c *stateCtx) txs() []*transaction.Transaction {
	return c.clone().Transactions
}

func hdrLen(b *block.Block) int {
	w := io.NewBufBinWriter()
	b.Header.EncodeBinary(w.BinWriter)
	return len(w.Bytes())
}

func hashableLen(srih bool) int {
	n := 4 + 32 + 32 + 8 + 8 + 4 + 1 + 20
	if srih {
		n += 32
	}
	return n
}

func menu() []item {
	var its []item
	add := func(it item) { its = append(its, it) }

	// ---- header fields ---------------------------------------------------------------
	for _, e := range hdrEdits() {
		e := e
		for _, sign := range []string{"keep", "resign"} {
			sign := sign
			if sign == "resign" && e.srih != 0 && e.name[:5] == "State" {
				continue // the setting itself is not a field a signer could validly commit to
			}
			want := ""
			if sign == "keep" {
				want = "i"
			}
			add(item{ID: "hdr." + e.name + "." + sign, Group: "header", Hdr: true, Want: want, Make: func(c *stateCtx) *delivery {
				if (e.srih == 1 && !c.fam.SRIH) || (e.srih == -1 && c.fam.SRIH) {
					return nil
				}
				b := c.clone()
				if !e.f(c, b) {
					return nil // the edit changes nothing here
				}
				if sign == "resign" {
					b = c.resign(b)
				}
				return rawOf(b)
			}})
		}
	}

	// ---- header witness ---------------------------------------------------------------
	wit := func(id, want string, f func(c *stateCtx, b *block.Block, sigs [][]byte) bool) {
		add(item{ID: "wit." + id, Group: "witness", Hdr: true, Want: want, Make: func(c *stateCtx) *delivery {
			b := c.clone()
			if !f(c, b, c.sigsOf(b, c.vals, c.magic)) {
				return nil
			}
			return rawOf(b)
		}})
	}
	wit("sig-first^1", "i", func(c *stateCtx, b *block.Block, s [][]byte) bool { b.Script.InvocationScript[2+10] ^= 1; return true })
	wit("sig-last^1", "i", func(c *stateCtx, b *block.Block, s [][]byte) bool {
		b.Script.InvocationScript[len(b.Script.InvocationScript)-1] ^= 1
		return true
	})
	wit("invocation-empty", "i", func(c *stateCtx, b *block.Block, s [][]byte) bool { b.Script.InvocationScript = []byte{}; return true })
	wit("verification-empty", "i", func(c *stateCtx, b *block.Block, s [][]byte) bool { b.Script.VerificationScript = []byte{}; return true })
	wit("both-empty", "i", func(c *stateCtx, b *block.Block, s [][]byte) bool {
		b.Script.InvocationScript, b.Script.VerificationScript = []byte{}, []byte{}
		return true
	})
	wit("m-1-signatures", "i", func(c *stateCtx, b *block.Block, s [][]byte) bool {
		b.Script.InvocationScript = invOf(s[:c.m-1]...)
		return true
	})
	wit("m+1-signatures", "i", func(c *stateCtx, b *block.Block, s [][]byte) bool {
		if len(s) > c.m {
			b.Script.InvocationScript = invOf(s[:c.m+1]...)
		} else {
			b.Script.InvocationScript = invOf(append(append([][]byte{}, s...), s[0])...)
		}
		return true
	})
	wit("signatures-reordered", "i", func(c *stateCtx, b *block.Block, s [][]byte) bool {
		if c.m < 2 {
			return false
		}
		x := append([][]byte{}, s[:c.m]...)
		x[0], x[1] = x[1], x[0]
		b.Script.InvocationScript = invOf(x...)
		return true
	})
	wit("one-signature-repeated", "i", func(c *stateCtx, b *block.Block, s [][]byte) bool {
		if c.m < 2 {
			return false
		}
		x := append([][]byte{}, s[:c.m]...)
		x[1] = x[0]
		b.Script.InvocationScript = invOf(x...)
		return true
	})
	wit("other-signer-subset-tail", "valid", func(c *stateCtx, b *block.Block, s [][]byte) bool {
		if len(s) == c.m {
			return false
		}
		b.Script.InvocationScript = invOf(s[len(s)-c.m:]...)
		return true
	})
	wit("other-signer-subset-gap", "valid", func(c *stateCtx, b *block.Block, s [][]byte) bool {
		if len(s) == c.m {
			return false
		}
		x := append([][]byte{s[0]}, s[2:]...)
		b.Script.InvocationScript = invOf(x[:c.m]...)
		return true
	})
	wit("foreign-signatures", "i", func(c *stateCtx, b *block.Block, s [][]byte) bool {
		fs := c.sigsOf(b, foreignVals(len(c.vals)), c.magic)
		b.Script.InvocationScript = invOf(fs[:c.m]...)
		return true
	})
	wit("foreign-committee", "i", func(c *stateCtx, b *block.Block, s [][]byte) bool {
		fv := foreignVals(len(c.vals))
		fs := c.sigsOf(b, fv, c.magic)
		vs, err := smartcontract.CreateDefaultMultiSigRedeemScript(fv)
		if err != nil {
			panic(err)
		}
		b.Script.VerificationScript = vs
		b.Script.InvocationScript = invOf(fs[:c.m]...)
		return true
	})
	wit("signed-for-another-network", "i", func(c *stateCtx, b *block.Block, s [][]byte) bool {
		b.Script.InvocationScript = invOf(c.sigsOf(b, c.vals, c.magic+1)[:c.m]...)
		return true
	})
	wit("signatures-of-a-twin-header", "i", func(c *stateCtx, b *block.Block, s [][]byte) bool {
		t := c.clone()
		t.Nonce++
		t = c.resign(t)
		b.Script.InvocationScript = t.Script.InvocationScript
		return true
	})

	// ---- transaction list ---------------------------------------------------------------
	type lst struct {
		name string
		f    func(c *stateCtx, t []*transaction.Transaction) []*transaction.Transaction
		wR   string
	}
	lists := []lst{
		{"swap01", func(c *stateCtx, t []*transaction.Transaction) []*transaction.Transaction { t[0], t[1] = t[1], t[0]; return t }, "valid"},
		{"reverse", func(c *stateCtx, t []*transaction.Transaction) []*transaction.Transaction {
			return []*transaction.Transaction{t[2], t[1], t[0]}
		}, "valid"},
		{"dup-first", func(c *stateCtx, t []*transaction.Transaction) []*transaction.Transaction { return append(t, retx(t[0])) }, "iii"},
		{"dup-last-adjacent", func(c *stateCtx, t []*transaction.Transaction) []*transaction.Transaction {
			return append(t, retx(t[len(t)-1]))
		}, "iii"},
		{"drop-first", func(c *stateCtx, t []*transaction.Transaction) []*transaction.Transaction { return t[1:] }, "valid"},
		{"drop-last", func(c *stateCtx, t []*transaction.Transaction) []*transaction.Transaction { return t[:len(t)-1] }, "valid"},
		{"drop-all", func(c *stateCtx, t []*transaction.Transaction) []*transaction.Transaction { return nil }, "valid"},
		{"add-valid", func(c *stateCtx, t []*transaction.Transaction) []*transaction.Transaction {
			return append(t, retx(c.sp["extra-valid"]))
		}, "valid"},
	}
	for _, l := range lists {
		l := l
		for _, md := range []string{"K", "M", "R"} {
			md := md
			want := map[string]string{"K": "ii", "M": "i", "R": l.wR}[md]
			if l.name == "dup-last-adjacent" {
				// with an odd number of transactions the Merkle tree duplicates the last
				// leaf itself: the root (hence the header and its signatures) is b's
				want = "ii"
			}
			add(item{ID: "txs." + l.name + "." + md, Group: "txlist", Hdr: md == "R" && l.name == "drop-all", Want: want, Make: func(c *stateCtx) *delivery {
				return c.withTxs(l.f(c, c.txs()), md)
			}})
		}
	}

	// ---- one transaction altered (signed fields) -------------------------------------------
	for k := 0; k < 3; k++ {
		k := k
		for _, fl := range txFields() {
			fl := fl
			for _, md := range []string{"K", "M", "R"} {
				md := md
				want := map[string]string{"K": "ii", "M": "i", "R": "iii"}[md]
				add(item{ID: fmt.Sprintf("tx%d.%s.%s", k, fl.name, md), Group: "txalter", Want: want, Make: func(c *stateCtx) *delivery {
					t := c.txs()
					fl.f(t[k])
					t[k] = retx(t[k])
					return c.withTxs(t, md)
				}})
			}
		}
		// witness only: hashes, Merkle root and header stay those of b
		tw := func(id string, f func(c *stateCtx, t []*transaction.Transaction)) {
			add(item{ID: fmt.Sprintf("tx%d.witness.%s", k, id), Group: "txwitness", Want: "ii", Make: func(c *stateCtx) *delivery {
				t := c.txs()
				f(c, t)
				for i := range t {
					t[i] = retx(t[i])
				}
				d := c.withTxs(t, "K")
				d.TxWitness = true
				return d
			}})
		}
		tw("sig^1", func(c *stateCtx, t []*transaction.Transaction) { t[k].Scripts[0].InvocationScript[2+7] ^= 1 })
		tw("invocation-empty", func(c *stateCtx, t []*transaction.Transaction) { t[k].Scripts[0].InvocationScript = []byte{} })
		tw("verification-empty", func(c *stateCtx, t []*transaction.Transaction) { t[k].Scripts[0].VerificationScript = []byte{} })
		tw("signed-by-another-account", func(c *stateCtx, t []*transaction.Transaction) {
			acc := chainx.Acc(7)
			t[k].Scripts[0] = transaction.Witness{InvocationScript: sigPush(acc.PrivateKey().SignHashable(c.magic, t[k])), VerificationScript: acc.Contract.Script}
		})
		tw("own-script-foreign-signature", func(c *stateCtx, t []*transaction.Transaction) {
			t[k].Scripts[0].InvocationScript = sigPush(chainx.Acc(7).PrivateKey().SignHashable(c.magic, t[k]))
		})
		tw("witness-of-neighbour", func(c *stateCtx, t []*transaction.Transaction) {
			o := 0 // tx0 is signed by account 1, tx1 and tx2 by account 2
			if k == 0 {
				o = 1
			}
			t[k].Scripts[0] = t[o].Scripts[0]
		})
	}

	// ---- well-signed transactions that break one rule (header re-signed over them) --------
	sp := func(id, want string, names ...string) {
		add(item{ID: "sp." + id, Group: "txspecial", Want: want, Make: func(c *stateCtx) *delivery {
			t := c.txs()
			for _, n := range names {
				x, ok := c.sp[n]
				if !ok {
					return nil
				}
				t = append(t, retx(x))
			}
			return c.withTxs(t, "R")
		}})
	}
	sp("expired(vub=tip)", "iii", "expired")
	sp("vub=tip+1", "valid", "vub-last-ok")
	sp("vub-beyond-max-increment", "iii", "vub-too-far")
	sp("vub=max-increment", "valid", "vub-max-ok")
	sp("not-valid-before=tip+2", "iii", "nvb-future")
	sp("not-valid-before=tip", "valid", "nvb-ok")
	sp("conflicting-pair:x,y(y-pays-more)", "iii", "pair-x", "pair-y-more")
	sp("conflicting-pair:y,x(y-pays-more)", "iii", "pair-y-more", "pair-x")
	sp("conflicting-pair:x,y(x-pays-more)", "iii", "pair-x-most", "pair-y-of-x-most")
	sp("conflicting-pair:y,x(x-pays-more)", "iii", "pair-y-of-x-most", "pair-x-most")
	sp("conflicts-attribute-alone(named-tx-absent)", "valid", "pair-y-more")
	sp("already-on-chain", "iii", "onchain-dup")
	sp("conflicts-attribute-names-on-chain-tx", "iii", "conflicts-names-onchain")
	sp("on-chain-conflict-record-same-signer", "iii", "anchor-same-signer")
	sp("on-chain-conflict-record-other-signer", "valid", "anchor-other-signer")
	sp("network-fee-one-short", "iii", "netfee-short")
	sp("network-fee-exact", "valid", "netfee-exact")
	sp("underfunded-for-sum(+1)", "iii", "fund-a", "fund-b-over")
	sp("funded-for-sum-exactly", "valid", "fund-a", "fund-b-exact")
	sp("underfunded-single(+1)", "iii", "fund-single-over")
	sp("funded-single-exactly", "valid", "fund-single-exact")
	sp("sender-blocked-by-policy", "iii", "blocked-sender")
	sp("transaction-of-maximal-size", "valid", "big-max")
	sp("oversize-transaction(max+1)", "iii", "big-over")
	extSpecials(sp)

	// ---- encoding -----------------------------------------------------------------------------
	enc := func(id, want string, f func(c *stateCtx, bb []byte) []byte) {
		add(item{ID: "enc." + id, Group: "encoding", Want: want, Make: func(c *stateCtx) *delivery {
			return &delivery{Raw: f(c, append([]byte{}, c.bBytes...)), Flag: c.fam.SRIH}
		}})
	}
	enc("truncated-by-1", "decode", func(c *stateCtx, bb []byte) []byte { return bb[:len(bb)-1] })
	enc("extended-by-1", "valid", func(c *stateCtx, bb []byte) []byte { return append(bb, 0) })
	enc("truncated-to-header", "decode", func(c *stateCtx, bb []byte) []byte { return bb[:hdrLen(c.b)] })
	enc("truncated-inside-header", "decode", func(c *stateCtx, bb []byte) []byte { return bb[:50] })
	enc("empty", "decode", func(c *stateCtx, bb []byte) []byte { return nil })
	enc("tx-count+1", "decode", func(c *stateCtx, bb []byte) []byte { bb[hdrLen(c.b)]++; return bb })
	enc("tx-count-1", "ii", func(c *stateCtx, bb []byte) []byte { bb[hdrLen(c.b)]--; return bb })
	enc("tx-count=65536", "decode", func(c *stateCtx, bb []byte) []byte {
		p := hdrLen(c.b)
		return append(append(append([]byte{}, bb[:p]...), 0xfe, 0, 0, 1, 0), bb[p+1:]...)
	})
	enc("witness-count=0", "decode", func(c *stateCtx, bb []byte) []byte { bb[hashableLen(c.fam.SRIH)] = 0; return bb })
	enc("witness-count=2", "decode", func(c *stateCtx, bb []byte) []byte { bb[hashableLen(c.fam.SRIH)] = 2; return bb })
	enc("tx0-version=1", "decode", func(c *stateCtx, bb []byte) []byte { bb[hdrLen(c.b)+1] = 1; return bb })
	enc("decoded-with-the-other-state-root-setting", "", func(c *stateCtx, bb []byte) []byte { return bb })
	its[len(its)-1].Make = func(c *stateCtx) *delivery {
		return &delivery{Raw: append([]byte{}, c.bBytes...), Flag: !c.fam.SRIH}
	}

	// ---- sequences ------------------------------------------------------------------------------
	add(item{ID: "seq.same-block-twice", Group: "sequence", Hdr: true, Want: "i", Make: func(c *stateCtx) *delivery {
		return &delivery{Raw: append([]byte{}, c.bBytes...), Flag: c.fam.SRIH, Seq: "twice"}
	}})
	add(item{ID: "seq.index+1-while-index-missing", Group: "sequence", Hdr: true, Want: "i", Make: func(c *stateCtx) *delivery {
		return &delivery{Raw: append([]byte{}, c.b2Bytes...), Flag: c.fam.SRIH, Seq: "gap"}
	}})
	add(item{ID: "seq.tip-redelivered", Group: "sequence", Hdr: true, Want: "i", Make: func(c *stateCtx) *delivery {
		return &delivery{Raw: append([]byte{}, c.blocks[len(c.blocks)-1]...), Flag: c.fam.SRIH}
	}})
	add(item{ID: "seq.block1-redelivered", Group: "sequence", Hdr: true, Want: "i", Make: func(c *stateCtx) *delivery {
		return &delivery{Raw: append([]byte{}, c.blocks[0]...), Flag: c.fam.SRIH}
	}})
	// ---- headers known in advance ---------------------------------------------------------------
	// "ahead": AddHeaders(header of b, header of a corrupted successor b2'), then
	// AddBlock(b), then AddBlock(b2'). The corruption is re-signed by the
	// validators of that height unless the name ends in .keep.
	type aheadEdit struct {
		name string
		srih bool
		keep bool
		f    func(c *stateCtx, h *block.Header)
	}
	for _, e := range []aheadEdit{
		{"none(valid-successor)", false, false, func(c *stateCtx, h *block.Header) {}},
		{"PrevStateRoot=0", true, false, func(c *stateCtx, h *block.Header) { h.PrevStateRoot = util.Uint256{} }},
		{"PrevStateRoot^1", true, false, func(c *stateCtx, h *block.Header) { flip(h.PrevStateRoot[:]) }},
		{"PrevStateRoot=root-before-b", true, false, func(c *stateCtx, h *block.Header) { h.PrevStateRoot = c.cv.LocalRoot }},
		{"PrevStateRoot^1.keep", true, true, func(c *stateCtx, h *block.Header) { flip(h.PrevStateRoot[:]) }},
		{"Timestamp=b's", false, false, func(c *stateCtx, h *block.Header) { h.Timestamp = c.b.Timestamp }},
		{"Timestamp=b's.keep", false, true, func(c *stateCtx, h *block.Header) { h.Timestamp = c.b.Timestamp }},
		{"Timestamp+1", false, false, func(c *stateCtx, h *block.Header) { h.Timestamp++ }},
		{"PrevHash=tip", false, false, func(c *stateCtx, h *block.Header) { h.PrevHash = c.cv.Tip.Hash() }},
		{"PrevHash^1", false, false, func(c *stateCtx, h *block.Header) { flip(h.PrevHash[:]) }},
		{"Index+1", false, false, func(c *stateCtx, h *block.Header) { h.Index++ }},
		{"MerkleRoot^1", false, false, func(c *stateCtx, h *block.Header) { flip(h.MerkleRoot[:]) }},
		{"Nonce+1", false, false, func(c *stateCtx, h *block.Header) { h.Nonce++ }},
	} {
		e := e
		add(item{ID: "ahead.b2." + e.name, Group: "headers-ahead", Make: func(c *stateCtx) *delivery {
			if e.srih && !c.fam.SRIH {
				return nil
			}
			b2, err := chainx.DecodeBlock(c.b2Bytes, c.fam.SRIH)
			if err != nil {
				panic(err)
			}
			e.f(c, &b2.Header)
			b2 = reblock(b2)
			if !e.keep {
				if err := chainx.SignBlock(b2, c.vals2, c.magic); err != nil {
					panic(err)
				}
			}
			d := rawOf(b2)
			d.Seq = "ahead"
			return d
		}})
	}
	// "mirror": AddHeaders(header of b, header of the valid b2), then a corrupted
	// b, then b and b2.
	for _, base := range []string{"hdr.PrevStateRoot=0.resign", "hdr.PrevStateRoot^1.resign", "hdr.PrevStateRoot=parent's.resign", "hdr.Timestamp=parent's.resign",
		"hdr.PrevHash=grandparent.resign", "hdr.Nonce+1.resign", "wit.sig-first^1", "txs.drop-all.K", "tx0.witness.sig^1", "txs.dup-last-adjacent.K", "sp.expired(vub=tip)"} {
		var bi *item
		for i := range its {
			if its[i].ID == base {
				bi = &its[i]
			}
		}
		if bi == nil {
			panic("no base item " + base)
		}
		mk := bi.Make
		add(item{ID: "mirror." + base, Group: "headers-ahead", Make: func(c *stateCtx) *delivery {
			d := mk(c)
			if d != nil {
				d.Seq = "mirror"
			}
			return d
		}})
	}
	// ---- mempool histories (see poolhist_test.go) ---------------------------------------------
	for _, sp := range phSpecs() {
		sp := sp
		for _, ahead := range []bool{false, true} {
			ahead := ahead
			id := "pool." + sp.name
			if ahead {
				id += ".headers-ahead"
			}
			add(item{ID: id, Group: "pool-history", Make: func(c *stateCtx) *delivery {
				ph := c.ph[sp.name]
				if ph == nil {
					return nil
				}
				return &delivery{Raw: ph.X, Flag: c.fam.SRIH, Seq: "poolhist", PH: sp.name, Ahead: ahead}
			}})
		}
	}
	its = append(its, menuExt()...)
	its = append(its, menuPoolWit()...)
	its = append(its, menuPoolRep()...)
	// the valid block itself (control: must be accepted)
	add(item{ID: "ctl.valid-block", Group: "control", Hdr: true, Want: "valid", Make: func(c *stateCtx) *delivery {
		return &delivery{Raw: append([]byte{}, c.bBytes...), Flag: c.fam.SRIH}
	}})
	its = append(its, menuRestarted(its)...)
	return its
}

func itemByID(id string) (item, bool) {
	for _, it := range menu() {
		if it.ID == id {
			return it, true
		}
	}
	return item{}, false
}
