package c06

// Mempool history: acceptance of a block must not depend on what the node has
// pooled before. For a chain state S with tip N-1 every history of the
// alphabet is
//
//	PoolTx(T) at height N-1 (T is valid there)  ->  AddBlock(bN), bN is valid and
//	does not contain T  ->  AddBlock(X), X = validly signed and linked block N+1
//	carrying T with the very witnesses that were pooled
//
// where bN makes T invalid for a time-dependent reason (or, for the twins,
// just not). The predicate judges X on the view of the state after bN; a
// scratch replica with an empty pool that got bN and X is the reference.

import (
	"encoding/hex"
	"fmt"
	"strings"

	"github.com/nspcc-dev/neo-go/pkg/config"
	"github.com/nspcc-dev/neo-go/pkg/core/block"
	"github.com/nspcc-dev/neo-go/pkg/core/native/nativehashes"
	"github.com/nspcc-dev/neo-go/pkg/core/transaction"
	"github.com/nspcc-dev/neo-go/pkg/encoding/bigint"
	"github.com/nspcc-dev/neo-go/pkg/neotest"
	"github.com/nspcc-dev/neo-go/pkg/util"

	"verif/lib/chainx"
)

type poolHist struct {
	Name        string
	T           []byte // the pooled transaction
	BN          []byte // block N (wire)
	X           []byte // block N+1 carrying T (wire)
	V           verdict
	RefAccepted bool   // the empty-pool replica accepted X
	RefErr      string // its error otherwise
	RefRoot     string // its state root after X
}

// viewOf collects what the predicate may know about the state of n, whose
// chain is hist (decoded wire blocks, genesis excluded).
func (c *stateCtx) viewOf(n *chainx.Node, hist []*block.Block) (*chainView, error) {
	bc := n.BC
	tip := hist[len(hist)-1]
	cv := &chainView{Magic: c.magic, SRIH: c.fam.SRIH, Tip: &tip.Header, MaxVUBInc: bc.GetMaxValidUntilBlockIncrement(), MTB: bc.GetMaxTraceableBlocks(),
		FeePerByte: bc.FeePerByte(), BaseExecFee: bc.GetBaseExecFee(),
		OnChain: map[util.Uint256]uint32{}, Conflicts: map[util.Uint256][]conflictRec{}, Balance: map[util.Uint160]int64{}, Blocked: map[util.Uint160]bool{}}
	sr, err := bc.GetStateRoot(tip.Index)
	if err != nil {
		return nil, err
	}
	cv.LocalRoot = sr.Root
	for _, hb := range hist {
		for _, t := range hb.Transactions {
			cv.OnChain[t.Hash()] = hb.Index
			var sg []util.Uint160
			for _, s := range t.Signers {
				sg = append(sg, s.Account)
			}
			for _, a := range t.GetAttributes(transaction.ConflictsT) {
				ch := a.Value.(*transaction.Conflicts).Hash
				cv.Conflicts[ch] = append(cv.Conflicts[ch], conflictRec{Signers: sg, Index: hb.Index})
			}
		}
	}
	accs := []util.Uint160{n.Validator.ScriptHash(), n.Committee.ScriptHash(), nativehashes.OracleContract}
	for i := 1; i <= 8; i++ {
		accs = append(accs, chainx.Acc(i).ScriptHash())
	}
	for _, a := range accs {
		cv.Balance[a] = bc.GetUtilityTokenBalance(a, util.Uint160{}).Int64()
	}
	for k := range n.StorageDump([]int32{-7}) {
		kb, _ := hex.DecodeString(strings.TrimPrefix(k, "-7:"))
		if len(kb) == 21 && kb[0] == 15 {
			a, _ := util.Uint160DecodeBytesBE(kb[1:])
			cv.Blocked[a] = true
		}
	}
	c.fillPolicy(n, cv)
	return cv, nil
}

// fillPolicy reads attribute fees from Policy storage (prefix 20 + type) and
// notes which instances of U are deployed.
func (c *stateCtx) fillPolicy(n *chainx.Node, cv *chainView) {
	cv.AttrFee = map[transaction.AttrType]int64{}
	for k, v := range n.StorageDump([]int32{-7}) {
		kb, _ := hex.DecodeString(strings.TrimPrefix(k, "-7:"))
		if len(kb) == 2 && kb[0] == 20 {
			vb, _ := hex.DecodeString(v)
			cv.AttrFee[transaction.AttrType(kb[1])] = bigint.FromBytes(vb).Int64()
		}
	}
	cv.Contracts = map[util.Uint160]bool{}
	for _, h := range c.sc.World.Hashes() {
		if n.BC.GetContractState(h) != nil {
			cv.Contracts[h] = true
		}
	}
	c.fillExt(n, cv)
}

type phSpec struct {
	name string
	// make returns the transaction to pool and the transactions of block N,
	// built on the scratch replica n at state S (tip = N-1).
	make func(c *stateCtx, n *chainx.Node, mk phMaker, w *chainx.World) (t *transaction.Transaction, blockN []*transaction.Transaction, err error)
}

// phMaker builds a transaction of account a with the exact minimal network
// fee for the current policy, system fee 1 GAS, valid until N+5.
type phMaker func(a int, script []byte, opt func(t *transaction.Transaction)) (*transaction.Transaction, error)

func phSpecs() []phSpec {
	committee := func(n *chainx.Node, method string, args ...any) (*transaction.Transaction, error) {
		sg, err := pwCommittee(n) // the elected committee where the standby one is out of office
		if err != nil {
			return nil, err
		}
		t, err := n.CallTx(sg, nativehashes.PolicyContract, method, args...)
		if err != nil {
			return nil, err
		}
		return retx(t), nil
	}
	filler := func(mk phMaker) ([]*transaction.Transaction, error) {
		f, err := mk(1, transferScript(1, 3, 2), nil)
		return []*transaction.Transaction{f}, err
	}
	one := func(t *transaction.Transaction, err error) ([]*transaction.Transaction, error) {
		return []*transaction.Transaction{t}, err
	}
	return []phSpec{
		{"expired(valid-until=N)", func(c *stateCtx, n *chainx.Node, mk phMaker, w *chainx.World) (*transaction.Transaction, []*transaction.Transaction, error) {
			tip := n.Height()
			t, err := mk(4, transferScript(4, 1, 1), func(t *transaction.Transaction) { t.ValidUntilBlock = tip + 1 })
			if err != nil {
				return nil, nil, err
			}
			bn, err := filler(mk)
			return t, bn, err
		}},
		{"valid-until=N+1(still-valid)", func(c *stateCtx, n *chainx.Node, mk phMaker, w *chainx.World) (*transaction.Transaction, []*transaction.Transaction, error) {
			tip := n.Height()
			t, err := mk(4, transferScript(4, 1, 1), func(t *transaction.Transaction) { t.ValidUntilBlock = tip + 2 })
			if err != nil {
				return nil, nil, err
			}
			bn, err := filler(mk)
			return t, bn, err
		}},
		{"unaffected(still-valid)", func(c *stateCtx, n *chainx.Node, mk phMaker, w *chainx.World) (*transaction.Transaction, []*transaction.Transaction, error) {
			t, err := mk(4, transferScript(4, 1, 1), nil)
			if err != nil {
				return nil, nil, err
			}
			bn, err := filler(mk)
			return t, bn, err
		}},
		{"already-on-chain(in-block-N)", func(c *stateCtx, n *chainx.Node, mk phMaker, w *chainx.World) (*transaction.Transaction, []*transaction.Transaction, error) {
			t, err := mk(4, transferScript(4, 1, 1), nil)
			return t, []*transaction.Transaction{t}, err
		}},
		{"its-Conflicts-attribute-names-a-tx-of-block-N", func(c *stateCtx, n *chainx.Node, mk phMaker, w *chainx.World) (*transaction.Transaction, []*transaction.Transaction, error) {
			u, err := mk(4, transferScript(4, 1, 2), nil)
			if err != nil {
				return nil, nil, err
			}
			t, err := mk(4, transferScript(4, 1, 1), func(t *transaction.Transaction) { t.Attributes = append(t.Attributes, conflictsAttr(u.Hash())) })
			return t, []*transaction.Transaction{u}, err
		}},
		{"named-by-Conflicts-of-a-tx-of-block-N(same-signer)", func(c *stateCtx, n *chainx.Node, mk phMaker, w *chainx.World) (*transaction.Transaction, []*transaction.Transaction, error) {
			t, err := mk(5, transferScript(5, 1, 1), nil)
			if err != nil {
				return nil, nil, err
			}
			return t, nil, nil
		}},
		{"named-by-Conflicts-of-a-tx-of-block-N(other-signer,still-valid)", func(c *stateCtx, n *chainx.Node, mk phMaker, w *chainx.World) (*transaction.Transaction, []*transaction.Transaction, error) {
			t, err := mk(5, transferScript(5, 1, 1), nil)
			if err != nil {
				return nil, nil, err
			}
			return t, nil, nil
		}},
		{"balance-spent-in-block-N", func(c *stateCtx, n *chainx.Node, mk phMaker, w *chainx.World) (*transaction.Transaction, []*transaction.Transaction, error) {
			bal := c.cv.Balance[chainx.Acc(6).ScriptHash()]
			t, err := mk(6, transferScript(6, 1, 1), nil)
			if err != nil {
				return nil, nil, err
			}
			t.SystemFee = bal * 6 / 10
			t = signTx(t, 6, c.magic)
			u := retx(t)
			u.Nonce++
			u = signTx(u, 6, c.magic) // spends the same once more: fees of T no longer covered
			return t, []*transaction.Transaction{u}, nil
		}},
		{"balance-exactly-left-after-block-N(still-valid)", func(c *stateCtx, n *chainx.Node, mk phMaker, w *chainx.World) (*transaction.Transaction, []*transaction.Transaction, error) {
			bal := c.cv.Balance[chainx.Acc(6).ScriptHash()]
			t, err := mk(6, transferScript(6, 6, 1), nil)
			if err != nil {
				return nil, nil, err
			}
			nf := t.NetworkFee
			t.SystemFee = bal * 6 / 10
			t = signTx(t, 6, c.magic)
			u := retx(t)
			u.Nonce++
			u.SystemFee = bal - t.SystemFee - 2*nf // what is left pays T exactly (both scripts move GAS only to the sender itself)
			u = signTx(u, 6, c.magic)
			return t, []*transaction.Transaction{u}, nil
		}},
		{"signer-blocked-in-block-N", func(c *stateCtx, n *chainx.Node, mk phMaker, w *chainx.World) (*transaction.Transaction, []*transaction.Transaction, error) {
			if c.cv.Blocked[chainx.Acc(5).ScriptHash()] {
				return nil, nil, fmt.Errorf("already blocked")
			}
			t, err := mk(5, transferScript(5, 1, 1), nil)
			if err != nil {
				return nil, nil, err
			}
			bn, err := one(committee(n, "blockAccount", chainx.Acc(5).ScriptHash()))
			return t, bn, err
		}},
		{"fee-per-byte-raised-in-block-N", func(c *stateCtx, n *chainx.Node, mk phMaker, w *chainx.World) (*transaction.Transaction, []*transaction.Transaction, error) {
			t, err := mk(4, transferScript(4, 1, 1), nil)
			if err != nil {
				return nil, nil, err
			}
			bn, err := one(committee(n, "setFeePerByte", n.BC.FeePerByte()+100))
			return t, bn, err
		}},
		{"fee-per-byte-raised-in-block-N(fee-still-sufficient)", func(c *stateCtx, n *chainx.Node, mk phMaker, w *chainx.World) (*transaction.Transaction, []*transaction.Transaction, error) {
			t, err := mk(4, transferScript(4, 1, 1), func(t *transaction.Transaction) { t.NetworkFee = 100000 })
			if err != nil {
				return nil, nil, err
			}
			bn, err := one(committee(n, "setFeePerByte", n.BC.FeePerByte()+100))
			return t, bn, err
		}},
		{"exec-fee-factor-raised-in-block-N", func(c *stateCtx, n *chainx.Node, mk phMaker, w *chainx.World) (*transaction.Transaction, []*transaction.Transaction, error) {
			t, err := mk(4, transferScript(4, 1, 1), nil)
			if err != nil {
				return nil, nil, err
			}
			f := n.BC.GetBaseExecFee() // always carries the 10^4 multiplier; the setter's argument only since Faun
			hf := config.HFFaun
			if !n.BC.IsHardforkEnabled(&hf, n.Height()+1) {
				f /= 10000
			}
			bn, err := one(committee(n, "setExecFeeFactor", f*2))
			return t, bn, err
		}},
		{"attribute-fee-raised-in-block-N(Conflicts)", func(c *stateCtx, n *chainx.Node, mk phMaker, w *chainx.World) (*transaction.Transaction, []*transaction.Transaction, error) {
			t, err := mk(4, transferScript(4, 1, 1), func(t *transaction.Transaction) { t.Attributes = append(t.Attributes, conflictsAttr(util.Uint256{0xC0, 6})) })
			if err != nil {
				return nil, nil, err
			}
			bn, err := one(committee(n, "setAttributeFee", int64(transaction.ConflictsT), c.cv.AttrFee[transaction.ConflictsT]+1000000))
			return t, bn, err
		}},
		{"attribute-fee-raised-in-block-N(NotValidBefore)", func(c *stateCtx, n *chainx.Node, mk phMaker, w *chainx.World) (*transaction.Transaction, []*transaction.Transaction, error) {
			tip := n.Height()
			t, err := mk(4, transferScript(4, 1, 1), func(t *transaction.Transaction) { t.Attributes = append(t.Attributes, nvbAttr(tip)) })
			if err != nil {
				return nil, nil, err
			}
			bn, err := one(committee(n, "setAttributeFee", int64(transaction.NotValidBeforeT), c.cv.AttrFee[transaction.NotValidBeforeT]+1000000))
			return t, bn, err
		}},
		{"attribute-fee-raised-in-block-N(fee-still-sufficient)", func(c *stateCtx, n *chainx.Node, mk phMaker, w *chainx.World) (*transaction.Transaction, []*transaction.Transaction, error) {
			t, err := mk(4, transferScript(4, 1, 1), func(t *transaction.Transaction) {
				t.Attributes = append(t.Attributes, conflictsAttr(util.Uint256{0xC0, 6}))
				t.NetworkFee = 1000000
			})
			if err != nil {
				return nil, nil, err
			}
			bn, err := one(committee(n, "setAttributeFee", int64(transaction.ConflictsT), c.cv.AttrFee[transaction.ConflictsT]+1000000))
			return t, bn, err
		}},
		{"max-valid-until-increment-lowered-in-block-N", func(c *stateCtx, n *chainx.Node, mk phMaker, w *chainx.World) (*transaction.Transaction, []*transaction.Transaction, error) {
			tip := n.Height()
			t, err := mk(4, transferScript(4, 1, 1), func(t *transaction.Transaction) { t.ValidUntilBlock = tip + 50 })
			if err != nil {
				return nil, nil, err
			}
			bn, err := one(committee(n, "setMaxValidUntilBlockIncrement", int64(4)))
			return t, bn, err
		}},
		{"max-valid-until-increment-lowered-in-block-N(still-within)", func(c *stateCtx, n *chainx.Node, mk phMaker, w *chainx.World) (*transaction.Transaction, []*transaction.Transaction, error) {
			tip := n.Height()
			t, err := mk(4, transferScript(4, 1, 1), func(t *transaction.Transaction) { t.ValidUntilBlock = tip + 4 })
			if err != nil {
				return nil, nil, err
			}
			bn, err := one(committee(n, "setMaxValidUntilBlockIncrement", int64(4)))
			return t, bn, err
		}},
		{"contract-signer-destroyed-in-block-N", func(c *stateCtx, n *chainx.Node, mk phMaker, w *chainx.World) (*transaction.Transaction, []*transaction.Transaction, error) {
			if !c.cv.Contracts[w.UB.Hash] {
				return nil, nil, fmt.Errorf("UB not deployed")
			}
			t := c.contractSignedTx(n.Height(), w.UB.Hash, 0xC0710001)
			d, err := w.URun(1, w.UB, []any{[]any{chainx.OpCall, nativehashes.ContractManagement.BytesBE(), "destroy", 15, []any{}}})
			if err != nil {
				return nil, nil, err
			}
			return t, []*transaction.Transaction{retx(d)}, nil
		}},
		{"contract-signer-unaffected(still-valid)", func(c *stateCtx, n *chainx.Node, mk phMaker, w *chainx.World) (*transaction.Transaction, []*transaction.Transaction, error) {
			if !c.cv.Contracts[w.UB.Hash] {
				return nil, nil, fmt.Errorf("UB not deployed")
			}
			t := c.contractSignedTx(n.Height(), w.UB.Hash, 0xC0710002)
			bn, err := filler(mk)
			return t, bn, err
		}},
	}
}

// contractSignedTx is a transaction of account 4 co-signed by a deployed
// contract (empty witness: the contract's verify method is called).
func (c *stateCtx) contractSignedTx(tip uint32, contract util.Uint160, nonce uint32) *transaction.Transaction {
	t := transaction.New(transferScript(4, 1, 1), 1*gas)
	t.Nonce, t.ValidUntilBlock, t.NetworkFee = nonce, tip+6, gas/5
	t.Signers = []transaction.Signer{{Account: chainx.Acc(4).ScriptHash(), Scopes: transaction.CalledByEntry}, {Account: contract, Scopes: transaction.None}}
	t.Scripts = []transaction.Witness{{InvocationScript: make([]byte, 66), VerificationScript: chainx.Acc(4).Contract.Script}, {InvocationScript: []byte{}, VerificationScript: []byte{}}}
	t = retx(t)
	t.Scripts[0].InvocationScript = sigPush(chainx.Acc(4).PrivateKey().SignHashable(c.magic, t))
	return retx(t)
}

// buildPoolHist prepares the histories of this state; a history that cannot
// be built here (e.g. the committee call fails) is left out and counted n/a.
func (c *stateCtx) buildPoolHist() {
	c.ph = map[string]*poolHist{}
	hist, err := decodeAll(c.blocks, c.fam.SRIH)
	if err != nil {
		return
	}
	for si, sp := range phSpecs() {
		func() {
			n, w, err := c.sc.RefNode(c.h)
			if err != nil {
				return
			}
			defer n.Close()
			tip := n.Height()
			nonce := uint32(0xC0700000 + si*16)
			mk := func(a int, script []byte, opt func(t *transaction.Transaction)) (*transaction.Transaction, error) {
				nonce++
				nn := nonce
				t, err := n.MakeTx(script, []neotest.Signer{chainx.Signer(a)}, chainx.SysFee(1*gas), func(t *transaction.Transaction) {
					t.Nonce = nn
					t.ValidUntilBlock = tip + 6
					if opt != nil {
						opt(t)
					}
				})
				if err != nil {
					return nil, err
				}
				return retx(t), nil
			}
			t, blockN, err := sp.make(c, n, mk, w)
			if err != nil {
				return
			}
			// the two histories that need T's hash inside block N
			switch {
			case strings.HasPrefix(sp.name, "named-by-Conflicts") && strings.Contains(sp.name, "same-signer"):
				u, err := mk(5, transferScript(5, 1, 2), func(u *transaction.Transaction) { u.Attributes = append(u.Attributes, conflictsAttr(t.Hash())) })
				if err != nil {
					return
				}
				blockN = []*transaction.Transaction{u}
			case strings.HasPrefix(sp.name, "named-by-Conflicts"):
				u, err := mk(4, transferScript(4, 1, 2), func(u *transaction.Transaction) { u.Attributes = append(u.Attributes, conflictsAttr(t.Hash())) })
				if err != nil {
					return
				}
				blockN = []*transaction.Transaction{u}
			}
			if why := c.cv.txRules(t); len(why) != 0 {
				return // not valid when pooled: outside the alphabet
			}
			bn, err := n.NewBlock(blockN...)
			if err != nil {
				return
			}
			bnBytes, err := chainx.BlockBytes(bn)
			if err != nil {
				return
			}
			bnDec, err := chainx.DecodeBlock(bnBytes, c.fam.SRIH)
			if err != nil || !c.cv.judge(bnDec).Valid() {
				return
			}
			if err := n.AddBytes(bnBytes); err != nil {
				return
			}
			for _, bt := range bnDec.Transactions {
				if err := n.CheckHalt(bt.Hash()); err != nil && strings.Contains(err.Error(), "invalid committee signature") {
					return // block N elects another committee than the one that signed its transaction: the history would be a twin of "unaffected"
				}
			}
			cvN, err := c.viewOf(n, append(append([]*block.Block{}, hist...), bnDec))
			if err != nil {
				return
			}
			x, err := n.NewBlock(retx(t))
			if err != nil {
				return
			}
			xBytes, err := chainx.BlockBytes(x)
			if err != nil {
				return
			}
			xDec, err := chainx.DecodeBlock(xBytes, c.fam.SRIH)
			if err != nil {
				return
			}
			ph := &poolHist{Name: sp.name, T: t.Bytes(), BN: bnBytes, X: xBytes, V: cvN.judge(xDec)}
			if err := n.AddBytes(xBytes); err != nil {
				ph.RefErr = errClass(err)
			} else {
				ph.RefAccepted = true
				if sr, err := n.BC.GetStateRoot(x.Index); err == nil {
					ph.RefRoot = sr.Root.StringLE()
				}
			}
			c.ph[sp.name] = ph
		}()
	}
}

// runPoolHist executes one history on a fresh replica.
func (c *stateCtx) runPoolHist(d *delivery, o *outcome, bad func(what, errText string, diff []string, note string)) {
	ph := c.ph[d.PH]
	o.class = "pool-" + ph.V.class(util.Uint256{1}, util.Uint256{2})
	md := c.mode
	md.HdrKnown = false // block N of a history is not the b of the state
	n, err := c.prepareWith(md)
	if err != nil {
		o.harness = "prepare: " + err.Error()
		return
	}
	defer n.Close()
	try := func(f func() error) (err error) {
		o.execs++
		if perr := chainx.Try(func() { err = f() }); perr != nil {
			bad("panic", perr.Error(), nil, "")
			return perr
		}
		return err
	}
	t, err := transaction.NewTransactionFromBytes(ph.T)
	if err != nil {
		o.harness = err.Error()
		return
	}
	if err := n.BC.PoolTx(t); err != nil {
		o.harness = "the transaction of the history is not accepted into the pool at N-1: " + err.Error()
		return
	}
	bn, _ := chainx.DecodeBlock(ph.BN, c.fam.SRIH)
	x, _ := chainx.DecodeBlock(ph.X, c.fam.SRIH)
	if d.Ahead {
		_ = try(func() error { return n.BC.AddHeaders(&bn.Header, &x.Header) })
	}
	if err := try(func() error { return n.BC.AddBlock(bn) }); err != nil {
		bad("valid-block-rejected", err.Error(), nil, "block N of a mempool history (it does not contain the pooled transaction)")
		return
	}
	s1, err := takeSnap(n, c.maxID)
	if err != nil {
		bad("unreadable-after-valid-block", err.Error(), nil, "")
		return
	}
	still := n.BC.GetMemPool().ContainsKey(t.Hash())
	if err := n.Persist(); err != nil {
		bad("flush-failed", err.Error(), nil, "")
		return
	}
	dump0 := rawDump(n.Store)
	xerr := try(func() error { return n.BC.AddBlock(x) })
	o.errText = fmt.Sprintf("%s [still pooled after N: %v]", errClass(xerr), still)
	s2, err := takeSnap(n, c.maxID)
	if err != nil {
		bad("unreadable-after-delivery", err.Error(), nil, "")
		return
	}
	ref := "the replica with an empty pool accepts the same block"
	if !ph.RefAccepted {
		ref = "the replica with an empty pool rejects the same block: " + ph.RefErr
	}
	if xerr == nil {
		o.result = "accepted"
		switch {
		case !ph.V.Valid():
			bad("accepted-invalid-block", "", s1.diff(s2, true), fmt.Sprintf("the transaction was pooled at height N-1 (valid then), block N without it was accepted, block N+1 carries it with the pooled witnesses; %s; still pooled after block N: %v", ref, still))
		case !ph.RefAccepted:
			bad("verdict-depends-on-mempool-history", "", nil, ref)
		case s2.Root != ph.RefRoot:
			bad("state-differs-from-empty-pool-replica", "", []string{"StateRoot: " + s2.Root + " != " + ph.RefRoot}, "")
		}
		return
	}
	o.result = "rejected"
	if ph.RefAccepted {
		bad("verdict-depends-on-mempool-history", xerr.Error(), nil, ref)
		return
	}
	if df := s1.diff(s2, false); len(df) != 0 {
		bad("rejected-block-changed-state", xerr.Error(), df, "block N+1 of a mempool history")
		return
	}
	if err := n.Persist(); err != nil {
		bad("flush-failed", err.Error(), nil, "")
		return
	}
	if df, _ := dumpDiff(dump0, rawDump(n.Store), func(k string) bool { return headerKey(k, x.Hash()) }); len(df) != 0 {
		bad("rejected-block-changed-database", xerr.Error(), df, "block N+1 of a mempool history; raw database after a flush compared with the flush before the delivery")
	}
}
