package c06

// The alphabets of the longer pool histories (see poolrep_test.go).
//
//	pool-replay    every drop reason of pool-kinds (and every state-dependent
//	               witness condition that can turn true again) x what happens to T
//	               afterwards: still pooled -> block [T], then [T] AGAIN, then an
//	               empty block; dropped and valid again after a repairing block ->
//	               [T], [T] again; dropped -> [T] (invalid), repairing block, [T],
//	               [T] again; dropped for good -> [T], another block, [T] once more
//	pool-solvency  two or three transactions of ONE payer (ordinary sender; Notary
//	               contract paying from a depositor's deposit), affordable together;
//	               a block of the payer cuts the balance to a level at / one below
//	               every partial sum, so that every subset survives somewhere; then
//	               for every transaction: [Ti], [Ti] again, empty | wait until Ti
//	               expired, [Ti]; for every subset of >= 2: [subset], [subset] again
//	pool-evict     a transaction leaves the pool without any block: evicted by a
//	               better paying conflicting transaction, or by a better paying one
//	               when the pool is full (capacity 2), or never admitted (pool full)

import (
	"fmt"

	"github.com/nspcc-dev/neo-go/pkg/config"
	"github.com/nspcc-dev/neo-go/pkg/core/native/nativehashes"
	"github.com/nspcc-dev/neo-go/pkg/core/native/noderoles"
	"github.com/nspcc-dev/neo-go/pkg/core/transaction"
	"github.com/nspcc-dev/neo-go/pkg/util"

	"verif/lib/chainx"
)

type prTxs = []*transaction.Transaction

func prOne(t *transaction.Transaction, err error) (prTxs, error) {
	if err != nil {
		return nil, err
	}
	return prTxs{t}, nil
}

// committeeCall is a transaction of the committee in office calling a native contract.
func (e *prEnv) committeeCall(h util.Uint160, method string, args ...any) (*transaction.Transaction, error) {
	sg, err := e.committee()
	if err != nil {
		return nil, err
	}
	t, err := e.n.MakeTx(chainx.CallScript(h, method, args...), sg)
	if err != nil {
		return nil, err
	}
	return retx(t), nil
}

// fund moves GAS from account 1 to any address.
func (e *prEnv) fund(to util.Uint160, amount int64, data any) (*transaction.Transaction, error) {
	return e.std(chainx.Signer(1), chainx.CallScript(nativehashes.GasToken, "transfer", chainx.Acc(1).ScriptHash(), to, amount, data))
}

// shifted lets the alphabet of pool-kinds (which counts from e.k.N, the first
// block after the prelude) start one block later: a set-up block comes first.
func (e *prEnv) shifted() {
	k2 := *e.k
	k2.N++
	e.k = &k2
}

var prFundPayer = prBlock("fund the payer", func(e *prEnv) (prTxs, error) {
	return prOne(e.fund(chainx.Acc(prPayer).ScriptHash(), pwFund, nil))
})

// prNotarySetup designates the notary node and makes two deposits.
var prNotarySetup = prBlock("designate the notary node, two deposits", func(e *prEnv) (prTxs, error) {
	if !e.notaryActive() {
		return nil, fmt.Errorf("the Notary contract is not active at this state: %w", errPWNA)
	}
	d, err := e.committeeCall(nativehashes.RoleManagement, "designateAsRole", int64(noderoles.P2PNotary), []any{chainx.Acc(prNotaryNode).PublicKey().Bytes()})
	if err != nil {
		return nil, err
	}
	till := int64(e.n.Height() + 100)
	d1, err := e.fund(nativehashes.Notary, pwFund, []any{chainx.Acc(prDepositor).ScriptHash(), till})
	if err != nil {
		return nil, err
	}
	d2, err := e.fund(nativehashes.Notary, 60*gas, []any{chainx.Acc(prDepositor2).ScriptHash(), till})
	if err != nil {
		return nil, err
	}
	return prTxs{d, d1, d2}, nil
})

func prSpecs() []prSpec {
	var out []prSpec
	out = append(out, prSolvencySpecs()...)
	out = append(out, prEvictSpecs()...)
	out = append(out, prReplaySpecs()...)
	return out
}

// ---- pool-replay ------------------------------------------------------------------------------------------

// prRevals: the block that makes T valid again after the reason dropped it.
func prRevals() map[string]func(s *pwParty) pwStep {
	pol := func(method string, args func(e *pwEnv) []any) pwStep {
		return pwBlock(func(e *pwEnv) (*transaction.Transaction, error) { return e.policy(method, args(e)...) })
	}
	return map[string]func(s *pwParty) pwStep{
		"balance-spent-in-block-N": func(s *pwParty) pwStep {
			return pwBlock(func(e *pwEnv) (*transaction.Transaction, error) {
				return e.std(chainx.Signer(1), chainx.CallScript(nativehashes.GasToken, "transfer", chainx.Acc(1).ScriptHash(), s.Hash, int64(pwFund), nil))
			})
		},
		"signer-blocked-in-block-N": func(s *pwParty) pwStep {
			return pol("unblockAccount", func(e *pwEnv) []any { return []any{s.Hash} })
		},
		"fee-per-byte-raised-in-block-N": func(s *pwParty) pwStep {
			return pol("setFeePerByte", func(e *pwEnv) []any { return []any{e.k.FPB} })
		},
		"exec-fee-factor-raised-in-block-N": func(s *pwParty) pwStep {
			return pol("setExecFeeFactor", func(e *pwEnv) []any {
				f := e.n.BC.GetBaseExecFee()
				hf := config.HFFaun
				if !e.n.BC.IsHardforkEnabled(&hf, e.n.Height()+1) {
					f /= 10000
				}
				return []any{f / 2}
			})
		},
		"attribute-fee-raised-in-block-N(Conflicts)": func(s *pwParty) pwStep {
			return pol("setAttributeFee", func(e *pwEnv) []any {
				return []any{int64(transaction.ConflictsT), e.c.cv.AttrFee[transaction.ConflictsT]}
			})
		},
		"attribute-fee-raised-in-block-N(NotValidBefore)": func(s *pwParty) pwStep {
			return pol("setAttributeFee", func(e *pwEnv) []any {
				return []any{int64(transaction.NotValidBeforeT), e.c.cv.AttrFee[transaction.NotValidBeforeT]}
			})
		},
	}
}

func prReplaySpecs() []prSpec {
	var out []prSpec
	thorough := pwThorough()
	kinds := []string{"sig", "cs"}
	if thorough {
		kinds = []string{"sig", "cs", "msig", "vc"}
	}
	revals := prRevals()
	for _, kind := range kinds {
		kind := kind
		for _, rs := range pwReasons() {
			rs := rs
			if rs.only != "" && rs.only != kind {
				continue
			}
			type shape struct {
				name string
				want string
				tail func(s *pwParty) []prOp
			}
			var shapes []shape
			rv := revals[rs.name]
			switch {
			case rs.want == "valid":
				shapes = []shape{{"held.inc-replay", "VI", func(*pwParty) []prOp { return []prOp{prCarry("T"), prCarry("T")} }}}
			case rv != nil:
				shapes = []shape{{"dropped.reval.inc-replay", "VVI", func(s *pwParty) []prOp {
					return []prOp{prFromStep("repair", rv(s)), prCarry("T"), prCarry("T")}
				}}}
			default:
				shapes = []shape{{"dropped.later", "VI", func(*pwParty) []prOp { return []prOp{prCarry(), prCarry("T")} }}}
			}
			for _, sh := range shapes {
				sh := sh
				lead := ""
				if kind == "sig" {
					lead = "V"
				}
				out = append(out, prSpec{id: fmt.Sprintf("pr.%s.%s.%s", kind, rs.name, sh.name), group: "pool-replay", make: func(e *prEnv) ([]prOp, error) {
					var ops []prOp
					var s *pwParty
					if kind == "sig" {
						e.shifted()
						ops = append(ops, prFundPayer)
						s = pwSig(prPayer)
					} else {
						s = e.party(kind, "true")
					}
					t, steps, err := rs.build(e.pwEnv, s)
					if err != nil {
						return nil, err
					}
					ops = append(ops, prPool("T", func(*prEnv) (*transaction.Transaction, error) { return t, nil }))
					for i, st := range steps {
						ops = append(ops, prFromStep(fmt.Sprintf("reason %d", i+1), st))
					}
					return append(ops, sh.tail(s)...), nil
				}, want: lead + "V" + sh.want})
			}
		}
	}
	// second signers: blocked and unblocked, conflicting, unaffected
	for _, kind := range kinds {
		kind := kind
		second := func(e *prEnv) *pwParty {
			if kind == "sig" {
				return pwSig(5)
			}
			return e.party(kind, "true")
		}
		mk := func(id, want string, ops func(e *prEnv, t *transaction.Transaction, s2 *pwParty) []prOp) {
			out = append(out, prSpec{id: fmt.Sprintf("pr.%s.%s", kind, id), group: "pool-replay", want: want, make: func(e *prEnv) ([]prOp, error) {
				s2 := second(e)
				t := e.tx([]*pwParty{pwSig(4), s2}, pwTxOpt{})
				return append([]prOp{prPool("T", func(*prEnv) (*transaction.Transaction, error) { return t, nil })}, ops(e, t, s2)...), nil
			}})
		}
		pol := func(method string, s2 *pwParty) prOp {
			return prBlock(method, func(e *prEnv) (prTxs, error) { return prOne(e.policy(method, s2.Hash)) })
		}
		mk("second-signer-blocked-in-block-N.dropped.reval.inc-replay", "VVVI", func(e *prEnv, t *transaction.Transaction, s2 *pwParty) []prOp {
			return []prOp{pol("blockAccount", s2), pol("unblockAccount", s2), prCarry("T"), prCarry("T")}
		})
		mk("second-signer-blocked-in-block-N.dropped.later", "VVI", func(e *prEnv, t *transaction.Transaction, s2 *pwParty) []prOp {
			return []prOp{pol("blockAccount", s2), prCarry(), prCarry("T")}
		})
		mk("named-by-Conflicts-of-a-tx-of-its-second-signer.dropped.later", "VVI", func(e *prEnv, t *transaction.Transaction, s2 *pwParty) []prOp {
			u := e.tx([]*pwParty{s2}, pwTxOpt{attrs: []transaction.Attribute{conflictsAttr(t.Hash())}})
			return []prOp{prBlock("conflicting", func(*prEnv) (prTxs, error) { return prTxs{retx(u)}, nil }), prCarry(), prCarry("T")}
		})
		mk("second-signer-unaffected.held.inc-replay", "VVI", func(e *prEnv, t *transaction.Transaction, s2 *pwParty) []prOp {
			return []prOp{prBlock("filler", func(e *prEnv) (prTxs, error) { return prOne(e.filler()) }), prCarry("T"), prCarry("T")}
		})
	}
	// transactions sent by the Notary contract (paid from a deposit): reasons of their own
	{
		designate := func(acc int) prOp {
			return prBlock(fmt.Sprintf("designate account %d as the notary node", acc), func(e *prEnv) (prTxs, error) {
				return prOne(e.committeeCall(nativehashes.RoleManagement, "designateAsRole", int64(noderoles.P2PNotary), []any{chainx.Acc(acc).PublicKey().Bytes()}))
			})
		}
		attrFee := func(d int64) prOp {
			return prBlock(fmt.Sprintf("NotaryAssisted attribute fee %+d", d), func(e *prEnv) (prTxs, error) {
				return prOne(e.policy("setAttributeFee", int64(transaction.NotaryAssistedT), e.n.BC.GetNotaryServiceFeePerKey()+d))
			})
		}
		pol := func(method string) prOp {
			return prBlock(method+" depositor", func(e *prEnv) (prTxs, error) { return prOne(e.policy(method, chainx.Acc(prDepositor).ScriptHash())) })
		}
		filler := prBlock("filler", func(e *prEnv) (prTxs, error) { return prOne(e.filler()) })
		for _, v := range []struct {
			id, want string
			extra    int64
			ops      []prOp
		}{
			{"unaffected.held.inc-replay", "VVVI", 0, []prOp{filler, prCarry("T"), prCarry("T")}},
			{"notary-node-replaced-in-block-N.dropped.later", "VVVI", 0, []prOp{designate(prDepositor2), prCarry(), prCarry("T")}},
			{"notary-node-replaced-in-block-N.dropped.reval.inc-replay", "VVVVI", 0, []prOp{designate(prDepositor2), designate(prNotaryNode), prCarry("T"), prCarry("T")}},
			{"attribute-fee-raised-in-block-N(NotaryAssisted).dropped.later", "VVVI", 0, []prOp{attrFee(1000000), prCarry(), prCarry("T")}},
			{"attribute-fee-raised-in-block-N(NotaryAssisted).dropped.reval.inc-replay", "VVVVI", 0, []prOp{attrFee(1000000), attrFee(-1000000), prCarry("T"), prCarry("T")}},
			{"attribute-fee-raised-in-block-N(fee-still-sufficient).held.inc-replay", "VVVI", 2 * 1000000, []prOp{attrFee(1000000), prCarry("T"), prCarry("T")}},
			{"depositor-blocked-in-block-N.dropped.later", "VVVI", 0, []prOp{pol("blockAccount"), prCarry(), prCarry("T")}},
			{"depositor-blocked-in-block-N.dropped.reval.inc-replay", "VVVVI", 0, []prOp{pol("blockAccount"), pol("unblockAccount"), prCarry("T"), prCarry("T")}},
		} {
			v := v
			out = append(out, prSpec{id: "pr.notary." + v.id, group: "pool-replay", want: v.want, make: func(e *prEnv) ([]prOp, error) {
				ops := []prOp{prNotarySetup, prPool("T", func(e *prEnv) (*transaction.Transaction, error) {
					return e.notaryTx(prDepositor, pwTxOpt{extra: v.extra, vub: e.n.Height() + 6}), nil
				})}
				return append(ops, v.ops...), nil
			}})
		}
	}
	// state-dependent witnesses that turn false and true again
	for _, cd := range pwCondDefs() {
		cd := cd
		if cd.reval == nil {
			continue
		}
		for _, carrier := range []string{"cs", "vc"} {
			carrier := carrier
			for _, sh := range []struct{ name, want string }{{"inv.reval.inc-replay", "VVVI"}} {
				sh := sh
				out = append(out, prSpec{id: fmt.Sprintf("pr.w.%s.%s.%s", cd.cond, carrier, sh.name), group: "pool-replay", want: sh.want, make: func(e *prEnv) ([]prOp, error) {
					t := e.tx(pwSigners(e.pwEnv, carrier, cd.cond, "first"), pwTxOpt{extra: pwGenerous})
					ops := []prOp{prPool("T", func(*prEnv) (*transaction.Transaction, error) { return t, nil }), prFromStep("falsify", cd.inv["inv"])}
					return append(ops, prFromStep("repair", *cd.reval), prCarry("T"), prCarry("T")), nil
				}})
			}
		}
	}
	return out
}

// ---- pool-solvency ----------------------------------------------------------------------------------------

var prSysFees = []int64{40 * gas, 30 * gas, 20 * gas} // T1, T2, T3
var prExtras = []int64{3000000, 2000000, 1000000}     // on top of the minimal network fee: T1 has the highest priority

type prLevel struct {
	name string
	keep []int // the transactions whose costs make up the level
	less int64 // minus this
}

func prLevels(k int) []prLevel {
	if k == 2 {
		return []prLevel{{"all", []int{1, 2}, 0}, {"all-1", []int{1, 2}, 1}, {"1", []int{1}, 0}, {"1-1", []int{1}, 1}, {"2-1", []int{2}, 1}, {"0", nil, 0}}
	}
	return []prLevel{{"all", []int{1, 2, 3}, 0}, {"all-1", []int{1, 2, 3}, 1}, {"12", []int{1, 2}, 0}, {"12-1", []int{1, 2}, 1}, {"13-1", []int{1, 3}, 1},
		{"1", []int{1}, 0}, {"1-1", []int{1}, 1}, {"2-1", []int{2}, 1}, {"3-1", []int{3}, 1}, {"0", nil, 0}}
}

// prNominal is the cost of Ti without its network fee, enough to predict the
// verdicts (network fees are a few thousandths of a GAS).
func prNominal(i int) int64 { return prSysFees[i-1] }

// affordable: can the payer with the balance of level l pay the transactions of set?
func prAffordable(l prLevel, set []int) bool {
	// exact on the nominal values: the level is the sum over l.keep (minus l.less);
	// the set is affordable iff its sum does not exceed that.
	in := map[int]bool{}
	for _, i := range l.keep {
		in[i] = true
	}
	var sumSet, sumLevel int64
	sub := true
	for _, i := range set {
		sumSet += prNominal(i)
		if !in[i] {
			sub = false
		}
	}
	for _, i := range l.keep {
		sumLevel += prNominal(i)
	}
	if sumSet != sumLevel {
		return sumSet < sumLevel
	}
	// equal nominal sums can only be the same set here (40, 30, 20 have distinct subset sums except 30+20 > 40)
	return sub && l.less == 0
}

// prSurvives: does Ti stay pooled after the cut to level l when the pool keeps
// transactions greedily in priority order (T1 first)? Only used to choose the
// follow-ups (nothing is asserted about it).
func prSurvives(l prLevel, k, i int) bool {
	var bal int64
	for _, j := range l.keep {
		bal += prNominal(j)
	}
	bal -= l.less // nominal costs are 10 GAS apart: one unit less decides exactly like one datoshi less
	for j := 1; j <= k; j++ {
		ok := prNominal(j) <= bal
		if ok {
			bal -= prNominal(j)
		}
		if j == i {
			return ok
		}
	}
	return false
}

func prSolvencySpecs() []prSpec {
	var out []prSpec
	kinds := []string{"sig", "notary"}
	thorough := pwThorough()
	if thorough {
		kinds = []string{"sig", "notary", "msig", "cs", "vc"}
	}
	for _, k := range []int{2, 3} {
		k := k
		for _, kind := range kinds {
			kind := kind
			if k == 3 && kind != "sig" && kind != "notary" {
				continue // the other sender kinds with two transactions only
			}
			lead := ""
			if kind == "sig" || kind == "notary" {
				lead = "V"
			}
			for _, lv := range prLevels(k) {
				lv := lv
				// the common part: set-up, pool T1..Tk, cut the balance to the level
				head := func(e *prEnv) []prOp {
					var ops []prOp
					var party *pwParty
					switch kind {
					case "sig":
						ops = append(ops, prFundPayer)
						party = pwSig(prPayer)
					case "notary":
						ops = append(ops, prNotarySetup)
					default:
						party = e.party(kind, "true")
					}
					mkTx := func(e *prEnv, o pwTxOpt) *transaction.Transaction {
						if kind == "notary" {
							return e.notaryTx(prDepositor, o)
						}
						o.script = pwSelfTransfer(party)
						return e.tx([]*pwParty{party}, o)
					}
					balance := func(e *prEnv) int64 {
						if kind == "notary" {
							return e.n.BC.GetUtilityTokenBalance(nativehashes.Notary, chainx.Acc(prDepositor).ScriptHash()).Int64()
						}
						return e.n.BC.GetUtilityTokenBalance(party.Hash, util.Uint160{}).Int64()
					}
					for i := 1; i <= k; i++ {
						i := i
						ops = append(ops, prPool(fmt.Sprintf("T%d", i), func(e *prEnv) (*transaction.Transaction, error) {
							vub := e.n.Height() + 3
							if i > 1 {
								vub = e.named["T1"].ValidUntilBlock
							}
							return mkTx(e, pwTxOpt{sysFee: prSysFees[i-1], extra: prExtras[i-1], vub: vub}), nil
						}))
					}
					cut := prBlock("cut to level "+lv.name, func(e *prEnv) (prTxs, error) {
						var level int64
						for _, i := range lv.keep {
							level += e.cost(fmt.Sprintf("T%d", i))
						}
						level -= lv.less
						bal := balance(e)
						u0 := mkTx(e, pwTxOpt{sysFee: 1})
						sys := bal - level - u0.NetworkFee
						if sys < 1 {
							return nil, fmt.Errorf("balance %d too small for level %d", bal, level)
						}
						u := mkTx(e, pwTxOpt{sysFee: sys})
						if u.NetworkFee != u0.NetworkFee {
							return nil, fmt.Errorf("network fee depends on the system fee: %d %d", u.NetworkFee, u0.NetworkFee)
						}
						return prTxs{u}, nil
					})
					cut.mayFault = true
					return append(ops, cut)
				}
				add := func(tail string, want string, ops func() []prOp) {
					sp := prSpec{id: fmt.Sprintf("ps.%s.k%d.L=%s.%s", kind, k, lv.name, tail), group: "pool-solvency", want: lead + "V" + want,
						make: func(e *prEnv) ([]prOp, error) { return append(head(e), ops()...), nil }}
					out = append(out, sp)
					if k == 2 && kind == "sig" {
						sp.id += ".headers-ahead"
						sp.ahead = true
						out = append(out, sp)
					}
				}
				for i := 1; i <= k; i++ {
					nm := fmt.Sprintf("T%d", i)
					ok := prAffordable(lv, []int{i})
					if ok {
						add(nm+".inc-replay", "VI", func() []prOp { return []prOp{prCarry(nm), prCarry(nm)} })
					} else {
						add(nm+".inc", "I", func() []prOp { return []prOp{prCarry(nm)} })
					}
					if !prSurvives(lv, k, i) || lv.name == "all" {
						// waiting for the expiry: for the transactions the cut pushes out (and once with nothing pushed out)
						add(nm+".expire", "VVI", func() []prOp { return []prOp{prCarry(), prCarry(), prCarry(nm)} })
					}
				}
				var subsets [][]int
				if k == 2 {
					subsets = [][]int{{1, 2}}
				} else {
					subsets = [][]int{{1, 2}, {1, 3}, {2, 3}, {1, 2, 3}}
				}
				for _, set := range subsets {
					if kind == "notary" && len(set) == 2 && set[0] != 1 {
						continue // the depositor's pairs: {1,2} and {1,3}
					}
					if kind != "sig" && kind != "notary" {
						break // the other sender kinds: single transactions only
					}
					var names []string
					tag := ""
					for _, i := range set {
						names = append(names, fmt.Sprintf("T%d", i))
						tag += fmt.Sprint(i)
					}
					ok := prAffordable(lv, set)
					if ok {
						add("T"+tag+".together-replay", "VI", func() []prOp { return []prOp{prCarry(names...), prCarry(names...)} })
					} else {
						add("T"+tag+".together", "I", func() []prOp { return []prOp{prCarry(names...)} })
					}
				}
			}
		}
	}
	return out
}

// ---- pool-evict -------------------------------------------------------------------------------------------

func prEvictSpecs() []prSpec {
	var out []prSpec
	// (1) evicted by a conflicting transaction that pays more
	type cshape struct {
		name, want string
		tail       []prOp
	}
	for _, two := range []bool{false, true} {
		two := two
		pre := "pe.conflict"
		if two {
			pre = "pe.conflict-second-signer" // T is signed by A and B, T' by B alone
		}
		for _, sh := range []cshape{
			{"old-then-new", "VI", []prOp{prCarry("T"), prCarry("T'")}},
			{"old-replay", "VI", []prOp{prCarry("T"), prCarry("T")}},
			{"new-then-old", "VI", []prOp{prCarry("T'"), prCarry("T")}},
			{"new-replay", "VI", []prOp{prCarry("T'"), prCarry("T'")}},
			{"both", "I", []prOp{prCarry("T", "T'")}},
			{"both-reversed", "I", []prOp{prCarry("T'", "T")}},
		} {
			sh := sh
			out = append(out, prSpec{id: pre + "." + sh.name, group: "pool-evict", want: sh.want, make: func(e *prEnv) ([]prOp, error) {
				signers := []*pwParty{pwSig(5)}
				if two {
					signers = []*pwParty{pwSig(4), pwSig(5)}
				}
				t := e.tx(signers, pwTxOpt{})
				t2 := e.tx([]*pwParty{pwSig(5)}, pwTxOpt{attrs: []transaction.Attribute{conflictsAttr(t.Hash())}, extra: 5000000})
				ops := []prOp{
					prPool("T", func(*prEnv) (*transaction.Transaction, error) { return t, nil }),
					prPool("T'", func(*prEnv) (*transaction.Transaction, error) { return t2, nil }),
				}
				return append(ops, sh.tail...), nil
			}})
		}
	}
	// (1b) oracle responses (states with pending oracle requests only): a pooled response is
	// replaced by a better paying response to the same request / refuses a cheaper one / goes
	// stale because a block answers the request
	{
		osp := func(e *prEnv, name string) (*transaction.Transaction, error) {
			t := e.c.sp[name]
			if t == nil {
				return nil, fmt.Errorf("no pending oracle requests at this state: %w", errPWNA)
			}
			return retx(t), nil
		}
		pool := func(hist, special string, mayFail bool) prOp {
			op := prPool(hist, func(e *prEnv) (*transaction.Transaction, error) { return osp(e, special) })
			op.mayFail = mayFail
			return op
		}
		blockOf := func(special string) prOp {
			op := prBlock("carry "+special, func(e *prEnv) (prTxs, error) { return prOne(osp(e, special)) })
			op.mayFault = true // the callback of the requesting contract takes other parameters: the response is charged and faults
			return op
		}
		for _, v := range []struct {
			id, group, want string
			ops             []prOp
		}{
			{"pe.oracle.replaced.new-then-old", "pool-evict", "VI", []prOp{pool("R", "oracle-r0", false), pool("R+", "oracle-r0-again-more", false), prCarry("R+"), prCarry("R")}},
			{"pe.oracle.replaced.old-then-new", "pool-evict", "VI", []prOp{pool("R", "oracle-r0", false), pool("R+", "oracle-r0-again-more", false), prCarry("R"), prCarry("R+")}},
			{"pe.oracle.replaced.old-replay", "pool-evict", "VI", []prOp{pool("R", "oracle-r0", false), pool("R+", "oracle-r0-again-more", false), prCarry("R"), prCarry("R")}},
			{"pe.oracle.replaced.both", "pool-evict", "I", []prOp{pool("R", "oracle-r0", false), pool("R+", "oracle-r0-again-more", false), prCarry("R", "R+")}},
			{"pe.oracle.refused.cheaper-then-pooled", "pool-evict", "VI", []prOp{pool("R", "oracle-r0", false), pool("R-", "oracle-r0-again-less", true), prCarry("R-"), prCarry("R")}},
			{"pe.oracle.refused.cheaper-replay", "pool-evict", "VI", []prOp{pool("R", "oracle-r0", false), pool("R-", "oracle-r0-again-less", true), prCarry("R-"), prCarry("R-")}},
			{"pr.oracle.answered-in-block-N.dropped.later", "pool-replay", "VVI", []prOp{pool("R", "oracle-r0", false), blockOf("oracle-r0-again-equal"), prCarry(), prCarry("R")}},
			{"pr.oracle.other-request-answered-in-block-N.held.inc-replay", "pool-replay", "VVI", []prOp{pool("R", "oracle-r0", false), blockOf("oracle-r1"), prCarry("R"), prCarry("R")}},
			{"pr.oracle.two-pooled.inc-both-replay", "pool-replay", "VVI", []prOp{pool("R", "oracle-r0", false), pool("Q", "oracle-r1", false), prCarry("R"), prCarry("Q"), prCarry("Q", "R")}},
		} {
			v := v
			out = append(out, prSpec{id: v.id, group: v.group, want: v.want, make: func(e *prEnv) ([]prOp, error) {
				if _, err := osp(e, "oracle-r0"); err != nil {
					return nil, err
				}
				return v.ops, nil
			}})
		}
	}
	// (2) pool of capacity 2: T3 pushes the cheapest one out, T4 is never admitted
	head := func(e *prEnv) []prOp {
		mk := func(name string, acc int, extra int64, mayFail bool) prOp {
			op := prPool(name, func(e *prEnv) (*transaction.Transaction, error) {
				return e.tx([]*pwParty{pwSig(acc)}, pwTxOpt{extra: extra}), nil
			})
			op.mayFail = mayFail
			return op
		}
		return []prOp{mk("T1", 4, 2000000, false), mk("T2", 5, 1000000, false), mk("T3", 6, 3000000, false), mk("T4", 2, 0, true)}
	}
	for i := 1; i <= 4; i++ {
		nm := fmt.Sprintf("T%d", i)
		out = append(out, prSpec{id: "pe.capacity." + nm + ".inc-replay", group: "pool-evict", want: "VI", memPool: 2, make: func(e *prEnv) ([]prOp, error) {
			return append(head(e), prCarry(nm), prCarry(nm)), nil
		}})
	}
	out = append(out, prSpec{id: "pe.capacity.all.together-replay", group: "pool-evict", want: "VI", memPool: 2, make: func(e *prEnv) ([]prOp, error) {
		return append(head(e), prCarry("T1", "T2", "T3", "T4"), prCarry("T4", "T3", "T2", "T1")), nil
	}})
	return out
}
