package c06

// Longer mempool histories (third extension round): SEVERAL pooled
// transactions, several blocks, and what happens to a transaction AFTER it left
// the pool. AddBlock does not verify a block transaction again while the pool
// answers TryGetValue for its hash with the same witnesses, so every way a
// transaction leaves the pool (stale after a block for one of the reasons of
// poolhist/poolwit, unaffordable next to the payer's other transactions after a
// block cut the payer's balance or Notary deposit, evicted by a conflicting or
// better paying transaction) must leave nothing behind that a later block can
// use: a block that REPLAYS an on-chain transaction, or carries an expired one,
// must be rejected whatever the node pooled before.
//
// A history is a program over a chain state S + prelude block P (poolwit):
//
//	pool(T)    PoolTx on the node under test (the reference replica only verifies)
//	relay(T)   PoolTx once more
//	block(..)  a validly signed and linked next block built on the reference
//	           replica: helper transactions built at that state and/or history
//	           transactions with the pooled witnesses; valid or not
//
// Oracle (unchanged): the independent predicate judges every block on the view
// of the state it is delivered at; the reference replica that never pooled
// anything gets the same blocks; the node under test must give the same verdict
// for every block and the same state root after every accepted one; a rejected
// block leaves state, mempool and (after a flush) the raw database unchanged
// except header keys. After every block the three views of the pool (listing,
// lookups by hash, count) are compared on the node under test; a disagreement
// is a diagnostic note only, but it starts a probe (block carrying the
// transaction the views disagree on, then the same transaction once more) that
// is judged by the same oracle.

import (
	"crypto/elliptic"
	"errors"
	"fmt"
	"os"
	"sort"
	"strings"

	"github.com/nspcc-dev/neo-go/pkg/config"
	"github.com/nspcc-dev/neo-go/pkg/core/block"
	"github.com/nspcc-dev/neo-go/pkg/core/native/nativehashes"
	"github.com/nspcc-dev/neo-go/pkg/core/native/nativeids"
	"github.com/nspcc-dev/neo-go/pkg/core/native/noderoles"
	"github.com/nspcc-dev/neo-go/pkg/core/transaction"
	"github.com/nspcc-dev/neo-go/pkg/crypto/keys"
	"github.com/nspcc-dev/neo-go/pkg/util"
	"github.com/nspcc-dev/neo-go/pkg/vm/stackitem"

	"verif/lib/chainx"
	"verif/lib/vk"
)

// accounts of the cast of this round (none of them is used anywhere else)
const (
	prPayer      = 11 // ordinary sender of the solvency histories
	prDepositor  = 12 // owner of the Notary deposit the Notary contract pays from
	prNotaryNode = 13 // the designated notary node
	prDepositor2 = 14 // a second depositor (its deposit must never pay for the first one's transactions)
)

// ---- the predicate's knowledge of the native Notary contract ------------------------------------------

type notaryView struct {
	Active  bool                   // NotaryAssisted attribute / Notary contract active at the tip
	Nodes   [][]byte               // keys of the latest designated notary nodes
	Deposit map[util.Uint160]int64 // depositor -> GAS held for it by the Notary contract
	Cost0   int64                  // verification cost of the Notary contract's witness in datoshi at Base0
	Base0   int64
}

func (nv *notaryView) attrRules(t *transaction.Transaction) []string {
	var why []string
	if !nv.Active {
		why = append(why, "NotaryAssisted attribute while the Notary contract is not active")
	}
	if !hasSigner(t, nativehashes.Notary) {
		why = append(why, "NotaryAssisted attribute without the Notary contract among the signers")
	}
	if t.Sender() == nativehashes.Notary && len(t.Signers) != 2 {
		why = append(why, "the Notary contract sends a transaction that does not have exactly two signers")
	}
	return why
}

// witness judges the witness of the Notary contract (signer i of t): one
// signature of a designated notary node, scope None, NotaryAssisted attribute
// present and, when the contract is the sender, a deposit of the second signer
// that covers the fees of this transaction.
func (nv *notaryView) witness(cv *chainView, t *transaction.Transaction, i int) (why []string, cost int64) {
	say := func(s string) { why = append(why, fmt.Sprintf("witness %d: %s", i, s)) }
	w := &t.Scripts[i]
	if !nv.Active {
		say("the Notary contract is not active")
		return why, 0
	}
	if len(w.VerificationScript) != 0 {
		say("verification script given for the Notary contract")
		return why, 0
	}
	sigs, ok := pushedSigs(w.InvocationScript)
	if !ok || len(sigs) != 1 {
		say("invocation script is not one signature")
		return why, 0
	}
	cost = nv.Cost0
	if nv.Base0 != 0 && cv.BaseExecFee != nv.Base0 {
		cost = (nv.Cost0*cv.BaseExecFee + nv.Base0 - 1) / nv.Base0
	}
	if len(t.GetAttributes(transaction.NotaryAssistedT)) == 0 {
		say("the Notary contract signs notary-assisted transactions only")
	}
	if t.Signers[i].Scopes != transaction.None {
		say("scope of the Notary contract's signer is not None")
	}
	if t.Sender() == nativehashes.Notary {
		if len(t.Signers) != 2 {
			say("the Notary contract sends a transaction that does not have exactly two signers")
		} else if nv.Deposit[t.Signers[1].Account] < t.SystemFee+t.NetworkFee {
			say("the Notary deposit of the second signer does not cover the fees")
		}
	}
	signed := false
	for _, pb := range nv.Nodes {
		if pk, err := keys.NewPublicKeyFromBytes(pb, elliptic.P256()); err == nil && pk.VerifyHashable(sigs[0], cv.Magic, t) {
			signed = true
		}
	}
	if !signed {
		say("signature of no designated notary node")
	}
	return why, cost
}

// ---- construction ---------------------------------------------------------------------------------------

type prOp struct {
	kind     string // pool | relay | block
	name     string // pool/relay: name of the history transaction; block: label
	mk       func(e *prEnv) (*transaction.Transaction, error)
	mayFail  bool // pool: the node may refuse it (pool capacity)
	txs      func(e *prEnv) ([]*transaction.Transaction, error)
	mayFault bool // block: its helper transactions need not HALT
}

func prPool(name string, mk func(e *prEnv) (*transaction.Transaction, error)) prOp {
	return prOp{kind: "pool", name: name, mk: mk}
}

func prRelay(name string) prOp { return prOp{kind: "relay", name: name} }

func prBlock(label string, txs func(e *prEnv) ([]*transaction.Transaction, error)) prOp {
	return prOp{kind: "block", name: label, txs: txs}
}

// prCarry is the block that carries the named history transactions (with the
// pooled witnesses) and nothing else; no name = empty block.
func prCarry(names ...string) prOp {
	label := "carry " + strings.Join(names, "+")
	if len(names) == 0 {
		label = "empty"
	}
	return prBlock(label, func(e *prEnv) ([]*transaction.Transaction, error) {
		var out []*transaction.Transaction
		for _, nm := range names {
			out = append(out, e.T(nm))
		}
		return out, nil
	})
}

// prFromStep wraps a block step of the witness histories.
func prFromStep(label string, st pwStep) prOp {
	if st.relay {
		panic("relay step has no block")
	}
	return prBlock(label, func(e *prEnv) ([]*transaction.Transaction, error) { return st.txs(e.pwEnv) })
}

type prSpec struct {
	id      string
	group   string
	want    string // expected predicate verdicts of the blocks, one letter per block (V valid, I invalid); "" = whatever
	memPool int    // > 0: capacity of the pool of the node under test (the pool content of the state's mode is left out)
	ahead   bool   // the headers of all blocks of the history are delivered (AddHeaders) before anything else
	make    func(e *prEnv) ([]prOp, error)
}

// prEnv is the construction site of one history (reference replica at P).
type prEnv struct {
	*pwEnv
	named      map[string]*transaction.Transaction
	notaryCost int64
	notaryBase int64
}

// T returns a fresh copy of a history transaction.
func (e *prEnv) T(name string) *transaction.Transaction {
	t := e.named[name]
	if t == nil {
		panic("no history transaction " + name)
	}
	return retx(t)
}

// cost is what the payer loses when the named transaction gets into a block.
func (e *prEnv) cost(name string) int64 {
	t := e.named[name]
	if t == nil {
		panic("no history transaction " + name)
	}
	return t.SystemFee + t.NetworkFee
}

func (e *prEnv) notaryActive() bool {
	hf := config.HFEchidna
	return e.n.BC.IsHardforkEnabled(&hf, e.n.Height()) && e.n.BC.GetContractState(nativehashes.Notary) != nil
}

// notaryParty is the Notary contract as a signer: contract witness whose only
// argument is the signature of the designated notary node.
func prNotaryParty() *pwParty {
	a := chainx.Acc(prNotaryNode)
	return &pwParty{Name: "notary", Hash: nativehashes.Notary, Verif: []byte{}, Inv: func(magic uint32, t *transaction.Transaction) []byte {
		return sigPush(a.PrivateKey().SignHashable(magic, t))
	}}
}

// notaryTx builds a transaction SENT by the Notary contract: its fees come out
// of the deposit of the second signer.
func (e *prEnv) notaryTx(depositor int, o pwTxOpt) *transaction.Transaction {
	o.scopes = []transaction.WitnessScope{transaction.None, transaction.CalledByEntry}
	o.attrs = append(append([]transaction.Attribute{}, o.attrs...), transaction.Attribute{Type: transaction.NotaryAssistedT, Value: &transaction.NotaryAssisted{NKeys: 1}})
	if o.script == nil {
		o.script = chainx.CallScript(nativehashes.GasToken, "transfer", chainx.Acc(depositor).ScriptHash(), chainx.Acc(1).ScriptHash(), int64(1), nil)
	}
	t := e.tx([]*pwParty{prNotaryParty(), pwSig(depositor)}, o)
	if e.notaryCost == 0 {
		g, err := e.n.BC.VerifyWitness(nativehashes.Notary, t, &t.Scripts[0], 10*gas)
		if err != nil {
			panic(fmt.Errorf("Notary witness does not verify where it is built: %w", err))
		}
		e.notaryCost, e.notaryBase = g, e.n.BC.GetBaseExecFee()
	}
	return t
}

// prStep is one step of a built history (wire form + the reference verdicts).
type prStep struct {
	Kind      string
	Name      string // history transaction (pool, relay) or label (block)
	Raw       []byte
	MayFail   bool
	RefVerify string // pool, relay: isolated verification (VerifyTx) on the reference replica
	V         verdict
	RefOK     bool
	RefErr    string
	RefRoot   string
	Carries   []string // history transactions the block carries
}

type prBuildViol struct {
	what, err, note string
	why             []string
}

type prHist struct {
	Steps  []prStep
	Names  []string
	Txs    map[string][]byte
	Custom map[util.Uint160]*pwWit
	NCost  int64
	NBase  int64
	Viol   *prBuildViol // the reference replica itself contradicts the predicate
	Class  string
}

// prView is pwView plus the accounts of this round and the Notary contract.
func (c *stateCtx) prView(n *chainx.Node, hist []*block.Block, custom map[util.Uint160]*pwWit, ncost, nbase int64) (*chainView, error) {
	cv, err := c.pwView(n, hist, custom)
	if err != nil {
		return nil, err
	}
	for _, i := range []int{prPayer, prDepositor, prNotaryNode, prDepositor2} {
		a := chainx.Acc(i).ScriptHash()
		cv.Balance[a] = n.BC.GetUtilityTokenBalance(a, util.Uint160{}).Int64()
	}
	nv := &notaryView{Deposit: map[util.Uint160]int64{}, Cost0: ncost, Base0: nbase}
	hf := config.HFEchidna
	nv.Active = n.BC.IsHardforkEnabled(&hf, n.Height()) && n.BC.GetContractState(nativehashes.Notary) != nil
	if nv.Active {
		best := int64(-1)
		n.BC.SeekStorage(nativeids.RoleManagement, []byte{byte(noderoles.P2PNotary)}, func(k, v []byte) bool {
			if len(k) != 4 {
				return true
			}
			idx := int64(k[0])<<24 | int64(k[1])<<16 | int64(k[2])<<8 | int64(k[3])
			if idx <= best {
				return true
			}
			it, err := stackitem.Deserialize(v)
			if err != nil {
				return true
			}
			arr, ok := it.Value().([]stackitem.Item)
			if !ok {
				return true
			}
			var nodes [][]byte
			for _, x := range arr {
				if b, err := x.TryBytes(); err == nil {
					nodes = append(nodes, b)
				}
			}
			best, nv.Nodes = idx, nodes
			return true
		})
		for _, i := range []int{prDepositor, prDepositor2} {
			a := chainx.Acc(i).ScriptHash()
			nv.Deposit[a] = n.BC.GetUtilityTokenBalance(nativehashes.Notary, a).Int64()
		}
	}
	cv.NV = nv
	return cv, nil
}

// buildPR constructs the history of sp on a fresh reference replica.
func (c *stateCtx) buildPR(sp prSpec) (h *prHist, err error) {
	k := c.pw
	if k == nil || k.err != nil {
		return nil, fmt.Errorf("prelude: %v", k.err)
	}
	n, _, err := c.sc.RefNode(c.h)
	if err != nil {
		return nil, err
	}
	defer n.Close()
	if err := n.AddBytes(k.P); err != nil {
		return nil, fmt.Errorf("prelude block: %w", err)
	}
	hist, err := decodeAll(append(append([][]byte{}, c.blocks...), k.P), c.fam.SRIH)
	if err != nil {
		return nil, err
	}
	e := &prEnv{pwEnv: &pwEnv{c: c, k: k, n: n, nonce: 0xC0690000, custom: map[util.Uint160]*pwWit{}}, named: map[string]*transaction.Transaction{}}
	guard := func(f func() error) error {
		var ferr error
		perr := chainx.Try(func() { ferr = f() })
		if e.na != "" {
			return fmt.Errorf("%s: %w", e.na, errPWNA)
		}
		if perr != nil {
			return perr
		}
		return ferr
	}
	var ops []prOp
	if err := guard(func() (err error) { ops, err = sp.make(e); return }); err != nil {
		return nil, err
	}
	view := func() (*chainView, error) { return c.prView(n, hist, e.custom, e.notaryCost, e.notaryBase) }
	h = &prHist{Txs: map[string][]byte{}}
	defer func() {
		if h != nil {
			h.Custom, h.NCost, h.NBase = e.custom, e.notaryCost, e.notaryBase
		}
	}()
	for oi, op := range ops {
		switch op.kind {
		case "pool":
			var t *transaction.Transaction
			if err := guard(func() (err error) { t, err = op.mk(e); return }); err != nil {
				return nil, fmt.Errorf("step %d (pool %s): %w", oi, op.name, err)
			}
			t = retx(t)
			if _, dup := e.named[op.name]; dup {
				return nil, fmt.Errorf("step %d: history transaction %s defined twice", oi, op.name)
			}
			e.named[op.name] = t
			h.Names = append(h.Names, op.name)
			h.Txs[op.name] = t.Bytes()
			verr := n.BC.VerifyTx(retx(t))
			{
				cv, err := view()
				if err != nil {
					return nil, err
				}
				if why := cv.txRules(t); len(why) != 0 {
					return nil, fmt.Errorf("step %d: the predicate rejects transaction %s where it is pooled: %v", oi, op.name, why)
				}
				if verr != nil {
					return nil, fmt.Errorf("step %d: the reference replica rejects transaction %s where it is pooled: %w", oi, op.name, verr)
				}
			}
			h.Steps = append(h.Steps, prStep{Kind: "pool", Name: op.name, Raw: t.Bytes(), MayFail: op.mayFail, RefVerify: errClass(verr)})
		case "relay":
			h.Steps = append(h.Steps, prStep{Kind: "relay", Name: op.name, Raw: e.T(op.name).Bytes(), RefVerify: errClass(n.BC.VerifyTx(e.T(op.name)))})
		case "block":
			var txs []*transaction.Transaction
			if err := guard(func() (err error) { txs, err = op.txs(e); return }); err != nil {
				return nil, fmt.Errorf("step %d (%s): %w", oi, op.name, err)
			}
			cv, err := view()
			if err != nil {
				return nil, err
			}
			b, err := n.NewBlock(txs...)
			if err != nil {
				return nil, err
			}
			bb, err := chainx.BlockBytes(b)
			if err != nil {
				return nil, err
			}
			bd, err := chainx.DecodeBlock(bb, c.fam.SRIH)
			if err != nil {
				return nil, err
			}
			st := prStep{Kind: "block", Name: op.name, Raw: bb, V: cv.judge(bd)}
			byHash := map[util.Uint256]string{}
			for nm, t := range e.named {
				byHash[t.Hash()] = nm
			}
			for _, t := range bd.Transactions {
				if nm, ok := byHash[t.Hash()]; ok {
					st.Carries = append(st.Carries, nm)
				}
			}
			if st.V.Valid() {
				h.Class += "V"
			} else {
				h.Class += "I"
			}
			var aerr error
			if perr := chainx.Try(func() { aerr = n.AddBytes(bb) }); perr != nil {
				h.Steps = append(h.Steps, st)
				h.Viol = &prBuildViol{what: "panic", err: perr.Error(), why: st.V.Why, note: fmt.Sprintf("block %d (%s) of the history delivered to a replica that never pooled anything", len(h.Class), op.name)}
				return h, nil
			}
			if aerr != nil {
				st.RefErr = errClass(aerr)
				h.Steps = append(h.Steps, st)
				if !st.V.Valid() && oi != len(ops)-1 {
					// the validly signed header of a rejected block stays recorded: nothing can follow at this height
					return nil, fmt.Errorf("step %d (%s): the history continues after an invalid block", oi, op.name)
				}
				if st.V.Valid() {
					h.Viol = &prBuildViol{what: "valid-block-rejected", err: aerr.Error(), note: fmt.Sprintf("block %d (%s) of the history, rejected by a replica that never pooled anything; the predicate finds no broken rule", len(h.Class), op.name)}
					return h, nil
				}
				continue
			}
			st.RefOK = true
			if sr, err := n.BC.GetStateRoot(b.Index); err == nil {
				st.RefRoot = sr.Root.StringLE()
			}
			h.Steps = append(h.Steps, st)
			if !st.V.Valid() {
				h.Viol = &prBuildViol{what: "accepted-invalid-block", why: st.V.Why, note: fmt.Sprintf("block %d (%s) of the history, accepted by a replica that never pooled anything", len(h.Class), op.name)}
				return h, nil
			}
			for _, tx := range bd.Transactions {
				if _, own := byHash[tx.Hash()]; own || op.mayFault {
					continue
				}
				if err := n.CheckHalt(tx.Hash()); err != nil {
					if strings.Contains(err.Error(), "invalid committee signature") {
						// the block is the first of an epoch and elects another committee than the one in office when it was built
						return nil, fmt.Errorf("step %d: the committee changes in the very block that carries the committee's transaction: %w", oi, errPWNA)
					}
					return nil, fmt.Errorf("step %d (%s): %w", oi, op.name, err)
				}
			}
			hist = append(hist, bd)
		default:
			return nil, fmt.Errorf("unknown step kind %q", op.kind)
		}
	}
	return h, nil
}

// ---- execution on the node under test ---------------------------------------------------------------------

// prViews compares the three views of the pool for the history transactions.
// It returns the names the listing shows and a note per disagreement.
func prViews(n *chainx.Node, h *prHist) (listed []string, odd []string, notes []string) {
	mp := n.BC.GetMemPool()
	txs := mp.GetVerifiedTransactions()
	cnt := mp.Count()
	in := map[util.Uint256]bool{}
	for _, t := range txs {
		in[t.Hash()] = true
	}
	if cnt != len(txs) || len(in) != len(txs) {
		notes = append(notes, fmt.Sprintf("Count() = %d, GetVerifiedTransactions() lists %d entries (%d distinct)", cnt, len(txs), len(in)))
	}
	for _, nm := range h.Names {
		t, err := transaction.NewTransactionFromBytes(h.Txs[nm])
		if err != nil {
			continue
		}
		hh := t.Hash()
		ck := mp.ContainsKey(hh)
		_, tg := mp.TryGetValue(hh)
		if in[hh] {
			listed = append(listed, nm)
		}
		if in[hh] != ck || in[hh] != tg {
			odd = append(odd, nm)
			notes = append(notes, fmt.Sprintf("%s: listed by GetVerifiedTransactions: %v, ContainsKey: %v, TryGetValue: %v", nm, in[hh], ck, tg))
		}
	}
	return
}

var vkViewChecks, vkViewOdd, vkProbes vk.Counter

// runPoolRep executes one history on a fresh replica of the state's mode.
func (c *stateCtx) runPoolRep(d *delivery, o *outcome, base *caseRec, bad func(what, errText string, diff []string, note string)) {
	sp := d.Ext.(prSpec)
	h, err := c.buildPR(sp)
	if errors.Is(err, errPWNA) {
		o.class, o.result, o.errText = "n/a", "n/a", errClass(err)
		return
	}
	if err != nil && strings.Contains(err.Error(), "did not halt") && strings.Contains(err.Error(), "witness check failed") {
		// a set-up transaction of the committee was signed by the committee in office when it was built and the
		// block that carries it installs another one (states right before an epoch boundary): the history does
		// not exist in this state - not applicable, counted.
		o.class, o.result, o.errText = "n/a", "n/a", "set-up signed by the outgoing committee"
		return
	}
	if err != nil {
		o.harness = "history cannot be built: " + err.Error()
		return
	}
	o.class = "pr-" + h.Class
	o.execs += len(h.Steps) + 1
	if h.Viol != nil {
		base.Why = h.Viol.why
		o.result = "reference"
		bad(h.Viol.what, h.Viol.err, nil, h.Viol.note)
		return
	}
	md := c.mode
	md.HdrKnown = false
	opts := c.fam.Opts()
	if sp.memPool > 0 {
		md.Pool = "none"
		size := sp.memPool
		opts.Cfg = func(cfg *config.Blockchain) { cfg.MemPoolSize = size }
	}
	n, err := c.prepareOpts(md, opts)
	if err != nil {
		o.harness = "prepare: " + err.Error()
		return
	}
	defer n.Close()
	try := func(f func() error) (err error) {
		o.execs++
		if perr := chainx.Try(func() { err = f() }); perr != nil {
			bad("panic", perr.Error(), nil, "")
			return perr
		}
		return err
	}
	if err := n.AddBytes(c.pw.P); err != nil {
		bad("valid-block-rejected", err.Error(), nil, "prelude block of a pool history (deploys the verification contract, funds accounts)")
		return
	}
	maxID := c.maxID + 2
	var trace, viewNotes []string
	if sp.ahead {
		var hs []*block.Header
		for si := range h.Steps {
			if h.Steps[si].Kind == "block" {
				b, err := chainx.DecodeBlock(h.Steps[si].Raw, c.fam.SRIH)
				if err != nil {
					o.harness = err.Error()
					return
				}
				hs = append(hs, &b.Header)
			}
		}
		herr := try(func() error { return n.BC.AddHeaders(hs...) })
		trace = append(trace, fmt.Sprintf("AddHeaders(%d headers): %s, header height %d", len(hs), errClass(herr), n.BC.HeaderHeight()))
	}
	var accepted [][]byte
	results := ""
	nb := 0
	withViews := func(note string) string {
		if len(viewNotes) == 0 {
			return note
		}
		return note + "; POOL VIEWS DISAGREE: " + strings.Join(viewNotes, " | ")
	}
	// views compares the views of the pool (after every pool / relay step and
	// every accepted block; a rejected block changed nothing). When they disagree
	// the scripted history is left and a probe takes over; true = case finished.
	views := func(when string) bool {
		_, odd, notes := prViews(n, h)
		vkViewChecks.Inc()
		if len(notes) == 0 {
			return false
		}
		if len(viewNotes) == 0 {
			vkViewOdd.Inc()
		}
		for _, nt := range notes {
			viewNotes = append(viewNotes, when+": "+nt)
		}
		if sp.ahead || os.Getenv("C06_NOPROBE") != "" {
			// headers delivered ahead: no other block fits the recorded header chain,
			// the scripted history goes on (C06_NOPROBE: development aid)
			return false
		}
		o.result, o.errText = "views-disagree", results
		sort.Strings(odd)
		for _, nm := range odd {
			if c.prProbe(n, h, accepted, nm, o, base, bad, strings.Join(viewNotes, " | "), strings.Join(trace, "; ")) {
				return true
			}
		}
		return true
	}
	for si := range h.Steps {
		st := &h.Steps[si]
		switch st.Kind {
		case "pool", "relay":
			t, err := transaction.NewTransactionFromBytes(st.Raw)
			if err != nil {
				o.harness = err.Error()
				return
			}
			was := n.BC.GetMemPool().ContainsKey(t.Hash())
			perr := try(func() error { return n.BC.PoolTx(t) })
			if st.Kind == "pool" {
				trace = append(trace, fmt.Sprintf("pool %s: %s", st.Name, errClass(perr)))
				if perr != nil && !st.MayFail {
					o.harness = fmt.Sprintf("transaction %s of the history is not accepted into the pool: %v", st.Name, perr)
					return
				}
				if perr != nil {
					results += "p"
				}
				if views("after pool " + st.Name) {
					return
				}
				continue
			}
			trace = append(trace, fmt.Sprintf("relay %s (pooled before: %v): %s", st.Name, was, errClass(perr)))
			if perr == nil && st.RefVerify != "nil" {
				bad("relay-accepted-invalid-transaction", "", nil, fmt.Sprintf("step %d: PoolTx accepted %s again; isolated verification (VerifyTx) on a replica with the same chain fails: %s", si, st.Name, st.RefVerify))
				return
			}
			if views("after relay " + st.Name) {
				return
			}
			continue
		}
		nb++
		b, err := chainx.DecodeBlock(st.Raw, c.fam.SRIH)
		if err != nil {
			o.harness = err.Error()
			return
		}
		what := fmt.Sprintf("block %d of the history (%s)", nb, st.Name)
		var s1 snap
		var dump0 map[string]string
		if !st.RefOK {
			if s1, err = takeSnap(n, maxID); err != nil {
				bad("unreadable-before-delivery", err.Error(), nil, what)
				return
			}
			if err := n.Persist(); err != nil {
				bad("flush-failed", err.Error(), nil, "")
				return
			}
			dump0 = rawDump(n.Store)
		}
		xerr := try(func() error { return n.BC.AddBlock(b) })
		ref := "the replica that never pooled anything accepts the same block"
		if !st.RefOK {
			ref = "the replica that never pooled anything rejects the same block: " + st.RefErr
		}
		hist := func() string { return "history on the node: " + strings.Join(trace, "; ") }
		if xerr == nil {
			results += "A"
			switch {
			case !st.V.Valid():
				base.Why = st.V.Why
				s2, _ := takeSnap(n, maxID)
				o.result, o.errText = "accepted", results
				bad("accepted-invalid-block", "", s1.diff(s2, true), withViews(fmt.Sprintf("%s; every transaction it carries was pooled while valid, with the witnesses the block carries; %s; %s", what, ref, hist())))
				return
			case !st.RefOK:
				o.result, o.errText = "accepted", results
				bad("verdict-depends-on-mempool-history", "", nil, withViews(what+"; "+ref+"; "+hist()))
				return
			}
			sr, err := n.BC.GetStateRoot(b.Index)
			if err != nil {
				bad("unreadable-after-delivery", err.Error(), nil, what)
				return
			}
			if sr.Root.StringLE() != st.RefRoot {
				o.result, o.errText = "accepted", results
				bad("state-differs-from-empty-pool-replica", "", []string{"StateRoot: " + sr.Root.StringLE() + " != " + st.RefRoot}, withViews(what+"; "+hist()))
				return
			}
			accepted = append(accepted, st.Raw)
		} else {
			results += "R"
			if st.RefOK {
				o.result, o.errText = "rejected", results
				w := "verdict-depends-on-mempool-history"
				if len(st.Carries) == 0 {
					w = "valid-block-rejected"
				}
				bad(w, xerr.Error(), nil, withViews(what+"; "+ref+"; "+hist()))
				return
			}
			s2, err := takeSnap(n, maxID)
			if err != nil {
				bad("unreadable-after-delivery", err.Error(), nil, what)
				return
			}
			if df := s1.diff(s2, false); len(df) != 0 {
				bad("rejected-block-changed-state", xerr.Error(), df, what)
				return
			}
			if err := n.Persist(); err != nil {
				bad("flush-failed", err.Error(), nil, "")
				return
			}
			bh := b.Hash()
			if df, _ := dumpDiff(dump0, rawDump(n.Store), func(k string) bool { return headerKey(k, bh) }); len(df) != 0 {
				bad("rejected-block-changed-database", xerr.Error(), df, what+"; raw database after a flush compared with the flush before the delivery")
				return
			}
		}
		listed, _, _ := prViews(n, h)
		trace = append(trace, fmt.Sprintf("block %d (%s): %s, listed after it: [%s]", nb, st.Name, errClass(xerr), strings.Join(listed, " ")))
		results += "[" + strings.Join(listed, " ") + "]"
		if xerr == nil && views(fmt.Sprintf("after block %d (%s)", nb, st.Name)) {
			return
		}
	}
	o.result, o.errText = "as-reference", results
	if os.Getenv("C06_TRACE") != "" { // development aid
		fmt.Printf("trace %s %s: %s\n", c.label(), sp.id, strings.Join(trace, "; "))
	}
}

// prProbe delivers [G] and then [G] once more (G = a transaction the views of
// the pool disagree on) to the node under test and to a fresh reference
// replica with the same chain. It reports whether a violation was found.
func (c *stateCtx) prProbe(n *chainx.Node, h *prHist, accepted [][]byte, name string, o *outcome, base *caseRec, bad func(what, errText string, diff []string, note string), views, trace string) bool {
	vkProbes.Inc()
	ref, _, err := c.sc.RefNode(c.h)
	if err != nil {
		return false
	}
	defer ref.Close()
	blocks := append(append([][]byte{}, c.blocks...), c.pw.P)
	if err := ref.AddBytes(c.pw.P); err != nil {
		return false
	}
	for _, bb := range accepted {
		if err := ref.AddBytes(bb); err != nil {
			return false
		}
		blocks = append(blocks, bb)
	}
	g, err := transaction.NewTransactionFromBytes(h.Txs[name])
	if err != nil {
		return false
	}
	for round := 1; round <= 2; round++ {
		hist, err := decodeAll(blocks, c.fam.SRIH)
		if err != nil {
			return false
		}
		cv, err := c.prView(ref, hist, h.Custom, h.NCost, h.NBase)
		if err != nil {
			return false
		}
		x, err := ref.NewBlock(retx(g))
		if err != nil {
			return false
		}
		xb, err := chainx.BlockBytes(x)
		if err != nil {
			return false
		}
		xd, err := chainx.DecodeBlock(xb, c.fam.SRIH)
		if err != nil {
			return false
		}
		v := cv.judge(xd)
		var rerr, nerr error
		o.execs += 2
		if perr := chainx.Try(func() { rerr = ref.AddBytes(xb) }); perr != nil {
			return false
		}
		if perr := chainx.Try(func() { nerr = n.BC.AddBlock(xd) }); perr != nil {
			bad("panic", perr.Error(), nil, "probe block carrying "+name)
			return true
		}
		note := fmt.Sprintf("probe block %d carrying %s alone, delivered after the history because the views of the pool disagree on it (%s); the replica that never pooled anything: %s; history on the node: %s", round, name, views, errClass(rerr), trace)
		switch {
		case nerr == nil && !v.Valid():
			base.Why = v.Why
			bad("accepted-invalid-block", "", nil, note)
			return true
		case (nerr == nil) != (rerr == nil):
			bad("verdict-depends-on-mempool-history", errClass(nerr), nil, note)
			return true
		case nerr != nil:
			return false
		}
		blocks = append(blocks, xb)
	}
	return false
}

// ---- menu and evidence -------------------------------------------------------------------------------

func menuPoolRep() []item {
	var its []item
	for _, sp := range prSpecs() {
		sp := sp
		want := ""
		if sp.want != "" {
			want = "pr-" + sp.want
		}
		its = append(its, item{ID: sp.id, Group: sp.group, Want: want, Make: func(c *stateCtx) *delivery {
			return &delivery{Flag: c.fam.SRIH, Seq: "poolrep", Ext: sp}
		}})
	}
	return its
}

// prCoverage summarises the histories of this round for the evidence.
func prCoverage(its []item, delivered map[string]int, naWhy map[string]int) map[string]any {
	type cnt struct{ Specs, Cases int }
	byFam := map[string]*cnt{}
	nSpecs, nCases := 0, 0
	for _, it := range its {
		if it.Group != "pool-replay" && it.Group != "pool-solvency" && it.Group != "pool-evict" {
			continue
		}
		nSpecs++
		nCases += delivered[it.ID]
		parts := strings.Split(it.ID, ".")
		key := it.Group
		switch it.Group {
		case "pool-solvency": // ps.<payer kind>.k<k>.<level>.<follow-up>
			key += "/" + parts[1] + "/" + parts[2] + "/" + parts[len(parts)-1]
		case "pool-replay": // pr.<kind>.<reason..>.<shape>
			key += "/" + parts[1] + "/" + parts[len(parts)-1]
		case "pool-evict":
			key += "/" + parts[1]
		}
		if byFam[key] == nil {
			byFam[key] = &cnt{}
		}
		byFam[key].Specs++
		byFam[key].Cases += delivered[it.ID]
	}
	na := map[string]int{}
	for k, v := range naWhy {
		if strings.HasPrefix(k, "pool-replay") || strings.HasPrefix(k, "pool-solvency") || strings.HasPrefix(k, "pool-evict") {
			na[k] = v
		}
	}
	return map[string]any{"specs": nSpecs, "cases": nCases, "by_family_kind_shape": byFam, "not_applicable": na,
		"pool_view_comparisons": int(vkViewChecks.Get()), "histories_with_disagreeing_pool_views": int(vkViewOdd.Get()), "probes_started_by_disagreeing_views": int(vkProbes.Get())}
}
