package c06

// The alphabets of the witness histories (see poolwit_test.go).

import (
	"fmt"
	"os"
	"strings"

	"github.com/nspcc-dev/neo-go/pkg/config"
	"github.com/nspcc-dev/neo-go/pkg/core/native/nativehashes"
	"github.com/nspcc-dev/neo-go/pkg/core/transaction"
	"github.com/nspcc-dev/neo-go/pkg/util"

	"verif/lib/chainx"
)

type pwTxFn func(e *pwEnv) (*transaction.Transaction, error)

// pwCondDef: a condition that holds where T is pooled, the blocks that falsify
// it, the twin that stays true, the block that makes it true again.
type pwCondDef struct {
	cond     string            // condition of the witness
	twinCond string            // a condition the "inv" block does not falsify (used instead of a keep block)
	inv      map[string]pwStep // named falsifying blocks ("inv" always present)
	invOrder []string
	keep     *pwStep // a block that touches the same data without falsifying cond
	reval    *pwStep // makes cond true again after "inv"
	invTx    pwTxFn  // the falsifying transaction (for X = [invTx, T])
	revalTx  pwTxFn  // the revalidating transaction (for X = [revalTx, T])
}

func pwCondDefs() []pwCondDef {
	st := func(f pwTxFn) *pwStep { s := pwBlock(f); return &s }
	fill := pwBlock(func(e *pwEnv) (*transaction.Transaction, error) { return e.filler() })
	vset := func(k string, v int64) pwTxFn {
		return func(e *pwEnv) (*transaction.Transaction, error) { return e.vset(k, v) }
	}
	sprice := func(d int64) pwTxFn {
		return func(e *pwEnv) (*transaction.Transaction, error) { return e.policy("setStoragePrice", e.k.SPrice+d) }
	}
	fpb := func(d int64) pwTxFn {
		return func(e *pwEnv) (*transaction.Transaction, error) { return e.policy("setFeePerByte", e.k.FPB+d) }
	}
	move := func(from, to int, amount int64) pwTxFn {
		return func(e *pwEnv) (*transaction.Transaction, error) { return e.gasMove(from, to, amount) }
	}
	empty := pwEmpty
	return []pwCondDef{
		{cond: "idx<N", twinCond: "idx<N+1", inv: map[string]pwStep{"inv": fill, "inv-empty": empty}, invOrder: []string{"inv", "inv-empty"}},
		{cond: "idx!=N", twinCond: "idx!=N+1", inv: map[string]pwStep{"inv": fill, "inv-empty": empty}, invOrder: []string{"inv", "inv-empty"}, reval: &empty},
		{cond: "vget==1", inv: map[string]pwStep{"inv": pwBlock(vset("k", 2)), "inv-destroy": pwBlock(func(e *pwEnv) (*transaction.Transaction, error) { return e.vdestroy() })},
			invOrder: []string{"inv", "inv-destroy"}, keep: st(vset("j", 2)), reval: st(vset("k", 1)), invTx: vset("k", 2), revalTx: vset("k", 1)},
		{cond: "sprice==0", inv: map[string]pwStep{"inv": pwBlock(sprice(1))}, invOrder: []string{"inv"}, keep: st(sprice(0)), reval: st(sprice(0)), invTx: sprice(1), revalTx: sprice(0)},
		{cond: "fpb==0", inv: map[string]pwStep{"inv": pwBlock(fpb(1))}, invOrder: []string{"inv"}, keep: st(fpb(0)), reval: st(fpb(0)), invTx: fpb(1), revalTx: fpb(0)},
		{cond: "gas6>=B", inv: map[string]pwStep{"inv": pwBlock(move(6, 1, 20*gas))}, invOrder: []string{"inv"}, keep: st(move(6, 1, 1*gas)), reval: st(move(1, 6, 30*gas)),
			invTx: move(6, 1, 20*gas), revalTx: move(1, 6, 30*gas)},
	}
}

// pwSigners places the state-dependent party at a position.
func pwSigners(e *pwEnv, carrier, cond, pos string) []*pwParty {
	x := e.party(carrier, cond)
	switch pos {
	case "first":
		return []*pwParty{x}
	case "second":
		return []*pwParty{pwSig(4), x}
	case "third":
		return []*pwParty{pwSig(4), pwSig(5), x}
	}
	panic("no position " + pos)
}

const pwGenerous = gas / 2

func pwThorough() bool { return os.Getenv("VERIF_TIER") == "thorough" }

func pwSpecs() []pwSpec {
	var out []pwSpec
	thorough := pwThorough()
	for _, cd := range pwCondDefs() {
		cd := cd
		for _, carrier := range []string{"cs", "vc"} {
			carrier := carrier
			for _, pos := range []string{"first", "second", "third"} {
				pos := pos
				all := pos == "first" || thorough
				if !all && (cd.cond == "idx!=N" || cd.cond == "fpb==0") {
					continue // quick: later positions with one height and one Policy condition only
				}
				id := func(shape string) string { return fmt.Sprintf("pw.%s.%s.%s.%s", cd.cond, carrier, pos, shape) }
				mkT := func(e *pwEnv, cond string) *transaction.Transaction {
					return e.tx(pwSigners(e, carrier, cond, pos), pwTxOpt{extra: pwGenerous})
				}
				add := func(shape, want string, ahead bool, cond string, steps []pwStep, xPre pwTxFn) {
					out = append(out, pwSpec{id: id(shape), group: "pool-witness", want: want, ahead: ahead,
						make: func(e *pwEnv) (*transaction.Transaction, []pwStep, func(e *pwEnv) (*transaction.Transaction, error), error) {
							return mkT(e, cond), steps, xPre, nil
						}})
				}
				for _, name := range cd.invOrder {
					if name != "inv" && !all {
						continue
					}
					add(name, "iii", false, cd.cond, []pwStep{cd.inv[name]}, nil)
				}
				inv := cd.inv["inv"]
				if cd.twinCond != "" {
					add("keep", "valid", false, cd.twinCond, []pwStep{inv}, nil)
				} else {
					add("keep", "valid", false, cd.cond, []pwStep{*cd.keep}, nil)
				}
				if cd.reval != nil {
					add("reval", "valid", false, cd.cond, []pwStep{inv, *cd.reval}, nil)
				}
				if !all {
					continue
				}
				add("inv+relay", "iii", false, cd.cond, []pwStep{inv, pwRelay}, nil)
				add("inv.headers-ahead", "iii", true, cd.cond, []pwStep{inv}, nil)
				if cd.reval != nil {
					add("reval+relay", "valid", false, cd.cond, []pwStep{inv, pwRelay, *cd.reval, pwRelay}, nil)
					add("reval.headers-ahead", "valid", true, cd.cond, []pwStep{inv, *cd.reval}, nil)
				}
				if cd.revalTx != nil {
					add("x-reval-first", "iii", false, cd.cond, []pwStep{inv}, cd.revalTx)
				}
				if cd.invTx != nil {
					add("x-inv-first", "valid", false, cd.cond, nil, cd.invTx)
				}
			}
		}
	}
	out = append(out, pwKindSpecs()...)
	return out
}

// ---- every reason of poolhist x sender kind -------------------------------------------------------------

type pwReason struct {
	name  string
	want  string
	only  string // restricted to one kind
	build func(e *pwEnv, s *pwParty) (*transaction.Transaction, []pwStep, error)
}

func pwSelfTransfer(s *pwParty) []byte {
	return chainx.CallScript(nativehashes.GasToken, "transfer", s.Hash, s.Hash, int64(1), nil)
}

func pwReasons() []pwReason {
	fill := pwBlock(func(e *pwEnv) (*transaction.Transaction, error) { return e.filler() })
	fixed := func(t *transaction.Transaction) pwStep {
		return pwStep{txs: func(e *pwEnv) ([]*transaction.Transaction, error) { return []*transaction.Transaction{retx(t)}, nil }}
	}
	pol := func(method string, args func(e *pwEnv) []any) pwStep {
		return pwBlock(func(e *pwEnv) (*transaction.Transaction, error) { return e.policy(method, args(e)...) })
	}
	one := func(s *pwParty) []*pwParty { return []*pwParty{s} }
	rnd := util.Uint256{0xC0, 6, 8}
	return []pwReason{
		{name: "expired(valid-until=N)", want: "iii", build: func(e *pwEnv, s *pwParty) (*transaction.Transaction, []pwStep, error) {
			return e.tx(one(s), pwTxOpt{vub: e.k.N}), []pwStep{fill}, nil
		}},
		{name: "expired(valid-until=N),block-N-empty", want: "iii", build: func(e *pwEnv, s *pwParty) (*transaction.Transaction, []pwStep, error) {
			return e.tx(one(s), pwTxOpt{vub: e.k.N}), []pwStep{pwEmpty}, nil
		}},
		{name: "valid-until=N+1", want: "valid", build: func(e *pwEnv, s *pwParty) (*transaction.Transaction, []pwStep, error) {
			return e.tx(one(s), pwTxOpt{vub: e.k.N + 1}), []pwStep{fill}, nil
		}},
		{name: "unaffected", want: "valid", build: func(e *pwEnv, s *pwParty) (*transaction.Transaction, []pwStep, error) {
			return e.tx(one(s), pwTxOpt{}), []pwStep{fill}, nil
		}},
		{name: "already-on-chain(in-block-N)", want: "iii", build: func(e *pwEnv, s *pwParty) (*transaction.Transaction, []pwStep, error) {
			t := e.tx(one(s), pwTxOpt{})
			return t, []pwStep{fixed(t)}, nil
		}},
		{name: "its-Conflicts-attribute-names-a-tx-of-block-N", want: "iii", build: func(e *pwEnv, s *pwParty) (*transaction.Transaction, []pwStep, error) {
			u := e.tx(one(s), pwTxOpt{})
			t := e.tx(one(s), pwTxOpt{attrs: []transaction.Attribute{conflictsAttr(u.Hash())}})
			return t, []pwStep{fixed(u)}, nil
		}},
		{name: "named-by-Conflicts-of-a-tx-of-block-N(same-signer)", want: "iii", build: func(e *pwEnv, s *pwParty) (*transaction.Transaction, []pwStep, error) {
			t := e.tx(one(s), pwTxOpt{})
			u := e.tx(one(s), pwTxOpt{attrs: []transaction.Attribute{conflictsAttr(t.Hash())}})
			return t, []pwStep{fixed(u)}, nil
		}},
		{name: "named-by-Conflicts-of-a-tx-of-block-N(other-signer)", want: "valid", build: func(e *pwEnv, s *pwParty) (*transaction.Transaction, []pwStep, error) {
			t := e.tx(one(s), pwTxOpt{})
			u := e.tx(one(pwSig(5)), pwTxOpt{attrs: []transaction.Attribute{conflictsAttr(t.Hash())}})
			return t, []pwStep{fixed(u)}, nil
		}},
		{name: "balance-spent-in-block-N", want: "iii", build: func(e *pwEnv, s *pwParty) (*transaction.Transaction, []pwStep, error) {
			t := e.tx(one(s), pwTxOpt{script: pwSelfTransfer(s), sysFee: pwFund * 6 / 10})
			u := e.tx(one(s), pwTxOpt{script: pwSelfTransfer(s), sysFee: pwFund * 6 / 10})
			return t, []pwStep{fixed(u)}, nil
		}},
		{name: "balance-exactly-left-after-block-N", want: "valid", build: func(e *pwEnv, s *pwParty) (*transaction.Transaction, []pwStep, error) {
			t := e.tx(one(s), pwTxOpt{script: pwSelfTransfer(s), sysFee: pwFund * 6 / 10})
			u0 := e.tx(one(s), pwTxOpt{script: pwSelfTransfer(s), sysFee: 1})
			u := e.tx(one(s), pwTxOpt{script: pwSelfTransfer(s), sysFee: pwFund - t.SystemFee - t.NetworkFee - u0.NetworkFee})
			if u.NetworkFee != u0.NetworkFee {
				return nil, nil, fmt.Errorf("network fee depends on the system fee: %d %d", u.NetworkFee, u0.NetworkFee)
			}
			return t, []pwStep{fixed(u)}, nil
		}},
		{name: "signer-blocked-in-block-N", want: "iii", build: func(e *pwEnv, s *pwParty) (*transaction.Transaction, []pwStep, error) {
			return e.tx(one(s), pwTxOpt{}), []pwStep{pol("blockAccount", func(e *pwEnv) []any { return []any{s.Hash} })}, nil
		}},
		{name: "fee-per-byte-raised-in-block-N", want: "iii", build: func(e *pwEnv, s *pwParty) (*transaction.Transaction, []pwStep, error) {
			return e.tx(one(s), pwTxOpt{}), []pwStep{pol("setFeePerByte", func(e *pwEnv) []any { return []any{e.k.FPB + 100} })}, nil
		}},
		{name: "fee-per-byte-raised-in-block-N(fee-still-sufficient)", want: "valid", build: func(e *pwEnv, s *pwParty) (*transaction.Transaction, []pwStep, error) {
			return e.tx(one(s), pwTxOpt{extra: pwGenerous}), []pwStep{pol("setFeePerByte", func(e *pwEnv) []any { return []any{e.k.FPB + 100} })}, nil
		}},
		{name: "exec-fee-factor-raised-in-block-N", want: "iii", build: func(e *pwEnv, s *pwParty) (*transaction.Transaction, []pwStep, error) {
			return e.tx(one(s), pwTxOpt{}), []pwStep{pol("setExecFeeFactor", func(e *pwEnv) []any {
				f := e.n.BC.GetBaseExecFee() // always carries the 10^4 multiplier; the setter's argument only since Faun
				hf := config.HFFaun
				if !e.n.BC.IsHardforkEnabled(&hf, e.n.Height()+1) {
					f /= 10000
				}
				return []any{f * 2}
			})}, nil
		}},
		{name: "attribute-fee-raised-in-block-N(Conflicts)", want: "iii", build: func(e *pwEnv, s *pwParty) (*transaction.Transaction, []pwStep, error) {
			return e.tx(one(s), pwTxOpt{attrs: []transaction.Attribute{conflictsAttr(rnd)}}), []pwStep{pol("setAttributeFee", func(e *pwEnv) []any {
				return []any{int64(transaction.ConflictsT), e.c.cv.AttrFee[transaction.ConflictsT] + 1000000}
			})}, nil
		}},
		{name: "attribute-fee-raised-in-block-N(NotValidBefore)", want: "iii", build: func(e *pwEnv, s *pwParty) (*transaction.Transaction, []pwStep, error) {
			return e.tx(one(s), pwTxOpt{attrs: []transaction.Attribute{nvbAttr(e.k.N - 1)}}), []pwStep{pol("setAttributeFee", func(e *pwEnv) []any {
				return []any{int64(transaction.NotValidBeforeT), e.c.cv.AttrFee[transaction.NotValidBeforeT] + 1000000}
			})}, nil
		}},
		{name: "attribute-fee-raised-in-block-N(fee-still-sufficient)", want: "valid", build: func(e *pwEnv, s *pwParty) (*transaction.Transaction, []pwStep, error) {
			return e.tx(one(s), pwTxOpt{attrs: []transaction.Attribute{conflictsAttr(rnd)}, extra: 2 * 1000000}), []pwStep{pol("setAttributeFee", func(e *pwEnv) []any {
				return []any{int64(transaction.ConflictsT), e.c.cv.AttrFee[transaction.ConflictsT] + 1000000}
			})}, nil
		}},
		{name: "max-valid-until-increment-lowered-in-block-N", want: "iii", build: func(e *pwEnv, s *pwParty) (*transaction.Transaction, []pwStep, error) {
			return e.tx(one(s), pwTxOpt{vub: e.k.N - 1 + 50}), []pwStep{pol("setMaxValidUntilBlockIncrement", func(e *pwEnv) []any { return []any{int64(4)} })}, nil
		}},
		{name: "max-valid-until-increment-lowered-in-block-N(still-within)", want: "valid", build: func(e *pwEnv, s *pwParty) (*transaction.Transaction, []pwStep, error) {
			return e.tx(one(s), pwTxOpt{vub: e.k.N - 1 + 4}), []pwStep{pol("setMaxValidUntilBlockIncrement", func(e *pwEnv) []any { return []any{int64(4)} })}, nil
		}},
		{name: "contract-destroyed-in-block-N", want: "iii", only: "vc", build: func(e *pwEnv, s *pwParty) (*transaction.Transaction, []pwStep, error) {
			return e.tx(one(s), pwTxOpt{}), []pwStep{pwBlock(func(e *pwEnv) (*transaction.Transaction, error) { return e.vdestroy() })}, nil
		}},
	}
}

func pwKindSpecs() []pwSpec {
	var out []pwSpec
	thorough := pwThorough()
	add := func(id, want string, mk func(e *pwEnv) (*transaction.Transaction, []pwStep, error)) {
		for _, relay := range []bool{false, true} {
			relay := relay
			if relay && want != "iii" {
				continue
			}
			if relay && !thorough && (strings.HasSuffix(id, ".msig") || strings.HasSuffix(id, ".vc")) {
				continue // quick: the re-relayed variants for the script and standard kinds only
			}
			sid := id
			if relay {
				sid += ".relay"
			}
			out = append(out, pwSpec{id: sid, group: "pool-kinds", want: want,
				make: func(e *pwEnv) (*transaction.Transaction, []pwStep, func(e *pwEnv) (*transaction.Transaction, error), error) {
					t, steps, err := mk(e)
					if relay {
						steps = append(append([]pwStep{}, steps...), pwRelay)
					}
					return t, steps, nil, err
				}})
		}
	}
	for _, kind := range []string{"msig", "cs", "vc"} {
		kind := kind
		for _, rs := range pwReasons() {
			rs := rs
			if rs.only != "" && rs.only != kind {
				continue
			}
			add(fmt.Sprintf("pk.%s.%s", rs.name, kind), rs.want, func(e *pwEnv) (*transaction.Transaction, []pwStep, error) {
				return rs.build(e, e.party(kind, "true"))
			})
		}
	}
	// second signers of every kind
	second := func(e *pwEnv, kind string) *pwParty {
		if kind == "sig" {
			return pwSig(5)
		}
		return e.party(kind, "true")
	}
	for _, kind := range []string{"sig", "msig", "cs", "vc"} {
		kind := kind
		add("pk.second-signer-blocked-in-block-N."+kind, "iii", func(e *pwEnv) (*transaction.Transaction, []pwStep, error) {
			s2 := second(e, kind)
			t := e.tx([]*pwParty{pwSig(4), s2}, pwTxOpt{})
			return t, []pwStep{pwBlock(func(e *pwEnv) (*transaction.Transaction, error) { return e.policy("blockAccount", s2.Hash) })}, nil
		})
		add("pk.named-by-Conflicts-of-a-tx-of-its-second-signer."+kind, "iii", func(e *pwEnv) (*transaction.Transaction, []pwStep, error) {
			s2 := second(e, kind)
			t := e.tx([]*pwParty{pwSig(4), s2}, pwTxOpt{})
			u := e.tx([]*pwParty{s2}, pwTxOpt{attrs: []transaction.Attribute{conflictsAttr(t.Hash())}})
			return t, []pwStep{{txs: func(e *pwEnv) ([]*transaction.Transaction, error) { return []*transaction.Transaction{retx(u)}, nil }}}, nil
		})
		add("pk.second-signer-unaffected."+kind, "valid", func(e *pwEnv) (*transaction.Transaction, []pwStep, error) {
			s2 := second(e, kind)
			t := e.tx([]*pwParty{pwSig(4), s2}, pwTxOpt{})
			return t, []pwStep{pwBlock(func(e *pwEnv) (*transaction.Transaction, error) { return e.filler() })}, nil
		})
	}
	return out
}

func menuPoolWit() []item {
	var its []item
	for _, sp := range pwSpecs() {
		sp := sp
		its = append(its, item{ID: sp.id, Group: sp.group, Want: "poolwit-" + sp.want, Make: func(c *stateCtx) *delivery {
			return &delivery{Flag: c.fam.SRIH, Seq: "poolwit", Ext: sp}
		}})
	}
	return its
}
