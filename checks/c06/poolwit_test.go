package c06

// Mempool histories with STATE-DEPENDENT and NON-STANDARD witnesses (second
// extension round). AddBlock does not verify a block transaction again when the
// pool holds it with identical witnesses; that is sound only while the pool
// never holds a transaction that is invalid at the current height. A witness
// can read the chain (height, a contract's storage, a Policy value, a GAS
// balance), so a block can invalidate a pooled transaction without touching
// any of its fields.
//
// For a chain state S (tip) a prelude block P (tip+1, valid) deploys the
// verification contract V and funds the accounts of the cast; every history is
//
//	PoolTx(T) at P (T valid there) -> steps (valid blocks without T, optional
//	re-relay of T through PoolTx) -> AddBlock(X), X = validly signed and linked
//	block carrying T with the pooled witnesses
//
// Oracle as in poolhist: the independent predicate judges X on the view of the
// state it is delivered at (the predicate knows the meaning of every script of
// the cast, see pwExt.witness); a reference replica that never pooled T gets
// the same blocks and must give the same verdict and state root; a rejected X
// leaves state, mempool and (after a flush) the raw database unchanged except
// header keys.
//
// Two groups:
//
//	pool-witness  T has a state-dependent witness: condition x carrier (script in
//	              the witness | deployed contract's verify with arguments) x
//	              position (sender | second of two | third of three signers) x
//	              shape (invalidated, invalidated by an EMPTY block, kept valid by a
//	              twin block, invalidated + re-relayed, invalidated and revalidated
//	              [+ re-relayed after each block], X = [revalidating tx, T], X =
//	              [invalidating tx, T], headers delivered ahead)
//	pool-kinds    every invalidation reason of poolhist with T sent by a multi-
//	              signature account, by an account with a non-standard (signature +
//	              constant) script and by a deployed contract; blocked / conflicting
//	              SECOND signers of every kind

import (
	"bytes"
	"crypto/elliptic"
	"encoding/binary"
	"encoding/hex"
	"encoding/json"
	"errors"
	"fmt"
	"strings"
	"sync"

	"github.com/nspcc-dev/neo-go/pkg/compiler"
	"github.com/nspcc-dev/neo-go/pkg/core/block"
	"github.com/nspcc-dev/neo-go/pkg/core/fee"
	"github.com/nspcc-dev/neo-go/pkg/core/interop/interopnames"
	"github.com/nspcc-dev/neo-go/pkg/core/native/nativehashes"
	"github.com/nspcc-dev/neo-go/pkg/core/state"
	"github.com/nspcc-dev/neo-go/pkg/core/transaction"
	"github.com/nspcc-dev/neo-go/pkg/crypto/hash"
	"github.com/nspcc-dev/neo-go/pkg/crypto/keys"
	"github.com/nspcc-dev/neo-go/pkg/encoding/bigint"
	"github.com/nspcc-dev/neo-go/pkg/io"
	"github.com/nspcc-dev/neo-go/pkg/neotest"
	"github.com/nspcc-dev/neo-go/pkg/smartcontract"
	"github.com/nspcc-dev/neo-go/pkg/smartcontract/callflag"
	"github.com/nspcc-dev/neo-go/pkg/smartcontract/manifest"
	"github.com/nspcc-dev/neo-go/pkg/smartcontract/scparser"
	"github.com/nspcc-dev/neo-go/pkg/util"
	"github.com/nspcc-dev/neo-go/pkg/vm/emit"
	"github.com/nspcc-dev/neo-go/pkg/vm/opcode"
	"github.com/nspcc-dev/neo-go/pkg/wallet"

	"verif/lib/chainx"
)

// ---- the verification contract V ------------------------------------------------------------------

const pwVSource = `package vcontract

import (
	"github.com/nspcc-dev/neo-go/pkg/interop"
	"github.com/nspcc-dev/neo-go/pkg/interop/native/gas"
	"github.com/nspcc-dev/neo-go/pkg/interop/native/ledger"
	"github.com/nspcc-dev/neo-go/pkg/interop/native/management"
	"github.com/nspcc-dev/neo-go/pkg/interop/native/policy"
	"github.com/nspcc-dev/neo-go/pkg/interop/storage"
)

func _deploy(data any, isUpdate bool) {
	storage.Put(storage.GetContext(), "k", 1)
}

// Verify accepts iff the condition (mode, arg, acc) holds on the current state.
func Verify(mode int, arg int, acc interop.Hash160) bool {
	if mode == 0 {
		return true
	}
	if mode == 1 {
		return ledger.CurrentIndex() < arg
	}
	if mode == 2 {
		return ledger.CurrentIndex() != arg
	}
	if mode == 3 {
		return storage.Get(storage.GetReadOnlyContext(), "k").(int) == arg
	}
	if mode == 4 {
		return policy.GetStoragePrice() == arg
	}
	if mode == 5 {
		return policy.GetFeePerByte() == arg
	}
	if mode == 6 {
		return gas.BalanceOf(acc) >= arg
	}
	return false
}

func Get(key []byte) int {
	return storage.Get(storage.GetReadOnlyContext(), key).(int)
}

func Set(key []byte, v int) {
	storage.Put(storage.GetContext(), key, v)
}

func Destroy() {
	management.Destroy()
}

func OnNEP17Payment(from interop.Hash160, amount int, data any) {
}
`

var (
	pwVOnce sync.Once
	pwVBase *neotest.Contract
	pwVErr  error
)

func pwCompileV(sender util.Uint160) (*neotest.Contract, error) {
	pwVOnce.Do(func() {
		pwVBase, pwVErr = chainx.CompileSource([]byte(pwVSource), &compiler.Options{
			Name:               "C06V",
			NoEventsCheck:      true,
			NoPermissionsCheck: true,
			NoStandardCheck:    true,
			SafeMethods:        []string{"get"},
			Permissions:        []manifest.Permission{*manifest.NewPermission(manifest.PermissionWildcard)},
		})
	})
	if pwVErr != nil {
		return nil, fmt.Errorf("compile V: %w", pwVErr)
	}
	mb, err := json.Marshal(pwVBase.Manifest)
	if err != nil {
		return nil, err
	}
	m := new(manifest.Manifest)
	if err := json.Unmarshal(mb, m); err != nil {
		return nil, err
	}
	return &neotest.Contract{Hash: state.CreateContractHash(sender, pwVBase.NEF.Checksum, m.Name), NEF: pwVBase.NEF, Manifest: m, DebugInfo: pwVBase.DebugInfo}, nil
}

// ---- conditions -----------------------------------------------------------------------------------

// pwCond is a condition on the chain state a witness of the cast evaluates.
type pwCond struct {
	Kind string // true | idx< | idx!= | vget== | sprice== | fpb== | gas>=
	Arg  int64
	Acc  util.Uint160 // gas>=
}

var pwModes = map[string]int64{"true": 0, "idx<": 1, "idx!=": 2, "vget==": 3, "sprice==": 4, "fpb==": 5, "gas>=": 6}

func pwKindOfMode(m int64) string {
	for k, v := range pwModes {
		if v == m {
			return k
		}
	}
	return ""
}

// pwExt is the part of the chain view the predicate needs for the cast.
type pwExt struct {
	VHash        util.Uint160
	VStore       map[string]int64        // storage of V (key -> integer value)
	StoragePrice int64                   // Policy.getStoragePrice
	Custom       map[util.Uint160]*pwWit // accounts with a script of the cast
	VCost        map[int64]int64         // verify(mode,..) of V: verification cost in datoshi at Base0
	Base0        int64                   // base execution fee the costs were measured at
}

// pwWit is the meaning of one non-standard verification script of the cast:
// CheckSig(pub) AND cond.
type pwWit struct {
	Script []byte
	Pub    []byte
	Cond   pwCond
	Cost0  int64 // verification cost in datoshi at pwExt.Base0
}

// holds evaluates a condition on the view.
func (cv *chainView) holds(c pwCond) (bool, string) {
	x := cv.PW
	switch c.Kind {
	case "true":
		return true, ""
	case "idx<":
		return int64(cv.Tip.Index) < c.Arg, "height condition of the witness does not hold"
	case "idx!=":
		return int64(cv.Tip.Index) != c.Arg, "height condition of the witness does not hold"
	case "vget==":
		if !cv.Contracts[x.VHash] {
			return false, "the contract the witness reads is not deployed"
		}
		v, ok := x.VStore["k"]
		return ok && v == c.Arg, "storage condition of the witness does not hold"
	case "sprice==":
		return x.StoragePrice == c.Arg, "Policy (storage price) condition of the witness does not hold"
	case "fpb==":
		return cv.FeePerByte == c.Arg, "Policy (fee per byte) condition of the witness does not hold"
	case "gas>=":
		b, ok := cv.Balance[c.Acc]
		return ok && b >= c.Arg, "GAS balance condition of the witness does not hold"
	}
	return false, "unknown condition"
}

// scale converts a verification cost measured at Base0 to the view's base fee.
func (cv *chainView) scale(cost0 int64) int64 {
	x := cv.PW
	if x.Base0 == 0 || cv.BaseExecFee == x.Base0 {
		return cost0
	}
	return (cost0*cv.BaseExecFee + x.Base0 - 1) / x.Base0
}

// witness judges witness i of t if it belongs to the cast (V with arguments
// or a registered script); handled=false leaves it to the standard rules.
func (x *pwExt) witness(cv *chainView, t *transaction.Transaction, i int) (handled bool, why []string, cost int64) {
	acc := t.Signers[i].Account
	w := &t.Scripts[i]
	if len(w.VerificationScript) == 0 && acc == x.VHash {
		if !cv.Contracts[x.VHash] {
			return true, []string{fmt.Sprintf("witness %d: no deployed verification contract", i)}, 0
		}
		c, ok := pwParseVArgs(w.InvocationScript)
		if !ok {
			return true, []string{fmt.Sprintf("witness %d: arguments of verify are not (acc, arg, mode)", i)}, 0
		}
		if ok, s := cv.holds(c); !ok {
			why = append(why, fmt.Sprintf("witness %d: %s", i, s))
		}
		return true, why, cv.scale(x.VCost[pwModes[c.Kind]])
	}
	m := x.Custom[acc]
	if m == nil {
		return false, nil, 0
	}
	if !bytes.Equal(w.VerificationScript, m.Script) {
		return true, []string{fmt.Sprintf("witness %d: verification script is not the one of the designated account", i)}, 0
	}
	sigs, ok := pushedSigs(w.InvocationScript)
	if !ok || len(sigs) != 1 {
		return true, []string{fmt.Sprintf("witness %d: invocation script is not one signature", i)}, 0
	}
	pk, err := keys.NewPublicKeyFromBytes(m.Pub, elliptic.P256())
	if err != nil || !pk.VerifyHashable(sigs[0], cv.Magic, t) {
		why = append(why, fmt.Sprintf("witness %d: signature does not match", i))
	}
	if ok, s := cv.holds(m.Cond); !ok {
		why = append(why, fmt.Sprintf("witness %d: %s", i, s))
	}
	return true, why, cv.scale(m.Cost0)
}

// ---- scripts --------------------------------------------------------------------------------------

func pwInt64(w *io.BinWriter, v int64) {
	var b [8]byte
	binary.LittleEndian.PutUint64(b[:], uint64(v))
	w.WriteB(byte(opcode.PUSHINT64))
	w.WriteBytes(b[:])
}

// pwVArgs is the invocation script of a V witness: acc, arg, mode (mode on top).
func pwVArgs(c pwCond) []byte {
	w := io.NewBufBinWriter()
	w.WriteB(byte(opcode.PUSHDATA1))
	w.WriteB(20)
	w.WriteBytes(c.Acc.BytesBE())
	pwInt64(w.BinWriter, c.Arg)
	pwInt64(w.BinWriter, pwModes[c.Kind])
	return w.Bytes()
}

func pwParseVArgs(inv []byte) (pwCond, bool) {
	if len(inv) != 22+9+9 || inv[0] != byte(opcode.PUSHDATA1) || inv[1] != 20 || inv[22] != byte(opcode.PUSHINT64) || inv[31] != byte(opcode.PUSHINT64) {
		return pwCond{}, false
	}
	acc, _ := util.Uint160DecodeBytesBE(inv[2:22])
	arg := int64(binary.LittleEndian.Uint64(inv[23:31]))
	mode := int64(binary.LittleEndian.Uint64(inv[32:40]))
	k := pwKindOfMode(mode)
	return pwCond{Kind: k, Arg: arg, Acc: acc}, k != ""
}

// pwScript is the in-witness verification script CheckSig(pub) AND cond.
func pwScript(pub []byte, c pwCond, v util.Uint160) []byte {
	w := io.NewBufBinWriter()
	emit.Bytes(w.BinWriter, pub)
	emit.Syscall(w.BinWriter, interopnames.SystemCryptoCheckSig)
	switch c.Kind {
	case "true":
		emit.Opcodes(w.BinWriter, opcode.PUSHT)
	case "idx<", "idx!=":
		emit.AppCall(w.BinWriter, nativehashes.LedgerContract, "currentIndex", callflag.ReadStates)
		emit.Int(w.BinWriter, c.Arg)
		if c.Kind == "idx<" {
			emit.Opcodes(w.BinWriter, opcode.LT)
		} else {
			emit.Opcodes(w.BinWriter, opcode.NUMNOTEQUAL)
		}
	case "vget==":
		emit.AppCall(w.BinWriter, v, "get", callflag.ReadStates, []byte("k"))
		emit.Int(w.BinWriter, c.Arg)
		emit.Opcodes(w.BinWriter, opcode.NUMEQUAL)
	case "sprice==":
		emit.AppCall(w.BinWriter, nativehashes.PolicyContract, "getStoragePrice", callflag.ReadStates)
		emit.Int(w.BinWriter, c.Arg)
		emit.Opcodes(w.BinWriter, opcode.NUMEQUAL)
	case "fpb==":
		emit.AppCall(w.BinWriter, nativehashes.PolicyContract, "getFeePerByte", callflag.ReadStates)
		emit.Int(w.BinWriter, c.Arg)
		emit.Opcodes(w.BinWriter, opcode.NUMEQUAL)
	case "gas>=":
		emit.AppCall(w.BinWriter, nativehashes.GasToken, "balanceOf", callflag.ReadStates, c.Acc)
		emit.Int(w.BinWriter, c.Arg)
		emit.Opcodes(w.BinWriter, opcode.GE)
	default:
		panic("no such condition " + c.Kind)
	}
	emit.Opcodes(w.BinWriter, opcode.BOOLAND)
	if w.Err != nil {
		panic(w.Err)
	}
	return w.Bytes()
}

// ---- parties --------------------------------------------------------------------------------------

const pwKeyAcc = 10 // the key of every in-witness script of the cast

// pwParty is one signer of a history transaction.
type pwParty struct {
	Name  string
	Hash  util.Uint160
	Verif []byte // empty: deployed contract
	Inv   func(magic uint32, t *transaction.Transaction) []byte
	Std   bool
}

func pwSig(i int) *pwParty {
	a := chainx.Acc(i)
	return &pwParty{Name: fmt.Sprintf("sig%d", i), Hash: a.ScriptHash(), Verif: a.Contract.Script, Std: true,
		Inv: func(magic uint32, t *transaction.Transaction) []byte { return sigPush(a.PrivateKey().SignHashable(magic, t)) }}
}

func pwMsigScript() []byte {
	pubs := keys.PublicKeys{chainx.Acc(7).PublicKey(), chainx.Acc(8).PublicKey(), chainx.Acc(9).PublicKey()}
	s, err := smartcontract.CreateMultiSigRedeemScript(2, pubs)
	if err != nil {
		panic(err)
	}
	return s
}

// pwMsig is the 2-of-3 account of accounts 7..9 (the two first keys in key order sign).
func pwMsig() *pwParty {
	s := pwMsigScript()
	_, pubs, _ := parseMulti(s)
	return &pwParty{Name: "msig", Hash: hash.Hash160(s), Verif: s, Std: true, Inv: func(magic uint32, t *transaction.Transaction) []byte {
		var out []byte
		n := 0
		for _, pb := range pubs {
			for i := 7; i <= 9 && n < 2; i++ {
				if bytes.Equal(chainx.Acc(i).PublicKey().Bytes(), pb) {
					out = append(out, sigPush(chainx.Acc(i).PrivateKey().SignHashable(magic, t))...)
					n++
				}
			}
		}
		return out
	}}
}

func pwCS(c pwCond, v util.Uint160) (*pwParty, *pwWit) {
	a := chainx.Acc(pwKeyAcc)
	s := pwScript(a.PublicKey().Bytes(), c, v)
	p := &pwParty{Name: "cs(" + c.Kind + ")", Hash: hash.Hash160(s), Verif: s,
		Inv: func(magic uint32, t *transaction.Transaction) []byte { return sigPush(a.PrivateKey().SignHashable(magic, t)) }}
	return p, &pwWit{Script: s, Pub: a.PublicKey().Bytes(), Cond: c}
}

func pwVC(c pwCond, v util.Uint160) *pwParty {
	args := pwVArgs(c)
	return &pwParty{Name: "vc(" + c.Kind + ")", Hash: v, Verif: []byte{}, Inv: func(uint32, *transaction.Transaction) []byte { return args }}
}

// ---- cast and prelude -----------------------------------------------------------------------------

const pwFund = 100 * gas

// pwCast is what all histories of one chain state share.
type pwCast struct {
	V      *neotest.Contract
	P      []byte // prelude block (wire)
	N      uint32 // index of the first history block (P.Index+1)
	SPrice int64
	FPB    int64
	Bal6   int64
	VCost  map[int64]int64
	Base0  int64
	CSCost map[string]int64 // condition kind -> cost of the in-witness script
	NA     map[string]string // condition kind -> why it cannot be used at this state
	err    error
}

// pwConds are the conditions of the alphabet at this state; twin = the
// condition that block N does not falsify.
func (k *pwCast) conds() map[string]pwCond {
	n := int64(k.N)
	return map[string]pwCond{
		"true":      {Kind: "true"},
		"idx<N":     {Kind: "idx<", Arg: n},
		"idx<N+1":   {Kind: "idx<", Arg: n + 1},
		"idx!=N":    {Kind: "idx!=", Arg: n},
		"idx!=N+1":  {Kind: "idx!=", Arg: n + 1},
		"vget==1":   {Kind: "vget==", Arg: 1},
		"sprice==0": {Kind: "sprice==", Arg: k.SPrice},
		"fpb==0":    {Kind: "fpb==", Arg: k.FPB},
		"gas6>=B":   {Kind: "gas>=", Arg: k.Bal6 - 10*gas, Acc: chainx.Acc(6).ScriptHash()},
	}
}

var pwCondOrder = []string{"true", "idx<N", "idx<N+1", "idx!=N", "idx!=N+1", "vget==1", "sprice==0", "fpb==0", "gas6>=B"}

// buildPoolWitCast builds the prelude block of the state on a scratch replica.
func (c *stateCtx) buildPoolWitCast() {
	k := &pwCast{}
	c.pw = k
	k.err = func() error {
		n, _, err := c.sc.RefNode(c.h)
		if err != nil {
			return err
		}
		defer n.Close()
		if k.V, err = pwCompileV(chainx.Acc(1).ScriptHash()); err != nil {
			return err
		}
		k.N = n.Height() + 2
		k.SPrice = pwStoragePrice(n)
		k.FPB = n.BC.FeePerByte()
		k.Bal6 = n.BC.GetUtilityTokenBalance(chainx.Acc(6).ScriptHash(), util.Uint160{}).Int64()
		d, err := n.DeployTx(k.V, chainx.Signer(1), nil)
		if err != nil {
			return fmt.Errorf("deploy V: %w", err)
		}
		txs := []*transaction.Transaction{retx(d)}
		to := []util.Uint160{k.V.Hash, pwMsig().Hash}
		conds := k.conds()
		for _, name := range pwCondOrder {
			p, _ := pwCS(conds[name], k.V.Hash)
			to = append(to, p.Hash)
		}
		for _, h := range to {
			t, err := n.MakeTx(chainx.CallScript(nativehashes.GasToken, "transfer", chainx.Acc(1).ScriptHash(), h, int64(pwFund), nil), []neotest.Signer{chainx.Signer(1)}, chainx.SysFee(1*gas))
			if err != nil {
				return fmt.Errorf("fund: %w", err)
			}
			txs = append(txs, retx(t))
		}
		b, err := n.NewBlock(txs...)
		if err != nil {
			return err
		}
		if k.P, err = chainx.BlockBytes(b); err != nil {
			return err
		}
		pd, err := chainx.DecodeBlock(k.P, c.fam.SRIH)
		if err != nil {
			return err
		}
		if v := c.cv.judge(pd); !v.Valid() {
			return fmt.Errorf("the predicate rejects the prelude block: %v", v.Why)
		}
		if err := n.AddBytes(k.P); err != nil {
			return fmt.Errorf("prelude block: %w", err)
		}
		for _, t := range pd.Transactions {
			if err := n.CheckHalt(t.Hash()); err != nil {
				return fmt.Errorf("prelude: %w", err)
			}
		}
		for _, h := range to {
			if bal := n.BC.GetUtilityTokenBalance(h, util.Uint160{}).Int64(); bal != pwFund {
				return fmt.Errorf("prelude: account %s holds %d", h.StringLE(), bal)
			}
		}
		// verification costs of the non-standard witnesses (they do not depend on
		// the outcome: the scripts have no branches, verify returns from one
		// comparison per mode), measured at P; then every condition kind is probed
		// at the three heights verification contexts of a history are created at.
		k.Base0 = n.BC.GetBaseExecFee()
		k.VCost = map[int64]int64{}
		k.CSCost = map[string]int64{}
		k.NA = map[string]string{}
		probe := transaction.New([]byte{byte(opcode.RET)}, 0)
		probe.Signers = []transaction.Signer{{Account: chainx.Acc(4).ScriptHash()}}
		probe.Scripts = []transaction.Witness{{}}
		probe.ValidUntilBlock = k.N + 1
		magic := c.magic
		static := map[string]pwCond{"true": conds["true"], "idx<": {Kind: "idx<", Arg: int64(k.N) + 10}, "idx!=": {Kind: "idx!=", Arg: int64(k.N) + 10},
			"vget==": conds["vget==1"], "sprice==": conds["sprice==0"], "fpb==": conds["fpb==0"], "gas>=": conds["gas6>=B"]}
		for h := 0; h < 3; h++ {
			if h > 0 {
				if _, err := n.AddBlock(); err != nil {
					return err
				}
			}
			for kind, cd := range static {
				pv := pwVC(cd, k.V.Hash)
				g, err := n.BC.VerifyWitness(pv.Hash, probe, &transaction.Witness{InvocationScript: pv.Inv(magic, probe), VerificationScript: pv.Verif}, 10*gas)
				if err != nil {
					k.NA[kind] = fmt.Sprintf("V.verify(%s) at height %d: %v", kind, n.Height(), err)
				} else if h == 0 {
					k.VCost[pwModes[kind]] = g
				}
				pc, _ := pwCS(cd, k.V.Hash)
				g, err = n.BC.VerifyWitness(pc.Hash, probe, &transaction.Witness{InvocationScript: pc.Inv(magic, probe), VerificationScript: pc.Verif}, 10*gas)
				if err != nil {
					k.NA[kind] = fmt.Sprintf("script(%s) at height %d: %v", kind, n.Height(), err)
				} else if h == 0 {
					k.CSCost[kind] = g
				}
			}
		}
		if len(k.NA) > 0 {
			// Known quirk, outside this property (all replicas agree): a verification
			// context at height h resolves native methods with the method table of
			// the hardfork activating at h+1 while System.Contract.Call still uses the
			// stored (old) offsets, so native getters answer for another method.
			near := false
			for _, hh := range n.BC.GetConfig().Hardforks {
				if hh > 0 && hh >= k.N && hh <= k.N+2 {
					near = true
				}
			}
			if !near {
				return fmt.Errorf("prelude: conditions of the cast do not hold where they must: %v", k.NA)
			}
		}
		return nil
	}()
}

// ---- history construction -------------------------------------------------------------------------

var errPWNA = errors.New("n/a")

// pwEnv is the construction site of one history: the reference replica (never
// pools anything) at the state after P.
type pwEnv struct {
	c      *stateCtx
	k      *pwCast
	n      *chainx.Node
	nonce  uint32
	custom map[util.Uint160]*pwWit
	na     string // a party of the history uses a condition that is not available at this state
}

func (e *pwEnv) cs(cond string) *pwParty {
	cd, ok := e.k.conds()[cond]
	if !ok {
		panic("no condition " + cond)
	}
	if why, ok := e.k.NA[cd.Kind]; ok {
		e.na = why
	}
	p, m := pwCS(cd, e.k.V.Hash)
	m.Cost0 = e.k.CSCost[cd.Kind]
	e.custom[p.Hash] = m
	return p
}

func (e *pwEnv) vc(cond string) *pwParty {
	cd, ok := e.k.conds()[cond]
	if !ok {
		panic("no condition " + cond)
	}
	if why, ok := e.k.NA[cd.Kind]; ok {
		e.na = why
	}
	return pwVC(cd, e.k.V.Hash)
}

func (e *pwEnv) party(carrier, cond string) *pwParty {
	switch carrier {
	case "cs":
		return e.cs(cond)
	case "vc":
		return e.vc(cond)
	case "msig":
		return pwMsig()
	case "sig":
		return pwSig(4)
	}
	panic("no carrier " + carrier)
}

type pwTxOpt struct {
	script []byte
	vub    uint32 // 0: P.Index+6
	sysFee int64  // 0: 1 GAS
	attrs  []transaction.Attribute
	extra  int64 // added to the exact minimal network fee (negative allowed)
	fixed  int64 // if != 0 the network fee
	scopes []transaction.WitnessScope // if set: the scope of every signer (default: CalledByEntry for the sender, None for the others)
}

// tx builds a transaction of the parties (first = sender) with the exact
// minimal network fee for the current state of the reference replica + extra.
func (e *pwEnv) tx(parties []*pwParty, o pwTxOpt) *transaction.Transaction {
	e.nonce++
	script := o.script
	if script == nil {
		script = chainx.CallScript(nativehashes.GasToken, "transfer", parties[0].Hash, chainx.Acc(1).ScriptHash(), int64(1), nil)
	}
	sys := o.sysFee
	if sys == 0 {
		sys = 1 * gas
	}
	t := transaction.New(script, sys)
	t.Nonce = e.nonce
	t.ValidUntilBlock = o.vub
	if t.ValidUntilBlock == 0 {
		t.ValidUntilBlock = e.k.N + 5
	}
	t.Attributes = o.attrs
	for i, p := range parties {
		sc := transaction.None
		if i == 0 {
			sc = transaction.CalledByEntry
		}
		if o.scopes != nil {
			sc = o.scopes[i]
		}
		t.Signers = append(t.Signers, transaction.Signer{Account: p.Hash, Scopes: sc})
	}
	sign := func() {
		t.Scripts = nil
		for _, p := range parties {
			t.Scripts = append(t.Scripts, transaction.Witness{InvocationScript: []byte{}, VerificationScript: p.Verif})
		}
		t = retx(t)
		for i, p := range parties {
			t.Scripts[i].InvocationScript = p.Inv(e.c.magic, t)
		}
		t = retx(t)
	}
	sign()
	bc := e.n.BC
	need := int64(t.Size())*bc.FeePerByte() + bc.CalculateAttributesFee(t)
	for i, p := range parties {
		if p.Std {
			f, _ := fee.Calculate(bc.GetBaseExecFee(), p.Verif)
			need += f
			continue
		}
		g, err := bc.VerifyWitness(p.Hash, t, &t.Scripts[i], 10*gas)
		if err != nil {
			panic(fmt.Errorf("witness %d (%s) of a history transaction does not verify where it is built: %w", i, p.Name, err))
		}
		need += g
	}
	t.NetworkFee = need + o.extra
	if o.fixed != 0 {
		t.NetworkFee = o.fixed
	}
	sign()
	return t
}

// helper transactions for the blocks of a history (standard signers)
func (e *pwEnv) std(signer neotest.Signer, script []byte) (*transaction.Transaction, error) {
	t, err := e.n.MakeTx(script, []neotest.Signer{signer})
	if err != nil {
		return nil, err
	}
	return retx(t), nil
}

func (e *pwEnv) filler() (*transaction.Transaction, error) {
	return e.std(chainx.Signer(1), transferScript(1, 3, 2))
}

func (e *pwEnv) vset(key string, v int64) (*transaction.Transaction, error) {
	return e.std(chainx.Signer(2), chainx.CallScript(e.k.V.Hash, "set", []byte(key), v))
}

func (e *pwEnv) vdestroy() (*transaction.Transaction, error) {
	return e.std(chainx.Signer(2), chainx.CallScript(e.k.V.Hash, "destroy"))
}

// committee returns the signers of a committee transaction at the current
// state: the standby committee's account while it is in office, otherwise
// account 1 as the paying sender plus the majority account of the elected
// committee (its keys are those of accounts 1..6 and of the standby members).
func (e *pwEnv) committee() ([]neotest.Signer, error) { return pwCommittee(e.n) }

func pwCommittee(n *chainx.Node) ([]neotest.Signer, error) {
	e := struct{ n *chainx.Node }{n}
	com, err := e.n.BC.GetCommittee()
	if err != nil || len(com) == 0 {
		return nil, fmt.Errorf("committee: %v", err)
	}
	script, err := smartcontract.CreateMajorityMultiSigRedeemScript(com)
	if err != nil {
		return nil, err
	}
	if hash.Hash160(script) == e.n.Committee.ScriptHash() {
		return []neotest.Signer{e.n.Committee}, nil
	}
	known := map[string]*keys.PrivateKey{}
	for i := 1; i <= 6; i++ {
		known[chainx.Acc(i).PublicKey().StringCompressed()] = chainx.Acc(i).PrivateKey()
	}
	for _, s := range []neotest.Signer{e.n.Validator, e.n.Committee} {
		if ms, ok := s.(neotest.MultiSigner); ok {
			for i := 0; ; i++ {
				var single neotest.SingleSigner
				if chainx.Try(func() { single = ms.Single(i) }) != nil {
					break
				}
				known[single.Account().PublicKey().StringCompressed()] = single.Account().PrivateKey()
			}
		} else if ss, ok := s.(neotest.SingleSigner); ok {
			known[ss.Account().PublicKey().StringCompressed()] = ss.Account().PrivateKey()
		}
	}
	m := smartcontract.GetMajorityHonestNodeCount(len(com))
	var accs []*wallet.Account
	for _, pub := range com {
		pk := known[pub.StringCompressed()]
		if pk == nil {
			continue
		}
		a := wallet.NewAccountFromPrivateKey(pk)
		if err := a.ConvertMultisig(m, com.Copy()); err != nil {
			return nil, err
		}
		accs = append(accs, a)
	}
	if len(accs) < m {
		return nil, fmt.Errorf("committee: only %d of %d keys known: %w", len(accs), m, errPWNA)
	}
	var ms neotest.Signer
	if perr := chainx.Try(func() { ms = neotest.NewMultiSigner(accs...) }); perr != nil {
		return nil, perr
	}
	return []neotest.Signer{chainx.Signer(1), ms}, nil
}

func (e *pwEnv) policy(method string, args ...any) (*transaction.Transaction, error) {
	sg, err := e.committee()
	if err != nil {
		return nil, err
	}
	t, err := e.n.MakeTx(chainx.CallScript(nativehashes.PolicyContract, method, args...), sg)
	if err != nil {
		return nil, err
	}
	return retx(t), nil
}

func (e *pwEnv) gasMove(from, to int, amount int64) (*transaction.Transaction, error) {
	return e.std(chainx.Signer(from), transferScript(from, to, amount))
}

type pwStep struct {
	relay bool
	txs   func(e *pwEnv) ([]*transaction.Transaction, error) // block step: transactions of the block (built at the state it extends)
}

func pwBlock(f func(e *pwEnv) (*transaction.Transaction, error)) pwStep {
	return pwStep{txs: func(e *pwEnv) ([]*transaction.Transaction, error) {
		t, err := f(e)
		if err != nil {
			return nil, err
		}
		return []*transaction.Transaction{t}, nil
	}}
}

var pwEmpty = pwStep{txs: func(e *pwEnv) ([]*transaction.Transaction, error) { return nil, nil }}
var pwRelay = pwStep{relay: true}

type pwSpec struct {
	id    string
	group string
	want  string // valid | iii
	ahead bool
	// make returns T (built on e at the state after P), the steps and the
	// transactions that precede T in X (nil: X = [T]).
	make func(e *pwEnv) (t *transaction.Transaction, steps []pwStep, xPre func(e *pwEnv) (*transaction.Transaction, error), err error)
}

// pwHist is a built history (wire form) with the verdicts of the predicate and
// of the reference replica.
type pwHist struct {
	T        []byte
	Steps    [][]byte // wire block, nil = relay
	RelayRef []string // verdict of the reference replica's isolated verification at each relay step
	X        []byte
	V        verdict
	RefOK    bool
	RefErr   string
	RefRoot  string
}

// pwStoragePrice reads the storage price from Policy's storage (key 19), the
// value Policy.getStoragePrice reports to contracts.
func pwStoragePrice(n *chainx.Node) int64 {
	if v, ok := n.StorageDump([]int32{-7})["-7:13"]; ok {
		vb, _ := hex.DecodeString(v)
		return bigint.FromBytes(vb).Int64()
	}
	return -1
}

// pwView is viewOf plus what the predicate needs about the cast.
func (c *stateCtx) pwView(n *chainx.Node, hist []*block.Block, custom map[util.Uint160]*pwWit) (*chainView, error) {
	cv, err := c.viewOf(n, hist)
	if err != nil {
		return nil, err
	}
	k := c.pw
	x := &pwExt{VHash: k.V.Hash, VStore: map[string]int64{}, StoragePrice: pwStoragePrice(n), Custom: custom, VCost: k.VCost, Base0: k.Base0}
	cv.PW = x
	if cs := n.BC.GetContractState(k.V.Hash); cs != nil {
		cv.Contracts[k.V.Hash] = true
		for sk, sv := range n.StorageDump([]int32{cs.ID}) {
			kb, _ := hex.DecodeString(sk[strings.Index(sk, ":")+1:])
			vb, _ := hex.DecodeString(sv)
			x.VStore[string(kb)] = bigint.FromBytes(vb).Int64()
		}
	}
	accs := []util.Uint160{k.V.Hash, pwMsig().Hash}
	for h := range custom {
		accs = append(accs, h)
	}
	for _, a := range accs {
		cv.Balance[a] = n.BC.GetUtilityTokenBalance(a, util.Uint160{}).Int64()
	}
	return cv, nil
}

// buildPW constructs the history of sp on a fresh reference replica.
func (c *stateCtx) buildPW(sp pwSpec) (h *pwHist, err error) {
	k := c.pw
	if k == nil || k.err != nil {
		return nil, fmt.Errorf("prelude: %v", k.err)
	}
	n, _, err := c.sc.RefNode(c.h)
	if err != nil {
		return nil, err
	}
	defer n.Close()
	if err := n.AddBytes(k.P); err != nil {
		return nil, fmt.Errorf("prelude block: %w", err)
	}
	hist, err := decodeAll(append(append([][]byte{}, c.blocks...), k.P), c.fam.SRIH)
	if err != nil {
		return nil, err
	}
	e := &pwEnv{c: c, k: k, n: n, nonce: 0xC0680000, custom: map[util.Uint160]*pwWit{}}
	var t *transaction.Transaction
	var steps []pwStep
	var xPre func(e *pwEnv) (*transaction.Transaction, error)
	perr := chainx.Try(func() { t, steps, xPre, err = sp.make(e) })
	if e.na != "" {
		return nil, fmt.Errorf("%s: %w", e.na, errPWNA)
	}
	if perr != nil {
		return nil, perr
	}
	if err != nil {
		return nil, err
	}
	cv, err := c.pwView(n, hist, e.custom)
	if err != nil {
		return nil, err
	}
	if why := cv.txRules(t); len(why) != 0 {
		return nil, fmt.Errorf("the predicate rejects the transaction where it is pooled: %v", why)
	}
	if err := n.BC.VerifyTx(retx(t)); err != nil {
		return nil, fmt.Errorf("the reference replica rejects the transaction where it is pooled: %w", err)
	}
	h = &pwHist{T: t.Bytes()}
	for si, st := range steps {
		if st.relay {
			h.Steps = append(h.Steps, nil)
			h.RelayRef = append(h.RelayRef, errClass(n.BC.VerifyTx(retx(t))))
			continue
		}
		txs, err := st.txs(e)
		if err != nil {
			return nil, fmt.Errorf("step %d: %w", si, err)
		}
		b, err := n.NewBlock(txs...)
		if err != nil {
			return nil, err
		}
		bb, err := chainx.BlockBytes(b)
		if err != nil {
			return nil, err
		}
		bd, err := chainx.DecodeBlock(bb, c.fam.SRIH)
		if err != nil {
			return nil, err
		}
		if v := cv.judge(bd); !v.Valid() {
			return nil, fmt.Errorf("step %d: the predicate rejects a block of the history: %v", si, v.Why)
		}
		if err := n.AddBytes(bb); err != nil {
			return nil, fmt.Errorf("step %d: the reference replica rejects a block of the history: %w", si, err)
		}
		for _, tx := range bd.Transactions {
			if tx.Hash() != t.Hash() {
				if err := n.CheckHalt(tx.Hash()); err != nil {
					if strings.Contains(err.Error(), "invalid committee signature") {
						// the block is the first of an epoch and elects another committee than the one in office when it was built
						return nil, fmt.Errorf("step %d: the committee changes in the very block that carries the committee's transaction: %w", si, errPWNA)
					}
					return nil, fmt.Errorf("step %d: %w", si, err)
				}
			}
		}
		hist = append(hist, bd)
		h.Steps = append(h.Steps, bb)
		if cv, err = c.pwView(n, hist, e.custom); err != nil {
			return nil, err
		}
	}
	xt := []*transaction.Transaction{retx(t)}
	if xPre != nil {
		u, err := xPre(e)
		if err != nil {
			return nil, err
		}
		xt = []*transaction.Transaction{u, retx(t)}
	}
	x, err := n.NewBlock(xt...)
	if err != nil {
		return nil, err
	}
	if h.X, err = chainx.BlockBytes(x); err != nil {
		return nil, err
	}
	xd, err := chainx.DecodeBlock(h.X, c.fam.SRIH)
	if err != nil {
		return nil, err
	}
	h.V = cv.judge(xd)
	if err := n.AddBytes(h.X); err != nil {
		h.RefErr = errClass(err)
	} else {
		h.RefOK = true
		if sr, err := n.BC.GetStateRoot(x.Index); err == nil {
			h.RefRoot = sr.Root.StringLE()
		}
	}
	return h, nil
}

// runPoolWit executes one history on a fresh replica of the state's mode.
func (c *stateCtx) runPoolWit(d *delivery, o *outcome, base *caseRec, bad func(what, errText string, diff []string, note string)) {
	sp := d.Ext.(pwSpec)
	h, err := c.buildPW(sp)
	if errors.Is(err, errPWNA) {
		o.class, o.result, o.errText = "n/a", "n/a", errClass(err)
		return
	}
	if err != nil && strings.Contains(err.Error(), "did not halt") && strings.Contains(err.Error(), "witness check failed") {
		// a set-up transaction of the committee was signed by the committee in office when it was built and the
		// block that carries it installs another one (states right before an epoch boundary): the history does
		// not exist in this state - not applicable, counted.
		o.class, o.result, o.errText = "n/a", "n/a", "set-up signed by the outgoing committee"
		return
	}
	if err != nil {
		o.harness = "history cannot be built: " + err.Error()
		return
	}
	o.execs += len(h.Steps) + 2
	base.Why = h.V.Why
	o.class = "poolwit-" + h.V.class(util.Uint256{1}, util.Uint256{2})
	md := c.mode
	md.HdrKnown = false
	n, err := c.prepareWith(md)
	if err != nil {
		o.harness = "prepare: " + err.Error()
		return
	}
	defer n.Close()
	try := func(f func() error) (err error) {
		o.execs++
		if perr := chainx.Try(func() { err = f() }); perr != nil {
			bad("panic", perr.Error(), nil, "")
			return perr
		}
		return err
	}
	if err := n.AddBytes(c.pw.P); err != nil {
		bad("valid-block-rejected", err.Error(), nil, "prelude block of a witness history (deploys the verification contract, funds accounts)")
		return
	}
	t, err := transaction.NewTransactionFromBytes(h.T)
	if err != nil {
		o.harness = err.Error()
		return
	}
	if err := n.BC.PoolTx(t); err != nil {
		o.harness = "the transaction of the history is not accepted into the pool: " + err.Error()
		return
	}
	maxID := c.maxID + 2
	x, _ := chainx.DecodeBlock(h.X, c.fam.SRIH)
	if sp.ahead {
		var hs []*block.Header
		for _, sb := range h.Steps {
			if sb != nil {
				b, _ := chainx.DecodeBlock(sb, c.fam.SRIH)
				hs = append(hs, &b.Header)
			}
		}
		hs = append(hs, &x.Header)
		_ = try(func() error { return n.BC.AddHeaders(hs...) })
	}
	var trace []string
	ri := 0
	for si, sb := range h.Steps {
		if sb == nil {
			tt, _ := transaction.NewTransactionFromBytes(h.T)
			was := n.BC.GetMemPool().ContainsKey(tt.Hash())
			rerr := try(func() error { return n.BC.PoolTx(tt) })
			ref := h.RelayRef[ri]
			ri++
			trace = append(trace, fmt.Sprintf("relay(pooled before: %v): %s", was, errClass(rerr)))
			if rerr == nil && ref != "nil" {
				bad("relay-accepted-invalid-transaction", "", nil, fmt.Sprintf("step %d: PoolTx accepted the transaction again; isolated verification (VerifyTx) on a replica with the same chain fails: %s", si, ref))
				return
			}
			continue
		}
		b, _ := chainx.DecodeBlock(sb, c.fam.SRIH)
		if err := try(func() error { return n.BC.AddBlock(b) }); err != nil {
			bad("valid-block-rejected", err.Error(), nil, fmt.Sprintf("block %d of a witness history (it does not contain the pooled transaction)", si))
			return
		}
		trace = append(trace, fmt.Sprintf("block(still pooled: %v)", n.BC.GetMemPool().ContainsKey(t.Hash())))
	}
	s1, err := takeSnap(n, maxID)
	if err != nil {
		bad("unreadable-after-valid-block", err.Error(), nil, "")
		return
	}
	if err := n.Persist(); err != nil {
		bad("flush-failed", err.Error(), nil, "")
		return
	}
	dump0 := rawDump(n.Store)
	xerr := try(func() error { return n.BC.AddBlock(x) })
	o.errText = fmt.Sprintf("%s [%s]", errClass(xerr), strings.Join(trace, "; "))
	s2, err := takeSnap(n, maxID)
	if err != nil {
		bad("unreadable-after-delivery", err.Error(), nil, "")
		return
	}
	ref := "the replica that never pooled the transaction accepts the same block"
	if !h.RefOK {
		ref = "the replica that never pooled the transaction rejects the same block: " + h.RefErr
	}
	if xerr == nil {
		o.result = "accepted"
		switch {
		case !h.V.Valid():
			bad("accepted-invalid-block", "", s1.diff(s2, true), fmt.Sprintf("the transaction was pooled while valid; the later blocks (without it) were accepted; the last block carries it with the pooled witnesses; %s; history on the node: %s", ref, strings.Join(trace, "; ")))
		case !h.RefOK:
			bad("verdict-depends-on-mempool-history", "", nil, ref)
		case s2.Root != h.RefRoot:
			bad("state-differs-from-empty-pool-replica", "", []string{"StateRoot: " + s2.Root + " != " + h.RefRoot}, "")
		}
		return
	}
	o.result = "rejected"
	if h.RefOK {
		bad("verdict-depends-on-mempool-history", xerr.Error(), nil, ref+"; history on the node: "+strings.Join(trace, "; "))
		return
	}
	if df := s1.diff(s2, false); len(df) != 0 {
		bad("rejected-block-changed-state", xerr.Error(), df, "last block of a witness history")
		return
	}
	if err := n.Persist(); err != nil {
		bad("flush-failed", err.Error(), nil, "")
		return
	}
	if df, _ := dumpDiff(dump0, rawDump(n.Store), func(k string) bool { return headerKey(k, x.Hash()) }); len(df) != 0 {
		bad("rejected-block-changed-database", xerr.Error(), df, "last block of a witness history; raw database after a flush compared with the flush before the delivery")
	}
}

// parseMulti returns the keys of a multisignature script in script order.
func parseMulti(s []byte) (int, [][]byte, bool) {
	return scparser.ParseMultiSigContract(s)
}

// pwCoverage summarises the witness histories for the evidence.
func pwCoverage(its []item, delivered, rejected map[string]int, naWhy map[string]int) map[string]any {
	type cnt struct{ Specs, Cases, Rejected int }
	byShape := map[string]*cnt{}
	byCond := map[string]*cnt{}
	byKind := map[string]*cnt{}
	bump := func(m map[string]*cnt, k, id string) {
		if m[k] == nil {
			m[k] = &cnt{}
		}
		m[k].Specs++
		m[k].Cases += delivered[id]
		m[k].Rejected += rejected[id]
	}
	nSpecs, nCases := 0, 0
	for _, it := range its {
		if it.Group != "pool-witness" && it.Group != "pool-kinds" {
			continue
		}
		nSpecs++
		nCases += delivered[it.ID]
		parts := strings.Split(it.ID, ".")
		if it.Group == "pool-witness" {
			// pw.<cond>.<carrier>.<pos>.<shape...>
			bump(byCond, parts[1]+"/"+parts[2]+"/"+parts[3], it.ID)
			bump(byShape, strings.Join(parts[4:], "."), it.ID)
		} else {
			kind := parts[len(parts)-1]
			if kind == "relay" {
				kind = parts[len(parts)-2] + "+relay"
			}
			bump(byKind, kind, it.ID)
		}
	}
	return map[string]any{"specs": nSpecs, "cases": nCases, "pool-witness_by_condition_carrier_position": byCond, "pool-witness_by_shape": byShape,
		"pool-kinds_by_sender_kind": byKind, "not_applicable": naWhy, "conditions": pwCondOrder, "carriers": []string{"cs (script in the witness)", "vc (deployed contract's verify with arguments)"},
		"positions": []string{"first", "second", "third"}}
}
