package c06

// Independent validity predicate for a candidate next block, written from the
// text of property C06 (not from Blockchain.AddBlock):
//
//   header valid  :=  directly extends the tip (index = tip+1, previous hash =
//                     tip hash, timestamp strictly later), is signed by the
//                     consensus address designated by the previous block, and
//                     (state roots in headers) carries the local previous root
//   body valid    :=  the header carries the Merkle root of the transactions
//                     and every transaction is individually valid and all are
//                     mutually compatible
//
// It reads the chain only through a chainView that is collected from the
// decoded wire blocks of the history and from a few plain getters (balances,
// policy values) of a scratch replica - never from the replica under test.

import (
	"bytes"
	"crypto/elliptic"
	"fmt"

	"github.com/nspcc-dev/neo-go/pkg/core/block"
	"github.com/nspcc-dev/neo-go/pkg/core/fee"
	"github.com/nspcc-dev/neo-go/pkg/core/native/nativehashes"
	"github.com/nspcc-dev/neo-go/pkg/core/transaction"
	"github.com/nspcc-dev/neo-go/pkg/crypto/hash"
	"github.com/nspcc-dev/neo-go/pkg/crypto/keys"
	"github.com/nspcc-dev/neo-go/pkg/smartcontract/scparser"
	"github.com/nspcc-dev/neo-go/pkg/util"
	"github.com/nspcc-dev/neo-go/pkg/vm/opcode"
)

// ruleStateRoot is the one header rule a node cannot evaluate for a header
// that arrives before its predecessor block was processed.
const ruleStateRoot = "previous state root differs from the local one"

type conflictRec struct {
	Signers []util.Uint160
	Index   uint32
}

// chainView is what the predicate knows about the chain state S.
type chainView struct {
	Magic       uint32
	SRIH        bool
	Tip         *block.Header // the current tip (parent of a valid next block)
	LocalRoot   util.Uint256  // state root after the tip
	MaxVUBInc   uint32
	MTB         uint32
	FeePerByte  int64
	BaseExecFee int64
	OnChain     map[util.Uint256]uint32        // hash of every transaction on chain -> block index
	Conflicts   map[util.Uint256][]conflictRec // hash named by a Conflicts attribute of an on-chain tx
	Balance     map[util.Uint160]int64         // GAS of the accounts that send transactions here
	Blocked     map[util.Uint160]bool          // accounts blocked by Policy
	AttrFee     map[transaction.AttrType]int64 // Policy attribute fees (absent = 0)
	Contracts   map[util.Uint160]bool          // deployed contracts whose verify method accepts everything (instances of U)
	// extension round (filled by fillExt)
	CommitteeAddr util.Uint160     // majority multisignature account of the current committee
	OracleAddr    util.Uint160     // multisignature account of the designated oracle nodes (zero: none)
	OraclePending map[uint64]int64 // pending oracle request id -> GAS reserved for the response
	// second extension round: meaning of the non-standard witnesses of the cast (nil outside the witness histories)
	PW *pwExt
	// third extension round: native Notary (nil outside the pool histories that use it)
	NV *notaryView
}

type verdict struct {
	HeaderOK bool
	BodyOK   bool
	Why      []string // every broken rule
}

func (v verdict) Valid() bool { return v.HeaderOK && v.BodyOK }

// class names the oracle class of a delivered block: "valid", "i" (header
// invalid), "ii" (header identical to the valid block's, body bad), "iii"
// (another validly signed and linked header over a bad body).
func (v verdict) class(h, valid util.Uint256) string {
	switch {
	case !v.HeaderOK:
		return "i"
	case v.BodyOK:
		return "valid"
	case h == valid:
		return "ii"
	}
	return "iii"
}

func merkleRoot(hs []util.Uint256) util.Uint256 {
	if len(hs) == 0 {
		return util.Uint256{}
	}
	lvl := append([]util.Uint256{}, hs...)
	for len(lvl) > 1 {
		if len(lvl)%2 == 1 {
			lvl = append(lvl, lvl[len(lvl)-1])
		}
		next := make([]util.Uint256, 0, len(lvl)/2)
		for i := 0; i < len(lvl); i += 2 {
			buf := append(append([]byte{}, lvl[i].BytesBE()...), lvl[i+1].BytesBE()...)
			next = append(next, hash.DoubleSha256(buf))
		}
		lvl = next
	}
	return lvl[0]
}

// pushedSigs parses an invocation script that consists of nothing but
// PUSHDATA1 <64 bytes> items.
func pushedSigs(inv []byte) ([][]byte, bool) {
	var out [][]byte
	for len(inv) > 0 {
		if len(inv) < 66 || inv[0] != byte(opcode.PUSHDATA1) || inv[1] != 64 {
			return nil, false
		}
		out = append(out, inv[2:66])
		inv = inv[66:]
	}
	return out, true
}

// witnessOK decides whether w is a valid standard (signature or m-of-n
// multisignature) witness of account acc over the signed container c.
func witnessOK(acc util.Uint160, w *transaction.Witness, magic uint32, c hash.Hashable) (bool, string) {
	if hash.Hash160(w.VerificationScript) != acc {
		return false, "verification script is not the one of the designated account"
	}
	sigs, ok := pushedSigs(w.InvocationScript)
	if !ok {
		return false, "invocation script is not a list of signatures"
	}
	var pubs [][]byte
	m := 1
	if pb, ok := scparser.ParseSignatureContract(w.VerificationScript); ok {
		pubs = [][]byte{pb}
	} else if mm, pbs, ok := scparser.ParseMultiSigContract(w.VerificationScript); ok {
		m, pubs = mm, pbs
	} else if pb, ok := paddedSignatureContract(w.VerificationScript); ok {
		pubs = [][]byte{pb}
	} else {
		return false, "verification script is not a standard contract"
	}
	if len(sigs) != m {
		return false, fmt.Sprintf("%d signatures, %d needed", len(sigs), m)
	}
	// signatures must match keys in key order
	j := 0
	for _, s := range sigs {
		found := false
		for j < len(pubs) {
			pk, err := keys.NewPublicKeyFromBytes(pubs[j], elliptic.P256())
			j++
			if err != nil {
				return false, "bad key in verification script"
			}
			if pk.VerifyHashable(s, magic, c) {
				found = true
				break
			}
		}
		if !found {
			return false, "a signature matches no remaining key"
		}
	}
	return true, ""
}

func (cv *chainView) headerRules(h *block.Header) []string {
	var why []string
	p := cv.Tip
	if h.Index != p.Index+1 {
		why = append(why, "index is not tip+1")
	}
	if h.PrevHash != p.Hash() {
		why = append(why, "previous hash is not the tip")
	}
	if h.Timestamp <= p.Timestamp {
		why = append(why, "timestamp not strictly later")
	}
	if h.StateRootEnabled != cv.SRIH {
		why = append(why, "state-root-in-header setting differs")
	} else if cv.SRIH && h.PrevStateRoot != cv.LocalRoot {
		why = append(why, ruleStateRoot)
	}
	if ok, s := witnessOK(p.NextConsensus, &h.Script, cv.Magic, h); !ok {
		why = append(why, "witness: "+s)
	}
	return why
}

func hasSigner(t *transaction.Transaction, a util.Uint160) bool {
	for _, s := range t.Signers {
		if s.Account == a {
			return true
		}
	}
	return false
}

// txRules lists the rules transaction t breaks on its own at state S.
func (cv *chainView) txRules(t *transaction.Transaction) []string {
	var why []string
	tip := cv.Tip.Index
	if t.ValidUntilBlock <= tip {
		why = append(why, "expired")
	}
	if t.ValidUntilBlock > tip+cv.MaxVUBInc {
		why = append(why, "valid-until too far ahead")
	}
	if len(t.Signers) == 0 || len(t.Signers) != len(t.Scripts) {
		why = append(why, "signers/witnesses mismatch")
		return why
	}
	size := t.Size()
	if size > transaction.MaxTransactionSize {
		why = append(why, "oversize")
	}
	need := int64(size) * cv.FeePerByte
	for i := range t.Signers {
		if cv.NV != nil && t.Signers[i].Account == nativehashes.Notary {
			ws, cost := cv.NV.witness(cv, t, i)
			why = append(why, ws...)
			need += cost
			if cv.Blocked[t.Signers[i].Account] {
				why = append(why, "signer blocked by policy")
			}
			continue
		}
		if cv.PW != nil {
			if handled, ws, cost := cv.PW.witness(cv, t, i); handled {
				why = append(why, ws...)
				need += cost
				if cv.Blocked[t.Signers[i].Account] {
					why = append(why, "signer blocked by policy")
				}
				continue
			}
		}
		if len(t.Scripts[i].VerificationScript) == 0 && len(t.Scripts[i].InvocationScript) == 0 {
			// contract signer: the deployed contract's verify method decides
			if t.Signers[i].Account == nativehashes.OracleContract {
				// native Oracle: signs exactly the transactions that carry an oracle response
				if len(t.GetAttributes(transaction.OracleResponseT)) == 0 {
					why = append(why, fmt.Sprintf("witness %d: the Oracle contract signs oracle responses only", i))
				}
			} else if !cv.Contracts[t.Signers[i].Account] {
				why = append(why, fmt.Sprintf("witness %d: no deployed verification contract", i))
			}
		} else if ok, s := witnessOK(t.Signers[i].Account, &t.Scripts[i], cv.Magic, t); !ok {
			why = append(why, fmt.Sprintf("witness %d: %s", i, s))
		}
		f, _ := fee.Calculate(cv.BaseExecFee, t.Scripts[i].VerificationScript)
		need += f
		if cv.Blocked[t.Signers[i].Account] {
			why = append(why, "signer blocked by policy")
		}
	}
	for _, a := range t.Attributes {
		if a.Type == transaction.ConflictsT {
			need += cv.AttrFee[a.Type] * int64(len(t.Signers))
		} else if a.Type == transaction.NotaryAssistedT && cv.NV != nil {
			need += cv.AttrFee[a.Type] * (int64(a.Value.(*transaction.NotaryAssisted).NKeys) + 1)
		} else {
			need += cv.AttrFee[a.Type]
		}
	}
	if t.NetworkFee < need {
		why = append(why, "network fee too small")
	}
	if t.SystemFee < 0 || t.NetworkFee < 0 {
		why = append(why, "negative fee")
	}
	if _, ok := cv.OnChain[t.Hash()]; ok {
		why = append(why, "already on chain")
	}
	for _, rec := range cv.Conflicts[t.Hash()] {
		if !(rec.Index <= tip && rec.Index+cv.MTB > tip) {
			continue
		}
		for _, a := range rec.Signers {
			if hasSigner(t, a) {
				why = append(why, "an on-chain transaction of the same signer conflicts with it")
				break
			}
		}
	}
	seen := map[util.Uint256]bool{}
	for _, a := range t.Attributes {
		switch a.Type {
		case transaction.NotValidBeforeT:
			if a.Value.(*transaction.NotValidBefore).Height > tip+1 {
				why = append(why, "not yet valid")
			}
		case transaction.ConflictsT:
			ch := a.Value.(*transaction.Conflicts).Hash
			if seen[ch] {
				why = append(why, "duplicate Conflicts attribute")
			}
			seen[ch] = true
			if _, ok := cv.OnChain[ch]; ok {
				why = append(why, "conflicts with a transaction that is already on chain")
			}
		case transaction.HighPriority:
			if cv.CommitteeAddr == (util.Uint160{}) || !hasSigner(t, cv.CommitteeAddr) {
				why = append(why, "high priority attribute without the committee's signature")
			}
		case transaction.OracleResponseT:
			why = append(why, cv.oracleRules(t, a.Value.(*transaction.OracleResponse))...)
		case transaction.NotaryAssistedT:
			if cv.NV == nil {
				why = append(why, "attribute outside the harness alphabet")
			} else {
				why = append(why, cv.NV.attrRules(t)...)
			}
		default:
			if a.Type >= transaction.ReservedLowerBound {
				why = append(why, "attribute of a reserved type")
			}
		}
	}
	if !scriptParses(t.Script) {
		why = append(why, "script is malformed")
	}
	if t.Sender() == (util.Uint160{}) {
		why = append(why, "no sender")
	}
	return why
}

// judge evaluates the whole candidate.
func (cv *chainView) judge(b *block.Block) verdict {
	var v verdict
	hw := cv.headerRules(&b.Header)
	v.HeaderOK = len(hw) == 0
	var bw []string
	hs := make([]util.Uint256, len(b.Transactions))
	inBlock := map[util.Uint256]int{}
	for i, t := range b.Transactions {
		hs[i] = t.Hash()
		inBlock[t.Hash()]++
	}
	if merkleRoot(hs) != b.MerkleRoot {
		bw = append(bw, "Merkle root is not the one of the transactions")
	}
	spent := map[util.Uint160]int64{}
	spentDeposit := map[util.Uint160]int64{} // depositor -> fees of the transactions the Notary contract sends on its behalf
	answered := map[uint64]int{}
	for _, t := range b.Transactions {
		for _, a := range t.GetAttributes(transaction.OracleResponseT) {
			answered[a.Value.(*transaction.OracleResponse).ID]++
		}
	}
	for i, t := range b.Transactions {
		for _, a := range t.GetAttributes(transaction.OracleResponseT) {
			if answered[a.Value.(*transaction.OracleResponse).ID] > 1 {
				bw = append(bw, fmt.Sprintf("tx %d: another transaction of the block answers the same oracle request", i))
			}
		}
		for _, w := range cv.txRules(t) {
			bw = append(bw, fmt.Sprintf("tx %d: %s", i, w))
		}
		if inBlock[t.Hash()] > 1 {
			bw = append(bw, fmt.Sprintf("tx %d: duplicated in the block", i))
		}
		for _, a := range t.GetAttributes(transaction.ConflictsT) {
			if inBlock[a.Value.(*transaction.Conflicts).Hash] > 0 {
				bw = append(bw, fmt.Sprintf("tx %d: conflicts with another transaction of the block", i))
			}
		}
		if cv.NV != nil && t.Sender() == nativehashes.Notary && len(t.Signers) > 1 {
			spentDeposit[t.Signers[1].Account] += t.SystemFee + t.NetworkFee
			continue
		}
		spent[t.Sender()] += t.SystemFee + t.NetworkFee
	}
	for acc, s := range spentDeposit {
		if s > cv.NV.Deposit[acc] {
			bw = append(bw, "Notary deposit does not cover the fees of the depositor's transactions: "+acc.StringLE())
		}
	}
	for acc, s := range spent {
		bal, known := cv.Balance[acc]
		if !known {
			bw = append(bw, "sender with unknown balance: "+acc.StringLE())
		} else if s > bal {
			bw = append(bw, "sender cannot pay the fees of its transactions: "+acc.StringLE())
		}
	}
	v.BodyOK = len(bw) == 0
	v.Why = append(hw, bw...)
	return v
}

var _ = bytes.Equal

// paddedSignatureContract recognises PUSHDATA2 <filler> DROP followed by a
// standard signature contract (the harness uses it to reach the size limit).
func paddedSignatureContract(s []byte) ([]byte, bool) {
	if len(s) < 4 || s[0] != byte(opcode.PUSHDATA2) {
		return nil, false
	}
	n := int(s[1]) | int(s[2])<<8
	if len(s) < 4+n || s[3+n] != byte(opcode.DROP) {
		return nil, false
	}
	return scparser.ParseSignatureContract(s[4+n:])
}
