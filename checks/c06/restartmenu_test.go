package c06

// Round 4: the corruption menu on RESTARTED replicas (group "restart-menu").
//
// What a Blockchain keeps in memory and rebuilds from the store when it is
// started (local state root AND its height, header hash list, native caches,
// top block, an empty mempool) decides about block and header verification.
// The restart family of the first extension round delivered four body / witness
// corruptions after a restart; the header-field corruptions - among them the
// previous-state-root ones that only state-root-in-header families have - were
// never delivered to a node that had just been started.
//
// A restarted case is an ordinary menu case (same candidate, same predicate,
// same oracle, same control replica that never restarted) whose replica is
// prepared differently:
//
//	New(store); history blocks 1..len-After; [hdr-known modes: AddHeaders(rest of the history, b)];
//	graceful stop; New(same store); the remaining After history blocks; pool of the mode; flush of the mode
//
//	After = 0   the candidate is the FIRST block (or header batch) the started node sees
//	After = 1   the last history block is the first one, the candidate the second
//	Backend     mem   = MemoryStore that survives Close (flush, then Close + NewBlockchain)
//	            bolt / level = database file closed by the node's Close and opened again
//
// The base items keep their delivery sequences: single delivery through
// AddBlock or AddHeaders, the same block twice, the gap, "ahead" (AddHeaders(b,
// corrupted b2) first) and "mirror" (AddHeaders(b, b2) first).
//
// Item IDs: rs<After>.<backend>.<base item ID>. Which (After, backend) a state
// gets is a function of the state's identity (not of its position in a run), so
// that a replay selects the same.

import (
	"fmt"
	"path/filepath"
	"strings"
	"sync"

	"github.com/nspcc-dev/neo-go/pkg/core/storage/dbconfig"
	"github.com/nspcc-dev/neo-go/pkg/core/storage"

	"verif/lib/chainx"
	"verif/lib/vk"
)

type rsSpec struct {
	After   int
	Backend string
	Mid     bool // "ahead" / "mirror" sequences only: the restart happens between the header batch and the blocks, not before both
}

var rsBackends = []string{"mem", "bolt", "level"}

// rsThorough is set by TestCheck before the menu is built.
var rsThorough bool

const rsGroup = "restart-menu"

var rsWrappable = map[string]bool{"header": true, "witness": true, "txlist": true, "txalter": true, "txwitness": true, "txspecial": true,
	"encoding": true, "sequence": true, "headers-ahead": true, "control": true}

// rsQuickIDs: the base items of the quick tier besides all re-signed header
// field corruptions: what depends on something a started node rebuilds.
var rsQuickIDs = map[string]bool{
	"hdr.PrevStateRoot^1.keep": true, "hdr.Index+1.keep": true,
	"wit.sig-first^1": true, "wit.invocation-empty": true, "wit.m-1-signatures": true, "wit.foreign-committee": true,
	"txs.drop-all.K": true, "txs.drop-first.M": true, "txs.dup-first.R": true, "txs.drop-all.R": true,
	"tx0.nonce+1.R": true, "tx0.witness.sig^1": true, "tx1.witness.verification-empty": true,
	"sp.expired(vub=tip)": true, "sp.vub-beyond-max-increment": true, "sp.vub=max-increment": true,
	"sp.network-fee-one-short": true, "sp.network-fee-exact": true, "sp.already-on-chain": true,
	"sp.on-chain-conflict-record-same-signer": true, "sp.sender-blocked-by-policy": true,
	"sp.underfunded-single(+1)": true, "sp.funded-single-exactly": true,
	"sp.high-priority-by-committee": true, "sp.high-priority-without-committee": true,
	"sp.oracle-response": true, "sp.oracle-response-to-unknown-request": true,
	"sp.conflicting-pair:x,y(y-pays-more)": true,
	"seq.same-block-twice": true, "seq.index+1-while-index-missing": true, "seq.tip-redelivered": true, "seq.block1-redelivered": true,
	"ahead.b2.none(valid-successor)": true, "ahead.b2.PrevStateRoot^1": true, "ahead.b2.PrevStateRoot=root-before-b": true, "ahead.b2.Timestamp=b's": true,
	"mirror.hdr.PrevStateRoot^1.resign": true, "mirror.wit.sig-first^1": true, "mirror.txs.drop-all.K": true,
	"ctl.valid-block": true,
}

// rsSecondIDs: what the quick tier delivers as the SECOND block after a restart
// besides the header, witness, sequence, headers-ahead and control groups.
var rsSecondIDs = map[string]bool{"txs.drop-all.K": true, "tx0.witness.sig^1": true, "sp.expired(vub=tip)": true, "sp.network-fee-one-short": true, "sp.network-fee-exact": true}

func rsTierSel(it item) bool {
	if !rsWrappable[it.Group] {
		return false
	}
	if rsThorough {
		return true
	}
	return rsQuickIDs[it.ID] || (it.Group == "header" && strings.HasSuffix(it.ID, ".resign"))
}

// rsIndex is a small number derived from the identity of the state.
func (c *stateCtx) rsIndex() int {
	k := c.sc.Pad + len(c.names)
	for i, f := range families() {
		if f.Name == c.fam.Name {
			k += i
		}
	}
	for i, m := range modes {
		if m.Name == c.mode.Name {
			k += i
		}
	}
	return k
}

// rsSelected decides whether state c runs base item it in variant (after, backend).
func (c *stateCtx) rsSelected(it item, after int, backend string) bool {
	k := c.rsIndex()
	if backend != rsBackends[(k+after)%len(rsBackends)] {
		return false
	}
	if !rsThorough && c.mode.HdrKnown && it.Group == "txspecial" {
		return false // a re-signed header over another body ends at the hash comparison with the known header
	}
	if rsThorough && it.Group == "txalter" && after != 0 {
		return false // 126 items: as the first block after the restart only
	}
	if c.fam.SRIH {
		if rsThorough || after == 0 {
			return true
		}
		switch it.Group {
		case "header", "witness", "sequence", "headers-ahead", "control":
			return true
		}
		return rsSecondIDs[it.ID]
	}
	// the other families: one variant per state, every second state in the quick tier (and the states with
	// blocked accounts or pending oracle requests); the special transactions are delivered as the first AND as
	// the second block after the restart (what the last history block changed is in the native caches again
	// once that block was processed by the started node)
	if !rsThorough && k%2 != 0 && len(c.cv.Blocked) == 0 && len(c.cv.OraclePending) == 0 {
		return false
	}
	if it.Group == "txspecial" {
		return true
	}
	if after != (k/2)%2 {
		return false
	}
	if rsThorough {
		return true
	}
	switch it.Group {
	case "header", "witness", "control":
		return true
	}
	return false
}

func menuRestarted(base []item) []item {
	var out []item
	for _, bi := range base {
		if !rsTierSel(bi) {
			continue
		}
		bi := bi
		for after := 0; after <= 1; after++ {
			for _, be := range rsBackends {
				after, be := after, be
				out = append(out, item{ID: fmt.Sprintf("rs%d.%s.%s", after, be, bi.ID), Group: rsGroup, Hdr: bi.Hdr, Want: bi.Want, Make: func(c *stateCtx) *delivery {
					if !c.rsSelected(bi, after, be) {
						return nil
					}
					d := bi.Make(c)
					if d != nil {
						d.RS = &rsSpec{After: after, Backend: be}
					}
					return d
				}})
			}
		}
		if bi.Group == "headers-ahead" {
			for _, be := range rsBackends {
				be := be
				out = append(out, item{ID: fmt.Sprintf("rsm.%s.%s", be, bi.ID), Group: rsGroup, Want: bi.Want, Make: func(c *stateCtx) *delivery {
					if (!c.fam.SRIH && !rsThorough) || be != rsBackends[(c.rsIndex()+2)%len(rsBackends)] {
						return nil
					}
					d := bi.Make(c)
					if d != nil {
						d.RS = &rsSpec{Backend: be, Mid: true}
					}
					return d
				}})
			}
		}
	}
	return out
}

// ---- the restarted replica -----------------------------------------------------------------------

var rsStats struct {
	sync.Mutex
	restarts map[string]int // backend/after/headers-ahead -> restarts performed
	problems map[string]int // restart failed / observable state differs from the never-restarted control
}

func rsCount(m *map[string]int, k string) {
	if m == &rsStats.problems {
		if k = reNoise.ReplaceAllString(k, "#"); len(k) > 160 {
			k = k[:160]
		}
	}
	rsStats.Lock()
	if *m == nil {
		*m = map[string]int{}
	}
	(*m)[k]++
	rsStats.Unlock()
}

func rsOpenDisk(backend, dir string) (storage.Store, error) {
	switch backend {
	case "bolt":
		return storage.NewBoltDBStore(dbconfig.BoltDBOptions{FilePath: filepath.Join(dir, "bolt.db")})
	case "level":
		return storage.NewLevelDBStore(dbconfig.LevelDBOptions{DataDirectoryPath: filepath.Join(dir, "level")})
	}
	return nil, fmt.Errorf("unknown backend %s", backend)
}

type rsProblem struct{ msg string }

func (e *rsProblem) Error() string { return e.msg }

// rsRefused: a block of the history (valid: the reference replica has it) was
// refused by the started node.
type rsRefused struct{ msg string }

func (e *rsRefused) Error() string { return e.msg }

// rsHandle is a replica that can be stopped and started again on its store.
type rsHandle struct {
	c       *stateCtx
	md      mode
	rs      *rsSpec
	n       *chainx.Node
	opts    chainx.Opts
	dir     string
	cleanup func() // to be run after the node was closed
}

func (h *rsHandle) close() {
	if h.n != nil {
		h.n.Close()
		h.n = nil
	}
	h.cleanup()
}

// restart stops the node gracefully and starts a new one on the same store.
// An error of type *rsProblem says that the restart itself failed (not a
// matter of this property: the case is counted and skipped).
func (h *rsHandle) restart() error {
	n := h.n
	what := fmt.Sprintf("%s/after=%d/headers-ahead=%d", h.rs.Backend, h.rs.After, n.BC.HeaderHeight()-n.BC.BlockHeight())
	if h.rs.Mid {
		what += "/between-header-batch-and-blocks"
	}
	if h.rs.Backend == "mem" {
		if err := n.Persist(); err != nil {
			return err
		}
		m, err := n.Reopen()
		h.n = m
		if err != nil {
			h.n = nil
			return &rsProblem{"restart failed: " + err.Error()}
		}
	} else {
		n.Close() // flushes and closes the database
		h.n = nil
		st, err := rsOpenDisk(h.rs.Backend, h.dir)
		if err != nil {
			return &rsProblem{"open " + h.rs.Backend + " store again: " + err.Error()}
		}
		o := h.opts
		o.Store = st
		m, err := chainx.New(o)
		if err != nil {
			_ = st.Close()
			return &rsProblem{"restart failed: " + err.Error()}
		}
		h.n = m
	}
	rsCount(&rsStats.restarts, what)
	return nil
}

// prepareRestarted builds the replica of a restarted case (see the head of the
// file). The handle is returned even with an error (close it).
func (c *stateCtx) prepareRestarted(md mode, rs *rsSpec) (h *rsHandle, err error) {
	h = &rsHandle{c: c, md: md, rs: rs, opts: c.fam.Opts(), cleanup: func() {}}
	if rs.Backend != "mem" {
		h.dir, h.cleanup = vk.Scratch("c06rs")
		st, err := rsOpenDisk(rs.Backend, h.dir)
		if err != nil {
			return h, fmt.Errorf("open %s store: %w", rs.Backend, err)
		}
		o := h.opts
		o.Store = st
		if h.n, err = chainx.New(o); err != nil {
			_ = st.Close()
			return h, err
		}
	} else if h.n, err = chainx.New(h.opts); err != nil {
		return h, err
	}
	if s, ok := h.n.Store.(*chainx.RecStore); ok {
		s.NoLog = true
	}
	if rs.After >= len(c.blocks) {
		return h, fmt.Errorf("history of %d blocks, %d wanted after the restart", len(c.blocks), rs.After)
	}
	cut := len(c.blocks) - rs.After
	for i, bb := range c.blocks[:cut] {
		if err := h.n.AddBytes(bb); err != nil {
			return h, fmt.Errorf("replay block %d: %w", i+1, err)
		}
	}
	if md.HdrKnown {
		// the headers that run ahead of the blocks are known BEFORE the restart
		hs, err := decodeAll(append(append([][]byte{}, c.blocks[cut:]...), c.bBytes), c.fam.SRIH)
		if err == nil {
			err = h.n.BC.AddHeaders(hdrsOf(hs)...)
		}
		if err != nil {
			return h, fmt.Errorf("make headers known before the restart: %w", err)
		}
	}
	if !rs.Mid {
		if err := h.restart(); err != nil {
			return h, err
		}
	}
	for i, bb := range c.blocks[cut:] {
		var err error
		if perr := chainx.Try(func() { err = h.n.AddBytes(bb) }); perr != nil {
			err = fmt.Errorf("panic: %w", perr)
		}
		if err != nil {
			return h, &rsRefused{fmt.Sprintf("history block %d refused by the started node: %v", cut+i+1, err)}
		}
	}
	var perr error
	if e := chainx.Try(func() { perr = c.applyPool(h.n, md) }); e != nil {
		perr = fmt.Errorf("panic: %w", e)
	}
	if perr != nil {
		return h, &rsProblem{perr.Error() + " (after the restart)"}
	}
	if md.Flushed {
		if err := h.n.Persist(); err != nil {
			return h, err
		}
	}
	return h, nil
}

// restartMid is the restart of the "between header batch and blocks" variant:
// the mempool of the mode is pooled again (a mempool does not survive).
func (h *rsHandle) restartMid() error {
	if err := h.restart(); err != nil {
		return err
	}
	var perr error
	if e := chainx.Try(func() { perr = h.c.applyPool(h.n, h.md) }); e != nil {
		perr = fmt.Errorf("panic: %w", e)
	}
	if perr != nil {
		return &rsProblem{perr.Error() + " (after the restart)"}
	}
	return nil
}

// rsCoverage reports the measured counters of the family.
func rsCoverage(grp map[string]int, byVariant map[string]int) map[string]any {
	rsStats.Lock()
	defer rsStats.Unlock()
	n := 0
	for _, v := range grp {
		n += v
	}
	re := map[string]int{}
	for k, v := range rsStats.restarts {
		re[k] = v
	}
	pr := map[string]int{}
	for k, v := range rsStats.problems {
		pr[k] = v
	}
	return map[string]any{"cases": n, "distinct_outcomes": len(grp), "cases_by_variant_and_base_group": byVariant, "restarts": re, "restart_problems(must be empty)": pr}
}
