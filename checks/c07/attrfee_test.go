package c07

import (
	"fmt"
	"sync"

	"github.com/nspcc-dev/neo-go/pkg/core"
	"github.com/nspcc-dev/neo-go/pkg/core/native/nativehashes"
	"github.com/nspcc-dev/neo-go/pkg/core/transaction"
	"github.com/nspcc-dev/neo-go/pkg/crypto/hash"
	"github.com/nspcc-dev/neo-go/pkg/crypto/keys"
	"github.com/nspcc-dev/neo-go/pkg/io"
	"github.com/nspcc-dev/neo-go/pkg/smartcontract"
	"github.com/nspcc-dev/neo-go/pkg/smartcontract/callflag"
	"github.com/nspcc-dev/neo-go/pkg/smartcontract/trigger"
	"github.com/nspcc-dev/neo-go/pkg/vm/emit"

	"verif/lib/chainx"
)

// ---- independent reference for the attribute fees -----------------------------------
//
// The required attribute fee of a transaction is computed here from the
// property text and the Policy contract's own getter (getAttributeFee per
// attribute type, read through a test invocation on the replica), never from
// Blockchain.CalculateAttributesFee:
//
//	HighPriority, OracleResponse, NotValidBefore: fee(type)
//	Conflicts:                                    fee(type) x number of signers, per attribute
//	NotaryAssisted:                               fee(type) x (NKeys + 1)

var pricedAttrs = []transaction.AttrType{transaction.HighPriority, transaction.OracleResponseT, transaction.NotValidBeforeT, transaction.ConflictsT, transaction.NotaryAssistedT}

var attrFeeCache sync.Map // *core.Blockchain -> map[transaction.AttrType]int64 (policy does not change while a replica is used for submissions)

func policyAttrFees(bc *core.Blockchain) (map[transaction.AttrType]int64, error) {
	if m, ok := attrFeeCache.Load(bc); ok {
		return m.(map[transaction.AttrType]int64), nil
	}
	w := io.NewBufBinWriter()
	for _, t := range pricedAttrs {
		emit.AppCall(w.BinWriter, nativehashes.PolicyContract, "getAttributeFee", callflag.ReadStates, int64(t))
	}
	if w.Err != nil {
		return nil, w.Err
	}
	ic, err := bc.GetTestVM(trigger.Application, nil, nil)
	if err != nil {
		return nil, err
	}
	defer ic.Finalize()
	ic.VM.LoadWithFlags(w.Bytes(), callflag.ReadOnly)
	if err := ic.VM.Run(); err != nil {
		return nil, fmt.Errorf("getAttributeFee: %w", err)
	}
	if ic.VM.Estack().Len() != len(pricedAttrs) {
		return nil, fmt.Errorf("getAttributeFee: %d results", ic.VM.Estack().Len())
	}
	m := map[transaction.AttrType]int64{}
	for i := len(pricedAttrs) - 1; i >= 0; i-- {
		m[pricedAttrs[i]] = ic.VM.Estack().Pop().BigInt().Int64()
	}
	attrFeeCache.Store(bc, m)
	return m, nil
}

// attrFeeRef is the attribute fee the property demands for tx.
func attrFeeRef(bc *core.Blockchain, tx *transaction.Transaction) (int64, error) {
	fees, err := policyAttrFees(bc)
	if err != nil {
		return 0, err
	}
	var sum int64
	for _, a := range tx.Attributes {
		f := fees[a.Type] // reserved types: no fee defined (such transactions are invalid anyway)
		switch a.Type {
		case transaction.ConflictsT:
			sum += f * int64(len(tx.Signers))
		case transaction.NotaryAssistedT:
			sum += f * (int64(a.Value.(*transaction.NotaryAssisted).NKeys) + 1)
		default:
			sum += f
		}
	}
	return sum, nil
}

// ---- oracle response cast ------------------------------------------------------------------

// oracleContractAcct is the native Oracle contract as the sender of an oracle
// response: empty witness, the contract's verify method checks the attribute.
func oracleContractAcct() *acct {
	return &acct{Name: "oracle-contract", Hash: nativehashes.OracleContract, NoneScope: true, Inv: func(*transaction.Transaction) []byte { return []byte{} }}
}

// oracleNodesAcct is the multi-signature account of the designated oracle
// nodes (account 3 alone in the "oracle" state).
func oracleNodesAcct() *acct {
	k := chainx.Acc(3).PrivateKey()
	ver, err := smartcontract.CreateMajorityMultiSigRedeemScript(keys.PublicKeys{k.PublicKey()})
	if err != nil {
		panic(err)
	}
	return &acct{Name: "oracle-nodes", M: 1, Privs: []*keys.PrivateKey{k}, Ver: ver, Hash: hash.Hash160(ver), Std: true, NoneScope: true}
}

func oracleResponseScript() []byte {
	s, err := smartcontract.CreateCallScript(nativehashes.OracleContract, "finish")
	if err != nil {
		panic(err)
	}
	return s
}

func attrOracle(id uint64) transaction.Attribute {
	return transaction.Attribute{Type: transaction.OracleResponseT, Value: &transaction.OracleResponse{ID: id, Code: transaction.Success, Result: []byte{1, 2, 3}}}
}

// oracleRequestGas is what the "oracle-request" template of chainx pays for the response.
const oracleRequestGas = gas / 10
