// C07: transaction admission is sound, fee-exact and yields proposable blocks.
//
// Four sub-checks on real core.Blockchain replicas (Engine L, chainx):
//
//	sound       a valid transaction of every shape and every single-fault variant
//	            of it on every representative chain state; PoolTx/VerifyTx must
//	            agree with an independent predicate; a rejection changes nothing
//	            plus the script well-formedness dimension (every offset-carrying
//	            opcode x target class x form, truncations, unknown opcodes, type
//	            operands) through PoolTx, VerifyTx and inside a block via AddBlock
//	fee         the fee calculator's value is the acceptance threshold, for all
//	            signer shapes x attribute mixes x script lengths x fee factors
//	encoding    every accepted spelling of the same content (non-minimal
//	            var-ints, uncompressed keys) through both entry paths has the
//	            same hash, size and verdict as the canonical one
//	proposable  every bounded pool content packed by ApplyPolicyToTxSet gives a
//	            block that survives the wire and is accepted by a fresh replica;
//	            the same end to end for every attribute shape at its fee
//	            boundary (exact, one unit less, attribute fee unpaid)
//
// Extensions (files ext_*_test.go, run_stale_test.go, run_count_test.go):
// more chain states (policy set twice, contracts deployed/destroyed, Notary
// deposit, notary role moved, short traceability window, committee change in a
// multi-validator family), contract-based witnesses, Notary as the sender, a
// witness at the gas limit, limits of signer/attribute counts, exact solvency
// with pooled transactions, every valid case end to end through a proposed
// block, PoolTxWithData as a fourth entry, histories "pooled, then a block
// arrives, then propose", packing across the 252/253 transaction count.
//
// Third round (r3_payers_test.go): pool contents in which the account that PAYS
// a pooled transaction and the accounts that SIGNED it differ (co-signers,
// Notary as the sender for two depositors), Conflicts attributes in both
// directions, the payer's fees tuned onto its balance / deposit (+-1, shifted by
// the fees of the transaction that leaves), every admission order, a block
// (empty or carrying one of the cast) arriving in the middle; every verdict
// against an independent predicate, every listing payable, every distinct pool
// content proposed to a replica.
//
// Fourth round (r4_encodings_test.go, family `encodings`): every single-site
// re-spelling (boolean bytes, longer var-ints, key forms, scope / action bytes,
// trailing bytes) and every single-byte substitution of a menu of transactions
// with every field kind, on the paths that take BYTES (NewTransactionFromBytes,
// RPC sendrawtransaction with the raw parameter, the P2P CMDTX message, the lax
// block-body codec), witnesses made over the hash the node takes from the
// bytes; what the node accepts must keep the hash told to the submitter through
// pool, read-back, proposed block and replicas.
//
// Fifth round (r5_backup_test.go, r5_limits_test.go): every proposal of every
// family is also judged by real consensus.Service objects (the proposer's
// newPrepareRequest / newBlockFromContext, verifyRequest and verifyBlock of a
// backup that holds the pool and of one that never saw it); family `limits`
// = pool contents exactly on / one below / one above MaxBlockSystemFee,
// MaxTransactionsPerBlock and MaxBlockSize.
package c07

import (
	"encoding/hex"
	"fmt"
	"os"
	"runtime/pprof"
	"sort"
	"strings"
	"sync"
	"testing"
	"time"

	"github.com/nspcc-dev/neo-go/pkg/config"
	"github.com/nspcc-dev/neo-go/pkg/core/transaction"
	"github.com/nspcc-dev/neo-go/pkg/util"

	"verif/lib/chainx"
	"verif/lib/vk"
)

// ---- findings ------------------------------------------------------------------------

// finding is a violation kept until the end of the run (so that the
// exploration goes on); the smallest example per key is reported.
type finding struct {
	Key    string
	Detail *caseRec
	weight int
}

type findings struct {
	mu      sync.Mutex
	m       map[string]*finding
	n       map[string]int
	per     map[string]int
	dropped int
}

func newFindings() *findings {
	return &findings{m: map[string]*finding{}, n: map[string]int{}, per: map[string]int{}}
}

func (f *findings) add(key string, d *caseRec) {
	f.addLazy(key, len(d.Tx)+len(d.Canonical)+1000*len(d.Pre)+len(d.Subset)*10, func() *caseRec { return d })
}

// addLazy builds the record only when it is going to be kept (w is the size
// of the example; the smallest one per key is kept).
func (f *findings) addLazy(key string, w int, mk func() *caseRec) {
	key = strings.ReplaceAll(key, " ", "_")
	f.mu.Lock()
	defer f.mu.Unlock()
	f.n[key]++
	if _, ok := f.m[key]; !ok {
		// bounded per sub-check so that a flood in one of them does not hide the others
		sub := key[:strings.Index(key+":", ":")]
		if f.per[sub] >= 60 {
			f.dropped++
			return
		}
		f.per[sub]++
	}
	if old := f.m[key]; old == nil || w < old.weight {
		f.m[key] = &finding{Key: key, Detail: mk(), weight: w}
	}
}

func (f *findings) flush(r *vk.Run) {
	f.mu.Lock()
	defer f.mu.Unlock()
	keys := make([]string, 0, len(f.m))
	for k := range f.m {
		keys = append(keys, k)
	}
	sort.Strings(keys)
	for _, k := range keys {
		f.m[k].Detail.Occurrences = f.n[k]
		f.m[k].Detail.Key = k
		r.Violation(k, f.m[k].Detail)
	}
}

// caseRec is the replayable description of one evaluation.
type caseRec struct {
	Key         string   `json:"key,omitempty"`
	Sub         string   `json:"sub"`
	State       string   `json:"state,omitempty"`
	Path        string   `json:"path,omitempty"`
	Rule        string   `json:"rule,omitempty"`
	Shape       string   `json:"shape,omitempty"`
	Tx          string   `json:"tx_hex,omitempty"`
	Canonical   string   `json:"canonical_hex,omitempty"`
	Pre         []string `json:"pre_pooled_hex,omitempty"`
	Want        string   `json:"want,omitempty"`
	Got         string   `json:"got,omitempty"`
	Why         string   `json:"why,omitempty"`
	Family      string   `json:"family,omitempty"`
	Subset      []int    `json:"subset,omitempty"`
	Order       string   `json:"order,omitempty"`
	Note        string   `json:"note,omitempty"`
	Occurrences int      `json:"occurrences,omitempty"`
}

// ---- scenario and states -----------------------------------------------------------------

const (
	tSetup = iota
	tPolicyFee
	tBlock3
	tConflicts
	tExecMin
	tExecFrac
	tDesigOracle
	tOracleReq
)

type env struct {
	batches map[string][]chainx.Batch
	omu     sync.Mutex
	outs    map[string]map[string]int
	r       *vk.Run
	sc      *chainx.Scenario
	cast    *conflictCast
	st      []state
	f       *findings
	thor    bool
	count   struct {
		sound, soundRej, fee, enc, encVerdict, block, scripts  vk.Counter
		e2e, stale, countFam, partial, rpc, rpcFee, ntFee, p2p vk.Counter
		states                                                 *vk.Set
	}
	// extensions
	castMTB  *conflictCast
	scMTB    *chainx.Scenario
	scCom    *chainx.Scenario
	mtbNames []string
	comNames []string
	// second extension round
	castShort   *conflictCast
	mtbSetNames []string
	r2Names     []string
	reb         rebuiltCount
	// third extension round (r3_payers_test.go)
	pay payersCount
	// fourth extension round (r4_encodings_test.go)
	enc encCount
	// fifth extension round (r5_backup_test.go, r5_limits_test.go)
	r5 r5Count
}

// scenario of a state.
func (e *env) scOf(st *state) *chainx.Scenario {
	if st.Sc != nil {
		return st.Sc
	}
	return e.sc
}

// out counts an outcome class of a sub-check (all of them go to the evidence,
// the kit keeps a compact version).
func (e *env) out(sub, class string) {
	e.omu.Lock()
	if e.outs == nil {
		e.outs = map[string]map[string]int{}
	}
	if e.outs[sub] == nil {
		e.outs[sub] = map[string]int{}
	}
	e.outs[sub][class]++
	e.omu.Unlock()
}

func protoExtra(c *config.Blockchain) {
	c.MaxBlockSystemFee = 2000 * gas
	c.MemPoolSize = 64
}

func newEnv(r *vk.Run) (*env, error) {
	e := &env{r: r, cast: &conflictCast{txs: map[string][]byte{}}, f: newFindings(), thor: r.Thorough()}
	e.count.states = vk.NewSet()
	tpls := []chainx.Tpl{setupTpl()}
	tpls = append(tpls, chainx.TplByName("policy-fee+tx", "block-account3")...)
	tpls = append(tpls, conflictsTpl(e.cast), execFeeTpl("c07-exec-min", 1), execFeeTpl("c07-exec-frac", 300001))
	tpls = append(tpls, chainx.TplByName("designate-oracle", "oracle-request")...)
	tpls = append(tpls, extTpls()...)
	tpls = append(tpls, e.r2Tpls()...)
	tpls = append(tpls, e.r3Tpls()...)
	sc, err := chainx.NewScenario(famSingle(protoExtra), 0, tpls)
	if err != nil {
		return nil, fmt.Errorf("preamble: %w", err)
	}
	e.sc = sc
	e.st = []state{
		{Name: "preamble", Hist: []int{tSetup}},
		{Name: "fee-raised", Hist: []int{tSetup, tPolicyFee}},
		{Name: "acc3-blocked", Hist: []int{tSetup, tBlock3}, Blocked: map[util.Uint160]bool{chainx.Acc(3).ScriptHash(): true}},
		{Name: "conflicts-onchain", Hist: []int{tSetup, tConflicts}},
		{Name: "exec-min", Hist: []int{tSetup, tExecMin}},
		{Name: "exec-frac", Hist: []int{tSetup, tExecFrac}},
		{Name: "oracle", Hist: []int{tSetup, tDesigOracle, tOracleReq}, Oracle: true},
	}
	hashUA, hashUB = sc.World.UA.Hash, sc.World.UB.Hash
	e.st = append(e.st, extStates()...)
	for _, s := range e.r2States() {
		e.st = append(e.st, s)
		e.r2Names = append(e.r2Names, s.Name)
	}
	if err := sc.Grow([]int{tSetup}); err != nil {
		return nil, fmt.Errorf("setup block: %w", err)
	}
	for _, s := range e.st[1:] {
		for d := 2; d <= len(s.Hist); d++ {
			if sc.Get(s.Hist[:d]) != nil {
				continue
			}
			if err := sc.Grow(s.Hist[:d]); err != nil {
				return nil, fmt.Errorf("state %s: %w", s.Name, err)
			}
		}
	}
	if err := e.mtbStates(); err != nil {
		return nil, err
	}
	if err := e.committeeStates(); err != nil {
		return nil, err
	}
	return e, nil
}

func (e *env) state(name string) *state {
	for i := range e.st {
		if e.st[i].Name == name {
			return &e.st[i]
		}
	}
	return nil
}

// ---- runner: one replica in one state -------------------------------------------------------

type runner struct {
	e       *env
	st      *state
	n       *chainx.Node
	rec     *chainx.RecStore
	batches int
	facts   *facts
	// extension: the RPC server on this replica (ext_rpc_test.go)
	rpc       *rpcEnd
	rpcBroken bool
}

func (e *env) newRunner(st *state) (*runner, error) {
	n, _, err := e.scOf(st).RefNode(st.Hist)
	if err != nil {
		return nil, err
	}
	rn := &runner{e: e, st: st, n: n}
	rn.rec, _ = n.Store.(*chainx.RecStore)
	if err := n.Persist(); err != nil {
		n.Close()
		return nil, err
	}
	if rn.rec != nil {
		rn.batches = len(rn.rec.Batches())
	}
	rn.facts = rn.mkFacts()
	return rn, nil
}

func (rn *runner) close() {
	rn.rpc.close()
	rn.n.Close()
}

func (rn *runner) mkFacts() *facts {
	bc := rn.n.BC
	f := &facts{
		Magic:          uint32(bc.GetConfig().Magic),
		Height:         bc.BlockHeight(),
		MaxVUBInc:      bc.GetMaxValidUntilBlockIncrement(),
		FeePerByte:     bc.FeePerByte(),
		MaxBlockSysFee: bc.GetConfig().MaxBlockSystemFee,
		MaxVerGas:      bc.GetMaxVerificationGAS(),
		Blocked:        rn.st.Blocked,
		OnChain:        map[util.Uint256]bool{},
		Named:          map[util.Uint256]map[util.Uint160]bool{},
		NamedAt:        map[util.Uint256]map[util.Uint160]uint32{},
		Committee:      rn.n.Committee.ScriptHash(),
		Accts:          knownAccts(rn.n),
	}
	f.NotaryKeys = append(f.NotaryKeys, chainx.Acc(4).PublicKey())
	if rn.st.Oracle {
		f.OracleHash = oracleNodesAcct().Hash
		f.OracleReq = map[uint64]int64{0: oracleRequestGas}
	}
	f.Balance = func(h util.Uint160) int64 { return bc.GetUtilityTokenBalance(h, util.Uint160{}).Int64() }
	// the ledger content, from the blocks the scenario fed to the replica
	blocks, _ := rn.e.scOf(rn.st).Blocks(rn.st.Hist)
	for _, bb := range blocks {
		b, err := chainx.DecodeBlock(bb, false)
		if err != nil {
			panic(err)
		}
		f.Blocks = append(f.Blocks, b.Hash())
		for _, tx := range b.Transactions {
			f.OnChain[tx.Hash()] = true
			for _, a := range tx.GetAttributes(transaction.ConflictsT) {
				h := a.Value.(*transaction.Conflicts).Hash
				if f.Named[h] == nil {
					f.Named[h] = map[util.Uint160]bool{}
					f.NamedAt[h] = map[util.Uint160]uint32{}
				}
				for _, s := range tx.Signers {
					f.Named[h][s.Account] = true
					f.NamedAt[h][s.Account] = b.Index // the newest naming block wins
				}
			}
		}
	}
	rn.extFacts(f)
	return f
}

// lastOnChain returns a transaction of the newest block with transactions.
func (rn *runner) lastOnChain() *transaction.Transaction {
	blocks, _ := rn.e.scOf(rn.st).Blocks(rn.st.Hist)
	for i := len(blocks) - 1; i >= 0; i-- {
		b, _ := chainx.DecodeBlock(blocks[i], false)
		if len(b.Transactions) > 0 {
			return b.Transactions[0]
		}
	}
	return nil
}

func (rn *runner) poolList() string {
	var hs []string
	for _, tx := range rn.n.BC.GetMemPool().GetVerifiedTransactions() {
		hs = append(hs, tx.Hash().StringLE()[:12])
	}
	return strings.Join(hs, ",")
}

func (rn *runner) clearPool() {
	mp := rn.n.BC.GetMemPool()
	for _, tx := range mp.GetVerifiedTransactions() {
		mp.Remove(tx.Hash())
	}
}

// ledgerChanged flushes the write cache and reports whether anything reached
// the store since the runner was created.
func (rn *runner) ledgerChanged() string {
	if rn.n.BC.BlockHeight() != rn.facts.Height {
		return "height changed"
	}
	if err := rn.n.Persist(); err != nil {
		return "persist: " + err.Error()
	}
	if rn.rec != nil {
		if b := rn.rec.Batches(); len(b) != rn.batches {
			n := 0
			for _, x := range b[rn.batches:] {
				n += len(x.Put)
			}
			rn.batches = len(b)
			return fmt.Sprintf("%d keys written to the store", n)
		}
	}
	return ""
}

type verdict struct {
	OK    bool
	Class string
	Err   string
	Hash  util.Uint256
	Size  int
	Dec   bool // the decoder accepted the bytes
}

func (v verdict) String() string {
	if v.OK {
		return "accepted"
	}
	return "rejected(" + v.Class + ")"
}

// submit sends wire bytes through an entry path into PoolTx. An accepted
// transaction is removed from the pool again unless keep is set.
func (rn *runner) submit(path string, b []byte, keep bool) (v verdict) {
	defer func() {
		if p := recover(); p != nil {
			v = verdict{Class: "PANIC", Err: fmt.Sprint(p)}
		}
	}()
	tx, err := decodeVia(path, b)
	if err != nil {
		return verdict{Class: "decode", Err: "decode: " + err.Error()}
	}
	v.Dec = true
	v.Hash = tx.Hash()
	v.Size = tx.Size()
	err = rn.n.BC.PoolTx(tx)
	if err != nil {
		v.Class = errClass(err)
		v.Err = err.Error()
		return v
	}
	v.OK = true
	v.Class = "ok"
	if !keep {
		rn.n.BC.GetMemPool().Remove(tx.Hash())
	}
	return v
}

// verify runs the isolated VerifyTx on a structure built in memory.
func (rn *runner) verify(tx *transaction.Transaction) (v verdict) {
	defer func() {
		if p := recover(); p != nil {
			v = verdict{Class: "PANIC", Err: fmt.Sprint(p)}
		}
	}()
	c := fresh(tx)
	err := rn.n.BC.VerifyTx(c)
	if err != nil {
		return verdict{Class: errClass(err), Err: err.Error(), Dec: true}
	}
	return verdict{OK: true, Class: "ok", Dec: true}
}

func hexs(txs []*transaction.Transaction) []string {
	var out []string
	for _, t := range txs {
		out = append(out, hex.EncodeToString(t.Bytes()))
	}
	return out
}

// ---- TestCheck -----------------------------------------------------------------------------------

func TestCheck(t *testing.T) {
	vk.UseT(t)
	r := vk.Start("C07", "model_checking", 230*time.Second, 24*time.Minute) // quick: ~290 CPU-s = ~25 s on 16 idle cores; the cap leaves room for a heavily shared machine
	defer vk.CleanScratch()
	e, err := newEnv(r)
	if err != nil {
		fmt.Println("CHECK-ERROR: cannot build the scenario:", err)
		os.Exit(3)
	}
	if r.Replay != "" {
		replay(e)
		return
	}
	if pf := os.Getenv("C07_PROF"); pf != "" {
		if f, err := os.Create(pf); err == nil {
			_ = pprof.StartCPUProfile(f)
			defer pprof.StopCPUProfile()
		}
	}
	only := os.Getenv("C07_ONLY")
	want := func(s string) bool { return only == "" || strings.Contains(only, s) }
	var soundCov, feeCov, blockCov map[string]any
	t0 := time.Now()
	var scriptCov map[string]any
	if want("sound") {
		soundCov = e.runSound()
		scriptCov = e.runScripts()
	}
	t1 := time.Now()
	var attrBlockCov, staleCov, countCov, rebuiltCov, payersCov, encodingsCov, limitsCov map[string]any
	te0 := time.Now()
	if want("encodings") {
		encodingsCov = e.runEncodings()
	}
	tEnc := time.Since(te0)
	t1 = time.Now()
	if want("rebuilt") {
		rebuiltCov = e.runRebuilt()
	}
	t1b := time.Now()
	if want("block") {
		blockCov = e.runBlocks()
		attrBlockCov = e.runAttrBlocks()
	}
	tl0 := time.Now()
	if want("limits") {
		limitsCov = e.runLimits()
	}
	tLimits := time.Since(tl0)
	if want("stale") {
		staleCov = e.runStale()
	}
	if want("count") {
		countCov = e.runCount()
	}
	tp0 := time.Now()
	if want("payers") {
		payersCov = e.runPayers()
	}
	tPayers := time.Since(tp0)
	t2 := time.Now()
	if want("fee") {
		feeCov = e.runFee()
	}
	t3 := time.Now()
	fmt.Printf("C07 phases: sound+enc %.1fs, encodings %.1fs, rebuilt %.1fs, proposable %.1fs (of which payers %.1fs, limits %.1fs), fee+enc %.1fs\n", t1.Sub(t0).Seconds()-tEnc.Seconds(), tEnc.Seconds(), t1b.Sub(t1).Seconds(), t2.Sub(t1b).Seconds(), tPayers.Seconds(), tLimits.Seconds(), t3.Sub(t2).Seconds())
	e.f.flush(r)
	pprof.StopCPUProfile()
	distinct := func(sub string) int { return len(e.outs[sub]) }
	ext := map[string]any{
		"after-block-histories":            map[string]any{"cases": int(e.count.stale.Get()), "distinct_outcomes": distinct("stale")},
		"count-varint-packing":             map[string]any{"cases": int(e.count.countFam.Get()), "distinct_outcomes": distinct("count")},
		"sound-end-to-end":                 map[string]any{"cases": int(e.count.e2e.Get()), "distinct_outcomes": distinct("e2e")},
		"sound-via-PoolTxWithData":         map[string]any{"cases": int(e.count.partial.Get()), "distinct_outcomes": distinct("pooltxwithdata")},
		"sound-via-p2p-message":            map[string]any{"cases": int(e.count.p2p.Get()), "distinct_outcomes": distinct("p2p-message")},
		"sound-via-rpc-sendrawtransaction": map[string]any{"cases": int(e.count.rpc.Get()), "distinct_outcomes": distinct("rpc")},
		"fee-calculators":                  map[string]any{"rpc_calculatenetworkfee": int(e.count.rpcFee.Get()), "neotest_AddNetworkFee": int(e.count.ntFee.Get()), "distinct_outcomes": distinct("fee-calculators")},
		"sound-new-states":                 map[string]any{"states": len(extStates()) + len(e.mtbNames) + len(e.comNames), "distinct_outcomes_of_the_valid_variant": distinct("sound-new-states")},
		"max-verification-gas-witness":     e.outs["maxgas-witness"],
		"rebuilt-caches": map[string]any{"cases_on_rebuilt_nodes": int(e.reb.cases.Get()), "submissions": int(e.reb.submissions.Get()), "nodes": int(e.reb.nodes.Get()), "resets": int(e.reb.resets.Get()),
			"proposals": int(e.reb.packs.Get()), "distinct_outcomes": distinct("rebuilt"), "distinct_pack_outcomes": distinct("rebuilt-pack")},
		"r2-states": map[string]any{"states": e.r2Names, "distinct_outcomes": distinct("r2-states")},
		"payers": map[string]any{"boundary_variants": int(e.pay.variants.Get()), "admission_orders": int(e.pay.orders.Get()), "submissions_judged_by_predicate": int(e.pay.admissions.Get()),
			"blocks_in_the_middle": int(e.pay.midBlocks.Get()), "blocks_in_the_middle_carrying_a_cast_tx": int(e.pay.midBlocksWithTx.Get()), "block_jobs_skipped_as_the_tx_is_unpayable": int(e.pay.midUnbuildable.Get()), "distinct_pool_contents_proposed": int(e.pay.proposals.Get()),
			"submissions_where_only_the_payer_of_the_leaving_tx_decides": int(e.pay.creditFlips.Get()), "variants_not_buildable": int(e.pay.unbuildable.Get()),
			"distinct_outcomes": distinct("payers"), "distinct_proposal_outcomes": distinct("payers-proposal")},
		"limits": map[string]any{"cases": int(e.r5.limCases.Get()), "transactions_pooled": int(e.r5.limPooled.Get()), "transactions_refused_for_a_fee_above_the_block_limit": int(e.r5.limRefused.Get()),
			"proposals_that_left_pooled_transactions_out": int(e.r5.limCut.Get()), "distinct_outcomes": distinct("limits")},
		"backup-side-consensus-service": map[string]any{"proposals_checked_by_real_services": int(e.r5.svcChecks.Get()), "distinct_outcomes": distinct("r5-backup"), "outcomes": e.outs["r5-backup"]},
		"encodings": map[string]any{"menu_transactions": int(e.enc.items.Get()), "sites_with_another_spelling": int(e.enc.sites.Get()), "candidates_x_paths": int(e.enc.candidates.Get()),
			"candidates_the_lax_codec_reads_as_the_same_content": int(e.enc.sameMeaning.Get()), "submissions": int(e.enc.submissions.Get()), "refused": int(e.enc.refused.Get()), "accepted": int(e.enc.accepted.Get()),
			"witnesses_made_over_a_node_hash_other_than_the_canonical_one": int(e.enc.resigned.Get()), "proposals_from_accepted_bytes": int(e.enc.proposals.Get()), "getrawtransaction_read_backs": int(e.enc.rpcReadBack.Get()),
			"byte_sweep_decoder_calls": int(e.enc.sweep.Get()), "byte_sweep_accepted_though_not_their_own_re_encoding": int(e.enc.sweepLax.Get()),
			"distinct_outcomes": distinct("encodings")},
	}
	cov := map[string]any{
		"extension_families":                       ext,
		"states":                                   e.count.states.Len(),
		"transitions":                              int(e.count.sound.Get() + e.count.fee.Get() + e.count.encVerdict.Get() + e.count.block.Get() + e.count.e2e.Get() + e.count.stale.Get() + e.count.countFam.Get() + e.reb.submissions.Get() + e.reb.packs.Get() + e.pay.admissions.Get() + e.pay.proposals.Get() + e.enc.submissions.Get() + e.enc.proposals.Get()),
		"traces_validated_against_impl":            int(e.count.sound.Get() + e.count.fee.Get() + e.count.encVerdict.Get() + e.count.block.Get() + e.count.e2e.Get() + e.count.stale.Get() + e.count.countFam.Get() + e.reb.submissions.Get() + e.reb.packs.Get() + e.pay.admissions.Get() + e.pay.proposals.Get() + e.enc.submissions.Get() + e.enc.proposals.Get()),
		"sound_submissions":                        int(e.count.sound.Get()),
		"sound_rejections_checked_for_no_effect":   int(e.count.soundRej.Get()),
		"fee_threshold_transactions":               int(e.count.fee.Get()),
		"encoding_variants_decoded":                int(e.count.enc.Get()),
		"encoding_variants_submitted":              int(e.count.encVerdict.Get()),
		"proposable_pool_contents":                 int(e.count.block.Get()),
		"sound":                                    soundCov,
		"sound_script_wellformedness":              scriptCov,
		"script_submissions":                       int(e.count.scripts.Get()),
		"fee":                                      feeCov,
		"proposable":                               blockCov,
		"proposable_attribute_boundaries":          attrBlockCov,
		"proposable_after_block_arrival":           staleCov,
		"proposable_after_block_cases":             int(e.count.stale.Get()),
		"proposable_count_varint":                  countCov,
		"proposable_count_varint_cases":            int(e.count.countFam.Get()),
		"rebuilt_caches":                           rebuiltCov,
		"proposable_payers":                        payersCov,
		"encodings_on_the_byte_paths":              encodingsCov,
		"proposable_at_the_limits":                 limitsCov,
		"proposable_at_the_limits_cases":           int(e.r5.limCases.Get()),
		"proposable_at_the_limits_outcomes":        distinct("limits"),
		"proposals_checked_by_consensus_services":  int(e.r5.svcChecks.Get()),
		"consensus_service_distinct_outcomes":      distinct("r5-backup"),
		"encodings_candidates_x_paths":             int(e.enc.candidates.Get()),
		"encodings_submissions":                    int(e.enc.submissions.Get()),
		"encodings_accepted":                       int(e.enc.accepted.Get()),
		"encodings_proposals":                      int(e.enc.proposals.Get()),
		"encodings_distinct_outcomes":              distinct("encodings"),
		"encodings_byte_sweep_decoder_calls":       int(e.enc.sweep.Get()),
		"proposable_payers_submissions":            int(e.pay.admissions.Get()),
		"proposable_payers_pool_contents_proposed": int(e.pay.proposals.Get()),
		"sound_end_to_end_blocks":                  int(e.count.e2e.Get()),
		"sound_submissions_via_PoolTxWithData":     int(e.count.partial.Get()),
		"sound_submissions_via_sendrawtransaction": int(e.count.rpc.Get()),
		"fee_rpc_calculatenetworkfee_compared":     int(e.count.rpcFee.Get()),
		"fee_neotest_AddNetworkFee_compared":       int(e.count.ntFee.Get()),
		"outcomes_by_subcheck":                     e.outs,
		"findings_not_listed":                      e.f.dropped,
		"rule":                                     "state = (sub-check, chain state or family, transaction content / pool content); every element of the stated finite sets is executed on a real replica",
	}
	r.Finish(cov, []string{
		"the validity predicate takes the witness cost of standard contracts from the fee calculator (its exactness is what the fee sub-check decides) and of other witnesses from a verification run, as the RPC server does",
		"the RPC server runs on the replica without sockets (internal client): sendrawtransaction is a further admission path, calculatenetworkfee and neotest.AddNetworkFee are compared with the threshold the fee sub-check establishes by accept/reject",
		"admission paths: wire bytes -> NewTransactionFromBytes -> PoolTx (P2P/RPC), wire bytes -> Transaction.DecodeBinary -> PoolTx (block body codec), structure -> VerifyTx; faults the codec itself rejects count as rejections of the byte paths",
		"script well-formedness = independent reference (script_test.go: own opcode/operand table, all offset-carrying instructions incl. PUSHA, TRY both offsets, item type operands); a target equal to len(script) is well-formed as scparser.Context.CalcJumpOffset documents; only the transaction script is judged - well-formedness of witness scripts is not demanded by the statement (witnesses must 'verify') and is left out",
		"required attribute fee = independent reference from the Policy getter getAttributeFee(type) (read by a test invocation): Conflicts x signers, NotaryAssisted x (NKeys+1), others x 1; Blockchain.CalculateAttributesFee is never consulted; fee-per-byte and the execution fee factor are read from the plain getters",
		"single-validator family (committee = validator), P2PSigExtensions on, all hardforks active; account 4 is the only notary node; oracle node (account 3) and a pending request exist in the state named oracle only",
		"NotaryAssisted: only the ledger rules (Notary signer present, attribute fee by NKeys) are in the oracle; NKeys consistency with the witnesses is the notary service's rule, not the ledger's",
		"backup-side consensus service (r5): every proposal of every family is also handed to real consensus.Service objects (watch-only, started with a timer that never fires) over the proposer's ledger (holds the pool) and over the fresh replica: the service's own newPrepareRequest/newPayload make the PrepareRequest, it is serialised and parsed, verifyRequest of both services must accept it, the block of newBlockFromContext must have the hash of the block the ledgers accept, verifyBlock of both services must accept it (transactions from the pool on the proposer, from NewTransactionFromBytes on the replica); these methods are reached as the function values the service registered with dBFT (VerifContext(svc).Config), not through dBFT's message handling: payload signatures, view/primary checks and the missing-transaction requests of dBFT are not part of it (C19's subject)",
		"limits (r5): MaxTransactionsPerBlock 4, MaxBlockSystemFee 25 GAS, MaxBlockSize = the two-transaction block +d in the size scenarios; zero and one-datoshi system fees are legal at admission (the transaction faults in the block, the block stays valid); the only refusal demanded at admission is SystemFee > MaxBlockSystemFee, as verifyAndPoolTx states; how many transactions the packing keeps is recorded, not demanded (only that the kept prefix forms a block every backup and ledger accepts and that it respects the limits)",
		"proposable blocks: limits are checked on the serialised block (size), the selected set (count, system fee) and by the backup-side procedure of consensus.verifyBlock re-done on the fresh replica",
		"policy values of the state policy-twice, Notary deposits, deployed/destroyed contracts and the behaviour of the hand-assembled contracts' verify methods are known from the construction of the histories, not read back from the node; getters that disagree with the history are reported",
		"Conflicts records: inside the ledger's traceability window (index + MaxTraceableBlocks > height) the statement is demanded as written; for older records dao.HasTransaction documents that they are ignored, which the statement does not mention: such cases are counted, not judged (no-demand)",
		"PoolTxWithData (entry of the notary request pool) is judged by the same predicate with the relaxations its code documents for partially filled transactions: no upper bound on ValidUntilBlock, NotValidBefore within MaxNotValidBeforeDelta of the height and of ValidUntilBlock, failures of the FIRST witness are not judged",
		"a witness costing exactly MaxVerificationGAS: its cost comes from a linear model fitted on small instances of the same script (confirmed on a further instance), never from a run at the limit; it exists only at fee factors where the limit is reachable exactly (the default one)",
		"after-block histories: the oracle is the proposal (what the pool offers after the block must form an accepted block); whether a transaction that is still valid stays pooled is recorded, not demanded",
		"the multi-validator committee is taken from the member list (GetCommittee) and its majority account computed by the harness; HighPriority is demanded to follow it on both sides of the change",
		"rebuilt: the statement quantifies over chain states, so two nodes in the same chain state (one never stopped, one reopened on its store / restarted after every block / reset from a longer chain) must take the same admission decisions; the predicate is evaluated on each node from that node's own getters and its own fee-calculator run and must agree as well; identical error classes are counted, not demanded",
		"rebuilt: reset kinds - the perturbing blocks change every policy value, the blocked list, the designated roles, the whitelist, deploy state and put one valid menu transaction on chain and name another one in a Conflicts attribute; Blockchain.Reset is run on a stopped node as its documentation demands, submissions go to the instance that was reset, the proposals come from that node restarted once more; the two special transactions are submitted again in a last round after the chain has grown past the removed heights",
		"rebuilt: not driven - state jump (statesync), nodes with RemoveUntraceableBlocks/KeepOnlyLatestState; not judged - whether a BLOCK carrying an inadmissible transaction is rejected by a rebuilt node (the statement is about pool admission and proposed blocks; the proposals of rebuilt nodes must be accepted by a never-restarted replica, which is judged)",
		"state whitelist: the witness cost of scripts that call a whitelisted method comes from a verification run on the node (as for all non-standard witnesses); what is demanded is that it is the acceptance threshold and the same on every node kind, not its absolute value",
		"payers: balances and Notary deposits of the accounts S and R are known from the funding block of the history (checked once against the getters); the predicate for a submission to a non-empty pool is computed from GetVerifiedTransactions before the call: not pooled, shares a signer with every pooled transaction it names, network fee higher than the sum of the network fees of the pooled transactions it names or that name it and carry its author's signature, and the payer (sender, or Notary + depositor) can pay it plus what stays pooled; that the fees of the payer's OWN transactions leaving in the same admission are credited is what mempool.checkTxConflicts documents (step 3), that nobody else's are is what the proposable clause needs; error classes are counted, not demanded; whether bystanders stay pooled is not judged",
		"encodings (byte paths): a re-spelling is 'the same content' when the lax block-body codec (Transaction.DecodeBinary) reads it and re-encodes it to the canonical bytes - counted, never demanded; the witnesses of a candidate are made over the hash the path's own decoder reports for those bytes; nothing is demanded of bytes the node refuses; for bytes it accepts: hash told = hash of the pooled transaction's own serialisation, Size() = its length, GetTransaction / getrawtransaction hand out bytes that decode to the hash told, the proposal from that pool is accepted by a replica, proposer and a second replica know the transaction under the hash told; the RPC server and the P2P message decoder are driven with the raw bytes (base64 parameter, CMDTX payload framed by network.Message); in the quick tier the proposal for same-content re-spellings accepted by the lax codec path (all of them, by design) is made for the first of each (transaction, kind, part) class",
		"not demanded (no rule in this code base, statement silent): push-only invocation scripts; well-formedness beyond what the VM loader checks for witness scripts is taken from the node's own error class only in the variants custom-*-malformed",
	})
}
