package c07

import (
	"bytes"
	"crypto/elliptic"
	"encoding/binary"
	"errors"
	"fmt"

	"github.com/nspcc-dev/neo-go/pkg/core/transaction"
	"github.com/nspcc-dev/neo-go/pkg/crypto/keys"
	"github.com/nspcc-dev/neo-go/pkg/io"
)

// site is one place of the wire form of a transaction that has more than one
// accepted spelling: a var-int (count or length) or a compressed public key.
type site struct {
	Off   int
	Len   int    // bytes of the canonical spelling
	Val   uint64 // var-int value
	Field string // site class
	Key   bool   // compressed public key instead of a var-int
	Hashd bool   // inside the hashable (signed) part
}

type wireParser struct {
	b     []byte
	p     int
	err   error
	sites []site
	hashd bool
}

func (w *wireParser) need(n int) bool {
	if w.err != nil {
		return false
	}
	if w.p+n > len(w.b) {
		w.err = errors.New("short input")
		return false
	}
	return true
}

func (w *wireParser) skip(n int) {
	if w.need(n) {
		w.p += n
	}
}

func (w *wireParser) byte1() byte {
	if !w.need(1) {
		return 0
	}
	w.p++
	return w.b[w.p-1]
}

func (w *wireParser) varint(field string) uint64 {
	if !w.need(1) {
		return 0
	}
	off := w.p
	var v uint64
	switch c := w.b[w.p]; c {
	case 0xfd:
		if !w.need(3) {
			return 0
		}
		v = uint64(binary.LittleEndian.Uint16(w.b[w.p+1:]))
		w.p += 3
	case 0xfe:
		if !w.need(5) {
			return 0
		}
		v = uint64(binary.LittleEndian.Uint32(w.b[w.p+1:]))
		w.p += 5
	case 0xff:
		if !w.need(9) {
			return 0
		}
		v = binary.LittleEndian.Uint64(w.b[w.p+1:])
		w.p += 9
	default:
		v = uint64(c)
		w.p++
	}
	w.sites = append(w.sites, site{Off: off, Len: w.p - off, Val: v, Field: field, Hashd: w.hashd})
	return v
}

func (w *wireParser) pubkey(field string) {
	if !w.need(1) {
		return
	}
	switch w.b[w.p] {
	case 2, 3:
		if w.need(33) {
			w.sites = append(w.sites, site{Off: w.p, Len: 33, Field: field, Key: true, Hashd: w.hashd})
			w.p += 33
		}
	case 4:
		w.skip(65)
	default:
		w.err = fmt.Errorf("bad key prefix %x", w.b[w.p])
	}
}

func (w *wireParser) condition(depth int) {
	if depth > 8 {
		w.err = errors.New("too deep")
		return
	}
	switch t := transaction.WitnessConditionType(w.byte1()); t {
	case transaction.WitnessBoolean:
		w.skip(1)
	case transaction.WitnessNot:
		w.condition(depth + 1)
	case transaction.WitnessAnd, transaction.WitnessOr:
		n := w.varint("condition-count")
		for i := uint64(0); i < n && w.err == nil; i++ {
			w.condition(depth + 1)
		}
	case transaction.WitnessScriptHash, transaction.WitnessCalledByContract:
		w.skip(20)
	case transaction.WitnessGroup, transaction.WitnessCalledByGroup:
		w.pubkey("condition-group-key")
	case transaction.WitnessCalledByEntry:
	default:
		if w.err == nil {
			w.err = fmt.Errorf("unknown condition %x", byte(t))
		}
	}
}

// findSites walks the canonical wire form of a transaction (written from the
// format description, independent of the codec under test) and lists all the
// sites with alternative spellings.
func findSites(b []byte) ([]site, error) {
	w := &wireParser{b: b, hashd: true}
	w.skip(1 + 4 + 8 + 8 + 4)
	ns := w.varint("signer-count")
	for i := uint64(0); i < ns && w.err == nil; i++ {
		w.skip(20)
		sc := transaction.WitnessScope(w.byte1())
		if sc&transaction.CustomContracts != 0 {
			n := w.varint("allowed-contracts-count")
			w.skip(int(n) * 20)
		}
		if sc&transaction.CustomGroups != 0 {
			n := w.varint("allowed-groups-count")
			for j := uint64(0); j < n && w.err == nil; j++ {
				w.pubkey("allowed-group-key")
			}
		}
		if sc&transaction.Rules != 0 {
			n := w.varint("rules-count")
			for j := uint64(0); j < n && w.err == nil; j++ {
				w.skip(1)
				w.condition(0)
			}
		}
	}
	na := w.varint("attr-count")
	for i := uint64(0); i < na && w.err == nil; i++ {
		switch t := transaction.AttrType(w.byte1()); {
		case t == transaction.HighPriority:
		case t == transaction.OracleResponseT:
			w.skip(9)
			n := w.varint("oracle-result-len")
			w.skip(int(n))
		case t == transaction.NotValidBeforeT:
			w.skip(4)
		case t == transaction.ConflictsT:
			w.skip(32)
		case t == transaction.NotaryAssistedT:
			w.skip(1)
		case t >= transaction.ReservedLowerBound:
			n := w.varint("reserved-attr-len")
			w.skip(int(n))
		default:
			if w.err == nil {
				w.err = fmt.Errorf("unknown attribute %x", byte(t))
			}
		}
	}
	n := w.varint("script-len")
	w.skip(int(n))
	w.hashd = false
	nw := w.varint("witness-count")
	for i := uint64(0); i < nw && w.err == nil; i++ {
		n := w.varint("invocation-len")
		w.skip(int(n))
		n = w.varint("verification-len")
		w.skip(int(n))
	}
	if w.err == nil && w.p != len(b) {
		w.err = fmt.Errorf("%d trailing bytes", len(b)-w.p)
	}
	return w.sites, w.err
}

// respell returns the alternative spellings of site s: every other var-int
// form that can hold the same value, or the uncompressed form of the same curve point.
func respell(b []byte, s site, widths []int) (out [][]byte, names []string) {
	splice := func(alt []byte) []byte {
		r := make([]byte, 0, len(b)+len(alt))
		r = append(r, b[:s.Off]...)
		r = append(r, alt...)
		return append(r, b[s.Off+s.Len:]...)
	}
	if s.Key {
		pk, err := keys.NewPublicKeyFromBytes(b[s.Off:s.Off+33], elliptic.P256())
		if err != nil {
			return nil, nil
		}
		return [][]byte{splice(pk.UncompressedBytes())}, []string{"uncompressed"}
	}
	for _, wd := range widths {
		if wd == s.Len || (wd == 1 && s.Val >= 0xfd) || (wd == 3 && s.Val > 0xffff) || (wd == 5 && s.Val > 0xffffffff) {
			continue
		}
		alt := make([]byte, wd)
		switch wd {
		case 1:
			alt[0] = byte(s.Val)
		case 3:
			alt[0] = 0xfd
			binary.LittleEndian.PutUint16(alt[1:], uint16(s.Val))
		case 5:
			alt[0] = 0xfe
			binary.LittleEndian.PutUint32(alt[1:], uint32(s.Val))
		case 9:
			alt[0] = 0xff
			binary.LittleEndian.PutUint64(alt[1:], s.Val)
		}
		out = append(out, splice(alt))
		names = append(names, fmt.Sprintf("%d-byte-form", wd))
	}
	return
}

const (
	pathFromBytes = "frombytes"    // transaction.NewTransactionFromBytes: P2P and RPC
	pathDecodeBin = "decodebinary" // Transaction.DecodeBinary: block bodies
)

var paths = []string{pathFromBytes, pathDecodeBin}

// decodeVia parses wire bytes through one of the two entry paths.
func decodeVia(path string, b []byte) (*transaction.Transaction, error) {
	if path == pathFromBytes {
		return transaction.NewTransactionFromBytes(b)
	}
	r := io.NewBinReaderFromBuf(b)
	tx := &transaction.Transaction{}
	tx.DecodeBinary(r)
	if r.Err != nil {
		return nil, r.Err
	}
	if r.Len() != 0 {
		return nil, errors.New("additional data after the transaction")
	}
	return tx, nil
}

// sameContent: the alternative spelling decodes to a transaction whose
// canonical serialisation is the canonical input.
func sameContent(tx *transaction.Transaction, canonical []byte) bool {
	return bytes.Equal(tx.Bytes(), canonical)
}
