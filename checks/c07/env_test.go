package c07

import (
	"bytes"
	"crypto/sha256"
	"errors"
	"fmt"
	"hash/crc32"
	"sort"
	"strings"
	"sync"

	"github.com/nspcc-dev/neo-go/pkg/config"
	"github.com/nspcc-dev/neo-go/pkg/core"
	"github.com/nspcc-dev/neo-go/pkg/core/fee"
	"github.com/nspcc-dev/neo-go/pkg/core/native/nativehashes"
	"github.com/nspcc-dev/neo-go/pkg/core/native/noderoles"
	"github.com/nspcc-dev/neo-go/pkg/core/transaction"
	"github.com/nspcc-dev/neo-go/pkg/crypto/hash"
	"github.com/nspcc-dev/neo-go/pkg/crypto/keys"
	"github.com/nspcc-dev/neo-go/pkg/io"
	"github.com/nspcc-dev/neo-go/pkg/neotest"
	"github.com/nspcc-dev/neo-go/pkg/smartcontract"
	"github.com/nspcc-dev/neo-go/pkg/smartcontract/callflag"
	"github.com/nspcc-dev/neo-go/pkg/util"
	"github.com/nspcc-dev/neo-go/pkg/vm/emit"
	"github.com/nspcc-dev/neo-go/pkg/vm/opcode"

	"verif/lib/chainx"
)

const gas = 100000000 // 1 GAS in datoshi

// ---- accounts --------------------------------------------------------------------

// acct is a signer the harness can produce witnesses for.
type acct struct {
	Name      string
	M         int
	Privs     []*keys.PrivateKey // in the order of the keys inside the verification script
	Ver       []byte
	Hash      util.Uint160
	Std       bool                                     // standard signature / multi-signature contract
	Inv       func(tx *transaction.Transaction) []byte // invocation script of a non-standard witness
	NoneScope bool                                     // the signer must have the None scope (native contracts, oracle nodes)
	Contract  bool                                     // a deployed contract: empty verification script, its `verify` method decides
	GoodInv   func(inv []byte) bool                    // (Contract) the invocation scripts that make `verify` return true, by construction of the contract
	FixedGas  int64                                    // != 0: verification cost known from the cost model of the script (never measured at the limit)
	Bad       string                                   // != "": the witness does not verify, by construction of its scripts
}

var (
	keyMu    sync.Mutex
	keyCache = map[string]*keys.PrivateKey{}
	accMu    sync.Mutex
	accCache = map[string]*acct{}
)

func detKey(label string) *keys.PrivateKey {
	keyMu.Lock()
	defer keyMu.Unlock()
	if k, ok := keyCache[label]; ok {
		return k
	}
	seed := sha256.Sum256([]byte("c07-key-" + label))
	k, err := keys.NewPrivateKeyFromBytes(seed[:])
	if err != nil {
		panic(err)
	}
	keyCache[label] = k
	return k
}

// sigAcct is chainx.Acc(i) as a standard signature account.
func sigAcct(i int) *acct {
	a := chainx.Acc(i)
	return &acct{Name: fmt.Sprintf("sig%d", i), M: 1, Privs: []*keys.PrivateKey{a.PrivateKey()}, Ver: a.Contract.Script, Hash: a.ScriptHash(), Std: true}
}

// keyAcct is a standard signature account for an arbitrary key.
func keyAcct(name string, k *keys.PrivateKey) *acct {
	ver := k.PublicKey().GetVerificationScript()
	return &acct{Name: name, M: 1, Privs: []*keys.PrivateKey{k}, Ver: ver, Hash: hash.Hash160(ver), Std: true}
}

// msAcct is the m-of-n multi-signature account of signer position pos.
func msAcct(pos, m, n int) *acct {
	name := fmt.Sprintf("ms%d-%dof%d", pos, m, n)
	accMu.Lock()
	defer accMu.Unlock()
	if a, ok := accCache[name]; ok {
		return a
	}
	privs := make([]*keys.PrivateKey, n)
	for i := range privs {
		privs[i] = detKey(fmt.Sprintf("ms-%d-%d", pos, i))
	}
	sort.Slice(privs, func(i, j int) bool { return privs[i].PublicKey().Cmp(privs[j].PublicKey()) < 0 })
	pubs := make(keys.PublicKeys, n)
	for i := range privs {
		pubs[i] = privs[i].PublicKey()
	}
	ver, err := smartcontract.CreateMultiSigRedeemScript(m, pubs)
	if err != nil {
		panic(err)
	}
	a := &acct{Name: name, M: m, Privs: privs, Ver: ver, Hash: hash.Hash160(ver), Std: true}
	accCache[name] = a
	return a
}

// committeeAcct is the committee (= validator) multi-signature account of a
// single-validator replica.
func committeeAcct(n *chainx.Node) *acct {
	ms := n.Committee.(neotest.MultiSigner)
	k := ms.Single(0).Account().PrivateKey()
	return &acct{Name: "committee", M: 1, Privs: []*keys.PrivateKey{k}, Ver: n.Committee.Script(), Hash: n.Committee.ScriptHash(), Std: true}
}

// customAcct is an account with an arbitrary verification script.
func customAcct(name string, ver []byte, inv []byte) *acct {
	return &acct{Name: name, Ver: ver, Hash: hash.Hash160(ver), Inv: func(*transaction.Transaction) []byte { return inv }}
}

func pushSig(sig []byte) []byte {
	return append([]byte{byte(opcode.PUSHDATA1), byte(len(sig))}, sig...)
}

// witness builds the witness of a for tx (whose hashable fields are final).
func (a *acct) witness(magic uint32, tx *transaction.Transaction) transaction.Witness {
	if !a.Std {
		var inv []byte
		if a.Inv != nil {
			inv = a.Inv(tx)
		}
		return transaction.Witness{InvocationScript: inv, VerificationScript: a.Ver}
	}
	var inv []byte
	for i := 0; i < a.M; i++ {
		inv = append(inv, pushSig(a.Privs[i].SignHashable(magic, tx))...)
	}
	return transaction.Witness{InvocationScript: inv, VerificationScript: a.Ver}
}

// notaryAcct is the native Notary contract as a signer: its witness is a
// signature of a designated notary node and an empty verification script.
func notaryAcct(magic uint32) *acct { return notaryAcctBy(magic, 4) }

// notaryAcctBy: the Notary contract's witness signed by account i.
func notaryAcctBy(magic uint32, i int) *acct {
	k := chainx.Acc(i).PrivateKey()
	return &acct{Name: "notary", Hash: nativehashes.Notary, NoneScope: true, Inv: func(tx *transaction.Transaction) []byte {
		return pushSig(k.SignHashable(magic, tx))
	}}
}

// ---- transaction builder ---------------------------------------------------------

type txSpec struct {
	Label        string // determines the nonce
	Signers      []*acct
	Script       []byte
	Attrs        []transaction.Attribute
	SysFee       int64
	VUB          uint32 // 0 = height+5
	NetDelta     int64  // added to the calculator's fee
	GlobalScopes bool   // give Global scope even to the signers that need None (a fault)
	Rich         int    // 1: the sender gets scopes with contracts, groups and rules (more sites with alternative spellings); 2: all signers get long lists (size)
}

// sysFeeOracle as the system fee of a specification: the system fee is set so
// that system + network fee is exactly what the pending oracle request
// reserved for its response (the native Oracle contract, the sender, holds
// exactly that).
const sysFeeOracle = -99

func fixSysFee(sp *txSpec, tx *transaction.Transaction) {
	if sp.SysFee == sysFeeOracle {
		tx.SystemFee = oracleRequestGas - tx.NetworkFee
	}
}

func nonceOf(label string) uint32 { return crc32.ChecksumIEEE([]byte(label)) }

// nops is a well-formed script of n bytes.
func nops(n int) []byte {
	s := bytes.Repeat([]byte{byte(opcode.NOP)}, n)
	s[n-1] = byte(opcode.RET)
	return s
}

func richSigner(h util.Uint160, level int) transaction.Signer {
	sh := transaction.ConditionScriptHash(nativehashes.GasToken)
	cc := transaction.ConditionCalledByContract(nativehashes.NeoToken)
	if level > 1 {
		// size without public keys (their decompression dominates decoding time)
		s := transaction.Signer{Account: h, Scopes: transaction.CalledByEntry | transaction.CustomContracts | transaction.Rules,
			Rules: []transaction.WitnessRule{{Action: transaction.WitnessAllow, Condition: &sh}, {Action: transaction.WitnessDeny, Condition: &cc}}}
		for i := 0; i < 16; i++ {
			s.AllowedContracts = append(s.AllowedContracts, util.Uint160{byte(i + 1)})
		}
		return s
	}
	g1 := detKey("group-1").PublicKey()
	g2 := detKey("group-2").PublicKey()
	and := transaction.ConditionAnd{(*transaction.ConditionGroup)(g2), transaction.ConditionCalledByEntry{}}
	or := transaction.ConditionOr{&sh, &and}
	return transaction.Signer{
		Account:          h,
		Scopes:           transaction.CalledByEntry | transaction.CustomContracts | transaction.CustomGroups | transaction.Rules,
		AllowedContracts: []util.Uint160{nativehashes.GasToken, nativehashes.NeoToken},
		AllowedGroups:    []*keys.PublicKey{g1},
		Rules: []transaction.WitnessRule{
			{Action: transaction.WitnessAllow, Condition: &or},
			{Action: transaction.WitnessDeny, Condition: &cc},
		},
	}
}

// unsigned builds the transaction of spec without witnesses and with
// NetworkFee 0.
func unsigned(height uint32, sp *txSpec) *transaction.Transaction {
	tx := transaction.New(sp.Script, sp.SysFee)
	tx.Nonce = nonceOf(sp.Label)
	tx.ValidUntilBlock = sp.VUB
	if sp.VUB == 0 {
		tx.ValidUntilBlock = height + 5
	}
	for i, a := range sp.Signers {
		s := transaction.Signer{Account: a.Hash, Scopes: transaction.Global}
		if (sp.Rich > 1 || (sp.Rich == 1 && i == 0)) && !a.NoneScope {
			s = richSigner(a.Hash, sp.Rich)
		}
		if a.NoneScope && !sp.GlobalScopes {
			s.Scopes = transaction.None
		}
		tx.Signers = append(tx.Signers, s)
	}
	tx.Attributes = append(tx.Attributes, sp.Attrs...)
	return tx
}

// calcFee is the fee calculator of the property: per witness fee.Calculate of
// the verification script (standard contracts) or a verification run the way
// the RPC server's calculatenetworkfee does it (other witnesses), plus size x
// fee-per-byte, plus the attribute fees. It is written from
// neotest.AddNetworkFee / rpcsrv.calculateNetworkFee and does not call them.
func calcFee(bc *core.Blockchain, magic uint32, tx *transaction.Transaction, signers []*acct) (netFee int64, size int, err error) {
	netFee, size, _, err = calcFeeGas(bc, magic, tx, signers)
	return
}

// calcFeeGas also returns the measured cost of the non-standard witnesses.
func calcFeeGas(bc *core.Blockchain, magic uint32, tx *transaction.Transaction, signers []*acct) (netFee int64, size int, gasOf map[int]int64, err error) {
	hp, err := tx.EncodeHashableFields()
	if err != nil {
		return 0, 0, nil, err
	}
	gasOf = map[int]int64{}
	size = len(hp) + io.GetVarSize(len(signers))
	base := bc.GetBaseExecFee()
	gasLimit := bc.GetMaxVerificationGAS()
	for i, a := range signers {
		if a.Std {
			f, sz := fee.Calculate(base, a.Ver)
			if sz == 0 {
				return 0, 0, nil, fmt.Errorf("fee.Calculate does not know the standard contract of %s", a.Name)
			}
			netFee += f
			size += sz
			continue
		}
		w := a.witness(magic, tx)
		var consumed int64
		switch {
		case a.FixedGas != 0:
			consumed = a.FixedGas
		default:
			var verr error
			consumed, verr = bc.VerifyWitness(a.Hash, tx, &w, gasLimit)
			if verr != nil && !errors.Is(verr, core.ErrInvalidSignature) {
				// too costly for the policy limit: charge the limit (the
				// transaction is invalid anyway)
				consumed = gasLimit + 1
				if a.Contract || a.Bad != "" {
					// missing contract / missing or faulting verify / a script that cannot verify: nothing to charge
					consumed = 0
				}
			}
		}
		gasOf[i] = consumed
		gasLimit -= consumed
		if gasLimit < 0 {
			gasLimit = 0
		}
		netFee += consumed
		size += io.GetVarSize(w.InvocationScript) + io.GetVarSize(w.VerificationScript)
	}
	attrFee, err := attrFeeRef(bc, tx)
	if err != nil {
		return 0, 0, nil, err
	}
	netFee += int64(size)*bc.FeePerByte() + attrFee
	return netFee, size, gasOf, nil
}

// fresh returns the same content without the cached hash and size.
func fresh(tx *transaction.Transaction) *transaction.Transaction {
	return &transaction.Transaction{Version: tx.Version, Nonce: tx.Nonce, SystemFee: tx.SystemFee, NetworkFee: tx.NetworkFee,
		ValidUntilBlock: tx.ValidUntilBlock, Script: tx.Script, Attributes: tx.Attributes, Signers: tx.Signers, Scripts: tx.Scripts}
}

func sign(magic uint32, tx *transaction.Transaction, signers []*acct) {
	tx.Scripts = tx.Scripts[:0]
	for _, a := range signers {
		tx.Scripts = append(tx.Scripts, a.witness(magic, tx))
	}
}

// build makes the signed transaction of spec with NetworkFee = calculator + NetDelta.
func build(n *chainx.Node, sp *txSpec) (*transaction.Transaction, int64, error) {
	magic := uint32(n.BC.GetConfig().Magic)
	tx := unsigned(n.BC.BlockHeight(), sp)
	calc, size, err := calcFee(n.BC, magic, tx, sp.Signers)
	if err != nil {
		return nil, 0, err
	}
	tx = fresh(tx)
	tx.NetworkFee = calc + sp.NetDelta
	if tx.NetworkFee < 0 {
		tx.NetworkFee = 0
	}
	fixSysFee(sp, tx)
	sign(magic, tx, sp.Signers)
	if got := len(tx.Bytes()); got != size {
		return tx, calc, fmt.Errorf("calculator size %d != serialised size %d", size, got)
	}
	return tx, calc, nil
}

// ---- verdicts ----------------------------------------------------------------------

var errClasses = []struct {
	e    error
	name string
}{
	{core.ErrTxExpired, "ErrTxExpired"},
	{core.ErrTxNotYetValid, "ErrTxNotYetValid"},
	{core.ErrInsufficientFunds, "ErrInsufficientFunds"},
	{core.ErrTxSmallNetworkFee, "ErrTxSmallNetworkFee"},
	{core.ErrTxTooBig, "ErrTxTooBig"},
	{core.ErrMemPoolConflict, "ErrMemPoolConflict"},
	{core.ErrInvalidScript, "ErrInvalidScript"},
	{core.ErrInvalidAttribute, "ErrInvalidAttribute"},
	{core.ErrPolicy, "ErrPolicy"},
	{core.ErrAlreadyExists, "ErrAlreadyExists"},
	{core.ErrAlreadyInPool, "ErrAlreadyInPool"},
	{core.ErrHasConflicts, "ErrHasConflicts"},
	{core.ErrOOM, "ErrOOM"},
	{core.ErrWitnessHashMismatch, "ErrWitnessHashMismatch"},
	{core.ErrNativeContractWitness, "ErrNativeContractWitness"},
	{core.ErrInvalidSignature, "ErrInvalidSignature"},
	{core.ErrVerificationFailed, "ErrVerificationFailed"},
	{core.ErrInvalidInvocationScript, "ErrInvalidInvocationScript"},
	{core.ErrInvalidVerificationScript, "ErrInvalidVerificationScript"},
	{core.ErrUnknownVerificationContract, "ErrUnknownVerificationContract"},
	{core.ErrInvalidVerificationContract, "ErrInvalidVerificationContract"},
}

func errClass(err error) string {
	if err == nil {
		return "ok"
	}
	for _, c := range errClasses {
		if errors.Is(err, c.e) {
			return c.name
		}
	}
	s := err.Error()
	if strings.HasPrefix(s, "decode:") {
		if i := strings.Index(s[8:], ":"); i > 0 {
			return s[:8+i]
		}
		return s
	}
	if len(s) > 40 {
		s = s[:40]
	}
	return "other:" + s
}

// ---- chain states ---------------------------------------------------------------------

// world of C07: templates that prepare the states of the sub-checks.

const (
	feeConflicts   = 123457
	feeNVB         = 7001
	feeHighPrio    = 250003
	feeOracleResp  = 99991
	poorBalance    = 30000000 // 0.3 GAS, account 7
	msFunding      = 150 * gas
	smallBlockFees = 40 * gas
)

// shapeMN lists the (m, n) pairs of the multi-signature signer shapes.
func shapeMN() [][2]int {
	var out [][2]int
	for n := 1; n <= 5; n++ {
		for m := 1; m <= n; m++ {
			out = append(out, [2]int{m, n})
		}
	}
	// emit.Int switches from PUSH<n> to PUSHINT8 at 16
	// (at most 15 signatures fit into an invocation script of 1024 bytes)
	out = append(out, [2]int{1, 15}, [2]int{15, 15}, [2]int{1, 16}, [2]int{15, 16}, [2]int{1, 17}, [2]int{15, 17})
	// above 17 keys: the pushed key count is well inside PUSHINT8 (a calculator that
	// derives the opcode arithmetically from PUSH1 is only right up to 16); 29 keys
	// are the most a verification script of 1024 bytes can hold
	out = append(out, [2]int{1, 18}, [2]int{2, 19}, [2]int{1, 24}, [2]int{1, 29}, [2]int{15, 29})
	return out
}

type transfer struct {
	to  util.Uint160
	amt int64
}

func transferScript(from util.Uint160, ts []transfer) []byte {
	w := io.NewBufBinWriter()
	for _, t := range ts {
		emit.AppCall(w.BinWriter, nativehashes.GasToken, "transfer", callflag.All, from, t.to, t.amt, nil)
		emit.Opcodes(w.BinWriter, opcode.ASSERT)
	}
	if w.Err != nil {
		panic(w.Err)
	}
	return w.Bytes()
}

// setupTpl funds the multi-signature sender accounts and the poor account,
// gives the attributes non-zero fees and designates account 4 as a notary node.
func setupTpl() chainx.Tpl {
	return chainx.Tpl{Name: "c07-setup", Build: func(w *chainx.World) ([]*transaction.Transaction, error) {
		n := w.N
		from := n.Validator.ScriptHash()
		var ts []transfer
		for _, mn := range shapeMN() {
			ts = append(ts, transfer{msAcct(0, mn[0], mn[1]).Hash, msFunding})
		}
		ts = append(ts, transfer{chainx.Acc(7).ScriptHash(), poorBalance})
		ts = append(ts, transfer{chainx.Acc(8).ScriptHash(), 100 * gas})
		fund, err := n.MakeTx(transferScript(from, ts), []neotest.Signer{n.Validator})
		if err != nil {
			return nil, fmt.Errorf("fund: %w", err)
		}
		pw := io.NewBufBinWriter()
		for _, af := range []struct {
			t transaction.AttrType
			v int64
		}{{transaction.ConflictsT, feeConflicts}, {transaction.NotValidBeforeT, feeNVB}, {transaction.HighPriority, feeHighPrio}, {transaction.OracleResponseT, feeOracleResp}} {
			emit.AppCall(pw.BinWriter, nativehashes.PolicyContract, "setAttributeFee", callflag.All, int64(af.t), af.v)
			emit.Opcodes(pw.BinWriter, opcode.DROP)
		}
		emit.AppCall(pw.BinWriter, nativehashes.RoleManagement, "designateAsRole", callflag.All, int64(noderoles.P2PNotary), []any{chainx.Acc(4).PublicKey().Bytes()})
		emit.Opcodes(pw.BinWriter, opcode.DROP)
		if pw.Err != nil {
			return nil, pw.Err
		}
		pol, err := n.MakeTx(pw.Bytes(), []neotest.Signer{n.Committee})
		if err != nil {
			return nil, fmt.Errorf("policy: %w", err)
		}
		return []*transaction.Transaction{fund, pol}, nil
	}}
}

func execFeeTpl(name string, v int64) chainx.Tpl {
	return chainx.Tpl{Name: name, Build: func(w *chainx.World) ([]*transaction.Transaction, error) {
		tx, err := w.N.CallTx([]neotest.Signer{w.N.Committee}, nativehashes.PolicyContract, "setExecFeeFactor", v)
		if err != nil {
			return nil, err
		}
		return []*transaction.Transaction{tx}, nil
	}}
}

// conflictCast are the off-chain transactions named (or not) by the on-chain
// Conflicts attributes of the "conflicts" state; their bytes are shared with
// the soundness menu.
type conflictCast struct {
	mu  sync.Mutex
	txs map[string][]byte // role -> canonical bytes
}

func (c *conflictCast) put(role string, tx *transaction.Transaction) {
	c.mu.Lock()
	c.txs[role] = tx.Bytes()
	c.mu.Unlock()
}

func (c *conflictCast) get(role string) []byte {
	c.mu.Lock()
	defer c.mu.Unlock()
	return c.txs[role]
}

// conflictsTpl puts transactions with Conflicts attributes on chain:
//
//	X  (sender acc2, cosigner acc6) names victims "by-sender" (signed by acc2),
//	   "by-cosigner" (signed by acc6) and "second-signer" (sender acc1, second signer acc2)
//	Y  (sender acc5, a stranger)    names "by-stranger" (signed by acc2)
func conflictsTpl(cast *conflictCast) chainx.Tpl { return conflictsTplVUB(cast, 20) }

// conflictsTplVUB: the victims are valid until (height before the block) + vubDelta.
func conflictsTplVUB(cast *conflictCast, vubDelta uint32) chainx.Tpl {
	return chainx.Tpl{Name: "c07-conflicts", Build: func(w *chainx.World) ([]*transaction.Transaction, error) {
		n := w.N
		mk := func(role string, signers ...*acct) (*transaction.Transaction, error) {
			tx, _, err := build(n, &txSpec{Label: "victim-" + role, Signers: signers, Script: nops(3), SysFee: gas / 10, VUB: n.BC.BlockHeight() + vubDelta})
			if err != nil {
				return nil, err
			}
			cast.put(role, tx)
			return tx, nil
		}
		v1, err := mk("by-sender", sigAcct(2))
		if err != nil {
			return nil, err
		}
		v2, err := mk("by-cosigner", sigAcct(6))
		if err != nil {
			return nil, err
		}
		v3, err := mk("second-signer", sigAcct(1), sigAcct(2))
		if err != nil {
			return nil, err
		}
		v4, err := mk("by-stranger", sigAcct(2), sigAcct(1))
		if err != nil {
			return nil, err
		}
		cf := func(txs ...*transaction.Transaction) []transaction.Attribute {
			var a []transaction.Attribute
			for _, t := range txs {
				a = append(a, transaction.Attribute{Type: transaction.ConflictsT, Value: &transaction.Conflicts{Hash: t.Hash()}})
			}
			return a
		}
		x, _, err := build(n, &txSpec{Label: "onchain-X", Signers: []*acct{sigAcct(2), sigAcct(6)}, Script: nops(3), SysFee: gas / 10, Attrs: cf(v1, v2, v3)})
		if err != nil {
			return nil, err
		}
		y, _, err := build(n, &txSpec{Label: "onchain-Y", Signers: []*acct{sigAcct(5)}, Script: nops(3), SysFee: gas / 10, Attrs: cf(v4)})
		if err != nil {
			return nil, err
		}
		cast.put("onchain-X", x)
		cast.put("onchain-Y", y)
		return []*transaction.Transaction{x, y}, nil
	}}
}

// state is one representative chain state: a history of the scenario.
type state struct {
	Name    string
	Hist    []int
	Blocked map[util.Uint160]bool
	Oracle  bool // account 3 is the designated oracle node and request 0 is pending
	// extensions (ext_*_test.go)
	Sc        *chainx.Scenario       // nil: the main scenario
	Only      map[string]bool        // shapes of the soundness menu run in this state (nil: all)
	LevelOnly bool                   // only the state-level submissions
	Expect    *policyExpect          // policy values the history set, by construction
	Deposits  map[util.Uint160]int64 // Notary deposits made by the history
	Gone      map[util.Uint160]bool  // contracts destroyed by the history
	Extra     map[util.Uint160]bool  // contracts deployed by the history (beyond UA and UB)
	NotaryAcc int                    // account designated as the notary node (0: account 4)
	Multi     bool                   // multi-validator family: the committee is taken from the member list
	Cast      *conflictCast          // the Conflicts cast of the history (nil: the one of its scenario)
}

func famSingle(extra func(*config.Blockchain)) chainx.Family {
	return chainx.Family{Name: "single", Extra: extra}
}
