package c07

// End-to-end clause for the soundness menu: every case the predicate calls
// valid and the pool admitted is also pooled on a fresh proposer, packed by
// ApplyPolicyToTxSet, sent over the wire and must be accepted by a replica
// that never saw the pool (so admission and block verification - which skips
// what the pool verified - agree on every shape and boundary of the menu:
// contract-based witnesses, Notary as the sender, a witness at the gas limit,
// Conflicts naming a block, 16 signers, ...).

import (
	"encoding/hex"
	"fmt"
	"strings"

	"github.com/nspcc-dev/neo-go/pkg/core/transaction"

	"verif/lib/chainx"
)

// freshNode opens a replica on a private copy of the store content of st.
func (e *env) freshNode(st *state) (*chainx.Node, error) {
	batches, err := e.stateBatches(st)
	if err != nil {
		return nil, err
	}
	o := e.scOf(st).Fam.Opts()
	o.Store = chainx.NewRecStore(chainx.ApplyBatches(batches, len(batches)))
	n, err := chainx.New(o)
	if err != nil {
		return nil, err
	}
	if want := uint32(len(e.scOf(st).Preamble) + len(st.Hist)); n.BC.BlockHeight() != want {
		n.Close()
		return nil, fmt.Errorf("replica of %s opened at height %d, want %d", st.Name, n.BC.BlockHeight(), want)
	}
	return n, nil
}

func limitsOf(n *chainx.Node) limits {
	cfg := n.BC.GetConfig()
	return limits{MaxTx: int(cfg.MaxTransactionsPerBlock), MaxSize: int(cfg.MaxBlockSize), MaxSys: cfg.MaxBlockSystemFee, SRIH: cfg.StateRootInHeader}
}

func (rn *runner) endToEnd(shapeName string, c *sCase) {
	rn.e.endToEndTx(rn.st, shapeName, c.Rule, c.Tx.Bytes(), rn.facts)
}

func (e *env) endToEndTx(st *state, shapeName, rule string, wire []byte, f *facts) {
	rec := &caseRec{Sub: "e2e", State: st.Name, Rule: rule, Shape: shapeName, Tx: hex.EncodeToString(wire)}
	fail := func(what, note string) {
		r := *rec
		r.Note = note
		e.f.add(fmt.Sprintf("e2e:%s:%s:%s:%s", what, rule, shapeName, st.Name), &r)
	}
	defer func() {
		if p := recover(); p != nil {
			fail("panic", fmt.Sprint(p))
		}
	}()
	e.count.e2e.Inc()
	P, err := e.freshNode(st)
	if err != nil {
		fail("harness-replica", err.Error())
		return
	}
	defer P.Close()
	tx, err := transaction.NewTransactionFromBytes(wire)
	if err != nil {
		fail("harness-decode", err.Error())
		return
	}
	if err := P.BC.PoolTx(tx); err != nil {
		fail("not-admitted-by-a-fresh-replica", err.Error())
		return
	}
	nsel, _, _, ok := e.propose(P, "e2e", limitsOf(P), func() (*chainx.Node, error) { return e.freshNode(st) }, fail)
	if !ok {
		return
	}
	e.out("e2e", fmt.Sprintf("%s:in-block=%d", rule, nsel))
	e.count.states.Add("e2e/" + st.Name + "/" + shapeName + "/" + rule)
	// the ledger still has all its blocks (a Conflicts attribute may name a block hash:
	// dao.StoreAsTransaction documents that no conflict record is stored over a block)
	for i, h := range f.Blocks {
		b, err := P.BC.GetBlock(h)
		if err != nil || b.Index != uint32(i+1) {
			fail("ledger-lost-a-block", fmt.Sprintf("block %d (%s) after the proposed block: %v", i+1, h.StringLE(), err))
			break
		}
	}
}

func (e *env) replayE2E(c *caseRec) string {
	st := e.state(c.State)
	if st == nil {
		return "harness: unknown state " + c.State
	}
	rn, err := e.newRunner(st)
	if err != nil {
		return "harness: " + err.Error()
	}
	f := rn.facts
	rn.close()
	sub := newFindings()
	old := e.f
	e.f = sub
	e.endToEndTx(st, c.Shape, c.Rule, unhex(c.Tx), f)
	e.f = old
	var out []string
	for k, fd := range sub.m {
		out = append(out, k+": "+fd.Detail.Note)
	}
	return strings.Join(out, "; ")
}
