package c07

// Sub-check "rebuilt": admission decisions are taken from native-contract
// caches (Policy: blocked accounts, fees, limits, whitelisted methods; NEO:
// committee; RoleManagement: notary / oracle nodes; Notary: NotValidBefore
// delta; Management: contracts). Those caches are maintained incrementally
// while blocks are processed and REBUILT FROM STORAGE when a node starts or
// resets its state. The property quantifies over chain states, not over how a
// node got there, so in every chain state of the soundness menu
//
//	live          the replica that processed the history and never stopped
//	reopen-mem    Close + reopen on its (in-memory) store
//	reopen-bolt   the same on BoltDB
//	reopen-level  the same on LevelDB
//	restart-after-every-block
//	              restarted after every block of the state's history (a cache
//	              rebuilt from storage is then maintained incrementally)
//	reset-mem     the history, then PERTURBING blocks (every policy value changed,
//	              other accounts blocked, blocked ones freed, roles moved,
//	              whitelist changed, UB destroyed, a deposit made, a menu
//	              transaction put on chain, another one named by a Conflicts
//	              attribute; multi-validator family: votes withdrawn and an
//	              epoch of empty blocks), then Blockchain.Reset back to the
//	              state's height; submissions go to the instance that was reset
//	reset-bolt    the same on BoltDB
//	reset-level   the same on LevelDB
//
// must give, for the WHOLE menu (every shape x every single-fault variant and
// the valid ones; the state-level Conflicts cast), through PoolTx, VerifyTx and
// PoolTxWithData: the verdict the independent predicate demands when it is
// evaluated on that node (its own getters, its own fee calculator), the same
// predicate verdict and the same required fee as on the live replica, and the
// same verdict as the live replica. Then every node kind acts as the PROPOSER:
// the valid transactions of the menu are pooled in rounds (the pool content
// must be the one of the live replica), packed by ApplyPolicyToTxSet, sent over
// the wire and must be accepted by a replica that NEVER restarted; a reset
// node is restarted once more before it proposes.

import (
	"encoding/hex"
	"fmt"
	"path/filepath"
	"sort"
	"strings"
	"sync"

	"github.com/nspcc-dev/neo-go/pkg/config"
	"github.com/nspcc-dev/neo-go/pkg/core/mempool"
	"github.com/nspcc-dev/neo-go/pkg/core/native/nativehashes"
	"github.com/nspcc-dev/neo-go/pkg/core/native/noderoles"
	"github.com/nspcc-dev/neo-go/pkg/core/storage"
	"github.com/nspcc-dev/neo-go/pkg/core/storage/dbconfig"
	"github.com/nspcc-dev/neo-go/pkg/core/transaction"
	"github.com/nspcc-dev/neo-go/pkg/crypto/hash"
	"github.com/nspcc-dev/neo-go/pkg/neotest"
	"github.com/nspcc-dev/neo-go/pkg/smartcontract"
	"github.com/nspcc-dev/neo-go/pkg/util"

	"verif/lib/chainx"
	"verif/lib/vk"
)

type rebuiltCount struct {
	cases, submissions, nodes, resets, packs, packed, compared vk.Counter
}

type nodeKind struct {
	Name    string
	Backend string // mem, bolt, level
	Reset   bool
	Each    bool // restarted after EVERY block of the history (a rebuilt cache is then updated incrementally)
}

var liveKind = nodeKind{Name: "live", Backend: "mem"}

// thoroughKinds are run in the thorough tier only.
func thoroughKinds() []nodeKind {
	return []nodeKind{
		{Name: "restart-after-every-block-bolt", Backend: "bolt", Each: true},
		{Name: "restart-after-every-block-level", Backend: "level", Each: true},
		{Name: "reset-after-restarts-mem", Backend: "mem", Each: true, Reset: true},
	}
}

func rebuiltKinds() []nodeKind {
	return []nodeKind{
		{Name: "reopen-mem", Backend: "mem"},
		{Name: "reopen-bolt", Backend: "bolt"},
		{Name: "reopen-level", Backend: "level"},
		{Name: "restart-after-every-block", Backend: "mem", Each: true},
		{Name: "reset-mem", Backend: "mem", Reset: true},
		{Name: "reset-bolt", Backend: "bolt", Reset: true},
		{Name: "reset-level", Backend: "level", Reset: true},
	}
}

func kindByName(name string) (nodeKind, bool) {
	if name == liveKind.Name {
		return liveKind, true
	}
	for _, k := range append(rebuiltKinds(), thoroughKinds()...) {
		if k.Name == name {
			return k, true
		}
	}
	return nodeKind{}, false
}

// ---- lite evaluation of one case on one node ---------------------------------------------------

// liteRes is what one node says about one case.
type liteRes struct {
	Need     int64
	Want     bool
	Why      string
	NoDemand string
	PWant    bool // predicate under the rules of PoolTxWithData
	PWhy     string
	PNoDem   string
	PreFail  string
	Pool     verdict
	Verify   verdict
	Partial  verdict
	HasVer   bool
	HasPart  bool
}

// rebCase is one case of the menu of a state with the live replica's answers.
type rebCase struct {
	Shape string
	C     *sCase
	Live  liteRes
}

// predicateOn evaluates the independent predicate for c on the runner's node:
// facts from this node's getters, required fee from the calculator run on this node.
func (rn *runner) predicateOn(c *sCase) (*sCase, error) {
	cc := *c
	cc.NoDemand = ""
	if c.Unsigned != nil {
		calc, size, gasOf, err := calcFeeGas(rn.n.BC, rn.facts.Magic, fresh(c.Unsigned), c.Signers)
		if err != nil {
			return nil, err
		}
		cc.Need = calc + int64(len(c.Tx.Bytes())-size)*rn.n.BC.FeePerByte()
		cc.Gas = gasOf
	}
	cc.Want, cc.Why = valid(rn.facts, &cc)
	return &cc, nil
}

func (rn *runner) lite(c *sCase) (res liteRes, err error) {
	cc, err := rn.predicateOn(c)
	if err != nil {
		return res, err
	}
	res.Need, res.Want, res.Why, res.NoDemand = cc.Need, cc.Want, cc.Why, cc.NoDemand
	canon := c.Tx.Bytes()
	rn.clearPool()
	for _, p := range c.Pre {
		if v := rn.submit(pathFromBytes, p.Bytes(), true); !v.OK {
			res.PreFail = v.Class
		}
	}
	res.Pool = rn.submit(pathFromBytes, canon, false)
	rn.e.reb.submissions.Inc()
	if res.Pool.Dec && len(c.Pre) == 0 {
		res.HasVer = true
		res.Verify = rn.verify(c.Tx)
		rn.e.reb.submissions.Inc()
		if d, derr := rn.n.BC.GetMaxNotValidBeforeDelta(); derr == nil {
			f := *rn.facts
			f.Partial = true
			f.MaxNVBDelta = d
			pc := *cc
			pc.NoDemand = ""
			pc.Want, pc.Why = valid(&f, &pc)
			res.PWant, res.PWhy, res.PNoDem = pc.Want, pc.Why, pc.NoDemand
			res.HasPart = true
			res.Partial = rn.via("pooltxwithdata", canon)
			rn.e.reb.submissions.Inc()
		}
	}
	rn.clearPool()
	return res, nil
}

// ---- building the menu of a state --------------------------------------------------------------------

// menuCases builds the cases of shape sh (or the state-level ones) on the runner's node.
func (rn *runner) menuCases(sh *shape) ([]*sCase, []error) {
	if sh == nil {
		return rn.levelCases(), nil
	}
	var out []*sCase
	var errs []error
	onchain := rn.lastOnChain().Hash()
	for _, m := range rn.allMutations(onchain) {
		c, ok, err := rn.buildCase(*sh, m, 0)
		if err != nil {
			errs = append(errs, fmt.Errorf("%s: %w", m.Rule, err))
			continue
		}
		if ok {
			out = append(out, c)
		}
	}
	return out, errs
}

type rebJob struct {
	st *state
	sh *shape // nil: the state-level cases
}

func (j rebJob) shapeName() string {
	if j.sh == nil {
		return "state-level"
	}
	return j.sh.Name
}

// rebuiltJobs lists (state, shape) pairs of the soundness menu without the 100 KiB shape.
func (e *env) rebuiltJobs() []rebJob {
	shs := allShapes()
	var jobs []rebJob
	for _, sn := range e.soundStateNames() {
		st := e.state(sn)
		if !st.LevelOnly {
			for i := range shs {
				if runsIn(&shs[i], st) && !shs[i].Big {
					jobs = append(jobs, rebJob{st: st, sh: &shs[i]})
				}
			}
		}
		if st.Only == nil {
			jobs = append(jobs, rebJob{st: st})
		}
	}
	return jobs
}

// ---- node kinds -------------------------------------------------------------------------------------------

type kindNode struct {
	e       *env
	st      *state
	k       nodeKind
	n       *chainx.Node // the node that takes the submissions
	opts    chainx.Opts
	dir     string
	cleanup func()
	disk    storage.Store // the open disk store (nil: memory)
	mem     storage.Store
	noRun   bool
	packerN *chainx.Node
}

func openDisk(backend, dir string) (storage.Store, error) {
	switch backend {
	case "bolt":
		return storage.NewBoltDBStore(dbconfig.BoltDBOptions{FilePath: filepath.Join(dir, "bolt.db")})
	case "level":
		return storage.NewLevelDBStore(dbconfig.LevelDBOptions{DataDirectoryPath: filepath.Join(dir, "level")})
	}
	return nil, fmt.Errorf("unknown backend %s", backend)
}

// perturb adds blocks after the state's history that change everything the
// admission of the state's menu depends on (see the head of the file).
func (e *env) perturb(n *chainx.Node, st *state, onchain, named *transaction.Transaction) error {
	sc := e.scOf(st)
	w := sc.World.Attach(n)
	if st.Multi {
		txs, err := chainx.TplByName("unvote1")[0].Build(w)
		if err != nil {
			return fmt.Errorf("unvote: %w", err)
		}
		if _, err := n.AddBlock(txs...); err != nil {
			return fmt.Errorf("unvote block: %w", err)
		}
		for i := 0; i < 7; i++ {
			if _, err := n.AddBlock(); err != nil {
				return fmt.Errorf("empty block: %w", err)
			}
		}
		return nil
	}
	var txs []*transaction.Transaction
	// optional ones: not applicable in every state
	if t, err := chainx.TplByName("destroy-ub")[0].Build(w); err == nil {
		txs = append(txs, t...)
	}
	if t, err := n.CallTx([]neotest.Signer{chainx.Signer(2)}, nativehashes.GasToken, "transfer", chainx.Acc(2).ScriptHash(), nativehashes.Notary, int64(7*gas), []any{nil, int64(n.Height() + 300)}); err == nil {
		txs = append(txs, t)
	}
	if onchain != nil {
		c, err := transaction.NewTransactionFromBytes(onchain.Bytes())
		if err != nil {
			return err
		}
		txs = append(txs, c)
	}
	if named != nil {
		t, _, err := build(n, &txSpec{Label: "perturb/namer/" + st.Name, Signers: []*acct{sigAcct(2)}, Script: nops(4), SysFee: gas / 10, Attrs: []transaction.Attribute{attrConflicts(named.Hash())}})
		if err != nil {
			return fmt.Errorf("namer: %w", err)
		}
		txs = append(txs, t)
	}
	bc := n.BC
	fees, err := policyAttrFees(bc)
	if err != nil {
		return err
	}
	calls := []nativeCall{pol("setFeePerByte", bc.FeePerByte()+321)}
	if v := bc.GetBaseExecFee() + 777; v <= 1000000 {
		calls = append(calls, pol("setExecFeeFactor", v))
	} else {
		calls = append(calls, pol("setExecFeeFactor", bc.GetBaseExecFee()-777))
	}
	for _, t := range pricedAttrs {
		calls = append(calls, pol("setAttributeFee", int64(t), fees[t]+5))
	}
	inc := bc.GetMaxValidUntilBlockIncrement()
	target := inc - 1
	if inc > 12 {
		target = inc - 3
	}
	if mtb := bc.GetMaxTraceableBlocks(); target >= mtb {
		target = mtb - 2 // the setter demands a value below MaxTraceableBlocks (the configuration does not)
	}
	if target >= 2 && target != inc {
		inc = target
		calls = append(calls, pol("setMaxValidUntilBlockIncrement", int64(inc)))
	}
	if d, err := bc.GetMaxNotValidBeforeDelta(); err == nil {
		nd := d - 2
		if nd > inc/2 {
			nd = inc/2 - 1
		}
		if nd >= 1 && nd != d {
			calls = append(calls, nativeCall{nativehashes.Notary, "setMaxNotValidBeforeDelta", []any{int64(nd)}})
		}
	}
	for _, i := range []int{3, 5} {
		calls = append(calls, pol("unblockAccount", chainx.Acc(i).ScriptHash()))
	}
	calls = append(calls, pol("unblockAccount", reversed160(chainx.Acc(1).ScriptHash())), pol("unblockAccount", filler(1)))
	for _, i := range []int{1, 2, 6} {
		calls = append(calls, pol("blockAccount", chainx.Acc(i).ScriptHash()))
	}
	calls = append(calls, pol("blockAccount", reversed160(chainx.Acc(3).ScriptHash())), pol("blockAccount", filler(9)))
	calls = append(calls,
		nativeCall{nativehashes.RoleManagement, "designateAsRole", []any{int64(noderoles.P2PNotary), []any{chainx.Acc(5).PublicKey().Bytes()}}},
		nativeCall{nativehashes.RoleManagement, "designateAsRole", []any{int64(noderoles.Oracle), []any{chainx.Acc(6).PublicKey().Bytes()}}})
	if st.Extra[contractV().Hash] {
		calls = append(calls, pol("setWhitelistFeeContract", contractV().Hash, "foo", 0, 11), pol("setWhitelistFeeContract", contractW().Hash, "foo", 0, 22))
	}
	ctx, err := committeeCalls(n, calls)
	if err != nil {
		return fmt.Errorf("perturbing committee transaction: %w", err)
	}
	txs = append(txs, ctx)
	if _, err := n.AddBlock(txs...); err != nil {
		return fmt.Errorf("perturbing block: %w", err)
	}
	if err := n.CheckHalt(ctx.Hash()); err != nil {
		return fmt.Errorf("perturbing committee transaction: %w", err)
	}
	if _, err := n.AddBlock(); err != nil {
		return fmt.Errorf("empty block: %w", err)
	}
	return nil
}

// replayRestarting feeds the preamble and the blocks of h to n and restarts
// the node after every block of h.
func (kn *kindNode) replayRestarting(sc *chainx.Scenario, n *chainx.Node, h []int) (*chainx.Node, error) {
	if err := sc.Replay(n, nil); err != nil {
		return n, err
	}
	for i := 1; i <= len(h); i++ {
		o := n.Opts
		n.Close()
		if kn.k.Backend != "mem" {
			d, err := openDisk(kn.k.Backend, kn.dir)
			if err != nil {
				return n, err
			}
			o.Store = d
		} else {
			o.Store = kn.mem
		}
		m, err := chainx.New(o)
		if err != nil {
			return n, fmt.Errorf("restart before block %d of the history: %w", i, err)
		}
		n = m
		if err := n.AddBytes(sc.Get(h[:i]).Block); err != nil {
			return n, fmt.Errorf("block %d of the history after a restart: %w", i, err)
		}
	}
	return n, nil
}

// openKind brings up a node of kind k in state st. onchain / named are menu
// transactions the perturbing block of the reset kinds puts on chain / names
// in a Conflicts attribute.
func (e *env) openKind(st *state, k nodeKind, onchain, named *transaction.Transaction) (kn *kindNode, err error) {
	sc := e.scOf(st)
	kn = &kindNode{e: e, st: st, k: k, opts: sc.Fam.Opts()}
	defer func() {
		if p := recover(); p != nil {
			err = fmt.Errorf("panic: %v", p)
		}
		if err != nil {
			kn.close()
			kn = nil
		}
	}()
	e.reb.nodes.Inc()
	want := uint32(len(sc.Preamble) + len(st.Hist))
	if k.Name == liveKind.Name {
		n, _, err := sc.RefNode(st.Hist)
		if err != nil {
			return kn, err
		}
		kn.n = n
		return kn, nil
	}
	o := kn.opts
	if k.Backend != "mem" {
		kn.dir, kn.cleanup = vk.Scratch("c07reb")
		if kn.disk, err = openDisk(k.Backend, kn.dir); err != nil {
			return kn, err
		}
		o.Store = kn.disk
	}
	n, err := chainx.New(o)
	if err != nil {
		return kn, err
	}
	kn.mem = n.Store
	if k.Each {
		n, err = kn.replayRestarting(sc, n, st.Hist)
	} else {
		err = sc.Replay(n, st.Hist)
	}
	if err == nil && k.Reset {
		err = e.perturb(n, st, onchain, named)
	}
	n.Close() // flushes and closes the store, as a graceful shutdown does
	kn.disk = nil
	if err != nil {
		return kn, err
	}
	if k.Backend != "mem" {
		if kn.disk, err = openDisk(k.Backend, kn.dir); err != nil {
			return kn, err
		}
		o.Store = kn.disk
	} else {
		o.Store = kn.mem
	}
	o.NoRun = k.Reset
	kn.noRun = k.Reset
	m, err := chainx.New(o)
	if err != nil {
		return kn, err
	}
	kn.n = m
	if k.Reset {
		e.reb.resets.Inc()
		if m.BC.BlockHeight() <= want {
			return kn, fmt.Errorf("perturbed node is at height %d", m.BC.BlockHeight())
		}
		if err = m.BC.Reset(want); err != nil {
			return kn, fmt.Errorf("Reset(%d): %w", want, err)
		}
	}
	if got := m.BC.BlockHeight(); got != want {
		return kn, fmt.Errorf("node opened at height %d, want %d", got, want)
	}
	return kn, nil
}

// packer returns a RUNNING node of the kind (a reset node is restarted).
func (kn *kindNode) packer() (*chainx.Node, error) {
	if !kn.noRun {
		return kn.n, nil
	}
	if kn.packerN != nil {
		return kn.packerN, nil
	}
	o := kn.opts
	if kn.k.Backend != "mem" {
		// the instance that was reset is not used any more
		kn.n = nil
		kn.disk.Close()
		kn.disk = nil
		d, err := openDisk(kn.k.Backend, kn.dir)
		if err != nil {
			return nil, err
		}
		kn.disk = d
		o.Store = d
	} else {
		o.Store = kn.mem
	}
	n, err := chainx.New(o)
	if err != nil {
		return nil, err
	}
	kn.disk = nil // closed by the node
	kn.packerN = n
	return n, nil
}

func (kn *kindNode) close() {
	if kn == nil {
		return
	}
	if kn.packerN != nil {
		kn.packerN.Close()
	}
	if kn.n != nil && !kn.noRun {
		kn.n.Close()
		kn.disk = nil
	}
	if kn.disk != nil {
		kn.disk.Close()
	}
	if kn.cleanup != nil {
		kn.cleanup()
	}
}

func (kn *kindNode) runner() *runner {
	rn := &runner{e: kn.e, st: kn.st, n: kn.n, rpcBroken: true}
	rn.facts = rn.mkFacts()
	return rn
}

// admissionFacts is what the predicate reads from a node, as one line.
func admissionFacts(rn *runner) string {
	bc := rn.n.BC
	var parts []string
	parts = append(parts, fmt.Sprintf("height=%d fpb=%d exec=%d mvub=%d mtb=%d maxvergas=%d", bc.BlockHeight(), bc.FeePerByte(), bc.GetBaseExecFee(),
		bc.GetMaxValidUntilBlockIncrement(), bc.GetMaxTraceableBlocks(), bc.GetMaxVerificationGAS()))
	if d, err := bc.GetMaxNotValidBeforeDelta(); err == nil {
		parts = append(parts, fmt.Sprintf("nvbdelta=%d", d))
	}
	if fees, err := policyAttrFees(bc); err == nil {
		for _, t := range pricedAttrs {
			parts = append(parts, fmt.Sprintf("attr%d=%d", t, fees[t]))
		}
	}
	if members, err := bc.GetCommittee(); err == nil {
		if ver, err := smartcontract.CreateMajorityMultiSigRedeemScript(members); err == nil {
			parts = append(parts, "committee="+hash.Hash160(ver).StringLE())
		}
	}
	for _, role := range []noderoles.Role{noderoles.Oracle, noderoles.P2PNotary} {
		ks, _, err := bc.GetDesignatedByRole(role)
		if err != nil {
			parts = append(parts, fmt.Sprintf("role%d=err", role))
			continue
		}
		var s []string
		for _, k := range ks {
			s = append(s, k.StringCompressed()[:12])
		}
		parts = append(parts, fmt.Sprintf("role%d=%s", role, strings.Join(s, "+")))
	}
	for _, h := range []util.Uint160{hashUA, hashUB, contractV().Hash, contractW().Hash} {
		parts = append(parts, fmt.Sprintf("contract=%v", bc.GetContractState(h) != nil))
	}
	return strings.Join(parts, " ")
}

// ---- the sub-check ------------------------------------------------------------------------------------------

type rebState struct {
	mu    sync.Mutex
	slots map[int][]rebCase // job index -> cases
	facts string
	pools [][]string // live proposer: pooled hashes per round
	built bool
}

func (e *env) runRebuilt() map[string]any {
	jobs := e.rebuiltJobs()
	perState := map[string]*rebState{}
	var stNames []string
	for _, j := range jobs {
		if perState[j.st.Name] == nil {
			perState[j.st.Name] = &rebState{slots: map[int][]rebCase{}}
			stNames = append(stNames, j.st.Name)
		}
	}
	// phase 1: the menu and the live replica's answers
	e.r.Parallel(len(jobs), func(i int) {
		j := jobs[i]
		rs := perState[j.st.Name]
		rn, err := e.newRunner(j.st)
		if err != nil {
			e.f.add("rebuilt:harness:replica:"+j.st.Name, &caseRec{Sub: "rebuilt", State: j.st.Name, Note: err.Error()})
			return
		}
		defer rn.close()
		rn.rpcBroken = true
		cases, errs := rn.menuCases(j.sh)
		for _, err := range errs {
			e.f.add(fmt.Sprintf("rebuilt:harness:build:%s:%s", j.shapeName(), j.st.Name), &caseRec{Sub: "rebuilt", State: j.st.Name, Shape: j.shapeName(), Note: err.Error()})
		}
		var out []rebCase
		for _, c := range cases {
			if e.r.Expired() {
				return
			}
			res, err := rn.lite(c)
			if err != nil {
				e.f.add(fmt.Sprintf("rebuilt:harness:live:%s:%s:%s", c.Rule, j.shapeName(), j.st.Name), &caseRec{Sub: "rebuilt", State: j.st.Name, Shape: j.shapeName(), Rule: c.Rule, Note: err.Error()})
				continue
			}
			out = append(out, rebCase{Shape: j.shapeName(), C: c, Live: res})
		}
		rs.mu.Lock()
		rs.slots[i] = out
		if rs.facts == "" {
			rs.facts = admissionFacts(rn)
		}
		rs.mu.Unlock()
	})
	menus := map[string][]rebCase{}
	total := 0
	for i := range jobs {
		rs := perState[jobs[i].st.Name]
		menus[jobs[i].st.Name] = append(menus[jobs[i].st.Name], rs.slots[i]...)
		total += len(rs.slots[i])
	}
	if e.r.Expired() {
		return map[string]any{"note": "deadline reached while the live replicas answered"}
	}
	// phase 2a: the live replica as the proposer (reference pool content per round)
	e.r.Parallel(len(stNames), func(i int) {
		st := e.state(stNames[i])
		rs := perState[st.Name]
		pools, ok := e.rebuiltKind(st, liveKind, menus[st.Name], rs, e.f)
		if ok {
			rs.pools = pools
			rs.built = true
		}
	})
	// phase 2b: every other kind
	kinds := rebuiltKinds()
	if e.thor {
		kinds = append(kinds, thoroughKinds()...)
	}
	type kjob struct {
		st *state
		k  nodeKind
	}
	var kjobs []kjob
	for _, k := range kinds {
		for _, sn := range stNames {
			kjobs = append(kjobs, kjob{e.state(sn), k})
		}
	}
	// heavy states first
	sort.SliceStable(kjobs, func(a, b int) bool { return len(menus[kjobs[a].st.Name]) > len(menus[kjobs[b].st.Name]) })
	e.r.Parallel(len(kjobs), func(i int) {
		j := kjobs[i]
		rs := perState[j.st.Name]
		if !rs.built {
			return
		}
		e.rebuiltKind(j.st, j.k, menus[j.st.Name], rs, e.f)
	})
	var kn []string
	for _, k := range kinds {
		kn = append(kn, k.Name)
	}
	perStateN := map[string]int{}
	for s, m := range menus {
		perStateN[s] = len(m)
	}
	return map[string]any{"states": stNames, "node_kinds": append([]string{liveKind.Name}, kn...), "menu_cases": total, "menu_cases_per_state": perStateN,
		"paths": []string{"pooltx", "verifytx", "pooltxwithdata"}, "nodes_opened": int(e.reb.nodes.Get()), "state_resets": int(e.reb.resets.Get()),
		"cases_on_rebuilt_nodes": int(e.reb.cases.Get()), "submissions": int(e.reb.submissions.Get()), "verdict_comparisons_with_live": int(e.reb.compared.Get()),
		"proposals": int(e.reb.packs.Get()), "transactions_in_proposed_blocks": int(e.reb.packed.Get())}
}

const (
	packChunk  = 56
	packRounds = 4
)

// rebuiltKind runs the menu of st on a node of kind k, compares with the live
// answers, then lets the node propose. It returns the pool content per round.
func (e *env) rebuiltKind(st *state, k nodeKind, menu []rebCase, rs *rebState, out *findings) (pools [][]string, ok bool) {
	rec := func(c *rebCase, path string) *caseRec {
		r := &caseRec{Sub: "rebuilt", State: st.Name, Family: k.Name, Path: path}
		if c != nil {
			r.Rule, r.Shape, r.Tx, r.Pre = c.C.Rule, c.Shape, hex.EncodeToString(c.C.Tx.Bytes()), hexs(c.C.Pre)
		}
		return r
	}
	defer func() {
		if p := recover(); p != nil {
			r := rec(nil, "")
			r.Note = fmt.Sprint(p)
			out.add(fmt.Sprintf("rebuilt:panic:%s:%s", st.Name, k.Name), r)
		}
	}()
	onchain, named := specials(menu)
	kn, err := e.openKind(st, k, onchain, named)
	if err != nil {
		r := rec(nil, "")
		r.Note = err.Error()
		out.add(fmt.Sprintf("rebuilt-node:%s:%s", st.Name, k.Name), r)
		return nil, false
	}
	defer kn.close()
	if k.Name != liveKind.Name {
		rn := kn.runner()
		if got := admissionFacts(rn); got != rs.facts {
			r := rec(nil, "")
			r.Want, r.Got = rs.facts, got
			r.Note = "what the getters the predicate reads answer differs from the live replica"
			out.add(fmt.Sprintf("rebuilt-facts:differ-from-live:%s:%s", st.Name, k.Name), r)
		}
		for i := range menu {
			if e.r.Expired() {
				return nil, false
			}
			c := &menu[i]
			e.reb.cases.Inc()
			e.count.states.Add("rebuilt/" + st.Name + "/" + k.Name + "/" + c.Shape + "/" + c.C.Rule)
			res, err := rn.lite(c.C)
			if err != nil {
				r := rec(c, "")
				r.Note = err.Error()
				out.add(fmt.Sprintf("rebuilt:harness:calculator:%s:%s:%s:%s", c.C.Rule, c.Shape, st.Name, k.Name), r)
				continue
			}
			e.compareLite(st, k, c, &res, rec, out)
		}
	}
	pools, ok = e.rebuiltPack(st, k, kn, menu, rs, out)
	return pools, ok
}

func (e *env) compareLite(st *state, k nodeKind, c *rebCase, res *liteRes, rec func(*rebCase, string) *caseRec, out *findings) {
	live := &c.Live
	// the key classes have their own prefixes (the findings are bounded per prefix)
	key := func(what, path string) string {
		s := fmt.Sprintf("rebuilt:%s:%s:%s:%s:%s", what, c.C.Rule, c.Shape, st.Name, k.Name)
		if path != "" {
			s += ":" + path
		}
		return s
	}
	if res.Need != live.Need {
		r := rec(c, "")
		r.Want, r.Got = fmt.Sprint(live.Need), fmt.Sprint(res.Need)
		r.Note = "the fee calculator (size x fee-per-byte + attribute fees + witness cost) run on this node gives another value than on the live replica"
		out.add(fmt.Sprintf("rebuilt-fee:differs-from-live:%s:%s:%s", c.Shape, st.Name, k.Name), r)
	}
	if res.Want != live.Want || (res.NoDemand != "") != (live.NoDemand != "") {
		r := rec(c, "")
		r.Want, r.Got = wantStr(live.Want)+" ("+live.Why+")", wantStr(res.Want)+" ("+res.Why+")"
		r.Note = "the independent predicate evaluated with this node's getters differs from the live replica's"
		out.add(fmt.Sprintf("rebuilt-predicate:differs-from-live:%s:%s:%s:%s", c.C.Rule, c.Shape, st.Name, k.Name), r)
	}
	if res.PreFail != live.PreFail {
		r := rec(c, "pooltx")
		r.Want, r.Got = "pre-pooled: "+live.PreFail, "pre-pooled: "+res.PreFail
		out.add(key("verdict-differs", "pre-pooled"), r)
	}
	cmp := func(path string, has bool, got, ref verdict, want bool, why, nodemand string) {
		if !has {
			return
		}
		e.reb.compared.Inc()
		class := "same"
		if got.OK != ref.OK {
			class = "DIFFERENT"
		} else if got.Class != ref.Class {
			class = "same-verdict-other-error-class"
		}
		e.out("rebuilt", k.Name+":"+path+":"+wantStr(want)+"->"+got.Class+":"+class)
		e.r.Outcome("rebuilt:" + k.Name + ":" + path + ":" + wantStr(want) + "->" + got.Class)
		if got.Class == "PANIC" {
			r := rec(c, path)
			r.Got = got.Err
			out.add(key("panic", path), r)
			return
		}
		if got.OK != ref.OK {
			r := rec(c, path)
			r.Want, r.Got, r.Why = ref.String()+" "+ref.Err, got.String()+" "+got.Err, why
			r.Note = "the live replica (never restarted) and this node are in the same chain state and decide differently"
			out.add(key("verdict-differs", path), r)
			return
		}
		if nodemand == "" && got.OK != want {
			r := rec(c, path)
			r.Want, r.Got, r.Why = wantStr(want), got.String()+" "+got.Err, why
			out.add(key("unsound", path), r)
		}
	}
	cmp("pooltx", true, res.Pool, live.Pool, res.Want, res.Why, res.NoDemand)
	cmp("verifytx", res.HasVer && live.HasVer, res.Verify, live.Verify, res.Want, res.Why, res.NoDemand)
	cmp("pooltxwithdata", res.HasPart && live.HasPart, res.Partial, live.Partial, res.PWant, res.PWhy, res.PNoDem)
}

// specials picks the two menu transactions the perturbing block of the reset
// kinds puts on chain / names in a Conflicts attribute of a transaction of
// account 2 (both are valid in the state itself).
func specials(menu []rebCase) (onchain, named *transaction.Transaction) {
	for i := range menu {
		c := &menu[i]
		if c.C.Rule != "valid" || !c.Live.Pool.OK || !c.Live.Want || len(c.C.Tx.Attributes) != 0 {
			continue
		}
		if onchain == nil && c.Shape == "sig1" {
			onchain = c.C.Tx
		}
		if named == nil && (c.Shape == "sig1+sig2" || c.Shape == "sig2+sig3") {
			named = c.C.Tx
		}
	}
	return
}

// rebuiltPack: the node proposes. The valid menu transactions are pooled in
// rounds of packChunk; after each round the pool is packed and the block must
// be accepted by a replica that never restarted.
func (e *env) rebuiltPack(st *state, k nodeKind, kn *kindNode, menu []rebCase, rs *rebState, out *findings) (pools [][]string, ok bool) {
	fail := func(what, note string) {
		out.add(fmt.Sprintf("rebuilt-pack:%s:%s:%s", what, st.Name, k.Name), &caseRec{Sub: "rebuilt", State: st.Name, Family: k.Name, Path: "pack", Note: note})
	}
	// the two special transactions are held back for a last round of their own: by then the
	// chain has grown past the heights of the blocks a reset removed, so whatever those
	// blocks left behind (records stamped with their heights) counts again
	onchain, named := specials(menu)
	var valid, last [][]byte
	for i := range menu {
		c := &menu[i]
		if c.Live.Want && c.Live.NoDemand == "" && c.Live.Pool.OK && len(c.C.Pre) == 0 && len(c.C.Tx.Bytes()) < 20000 {
			if c.C.Tx == onchain || c.C.Tx == named {
				last = append(last, c.C.Tx.Bytes())
				continue
			}
			valid = append(valid, c.C.Tx.Bytes())
		}
	}
	var chunks [][][]byte
	for i := 0; i < len(valid) && len(chunks) < packRounds-1; i += packChunk {
		chunks = append(chunks, valid[i:min(len(valid), i+packChunk)])
	}
	if len(chunks) == 0 && len(last) > 0 {
		chunks = append(chunks, nil) // an empty block first
	}
	if len(last) > 0 {
		chunks = append(chunks, last)
	}
	P, err := kn.packer()
	if err != nil {
		fail("restart-of-the-reset-node", err.Error())
		return nil, false
	}
	sc := e.scOf(st)
	var wires [][]byte
	newR := func() (*chainx.Node, error) {
		R, _, err := sc.RefNode(st.Hist)
		if err != nil {
			return nil, err
		}
		for _, w := range wires {
			if err := R.AddBytes(w); err != nil {
				R.Close()
				return nil, fmt.Errorf("never-restarted replica rejects an earlier proposed block: %w", err)
			}
		}
		return R, nil
	}
	rejects := map[string]string{}
	for round, chunk := range chunks {
		if e.r.Expired() {
			return nil, false
		}
		for _, b := range chunk {
			tx, err := transaction.NewTransactionFromBytes(b)
			if err != nil {
				fail("harness-decode", err.Error())
				return nil, false
			}
			if err := P.BC.PoolTx(tx); err != nil {
				rejects[tx.Hash().StringLE()[:12]] = err.Error()
			}
		}
		var pooled []string
		for _, tx := range P.BC.GetMemPool().GetVerifiedTransactions() {
			pooled = append(pooled, tx.Hash().StringLE())
		}
		sort.Strings(pooled)
		pools = append(pools, pooled)
		if k.Name != liveKind.Name {
			ref := []string{}
			if round < len(rs.pools) {
				ref = rs.pools[round]
			}
			if strings.Join(ref, ",") != strings.Join(pooled, ",") {
				missing, extra := minus(ref, pooled), minus(pooled, ref)
				note := fmt.Sprintf("live proposer pooled %d transactions, this node %d: only live %v, only here %v", len(ref), len(pooled), missing, extra)
				for _, h := range missing {
					note += fmt.Sprintf("; %s rejected here: %s", h, rejects[h])
				}
				if k.Reset && named != nil && len(extra) == 0 && len(missing) == 1 && missing[0] == named.Hash().StringLE()[:12] && strings.Contains(rejects[missing[0]], "has conflicts") {
					// one root cause in every state: one key per node kind, the smallest state is kept as the example
					rr := &caseRec{Sub: "rebuilt", State: st.Name, Family: k.Name, Path: "pack", Rule: "valid", Tx: hex.EncodeToString(named.Bytes()),
						Want: "accepted (a valid transaction of the menu; the live replica pools it at this height)", Got: "rejected: " + rejects[missing[0]],
						Note: fmt.Sprintf("height %d: a block removed by Blockchain.Reset held a transaction of account 2 with a Conflicts attribute naming this transaction; its conflict records are still in the database and count again once the chain has grown past the removed block's height (%s)", P.BC.BlockHeight(), note)}
					out.addLazy("rebuilt-reset:tx-named-by-a-removed-block-rejected:"+k.Name, 10000*len(st.Hist)+len(menu), func() *caseRec { return rr })
				} else {
					fail(fmt.Sprintf("pool-differs-from-live:round%d", round), note)
				}
			}
		}
		e.reb.packs.Inc()
		nsel, _, _, ok := e.propose(P, "rebuilt-"+k.Name, limitsOf(P), newR, func(what, note string) { fail(fmt.Sprintf("%s:round%d", what, round), note) })
		if !ok {
			return nil, false
		}
		for i := 0; i < nsel; i++ {
			e.reb.packed.Inc()
		}
		e.out("rebuilt-pack", fmt.Sprintf("%s:round%d:pool=%d->block=%d", k.Name, round, len(pooled), nsel))
		b, err := P.BC.GetBlock(P.BC.CurrentBlockHash())
		if err != nil {
			fail("harness-block", err.Error())
			return nil, false
		}
		wire, err := chainx.BlockBytes(b)
		if err != nil {
			fail("harness-block", err.Error())
			return nil, false
		}
		wires = append(wires, wire)
	}
	return pools, true
}

func minus(a, b []string) []string {
	in := map[string]bool{}
	for _, x := range b {
		in[x] = true
	}
	var out []string
	for _, x := range a {
		if !in[x] {
			out = append(out, x[:12])
		}
	}
	return out
}

// replayRebuilt re-runs the recorded (state, node kind): the whole menu of the
// state when the record is about the proposer or the facts, the recorded case otherwise.
func (e *env) replayRebuilt(c *caseRec) string {
	st := e.state(c.State)
	if st == nil {
		return "harness: unknown state " + c.State
	}
	k, ok := kindByName(c.Family)
	if !ok {
		return "harness: unknown node kind " + c.Family
	}
	var menu []rebCase
	rs := &rebState{}
	for _, j := range e.rebuiltJobs() {
		if j.st != st {
			continue
		}
		rn, err := e.newRunner(st)
		if err != nil {
			return "harness: " + err.Error()
		}
		rn.rpcBroken = true
		cases, _ := rn.menuCases(j.sh)
		for _, cs := range cases {
			if res, err := rn.lite(cs); err == nil {
				menu = append(menu, rebCase{Shape: j.shapeName(), C: cs, Live: res})
			}
		}
		rs.facts = admissionFacts(rn)
		rn.close()
	}
	sub := newFindings()
	pools, ok := e.rebuiltKind(st, liveKind, menu, rs, sub)
	if ok {
		rs.pools, rs.built = pools, true
		if k.Name != liveKind.Name {
			e.rebuiltKind(st, k, menu, rs, sub)
		}
	}
	var outs []string
	for key, f := range sub.m {
		if c.Key != "" && key != c.Key {
			continue
		}
		outs = append(outs, key+": "+f.Detail.Want+" / "+f.Detail.Got+" "+f.Detail.Note)
	}
	sort.Strings(outs)
	return strings.Join(outs, "; ")
}

var (
	_ = config.Blockchain{}
	_ = mempool.New
)
