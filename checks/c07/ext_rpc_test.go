package c07

// The RPC server as an entry path and as THE fee calculator of the property:
// a real rpcsrv.Server on the replica, driven in-process through the internal
// client (no sockets): `calculatenetworkfee` (rpcsrv/server.go) must name
// exactly the threshold the fee sub-check establishes, and `sendrawtransaction`
// (base64 -> NewTransactionFromBytes -> network.Server.RelayTxn -> PoolTx) must
// give the verdict of the predicate. neotest.AddNetworkFee, the second
// calculator the property's anchors name, is compared on the standard shapes.

import (
	"context"
	"fmt"

	"github.com/nspcc-dev/neo-go/pkg/config"
	"github.com/nspcc-dev/neo-go/pkg/core/transaction"
	"github.com/nspcc-dev/neo-go/pkg/crypto/keys"
	"github.com/nspcc-dev/neo-go/pkg/encoding/fixedn"
	"github.com/nspcc-dev/neo-go/pkg/io"
	"github.com/nspcc-dev/neo-go/pkg/neorpc"
	"github.com/nspcc-dev/neo-go/pkg/neotest"
	"github.com/nspcc-dev/neo-go/pkg/network"
	"github.com/nspcc-dev/neo-go/pkg/rpcclient"
	"github.com/nspcc-dev/neo-go/pkg/services/rpcsrv"
	"github.com/nspcc-dev/neo-go/pkg/wallet"
	"go.uber.org/zap"

	"verif/lib/chainx"
)

type rpcEnd struct {
	n        *chainx.Node
	srv      *rpcsrv.Server
	c        *rpcclient.Internal
	cancel   context.CancelFunc
	accepted int // transactions handed to the (never started) network server's relay queue
	// raw JSON-RPC requests (r4_encodings_test.go): a second local subscriber
	raw       func(*neorpc.Request) (*neorpc.Response, error)
	rawCancel context.CancelFunc
}

// relayQueue is the capacity of network.Server's transaction relay channel: an
// unstarted server never drains it, so the end is rebuilt before it fills up.
const relayQueue = 48

func newRPC(n *chainx.Node) (r *rpcEnd, err error) {
	defer func() {
		if p := recover(); p != nil {
			r, err = nil, fmt.Errorf("rpc server: %v", p)
		}
	}()
	cfg := config.Config{ProtocolConfiguration: n.BC.GetConfig().ProtocolConfiguration}
	cfg.ApplicationConfiguration.RPC.Enabled = true
	cfg.ApplicationConfiguration.RPC.MaxGasInvoke = fixedn.Fixed8FromInt64(50)
	sc, err := network.NewServerConfig(cfg)
	if err != nil {
		return nil, err
	}
	ns, err := network.NewServer(sc, n.BC, n.BC.GetStateSyncModule(), zap.NewNop())
	if err != nil {
		return nil, err
	}
	errCh := make(chan error, 4)
	srv := rpcsrv.New(n.BC, cfg.ApplicationConfiguration.RPC, ns, nil, zap.NewNop(), errCh)
	srv.Start()
	ctx, cancel := context.WithCancel(context.Background())
	c, err := rpcclient.NewInternal(ctx, srv.RegisterLocal)
	if err == nil {
		err = c.Init()
	}
	if err != nil {
		cancel()
		srv.Shutdown()
		return nil, err
	}
	return &rpcEnd{n: n, srv: srv, c: c, cancel: cancel}, nil
}

func (r *rpcEnd) close() {
	if r == nil {
		return
	}
	r.c.Close()
	r.cancel()
	if r.rawCancel != nil {
		r.rawCancel()
	}
	r.srv.Shutdown()
}

// rpcOf returns the runner's RPC end (rebuilt when its relay queue is nearly full).
func (rn *runner) rpcOf() *rpcEnd {
	if rn.rpc != nil && rn.rpc.accepted >= relayQueue {
		rn.rpc.close()
		rn.rpc = nil
	}
	if rn.rpc == nil && !rn.rpcBroken {
		r, err := newRPC(rn.n)
		if err != nil {
			rn.rpcBroken = true
			rn.e.f.add("sound:harness:rpc-server:"+rn.st.Name, &caseRec{Sub: "sound", State: rn.st.Name, Note: err.Error()})
			return nil
		}
		rn.rpc = r
	}
	return rn.rpc
}

// submitRPC sends wire bytes with sendrawtransaction (replays: the client takes
// a structure, so bytes the codec rejects count as rejected by it).
func (rn *runner) submitRPC(b []byte) verdict {
	tx, err := transaction.NewTransactionFromBytes(b)
	if err != nil {
		return verdict{Class: "decode", Err: "decode: " + err.Error()}
	}
	return rn.submitRPCTx(tx)
}

// submitRPCTx sends the serialisation of tx (well-formed or not) with sendrawtransaction.
func (rn *runner) submitRPCTx(tx *transaction.Transaction) (v verdict) {
	defer func() {
		if p := recover(); p != nil {
			v = verdict{Class: "PANIC", Err: fmt.Sprint(p)}
		}
	}()
	r := rn.rpcOf()
	if r == nil {
		return verdict{Class: "no-rpc"}
	}
	h, err := r.c.SendRawTransaction(fresh(tx))
	if err != nil {
		return verdict{Class: "rpc-error", Err: err.Error(), Dec: true}
	}
	r.accepted++
	rn.n.BC.GetMemPool().Remove(h)
	return verdict{OK: true, Class: "ok", Dec: true, Hash: h}
}

// rpcFee asks calculatenetworkfee for a transaction with its witnesses.
func (rn *runner) rpcFee(tx *transaction.Transaction) (int64, error) {
	r := rn.rpcOf()
	if r == nil {
		return 0, fmt.Errorf("no rpc end")
	}
	return r.c.CalculateNetworkFee(tx)
}

// submitP2P frames the transaction as the CMDTX message peers send (compressed
// when large), parses the message the way the network server does and pools
// the payload.
func (rn *runner) submitP2P(tx *transaction.Transaction) (v verdict) {
	defer func() {
		if p := recover(); p != nil {
			v = verdict{Class: "PANIC", Err: fmt.Sprint(p)}
		}
	}()
	b, err := network.NewMessage(network.CMDTX, fresh(tx)).Bytes()
	if err != nil {
		return verdict{Class: "decode", Err: "encode: " + err.Error()}
	}
	m := &network.Message{}
	if err := m.Decode(io.NewBinReaderFromBuf(b)); err != nil {
		return verdict{Class: "decode", Err: "decode: " + err.Error()}
	}
	got, ok := m.Payload.(*transaction.Transaction)
	if !ok {
		return verdict{Class: "decode", Err: "decode: payload is not a transaction"}
	}
	v.Dec, v.Hash, v.Size = true, got.Hash(), got.Size()
	if err := rn.n.BC.PoolTx(got); err != nil {
		v.Class, v.Err = errClass(err), err.Error()
		return v
	}
	rn.n.BC.GetMemPool().Remove(got.Hash())
	v.OK, v.Class = true, "ok"
	return v
}

// neotestSigner is the neotest signer of a standard account of the harness.
func neotestSigner(a *acct) neotest.Signer {
	if !a.Std {
		return nil
	}
	if len(a.Privs) == 1 && string(a.Ver) == string(a.Privs[0].PublicKey().GetVerificationScript()) {
		return neotest.NewSingleSigner(wallet.NewAccountFromPrivateKey(a.Privs[0]))
	}
	pubs := make(keys.PublicKeys, len(a.Privs))
	for i := range a.Privs {
		pubs[i] = a.Privs[i].PublicKey()
	}
	var accs []*wallet.Account
	for _, p := range a.Privs {
		acc := wallet.NewAccountFromPrivateKey(p)
		if err := acc.ConvertMultisig(a.M, pubs.Copy()); err != nil {
			return nil
		}
		if string(acc.Contract.Script) != string(a.Ver) {
			return nil // not the default multi-signature layout (e.g. the majority account of the oracle nodes)
		}
		accs = append(accs, acc)
	}
	var s neotest.Signer
	if chainx.Try(func() { s = neotest.NewMultiSigner(accs...) }) != nil {
		return nil
	}
	return s
}

// neotestFee is the network fee neotest.AddNetworkFee computes for the
// unsigned content (0, false when a signer is not a standard account).
func neotestFee(n *chainx.Node, tx *transaction.Transaction, signers []*acct) (fee int64, ok bool) {
	var ss []neotest.Signer
	for _, a := range signers {
		s := neotestSigner(a)
		if s == nil {
			return 0, false
		}
		ss = append(ss, s)
	}
	c := fresh(tx)
	c.Scripts = nil
	c.NetworkFee = 0
	if err := chainx.Try(func() { neotest.AddNetworkFee(n.TB, n.BC, c, ss...) }); err != nil {
		return 0, false
	}
	return c.NetworkFee, true
}
