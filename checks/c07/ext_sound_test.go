package c07

// Extension of the soundness menu: shapes with contract-based witnesses,
// transactions sent by the Notary contract, a witness costing exactly
// MaxVerificationGAS, HighPriority around a committee change; variants at the
// attribute/signer count limit, fee field corner values, exact solvency with
// pooled transactions, Conflicts naming a block / a conflict record stub.

import (
	"fmt"
	"math"
	"sort"
	"strings"
	"sync"

	"github.com/nspcc-dev/neo-go/pkg/core/transaction"
	"github.com/nspcc-dev/neo-go/pkg/crypto/hash"
	"github.com/nspcc-dev/neo-go/pkg/crypto/keys"
	"github.com/nspcc-dev/neo-go/pkg/io"
	"github.com/nspcc-dev/neo-go/pkg/smartcontract"
	"github.com/nspcc-dev/neo-go/pkg/util"
	"github.com/nspcc-dev/neo-go/pkg/vm/emit"
	"github.com/nspcc-dev/neo-go/pkg/vm/opcode"

	"verif/lib/chainx"
)

func hashOfScript(s []byte) util.Uint160 { return hash.Hash160(s) }

func sortPrivs(p []*keys.PrivateKey) {
	sort.Slice(p, func(i, j int) bool { return p[i].PublicKey().Cmp(p[j].PublicKey()) < 0 })
}

// ---- accounts -------------------------------------------------------------------------------------

// contractAcct is a deployed contract as a signer: empty verification script;
// goodInv tells (from the construction of the contract) for which invocation
// scripts its verify method returns true.
func contractAcct(name string, h util.Uint160, inv []byte, goodInv func([]byte) bool) *acct {
	return &acct{Name: name, Hash: h, Contract: true, GoodInv: goodInv, Inv: func(*transaction.Transaction) []byte { return inv }}
}

func emptyInv(b []byte) bool { return len(b) == 0 }
func neverGood([]byte) bool  { return false }

// vGoodInv: V.verify(n) = (n != 3) with exactly one small integer pushed.
func vGoodInv(b []byte) bool {
	if len(b) != 1 {
		return false
	}
	return (b[0] == byte(opcode.PUSHM1) || (b[0] >= byte(opcode.PUSH0) && b[0] <= byte(opcode.PUSH16))) && b[0] != byte(opcode.PUSH3)
}

var unknownContract = util.Uint160{0xde, 0xad, 0xbe, 0xef, 7}

func uaAcct() *acct { return contractAcct("contract-UA", hashUA, []byte{}, emptyInv) }
func ubAcct() *acct { return contractAcct("contract-UB", hashUB, []byte{}, emptyInv) }
func vAcct(inv ...byte) *acct {
	return contractAcct("contract-V", contractV().Hash, append([]byte{}, inv...), vGoodInv)
}
func wAcct() *acct { return contractAcct("contract-W", contractW().Hash, []byte{}, neverGood) }
func unknownAcct() *acct {
	return contractAcct("contract-unknown", unknownContract, []byte{}, neverGood)
}

// badAcct is a script account whose witness does not verify, by construction.
func badAcct(name string, ver, inv []byte, why string) *acct {
	a := customAcct(name, ver, inv)
	a.Bad = why
	return a
}

func customVariants() []*acct {
	op := func(o ...opcode.Opcode) []byte {
		var b []byte
		for _, x := range o {
			b = append(b, byte(x))
		}
		return b
	}
	return []*acct{
		customAcct("custom-true", op(opcode.PUSHT), nil),
		customAcct("custom-true-with-argument", op(opcode.DROP, opcode.PUSHT), op(opcode.PUSH7)),
		badAcct("custom-false", op(opcode.PUSHF), nil, "returns false"),
		badAcct("custom-two-results", op(opcode.PUSHT, opcode.PUSHT), nil, "leaves two items"),
		badAcct("custom-no-result", op(opcode.NOP), nil, "leaves nothing"),
		badAcct("custom-faults", op(opcode.PUSHT, opcode.ABORT), nil, "faults"),
		badAcct("custom-extra-argument", op(opcode.NOP, opcode.PUSHT), op(opcode.PUSH7), "leaves two items"),
		badAcct("custom-verification-malformed", []byte{byte(opcode.PUSHT), byte(opcode.JMP), 0x7f}, nil, "verification script malformed"),
		badAcct("custom-invocation-malformed", op(opcode.NOP, opcode.DROP, opcode.PUSHT), []byte{byte(opcode.PUSHDATA1), 5, 1}, "invocation script malformed"),
	}
}

// ---- a witness costing exactly MaxVerificationGAS ------------------------------------------------------

// tunedScript: n1 signature checks, n2 rounds of a cheap loop, k NOPs, true.
func tunedScript(n1, n2, k int) []byte {
	w := io.NewBufBinWriter()
	emit.Int(w.BinWriter, int64(n1))
	start := w.Len()
	emit.Bytes(w.BinWriter, append(make([]byte, 63), 0x77))
	emit.Bytes(w.BinWriter, chainx.Acc(9).PublicKey().Bytes())
	emit.Syscall(w.BinWriter, "System.Crypto.CheckSig")
	emit.Opcodes(w.BinWriter, opcode.DROP, opcode.DEC, opcode.DUP)
	w.WriteBytes([]byte{byte(opcode.JMPIF), byte(int8(start - w.Len()))})
	emit.Opcodes(w.BinWriter, opcode.DROP)
	emit.Int(w.BinWriter, int64(n2))
	start = w.Len()
	emit.Opcodes(w.BinWriter, opcode.DEC, opcode.DUP)
	w.WriteBytes([]byte{byte(opcode.JMPIF), byte(int8(start - w.Len()))})
	emit.Opcodes(w.BinWriter, opcode.DROP)
	for i := 0; i < k; i++ {
		emit.Opcodes(w.BinWriter, opcode.NOP)
	}
	emit.Opcodes(w.BinWriter, opcode.PUSHT)
	return w.Bytes()
}

type tuned struct {
	exact, over *acct
	note        string
}

var (
	tunedMu    sync.Mutex
	tunedCache = map[int64]*tuned{}
)

// maxGasAccts returns a script account whose verification costs exactly
// MaxVerificationGAS and one costing one NOP more. The cost comes from a
// linear model fitted on SMALL instances (and confirmed on another small
// one), so the reference never depends on a run at the limit itself.
func maxGasAccts(n *chainx.Node) *tuned {
	bc := n.BC
	key := bc.GetBaseExecFee()
	tunedMu.Lock()
	defer tunedMu.Unlock()
	if t, ok := tunedCache[key]; ok {
		return t
	}
	t := &tuned{}
	tunedCache[key] = t
	dummy := transaction.New([]byte{byte(opcode.RET)}, 0)
	dummy.Signers = []transaction.Signer{{Account: util.Uint160{1}}}
	dummy.Scripts = []transaction.Witness{{}}
	cost := func(n1, n2, k int) (int64, error) {
		s := tunedScript(n1, n2, k)
		return bc.VerifyWitness(hash.Hash160(s), dummy, &transaction.Witness{VerificationScript: s}, bc.GetMaxVerificationGAS())
	}
	base, err := cost(1, 1, 0)
	if err != nil {
		t.note = "probe failed: " + err.Error()
		return t
	}
	ca, _ := cost(2, 1, 0)
	cb, _ := cost(1, 2, 0)
	cd, _ := cost(1, 1, 1)
	a, b, d := ca-base, cb-base, cd-base
	c0 := base - a - b
	if a <= 0 || b <= 0 || d <= 0 {
		t.note = "cost model degenerate"
		return t
	}
	if chk, _ := cost(5, 7, 3); chk != c0+5*a+7*b+3*d {
		t.note = fmt.Sprintf("cost not linear in datoshi at this fee factor (%d != %d)", chk, c0+5*a+7*b+3*d)
		return t
	}
	T := bc.GetMaxVerificationGAS()
	n1 := (T - c0 - b) / a
	rem := T - c0 - n1*a
	n2 := rem / b
	rem -= n2 * b
	if n1 < 1 || n2 < 1 || rem%d != 0 || rem/d > 500 {
		t.note = fmt.Sprintf("limit %d not reachable exactly (n1=%d n2=%d rest=%d step=%d)", T, n1, n2, rem, d)
		return t
	}
	k := int(rem / d)
	t.exact = customAcct("maxgas-exact", tunedScript(int(n1), int(n2), k), nil)
	t.exact.FixedGas = T
	t.over = customAcct("maxgas-over", tunedScript(int(n1), int(n2), k+1), nil)
	t.over.FixedGas = T + d
	t.note = fmt.Sprintf("n1=%d n2=%d k=%d unit=%d", n1, n2, k, d)
	return t
}

// ---- shapes ------------------------------------------------------------------------------------------------

func in(names ...string) []string { return names }

// runsIn tells whether shape sh is part of the menu of state st.
func runsIn(sh *shape, st *state) bool {
	if st.Only != nil && !st.Only[sh.Name] {
		return false
	}
	if sh.In == nil {
		return st.Only != nil || !st.Multi && st.Sc == nil
	}
	for _, p := range sh.In {
		if p == st.Name || (strings.HasSuffix(p, "*") && strings.HasPrefix(st.Name, p[:len(p)-1])) {
			return true
		}
	}
	return false
}

func extShapes() []shape {
	hp := []transaction.Attribute{attrHP}
	return []shape{
		{Name: "contract-ua", In: in("preamble", "policy-twice", "contracts", "ub-destroyed", "blocked-set"), Spec: func(n *chainx.Node) *txSpec {
			return &txSpec{Signers: []*acct{sigAcct(1), uaAcct()}, Script: nops(3), SysFee: gas / 10}
		}},
		{Name: "contract-ub", In: in("preamble", "ub-destroyed", "blocked-set"), Spec: func(n *chainx.Node) *txSpec {
			return &txSpec{Signers: []*acct{sigAcct(1), ubAcct()}, Script: nops(3), SysFee: gas / 10}
		}},
		{Name: "contract-v", In: in("preamble", "contracts"), Spec: func(n *chainx.Node) *txSpec {
			return &txSpec{Signers: []*acct{sigAcct(1), vAcct(byte(opcode.PUSH5))}, Script: nops(3), SysFee: gas / 10}
		}},
		{Name: "contract-unknown", In: in("preamble", "contracts"), Spec: func(n *chainx.Node) *txSpec {
			return &txSpec{Signers: []*acct{sigAcct(1), unknownAcct()}, Script: nops(3), SysFee: gas / 10}
		}},
		{Name: "notary-sender", In: in("preamble", "notary-deposit"), Spec: func(n *chainx.Node) *txSpec {
			return &txSpec{Signers: []*acct{notaryAcct(uint32(n.BC.GetConfig().Magic)), sigAcct(1)}, Script: nops(3), SysFee: gas / 10, Attrs: []transaction.Attribute{attrNotary(0)}}
		}},
		{Name: "maxgas", In: in("preamble", "exec-min", "policy-twice"), Spec: func(n *chainx.Node) *txSpec {
			t := maxGasAccts(n)
			if t.exact == nil {
				return nil
			}
			return &txSpec{Signers: []*acct{sigAcct(1), t.exact}, Script: nops(3), SysFee: gas / 10}
		}},
		{Name: "committee-old-hp", In: in("committee-*"), Spec: func(n *chainx.Node) *txSpec {
			return &txSpec{Signers: []*acct{sigAcct(1), standbyCommitteeAcct(n)}, Script: nops(3), SysFee: gas / 10, Attrs: hp}
		}},
		{Name: "committee-new-hp", In: in("committee-*"), Spec: func(n *chainx.Node) *txSpec {
			return &txSpec{Signers: []*acct{sigAcct(1), electedCommitteeAcct()}, Script: nops(3), SysFee: gas / 10, Attrs: hp}
		}},
	}
}

// extAccts registers the accounts of the extension with the predicate.
func extAccts(n *chainx.Node, m map[util.Uint160]*acct, multi bool) {
	add := func(a *acct) { m[a.Hash] = a }
	add(uaAcct())
	add(ubAcct())
	add(vAcct())
	add(wAcct())
	add(unknownAcct())
	for _, a := range customVariants() {
		add(a)
	}
	if t := maxGasAccts(n); t.exact != nil {
		add(t.exact)
		add(t.over)
	}
	if multi {
		add(standbyCommitteeAcct(n))
		add(electedCommitteeAcct())
	}
	for i := 0; i < 17; i++ {
		add(keyAcct(fmt.Sprintf("extra%d", i), detKey(fmt.Sprintf("extra-signer-%d", i))))
	}
}

// extFacts completes the facts of the runner's state.
func (rn *runner) extFacts(f *facts) {
	st, bc, e := rn.st, rn.n.BC, rn.e
	f.MTB = bc.GetMaxTraceableBlocks()
	f.Deposits = st.Deposits
	w := e.scOf(st).World
	f.Deployed = map[util.Uint160]bool{w.UA.Hash: true, w.UB.Hash: true}
	for h := range st.Extra {
		f.Deployed[h] = true
	}
	for h := range st.Gone {
		delete(f.Deployed, h)
	}
	if st.NotaryAcc != 0 {
		f.NotaryKeys = keys.PublicKeys{chainx.Acc(st.NotaryAcc).PublicKey()}
	}
	extAccts(rn.n, f.Accts, st.Multi)
	r2Accts(f.Accts)
	e.out("maxgas-witness", fmt.Sprintf("exec-fee-factor=%d:%s", bc.GetBaseExecFee(), maxGasAccts(rn.n).note))
	harness := func(what, note string) {
		e.f.add("sound:state-differs-from-its-history:"+what+":"+st.Name, &caseRec{Sub: "sound", State: st.Name, Note: note})
	}
	if st.Multi {
		// the committee of a multi-validator replica: majority account of the member list
		members, err := bc.GetCommittee()
		if err != nil {
			harness("committee", err.Error())
			return
		}
		ver, err := smartcontract.CreateMajorityMultiSigRedeemScript(members)
		if err != nil {
			harness("committee", err.Error())
			return
		}
		f.Committee = hash.Hash160(ver)
	}
	if st.Sc == e.scMTB && st.Sc != nil && f.MTB != mtbOfFamily {
		harness("MaxTraceableBlocks", fmt.Sprintf("%d, the family has %d", f.MTB, mtbOfFamily))
	}
	if x := st.Expect; x != nil {
		// what the history set last is what admission must use; the getters must say the same
		if x.MTB != 0 {
			if got := bc.GetMaxTraceableBlocks(); got != x.MTB {
				harness("MaxTraceableBlocks", fmt.Sprintf("getter %d, history set %d", got, x.MTB))
			}
			f.MTB = x.MTB
		}
		if got := bc.FeePerByte(); x.FeePerByte != 0 && got != x.FeePerByte {
			harness("FeePerByte", fmt.Sprintf("getter %d, history set %d", got, x.FeePerByte))
		}
		if got := bc.GetBaseExecFee(); x.ExecFactor != 0 && got != x.ExecFactor {
			harness("ExecFeeFactor", fmt.Sprintf("getter %d, history set %d", got, x.ExecFactor))
		}
		if got := bc.GetMaxValidUntilBlockIncrement(); got != x.MaxVUBInc {
			harness("MaxValidUntilBlockIncrement", fmt.Sprintf("getter %d, history set %d", got, x.MaxVUBInc))
		}
		if fees, err := policyAttrFees(bc); err != nil {
			harness("getAttributeFee", err.Error())
		} else {
			for t, v := range x.AttrFee {
				if fees[t] != v {
					harness(fmt.Sprintf("AttributeFee-%d", t), fmt.Sprintf("getter %d, history set %d", fees[t], v))
				}
			}
		}
		f.MaxVUBInc = x.MaxVUBInc
		if x.FeePerByte != 0 {
			f.FeePerByte = x.FeePerByte
		}
	}
}

// ---- variants -----------------------------------------------------------------------------------------------

func preExact() *txSpec {
	return &txSpec{Label: "pre-pooled-exact", Signers: []*acct{sigAcct(7)}, Script: nops(5), SysFee: poorBalance / 4}
}

// extMutations are the variants added by the extension (appended to mutations()).
func (rn *runner) extMutations() []mutation {
	var ms []mutation
	add := func(m mutation) { ms = append(ms, m) }
	hasAttr := func(sp *txSpec, t transaction.AttrType) bool {
		for _, a := range sp.Attrs {
			if a.Type == t {
				return true
			}
		}
		return false
	}
	second := func(sp *txSpec, name string) bool { return len(sp.Signers) == 2 && sp.Signers[1].Name == name }
	// fee fields and version
	add(mutation{Rule: "version=1", Tx: func(n *chainx.Node, tx *transaction.Transaction) { tx.Version = 1 }})
	add(mutation{Rule: "netfee-negative", Tx: func(n *chainx.Node, tx *transaction.Transaction) { tx.NetworkFee = -1 }})
	add(mutation{Rule: "fee-sum-overflows", Tx: func(n *chainx.Node, tx *transaction.Transaction) { tx.SystemFee = math.MaxInt64 - tx.NetworkFee + 1 }})
	add(mutation{Rule: "sysfee=0", Spec: func(n *chainx.Node, sp *txSpec) bool {
		if sp.SysFee == sysFeeOracle {
			return false
		}
		sp.SysFee = 0
		return true
	}})
	// signers + attributes at the limit of 16
	fill := func(name string, total int) {
		add(mutation{Rule: name, Spec: func(n *chainx.Node, sp *txSpec) bool {
			if len(sp.Signers) == 0 || len(sp.Signers)+len(sp.Attrs) >= total || sp.SysFee == sysFeeOracle {
				return false
			}
			sp.Attrs = append([]transaction.Attribute{}, sp.Attrs...)
			for i := 0; len(sp.Signers)+len(sp.Attrs) < total; i++ {
				sp.Attrs = append(sp.Attrs, attrConflicts(util.Uint256{0xf1, byte(i)}))
			}
			return true
		}})
	}
	fill("attributes-fill-up-to-16", transaction.MaxAttributes)
	fill("attributes-fill-up-to-17", transaction.MaxAttributes+1)
	signersN := func(name string, total int) {
		add(mutation{Rule: name, Spec: func(n *chainx.Node, sp *txSpec) bool {
			if len(sp.Signers) == 0 || len(sp.Attrs) != 0 || len(sp.Signers) > 2 {
				return false
			}
			sp.Signers = append([]*acct{}, sp.Signers...)
			for i := 0; len(sp.Signers) < total; i++ {
				sp.Signers = append(sp.Signers, keyAcct(fmt.Sprintf("extra%d", i), detKey(fmt.Sprintf("extra-signer-%d", i))))
			}
			return true
		}})
	}
	signersN("signers-16", transaction.MaxAttributes)
	signersN("signers-17", transaction.MaxAttributes+1)
	// Conflicts naming a block and a conflict record stub
	add(mutation{Rule: "attr-conflicts-names-a-block", Spec: func(n *chainx.Node, sp *txSpec) bool {
		if len(sp.Signers)+len(sp.Attrs) > 14 || len(rn.facts.Blocks) == 0 {
			return false
		}
		sp.Attrs = append(sp.Attrs[:len(sp.Attrs):len(sp.Attrs)], attrConflicts(rn.facts.Blocks[0]))
		return true
	}})
	add(mutation{Rule: "attr-conflicts-names-the-top-block", Spec: func(n *chainx.Node, sp *txSpec) bool {
		if len(sp.Signers)+len(sp.Attrs) > 14 || len(rn.facts.Blocks) == 0 {
			return false
		}
		sp.Attrs = append(sp.Attrs[:len(sp.Attrs):len(sp.Attrs)], attrConflicts(rn.facts.Blocks[len(rn.facts.Blocks)-1]))
		return true
	}})
	add(mutation{Rule: "attr-conflicts-names-a-conflict-record", Spec: func(n *chainx.Node, sp *txSpec) bool {
		if len(sp.Signers)+len(sp.Attrs) > 14 {
			return false
		}
		// a hash that on-chain transactions name (not a transaction on chain itself)
		var hs []string
		for h := range rn.facts.Named {
			if !rn.facts.OnChain[h] {
				hs = append(hs, string(h[:]))
			}
		}
		if len(hs) == 0 {
			return false
		}
		sort.Strings(hs)
		var h util.Uint256
		copy(h[:], hs[0])
		sp.Attrs = append(sp.Attrs[:len(sp.Attrs):len(sp.Attrs)], attrConflicts(h))
		return true
	}})
	// exact solvency with a pooled transaction of the same sender; a second submission of a pooled transaction
	poor := func(sp *txSpec) bool { return len(sp.Signers) == 1 && sp.Signers[0].Name == "sig7" }
	solv := func(name string, delta int64) {
		add(mutation{Rule: name, Spec: func(n *chainx.Node, sp *txSpec) bool {
			if !poor(sp) {
				return false
			}
			sp.SysFee = -7
			return true
		}, Tx: func(n *chainx.Node, tx *transaction.Transaction) {
			p, _, err := build(n, preExact())
			if err != nil {
				panic(err)
			}
			tx.SystemFee = poorBalance - p.SystemFee - p.NetworkFee - tx.NetworkFee + delta
		}, Pre: func(n *chainx.Node, sp *txSpec) []*txSpec { return []*txSpec{preExact()} }})
	}
	solv("pooled-leaves-exactly-enough", 0)
	solv("pooled-leaves-one-unit-too-little", 1)
	add(mutation{Rule: "already-in-the-pool", Spec: func(n *chainx.Node, sp *txSpec) bool { return len(sp.Signers) > 0 && sp.SysFee != sysFeeOracle },
		Pre: func(n *chainx.Node, sp *txSpec) []*txSpec { c := *sp; return []*txSpec{&c} }})
	// contract-based witnesses
	vinv := func(name string, inv ...byte) {
		add(mutation{Rule: name, Spec: func(n *chainx.Node, sp *txSpec) bool {
			if !second(sp, "contract-V") {
				return false
			}
			sp.Signers = []*acct{sp.Signers[0], vAcct(inv...)}
			return true
		}})
	}
	vinv("contract-verify-returns-false", byte(opcode.PUSH3))
	vinv("contract-verify-argument-missing")
	vinv("contract-verify-argument-0", byte(opcode.PUSH0))
	vinv("contract-verify-argument-16", byte(opcode.PUSH16))
	vinv("contract-verify-two-arguments", byte(opcode.PUSH5), byte(opcode.PUSH5))
	add(mutation{Rule: "contract-without-verify", Spec: func(n *chainx.Node, sp *txSpec) bool {
		if !second(sp, "contract-V") {
			return false
		}
		sp.Signers = []*acct{sp.Signers[0], wAcct()}
		return true
	}})
	add(mutation{Rule: "contract-extra-argument", Spec: func(n *chainx.Node, sp *txSpec) bool {
		if !second(sp, "contract-UA") {
			return false
		}
		sp.Signers = []*acct{sp.Signers[0], contractAcct("contract-UA", hashUA, []byte{byte(opcode.PUSH1)}, emptyInv)}
		return true
	}})
	add(mutation{Rule: "contract-witness-with-verification-script", Wit: func(n *chainx.Node, sp *txSpec, tx *transaction.Transaction) bool {
		if len(sp.Signers) != 2 || !sp.Signers[1].Contract {
			return false
		}
		tx.Scripts[1].VerificationScript = []byte{byte(opcode.PUSHT)}
		return true
	}})
	// script witnesses
	for _, a := range customVariants() {
		a := a
		add(mutation{Rule: "witness-" + a.Name, Spec: func(n *chainx.Node, sp *txSpec) bool {
			if !second(sp, "loop100") {
				return false
			}
			sp.Signers = []*acct{sp.Signers[0], a}
			return true
		}})
	}
	add(mutation{Rule: "maxgas-one-step-above", Spec: func(n *chainx.Node, sp *txSpec) bool {
		if !second(sp, "maxgas-exact") {
			return false
		}
		sp.Signers = []*acct{sp.Signers[0], maxGasAccts(n).over}
		return true
	}})
	// Notary
	add(mutation{Rule: "notary-signer-with-global-scope", Spec: func(n *chainx.Node, sp *txSpec) bool {
		if !hasAttr(sp, transaction.NotaryAssistedT) {
			return false
		}
		sp.GlobalScopes = true
		return true
	}})
	add(mutation{Rule: "notary-witness-by-account-3", Spec: func(n *chainx.Node, sp *txSpec) bool {
		if !hasAttr(sp, transaction.NotaryAssistedT) {
			return false
		}
		sp.Signers = append([]*acct{}, sp.Signers...)
		for i, a := range sp.Signers {
			if a.Name == "notary" {
				sp.Signers[i] = notaryAcctBy(uint32(n.BC.GetConfig().Magic), 3)
			}
		}
		return true
	}})
	notarySender := func(sp *txSpec) bool { return len(sp.Signers) > 0 && sp.Signers[0].Name == "notary" }
	add(mutation{Rule: "notary-sender-third-signer", Spec: func(n *chainx.Node, sp *txSpec) bool {
		if !notarySender(sp) {
			return false
		}
		sp.Signers = append(sp.Signers[:len(sp.Signers):len(sp.Signers)], sigAcct(2))
		return true
	}})
	add(mutation{Rule: "notary-sender-alone", Spec: func(n *chainx.Node, sp *txSpec) bool {
		if !notarySender(sp) {
			return false
		}
		sp.Signers = sp.Signers[:1]
		return true
	}})
	add(mutation{Rule: "notary-sender-second-signer-without-deposit", Spec: func(n *chainx.Node, sp *txSpec) bool {
		if !notarySender(sp) {
			return false
		}
		sp.Signers = []*acct{sp.Signers[0], sigAcct(2)}
		return true
	}})
	dep := func(name string, delta int64) {
		add(mutation{Rule: name, Spec: func(n *chainx.Node, sp *txSpec) bool { return notarySender(sp) },
			Tx: func(n *chainx.Node, tx *transaction.Transaction) {
				tx.SystemFee = notaryDeposit - tx.NetworkFee + delta
			}})
	}
	dep("notary-sender-deposit-exact", 0)
	dep("notary-sender-deposit-one-short", 1)
	return ms
}
