package c07

// Extension of the representative chain states (all new histories are built
// on the main single-validator scenario unless a state names its own one):
//
//	policy-twice    every policy value admission depends on is set in one block
//	                and set AGAIN (lower and higher) in the next one, account 3 is
//	                blocked and unblocked again: admission must follow the LAST
//	                value (a cache entry that is only ever created, a list that
//	                only ever grows would go unnoticed in the other states)
//	contracts       two hand-assembled contracts are deployed: V with
//	                verify(n) = (n != 3) that needs its _initialize, W without a
//	                verify method: contract-based witnesses (empty verification
//	                script) of deployed contracts
//	ub-destroyed    UB (deployed by the preamble, verify() = true) destroyed
//	notary-deposit  account 1 has a deposit of 20 GAS in the Notary contract:
//	                transactions SENT by the Notary contract (paid from the
//	                deposit of the second signer)
//	notary3         the notary role moved from account 4 to account 3
//	mtb-k           (own scenario: MaxTraceableBlocks 6) the Conflicts cast on
//	                chain followed by k empty blocks, k = 0..7
//	committee-k     (own scenario: 4 validators / 6 committee members) a vote
//	                followed by k empty blocks, k = 0..7: the committee changes
//	                inside this range

import (
	"fmt"

	"github.com/nspcc-dev/neo-go/pkg/config"
	"github.com/nspcc-dev/neo-go/pkg/core/native/nativehashes"
	"github.com/nspcc-dev/neo-go/pkg/core/native/noderoles"
	cstate "github.com/nspcc-dev/neo-go/pkg/core/state"
	"github.com/nspcc-dev/neo-go/pkg/core/transaction"
	"github.com/nspcc-dev/neo-go/pkg/crypto/keys"
	"github.com/nspcc-dev/neo-go/pkg/io"
	"github.com/nspcc-dev/neo-go/pkg/neotest"
	"github.com/nspcc-dev/neo-go/pkg/smartcontract"
	"github.com/nspcc-dev/neo-go/pkg/smartcontract/callflag"
	"github.com/nspcc-dev/neo-go/pkg/smartcontract/manifest"
	"github.com/nspcc-dev/neo-go/pkg/smartcontract/nef"
	"github.com/nspcc-dev/neo-go/pkg/util"
	"github.com/nspcc-dev/neo-go/pkg/vm/emit"
	"github.com/nspcc-dev/neo-go/pkg/vm/opcode"

	"verif/lib/chainx"
)

// template indices of the main scenario (continuing the list of check_test.go)
const (
	tPolicyA = tOracleReq + 1 + iota
	tPolicyB
	tDeployVW
	tDestroyUB
	tNotaryDeposit
	tNotary3
	tEmpty
)

// policyExpect is what a history set, known from its construction.
type policyExpect struct {
	FeePerByte int64
	ExecFactor int64 // pico units
	MaxVUBInc  uint32
	MTB        uint32 // MaxTraceableBlocks (0: not set by the history)
	AttrFee    map[transaction.AttrType]int64
}

// values of the two policy blocks
var (
	policyA = policyExpect{FeePerByte: 1700, ExecFactor: 450000, MaxVUBInc: 50, AttrFee: map[transaction.AttrType]int64{
		transaction.HighPriority: 7, transaction.OracleResponseT: 11, transaction.NotValidBeforeT: 13, transaction.ConflictsT: 17, transaction.NotaryAssistedT: 19}}
	policyB = policyExpect{FeePerByte: 1300, ExecFactor: 170003, MaxVUBInc: 30, AttrFee: map[transaction.AttrType]int64{
		transaction.HighPriority: 300007, transaction.OracleResponseT: 5, transaction.NotValidBeforeT: 90001, transaction.ConflictsT: 3, transaction.NotaryAssistedT: 20000003}}
)

func policyTpl(name string, p policyExpect, block bool) chainx.Tpl {
	return chainx.Tpl{Name: name, Build: func(w *chainx.World) ([]*transaction.Transaction, error) {
		n := w.N
		pw := io.NewBufBinWriter()
		call := func(method string, args ...any) {
			emit.AppCall(pw.BinWriter, nativehashes.PolicyContract, method, callflag.All, args...)
			emit.Opcodes(pw.BinWriter, opcode.DROP)
		}
		for _, t := range pricedAttrs {
			call("setAttributeFee", int64(t), p.AttrFee[t])
		}
		call("setFeePerByte", p.FeePerByte)
		call("setExecFeeFactor", p.ExecFactor)
		call("setMaxValidUntilBlockIncrement", int64(p.MaxVUBInc))
		if block {
			call("blockAccount", chainx.Acc(3).ScriptHash())
		} else {
			call("unblockAccount", chainx.Acc(3).ScriptHash())
		}
		if pw.Err != nil {
			return nil, pw.Err
		}
		tx, err := n.MakeTx(pw.Bytes(), []neotest.Signer{n.Committee})
		if err != nil {
			return nil, err
		}
		return []*transaction.Transaction{tx}, nil
	}}
}

// ---- hand-assembled contracts ----------------------------------------------------------------

// contractV: _initialize stores 1 into static slot 0; verify(n) asserts the
// slot and returns n != 3; foo() returns true.
func contractV() *neotest.Contract {
	script := []byte{
		byte(opcode.INITSSLOT), 1, byte(opcode.PUSH1), byte(opcode.STSFLD0), byte(opcode.RET), // 0: _initialize
		byte(opcode.LDSFLD0), byte(opcode.ASSERT), byte(opcode.PUSH3), byte(opcode.NUMNOTEQUAL), byte(opcode.RET), // 5: verify(n)
		byte(opcode.PUSH1), byte(opcode.RET), // 10: foo
	}
	m := manifest.NewManifest("c07-V")
	m.ABI.Methods = []manifest.Method{
		{Name: manifest.MethodInit, Offset: 0, Parameters: []manifest.Parameter{}, ReturnType: smartcontract.VoidType},
		{Name: manifest.MethodVerify, Offset: 5, Parameters: []manifest.Parameter{{Name: "n", Type: smartcontract.IntegerType}}, ReturnType: smartcontract.BoolType},
		{Name: "foo", Offset: 10, Parameters: []manifest.Parameter{}, ReturnType: smartcontract.BoolType},
	}
	return handContract(script, m)
}

// contractW has no verify method.
func contractW() *neotest.Contract {
	m := manifest.NewManifest("c07-W")
	m.ABI.Methods = []manifest.Method{{Name: "foo", Offset: 0, Parameters: []manifest.Parameter{}, ReturnType: smartcontract.BoolType}}
	return handContract([]byte{byte(opcode.PUSH1), byte(opcode.RET)}, m)
}

func handContract(script []byte, m *manifest.Manifest) *neotest.Contract {
	ne, err := nef.NewFile(script)
	if err != nil {
		panic(err)
	}
	return &neotest.Contract{Hash: cstate.CreateContractHash(chainx.Acc(2).ScriptHash(), ne.Checksum, m.Name), NEF: ne, Manifest: m}
}

func deployVWTpl() chainx.Tpl {
	return chainx.Tpl{Name: "c07-deploy-vw", Build: func(w *chainx.World) ([]*transaction.Transaction, error) {
		a, err := w.N.DeployTx(contractV(), chainx.Signer(2), nil)
		if err != nil {
			return nil, err
		}
		b, err := w.N.DeployTx(contractW(), chainx.Signer(2), nil)
		if err != nil {
			return nil, err
		}
		return []*transaction.Transaction{a, b}, nil
	}}
}

const notaryDeposit = 20 * gas

func notaryDepositTpl() chainx.Tpl {
	return chainx.Tpl{Name: "c07-notary-deposit", Build: func(w *chainx.World) ([]*transaction.Transaction, error) {
		tx, err := w.N.CallTx([]neotest.Signer{chainx.Signer(1)}, nativehashes.GasToken, "transfer", chainx.Acc(1).ScriptHash(), nativehashes.Notary, int64(notaryDeposit), []any{nil, int64(w.N.Height() + 500)})
		if err != nil {
			return nil, err
		}
		return []*transaction.Transaction{tx}, nil
	}}
}

func notary3Tpl() chainx.Tpl {
	return chainx.Tpl{Name: "c07-notary3", Build: func(w *chainx.World) ([]*transaction.Transaction, error) {
		tx, err := w.N.CallTx([]neotest.Signer{w.N.Committee}, nativehashes.RoleManagement, "designateAsRole", int64(noderoles.P2PNotary), []any{chainx.Acc(3).PublicKey().Bytes()})
		if err != nil {
			return nil, err
		}
		return []*transaction.Transaction{tx}, nil
	}}
}

// extTpls are appended to the template list of the main scenario (in the
// order of the t* constants above).
func extTpls() []chainx.Tpl {
	out := []chainx.Tpl{policyTpl("c07-policy-a", policyA, true), policyTpl("c07-policy-b", policyB, false), deployVWTpl()}
	out = append(out, chainx.TplByName("destroy-ub")...)
	out = append(out, notaryDepositTpl(), notary3Tpl())
	out = append(out, chainx.TplByName("empty")...)
	return out
}

// contract hashes of the cast (set by newEnv)
var (
	hashUA, hashUB util.Uint160
)

func only(names ...string) map[string]bool {
	m := map[string]bool{}
	for _, n := range names {
		m[n] = true
	}
	return m
}

// extStates of the main scenario.
func extStates() []state {
	pb := policyB
	return []state{
		{Name: "policy-twice", Hist: []int{tSetup, tPolicyA, tPolicyB}, Expect: &pb},
		{Name: "contracts", Hist: []int{tSetup, tDeployVW}, Extra: map[util.Uint160]bool{contractV().Hash: true, contractW().Hash: true},
			Only: only("contract-ua", "contract-v", "contract-unknown", "custom-witness")},
		{Name: "ub-destroyed", Hist: []int{tSetup, tDestroyUB}, Gone: map[util.Uint160]bool{hashUB: true}, Only: only("contract-ub", "contract-ua")},
		{Name: "notary-deposit", Hist: []int{tSetup, tNotaryDeposit}, Deposits: map[util.Uint160]int64{chainx.Acc(1).ScriptHash(): notaryDeposit},
			Only: only("notary-sender", "notary-assisted")},
		{Name: "notary3", Hist: []int{tSetup, tNotary3}, NotaryAcc: 3, Only: only("notary-assisted")},
	}
}

// ---- own scenarios -------------------------------------------------------------------------------

const mtbOfFamily = 6

// mtbStates builds the scenario with a short traceability window: setup, the
// Conflicts cast, k empty blocks.
func (e *env) mtbStates() error {
	e.castMTB = &conflictCast{txs: map[string][]byte{}}
	tpls := []chainx.Tpl{setupTpl(), conflictsTpl(e.castMTB)}
	tpls = append(tpls, chainx.TplByName("empty")...)
	fam := chainx.Family{Name: "single-mtb6", MTB: mtbOfFamily, Extra: protoExtra}
	sc, err := chainx.NewScenario(fam, 0, tpls)
	if err != nil {
		return fmt.Errorf("mtb preamble: %w", err)
	}
	e.scMTB = sc
	h := []int{0, 1}
	if err := sc.Grow(h[:1]); err != nil {
		return fmt.Errorf("mtb setup: %w", err)
	}
	if err := sc.Grow(h); err != nil {
		return fmt.Errorf("mtb conflicts: %w", err)
	}
	for k := 0; k <= mtbOfFamily+1; k++ {
		if k > 0 {
			h = append(append([]int{}, h...), 2)
			if err := sc.Grow(h); err != nil {
				return fmt.Errorf("mtb empty %d: %w", k, err)
			}
		}
		e.st = append(e.st, state{Name: fmt.Sprintf("mtb-%d", k), Hist: append([]int{}, h...), Sc: sc, LevelOnly: true})
		e.mtbNames = append(e.mtbNames, fmt.Sprintf("mtb-%d", k))
	}
	return nil
}

// committeeStates builds the multi-validator scenario: a vote that elects
// the registered candidates (accounts 1..6), then k empty blocks.
func (e *env) committeeStates() error {
	tpls := chainx.TplByName("vote1", "empty")
	fam := chainx.Family{Name: "multi", Multi: true, Extra: func(c *config.Blockchain) { protoExtra(c) }}
	sc, err := chainx.NewScenario(fam, 0, tpls)
	if err != nil {
		return fmt.Errorf("committee preamble: %w", err)
	}
	e.scCom = sc
	h := []int{0}
	if err := sc.Grow(h); err != nil {
		return fmt.Errorf("committee vote: %w", err)
	}
	for k := 0; k <= 7; k++ {
		if k > 0 {
			h = append(append([]int{}, h...), 1)
			if err := sc.Grow(h); err != nil {
				return fmt.Errorf("committee empty %d: %w", k, err)
			}
		}
		e.st = append(e.st, state{Name: fmt.Sprintf("committee-%d", k), Hist: append([]int{}, h...), Sc: sc, Multi: true, Only: only("committee-old-hp", "committee-new-hp")})
		e.comNames = append(e.comNames, fmt.Sprintf("committee-%d", k))
	}
	return nil
}

// electedCommitteeAcct is the majority multi-signature account of accounts 1..6.
func electedCommitteeAcct() *acct {
	var privs []*keys.PrivateKey
	for i := 1; i <= 6; i++ {
		privs = append(privs, chainx.Acc(i).PrivateKey())
	}
	return majorityAcct("committee-elected", privs)
}

// standbyCommitteeAcct is the majority multi-signature account of the standby committee of a multi replica.
func standbyCommitteeAcct(n *chainx.Node) *acct {
	ms := n.Committee.(neotest.MultiSigner)
	var privs []*keys.PrivateKey
	for i := 0; ; i++ {
		var s neotest.SingleSigner
		if chainx.Try(func() { s = ms.Single(i) }) != nil {
			break
		}
		privs = append(privs, s.Account().PrivateKey())
	}
	return majorityAcct("committee-standby", privs)
}

func majorityAcct(name string, privs []*keys.PrivateKey) *acct {
	sortPrivs(privs)
	pubs := make(keys.PublicKeys, len(privs))
	for i := range privs {
		pubs[i] = privs[i].PublicKey()
	}
	ver, err := smartcontract.CreateMajorityMultiSigRedeemScript(pubs)
	if err != nil {
		panic(err)
	}
	return &acct{Name: name, M: smartcontract.GetMajorityHonestNodeCount(len(privs)), Privs: privs, Ver: ver, Hash: hashOfScript(ver), Std: true}
}
