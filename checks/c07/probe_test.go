package c07

import (
	"fmt"
	"testing"

	"github.com/nspcc-dev/neo-go/pkg/core/transaction"
	"github.com/nspcc-dev/neo-go/pkg/smartcontract/scparser"

	"verif/lib/chainx"
)

func TestProbe(t *testing.T) {
	n, err := chainx.New(chainx.Opts{})
	if err != nil {
		t.Fatal(err)
	}
	defer n.Close()
	w, err := chainx.BuildPreamble(n, 0)
	if err != nil {
		t.Fatal(err)
	}
	_ = w
	bc := n.BC
	cfg := bc.GetConfig()
	fmt.Println("height", bc.BlockHeight(), "baseExec", bc.GetBaseExecFee(), "fpb", bc.FeePerByte(), "maxVerGas", bc.GetMaxVerificationGAS())
	fmt.Println("MaxBlockSize", cfg.MaxBlockSize, "MaxTxPerBlock", cfg.MaxTransactionsPerBlock, "MaxBlockSysFee", cfg.MaxBlockSystemFee, "MemPool", cfg.MemPoolSize, "MTB", bc.GetMaxTraceableBlocks(), "VUBinc", bc.GetMaxValidUntilBlockIncrement())
	fmt.Println("hardforks", cfg.Hardforks)
	for _, at := range []transaction.AttrType{transaction.HighPriority, transaction.OracleResponseT, transaction.NotValidBeforeT, transaction.ConflictsT, transaction.NotaryAssistedT} {
		tx := transaction.New([]byte{0x11}, 0)
		tx.Signers = []transaction.Signer{{}}
		var v transaction.AttrValue
		switch at {
		case transaction.NotaryAssistedT:
			v = &transaction.NotaryAssisted{NKeys: 0}
		}
		tx.Attributes = []transaction.Attribute{{Type: at, Value: v}}
		fmt.Println("attrfee", at, bc.CalculateAttributesFee(tx))
	}
	fmt.Println("IsScriptCorrect(empty)", scparser.IsScriptCorrect(nil, nil))
	fmt.Println("committee", n.Committee.ScriptHash().StringLE(), "validator", n.Validator.ScriptHash().StringLE())
	b, _ := n.NewBlock()
	bb, _ := chainx.BlockBytes(b)
	fmt.Println("empty block bytes", len(bb), b.GetExpectedBlockSize())
}
