package c07

// Second extension round: chain states whose admission-relevant content lives
// in native-contract caches that are REBUILT FROM STORAGE on a restart / state
// reset, and the variants that tell a wrongly rebuilt cache from a right one:
//
//	blocked-set   12 hashes are blocked in one block (accounts 3, 5, 6, contract
//	              UB, the BYTE-REVERSED hashes of accounts 1 and 2, six fillers
//	              below / between / above them); the next block unblocks
//	              account 6, the smallest filler and a middle one and blocks a
//	              further one. No blocked hash is a palindrome, so a list
//	              loaded in another byte order blocks accounts 1 and 2 and frees
//	              3 and 5
//	whitelist     V and W deployed; methods V.foo, W.foo, UA.other, UB.other are
//	              given whitelisted fees, then V.foo is set AGAIN (other fee) and
//	              W.foo, UA.other are removed: witnesses whose verification
//	              script calls V.foo / W.foo pay the whitelisted / the ordinary
//	              price
//	nvb-delta     Notary.setMaxNotValidBeforeDelta(7) (default 140): decides the
//	              NotValidBefore window of PoolTxWithData
//	mtbset-k      the Conflicts cast (victims valid until block c+8), then
//	              Policy.setMaxValidUntilBlockIncrement(5) + setMaxTraceableBlocks(6)
//	              and k = 2..6 empty blocks: the records leave the window that
//	              the POLICY value (not the configuration) defines

import (
	"crypto/sha256"
	"fmt"

	"github.com/nspcc-dev/neo-go/pkg/core/native/nativehashes"
	"github.com/nspcc-dev/neo-go/pkg/core/transaction"
	"github.com/nspcc-dev/neo-go/pkg/io"
	"github.com/nspcc-dev/neo-go/pkg/neotest"
	"github.com/nspcc-dev/neo-go/pkg/smartcontract/callflag"
	"github.com/nspcc-dev/neo-go/pkg/util"
	"github.com/nspcc-dev/neo-go/pkg/vm/emit"
	"github.com/nspcc-dev/neo-go/pkg/vm/opcode"

	"verif/lib/chainx"
)

// template indices of the main scenario (continuing the list of ext_states_test.go)
const (
	tBlockMany = tEmpty + 1 + iota
	tUnblockSome
	tWhitelistA
	tWhitelistB
	tNvbDelta
	tConflictsShort
	tSetMTB
)

func reversed160(h util.Uint160) util.Uint160 {
	var r util.Uint160
	for i := range h {
		r[i] = h[len(h)-1-i]
	}
	return r
}

// fillers are blocked hashes that belong to nobody: the smallest and the
// largest possible ones and five spread by a hash function.
func filler(i int) util.Uint160 {
	switch i {
	case 0:
		return util.Uint160{0, 0, 0, 0, 0, 0, 0, 0, 0, 0, 0, 0, 0, 0, 0, 0, 0, 0, 1, 2}
	case 1:
		return util.Uint160{0xff, 0xff, 0xff, 0xff, 0xff, 0xff, 0xff, 0xff, 0xff, 0xff, 0xff, 0xff, 0xff, 0xff, 0xff, 0xff, 0xff, 0xff, 0xfe, 0xfd}
	}
	s := sha256.Sum256([]byte(fmt.Sprintf("c07-blocked-filler-%d", i)))
	var h util.Uint160
	copy(h[:], s[:])
	return h
}

// blockedFirst / unblockedThen / blockedThen: the two blocks of the state blocked-set.
func blockedFirst() []util.Uint160 {
	out := []util.Uint160{chainx.Acc(3).ScriptHash(), chainx.Acc(5).ScriptHash(), chainx.Acc(6).ScriptHash(), hashUB,
		reversed160(chainx.Acc(1).ScriptHash()), reversed160(chainx.Acc(2).ScriptHash())}
	for i := 0; i < 6; i++ {
		out = append(out, filler(i))
	}
	return out
}

func unblockedThen() []util.Uint160 {
	return []util.Uint160{chainx.Acc(6).ScriptHash(), filler(0), filler(3)}
}

func blockedThen() []util.Uint160 { return []util.Uint160{filler(6)} }

// blockedSet is the blocked list of the state blocked-set, from its construction.
func blockedSet() map[util.Uint160]bool {
	m := map[util.Uint160]bool{}
	for _, h := range blockedFirst() {
		m[h] = true
	}
	for _, h := range unblockedThen() {
		delete(m, h)
	}
	for _, h := range blockedThen() {
		m[h] = true
	}
	return m
}

// committeeCalls builds one committee transaction from a list of native calls
// (results dropped).
type nativeCall struct {
	h      util.Uint160
	method string
	args   []any
}

func committeeCalls(n *chainx.Node, calls []nativeCall) (*transaction.Transaction, error) {
	pw := io.NewBufBinWriter()
	for _, c := range calls {
		emit.AppCall(pw.BinWriter, c.h, c.method, callflag.All, c.args...)
		emit.Opcodes(pw.BinWriter, opcode.DROP)
	}
	if pw.Err != nil {
		return nil, pw.Err
	}
	return n.MakeTx(pw.Bytes(), []neotest.Signer{n.Committee})
}

func pol(method string, args ...any) nativeCall {
	return nativeCall{nativehashes.PolicyContract, method, args}
}

func blockTpl(name string, unblock, block func() []util.Uint160) chainx.Tpl {
	return chainx.Tpl{Name: name, Build: func(w *chainx.World) ([]*transaction.Transaction, error) {
		var calls []nativeCall
		if unblock != nil {
			for _, h := range unblock() {
				calls = append(calls, pol("unblockAccount", h))
			}
		}
		for _, h := range block() {
			calls = append(calls, pol("blockAccount", h))
		}
		tx, err := committeeCalls(w.N, calls)
		if err != nil {
			return nil, err
		}
		return []*transaction.Transaction{tx}, nil
	}}
}

// whitelisted fees (datoshi) of the state whitelist
const (
	wlFeeVFirst = 50000
	wlFeeV      = 30000
	wlFeeW      = 70000
)

func whitelistTplA() chainx.Tpl {
	return chainx.Tpl{Name: "c07-whitelist-a", Build: func(w *chainx.World) ([]*transaction.Transaction, error) {
		tx, err := committeeCalls(w.N, []nativeCall{
			pol("setWhitelistFeeContract", contractV().Hash, "foo", 0, wlFeeVFirst),
			pol("setWhitelistFeeContract", contractW().Hash, "foo", 0, wlFeeW),
			pol("setWhitelistFeeContract", w.UA.Hash, "other", 1, 1234),
			pol("setWhitelistFeeContract", w.UB.Hash, "other", 1, 4321),
		})
		if err != nil {
			return nil, err
		}
		return []*transaction.Transaction{tx}, nil
	}}
}

func whitelistTplB() chainx.Tpl {
	return chainx.Tpl{Name: "c07-whitelist-b", Build: func(w *chainx.World) ([]*transaction.Transaction, error) {
		tx, err := committeeCalls(w.N, []nativeCall{
			pol("setWhitelistFeeContract", contractV().Hash, "foo", 0, wlFeeV),
			pol("removeWhitelistFeeContract", contractW().Hash, "foo", 0),
			pol("removeWhitelistFeeContract", w.UA.Hash, "other", 1),
		})
		if err != nil {
			return nil, err
		}
		return []*transaction.Transaction{tx}, nil
	}}
}

const nvbDeltaSet = 7

func nvbDeltaTpl() chainx.Tpl {
	return chainx.Tpl{Name: "c07-nvb-delta", Build: func(w *chainx.World) ([]*transaction.Transaction, error) {
		tx, err := committeeCalls(w.N, []nativeCall{{nativehashes.Notary, "setMaxNotValidBeforeDelta", []any{nvbDeltaSet}}})
		if err != nil {
			return nil, err
		}
		return []*transaction.Transaction{tx}, nil
	}}
}

const (
	mtbSetValue    = 6
	mtbSetVUBInc   = 5
	shortVictimVUB = 9 // victims are valid until (height before the Conflicts block) + 9
)

func setMTBTpl() chainx.Tpl {
	return chainx.Tpl{Name: "c07-set-mtb", Build: func(w *chainx.World) ([]*transaction.Transaction, error) {
		tx, err := committeeCalls(w.N, []nativeCall{
			pol("setMaxValidUntilBlockIncrement", mtbSetVUBInc),
			pol("setMaxTraceableBlocks", mtbSetValue),
		})
		if err != nil {
			return nil, err
		}
		return []*transaction.Transaction{tx}, nil
	}}
}

// r2Tpls are appended to the template list of the main scenario (in the order of the t* constants above).
func (e *env) r2Tpls() []chainx.Tpl {
	e.castShort = &conflictCast{txs: map[string][]byte{}}
	short := conflictsTplVUB(e.castShort, shortVictimVUB)
	short.Name = "c07-conflicts-short"
	return []chainx.Tpl{
		blockTpl("c07-block-many", nil, blockedFirst),
		blockTpl("c07-unblock-some", unblockedThen, blockedThen),
		whitelistTplA(), whitelistTplB(), nvbDeltaTpl(), short, setMTBTpl(),
	}
}

// r2States of the main scenario.
func (e *env) r2States() []state {
	vw := map[util.Uint160]bool{contractV().Hash: true, contractW().Hash: true}
	out := []state{
		{Name: "blocked-set", Hist: []int{tSetup, tBlockMany, tUnblockSome}, Blocked: blockedSet()},
		{Name: "whitelist", Hist: []int{tSetup, tDeployVW, tWhitelistA, tWhitelistB}, Extra: vw,
			Only: only("contract-v", "custom-witness", "wl-call-v-foo", "wl-call-w-foo")},
		{Name: "nvb-delta", Hist: []int{tSetup, tNvbDelta}, Only: only("sig1", "sig1+sig2", "notary-assisted")},
	}
	h := []int{tSetup, tConflictsShort, tSetMTB}
	for k := 1; k <= 6; k++ {
		h = append(append([]int{}, h...), tEmpty)
		if k < 2 {
			continue
		}
		name := fmt.Sprintf("mtbset-%d", k)
		out = append(out, state{Name: name, Hist: append([]int{}, h...), LevelOnly: true, Cast: e.castShort,
			Expect: &policyExpect{MaxVUBInc: mtbSetVUBInc, MTB: mtbSetValue}})
		e.mtbSetNames = append(e.mtbSetNames, name)
	}
	return out
}

// ---- accounts and shapes ---------------------------------------------------------------------------

// callFooAcct: a script account whose verification script calls <contract>.foo()
// (which returns true) with read-only flags.
func callFooAcct(name string, h util.Uint160) *acct {
	w := io.NewBufBinWriter()
	emit.AppCall(w.BinWriter, h, "foo", callflag.ReadOnly)
	if w.Err != nil {
		panic(w.Err)
	}
	return customAcct(name, w.Bytes(), nil)
}

func callVFoo() *acct { return callFooAcct("call-V-foo", contractV().Hash) }
func callWFoo() *acct { return callFooAcct("call-W-foo", contractW().Hash) }

func r2Shapes() []shape {
	return []shape{
		{Name: "wl-call-v-foo", In: in("contracts", "whitelist"), Spec: func(n *chainx.Node) *txSpec {
			return &txSpec{Signers: []*acct{sigAcct(1), callVFoo()}, Script: nops(3), SysFee: gas / 10}
		}},
		{Name: "wl-call-w-foo", In: in("contracts", "whitelist"), Spec: func(n *chainx.Node) *txSpec {
			return &txSpec{Signers: []*acct{sigAcct(1), callWFoo()}, Script: nops(3), SysFee: gas / 10}
		}},
	}
}

func r2Accts(m map[util.Uint160]*acct) {
	for _, a := range []*acct{callVFoo(), callWFoo()} {
		m[a.Hash] = a
	}
}

// r2Mutations: other accounts in the roles of the blocked sender / cosigner
// (account 5 is blocked, account 6 was blocked and unblocked, the reversed
// hash of account 2 is blocked in the state blocked-set; nowhere else), and
// NotValidBefore at the edge of the window PoolTxWithData allows in the state
// nvb-delta.
func r2Mutations() []mutation {
	var ms []mutation
	add := func(m mutation) { ms = append(ms, m) }
	for _, k := range []int{5, 6, 2} {
		k := k
		add(mutation{Rule: fmt.Sprintf("sender-acc%d", k), Spec: func(n *chainx.Node, sp *txSpec) bool {
			if len(sp.Signers) == 0 || sp.Signers[0].Name != "sig1" || len(sp.Attrs) != 0 {
				return false
			}
			for _, s := range sp.Signers {
				if s.Name == fmt.Sprintf("sig%d", k) {
					return false
				}
			}
			sp.Signers = append([]*acct{sigAcct(k)}, sp.Signers[1:]...)
			return true
		}})
		add(mutation{Rule: fmt.Sprintf("cosigner-acc%d", k), Spec: func(n *chainx.Node, sp *txSpec) bool {
			if len(sp.Signers) == 0 || len(sp.Signers)+len(sp.Attrs) > 14 {
				return false
			}
			for _, s := range sp.Signers {
				if s.Name == fmt.Sprintf("sig%d", k) {
					return false
				}
			}
			sp.Signers = append(sp.Signers[:len(sp.Signers):len(sp.Signers)], sigAcct(k))
			return true
		}})
	}
	for _, d := range []uint32{nvbDeltaSet - 1, nvbDeltaSet, nvbDeltaSet + 1} {
		d := d
		add(mutation{Rule: fmt.Sprintf("attr-nvb=height+%d", d), Spec: func(n *chainx.Node, sp *txSpec) bool {
			for _, a := range sp.Attrs {
				if a.Type == transaction.NotValidBeforeT {
					return false
				}
			}
			if len(sp.Signers) == 0 || len(sp.Signers)+len(sp.Attrs) > 14 {
				return false
			}
			sp.Attrs = append(sp.Attrs[:len(sp.Attrs):len(sp.Attrs)], attrNVB(n.BC.BlockHeight()+d))
			return true
		}})
	}
	return ms
}
