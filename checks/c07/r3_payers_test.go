package c07

// Third extension round: WHO PAYS in pool contents (family "payers").
//
// The proposable clause quantifies over all pool contents; the earlier
// alphabets had one signer per pooled transaction, so "the account whose
// balance must cover a pooled transaction" and "an account that signed it"
// were always the same account. Here they differ on purpose:
//
//	sender R + cosigner S, sender S + cosigner R, sent by the Notary contract
//	for depositor S / R (paid from the deposit, not from the GAS balance)
//
// combined with Conflicts attributes in both directions (the new transaction
// names a pooled one; a pooled one names the new one; shared signer, shared
// Notary signer only, no shared signer) and the fee of ONE transaction tuned
// so that the payer's pooled fees sit exactly on its balance, one unit
// below/above, and on the same three points shifted by the network / system /
// total fee of the transaction that is pushed out by the admission.
//
// Per (scenario, boundary variant): every admission order of the 3-4
// transactions (so every ordered subset is met as a prefix), optionally with
// an empty block arriving in the middle (the pool re-verifies its content and
// rebuilds its per-payer sums). Oracles:
//
//	(c) every PoolTx verdict equals an independent predicate computed from the
//	    listing (GetVerifiedTransactions) before the call, the transaction and
//	    the balances known from the construction of the history
//	(a) every listing is payable: per payer (sender, or Notary+depositor) the
//	    system+network fees of its pooled transactions <= its balance/deposit
//	    a rejection leaves the listing unchanged; an admitted one is listed
//	(b) every DISTINCT reachable pool content is proposed (GetVerifiedTransactions
//	    -> ApplyPolicyToTxSet -> block -> wire -> parse -> backup-side checks ->
//	    AddBlock) to a replica that never saw the pool
import (
	"fmt"
	"os"
	"sort"
	"strconv"
	"strings"

	"github.com/nspcc-dev/neo-go/pkg/core/native/nativehashes"
	"github.com/nspcc-dev/neo-go/pkg/core/transaction"
	"github.com/nspcc-dev/neo-go/pkg/io"
	"github.com/nspcc-dev/neo-go/pkg/neotest"
	"github.com/nspcc-dev/neo-go/pkg/smartcontract/callflag"
	"github.com/nspcc-dev/neo-go/pkg/util"
	"github.com/nspcc-dev/neo-go/pkg/vm/emit"
	"github.com/nspcc-dev/neo-go/pkg/vm/opcode"

	"verif/lib/chainx"
	"verif/lib/vk"
)

// template index of the main scenario (continuing the list of r2_states_test.go)
const tR3Payers = tSetMTB + 1

// balances the funding block gives (odd values: no fee of the family is a
// multiple of anything here by accident)
const (
	r3BalS = 5*gas + 7
	r3BalR = 4*gas + 3
	r3DepS = 3*gas + 1
	r3DepR = 2*gas + 5
)

func r3S() *acct { return keyAcct("r3-S", detKey("r3-payer-S")) }
func r3R() *acct { return keyAcct("r3-R", detKey("r3-payer-R")) }

// r3FundTpl: the validator funds S and R and makes Notary deposits for both.
func r3FundTpl() chainx.Tpl {
	return chainx.Tpl{Name: "c07-r3-payers", Build: func(w *chainx.World) ([]*transaction.Transaction, error) {
		n := w.N
		from := n.Validator.ScriptHash()
		bw := io.NewBufBinWriter()
		xfer := func(to util.Uint160, amt int64, data any) {
			emit.AppCall(bw.BinWriter, nativehashes.GasToken, "transfer", callflag.All, from, to, amt, data)
			emit.Opcodes(bw.BinWriter, opcode.ASSERT)
		}
		till := int64(n.Height() + 1000)
		xfer(r3S().Hash, r3BalS, nil)
		xfer(r3R().Hash, r3BalR, nil)
		xfer(nativehashes.Notary, r3DepS, []any{r3S().Hash, till})
		xfer(nativehashes.Notary, r3DepR, []any{r3R().Hash, till})
		if bw.Err != nil {
			return nil, bw.Err
		}
		tx, err := n.MakeTx(bw.Bytes(), []neotest.Signer{n.Validator})
		if err != nil {
			return nil, err
		}
		return []*transaction.Transaction{tx}, nil
	}}
}

func (e *env) r3Tpls() []chainx.Tpl { return []chainx.Tpl{r3FundTpl()} }

// ---- payers, independent of the pool's own bookkeeping -------------------------------------------

// pKey is who pays: the sender, or (Notary contract, depositor) for a
// transaction sent by the Notary contract.
type pKey struct{ P, D util.Uint160 }

func (k pKey) String() string {
	name := func(h util.Uint160) string {
		switch h {
		case r3S().Hash:
			return "S"
		case r3R().Hash:
			return "R"
		case nativehashes.Notary:
			return "Notary"
		}
		return h.StringLE()[:8]
	}
	if k.D != (util.Uint160{}) {
		return name(k.P) + "/" + name(k.D)
	}
	return name(k.P)
}

func pPayer(tx *transaction.Transaction) pKey {
	if tx.Signers[0].Account == nativehashes.Notary && len(tx.Signers) > 1 {
		return pKey{P: nativehashes.Notary, D: tx.Signers[1].Account}
	}
	return pKey{P: tx.Signers[0].Account}
}

// pAuthor: the account on whose behalf the fees are paid.
func pAuthor(tx *transaction.Transaction) util.Uint160 {
	k := pPayer(tx)
	if k.D != (util.Uint160{}) {
		return k.D
	}
	return k.P
}

func pFee(tx *transaction.Transaction) int64 { return tx.SystemFee + tx.NetworkFee }

func pNames(a, b *transaction.Transaction) bool {
	for _, at := range a.Attributes {
		if at.Type == transaction.ConflictsT && at.Value.(*transaction.Conflicts).Hash == b.Hash() {
			return true
		}
	}
	return false
}

func pSigned(tx *transaction.Transaction, h util.Uint160) bool {
	for _, s := range tx.Signers {
		if s.Account == h {
			return true
		}
	}
	return false
}

func pShares(a, b *transaction.Transaction) bool {
	for _, s := range a.Signers {
		if pSigned(b, s.Account) {
			return true
		}
	}
	return false
}

// pExpect is the predicate's answer for PoolTx(t) on a pool with listing `before`.
type pExpect struct {
	Accept    bool
	Why       []string // reasons of a rejection
	Removal   []*transaction.Transaction
	Rest      []*transaction.Transaction
	RestSum   int64 // fees of the payer's pooled transactions that stay
	PooledAll int64 // fees of all the payer's pooled transactions
	ToBeat    int64
	Balance   int64
	// CreditFlips: the verdict is "rejected for funds" and would be "admitted" if the
	// fees of ALL transactions leaving the pool were credited to t's payer
	// (i.e. only the payer test of the leaving transactions decides)
	CreditFlips bool
}

// pPredicate: t (valid on the ledger by construction) enters the pool iff it is
// not pooled, every pooled transaction it names shares a signer with it, its
// network fee is higher than the sum of the network fees of the pooled
// transactions it names and of those that name it and are signed by its
// author, and its payer can pay for it plus everything of that payer that
// STAYS pooled (transactions related by a Conflicts attribute leave).
func pPredicate(before []*transaction.Transaction, t *transaction.Transaction, bal map[pKey]int64, chain []*transaction.Transaction) pExpect {
	var x pExpect
	pk := pPayer(t)
	author := pAuthor(t)
	x.Balance = bal[pk]
	x.Why = append(x.Why, pChainReasons(t, chain)...)
	dup, unsignedNamed := false, false
	var leavingAll int64
	for _, o := range before {
		if o.Hash() == t.Hash() {
			dup = true
			continue
		}
		leaves := false
		switch {
		case pNames(t, o):
			leaves = true
			if !pShares(t, o) {
				unsignedNamed = true
			}
			x.ToBeat += o.NetworkFee
		case pNames(o, t):
			leaves = true
			if pSigned(o, author) {
				x.ToBeat += o.NetworkFee
			}
		}
		if pPayer(o) == pk {
			x.PooledAll += pFee(o)
		}
		if leaves {
			x.Removal = append(x.Removal, o)
			leavingAll += pFee(o)
			continue
		}
		x.Rest = append(x.Rest, o)
		if pPayer(o) == pk {
			x.RestSum += pFee(o)
		}
	}
	if dup {
		x.Why = append(x.Why, "dup")
	}
	if unsignedNamed {
		x.Why = append(x.Why, "names-a-pooled-tx-without-shared-signer")
	}
	if x.ToBeat != 0 && t.NetworkFee <= x.ToBeat {
		x.Why = append(x.Why, "network-fee-not-higher-than-conflicting")
	}
	funds := false
	if pFee(t) > x.Balance {
		x.Why = append(x.Why, "payer-cannot-pay-it-alone")
		funds = true
	} else if pFee(t)+x.RestSum > x.Balance {
		x.Why = append(x.Why, "payer-cannot-pay-all-pooled")
		funds = true
	}
	x.Accept = len(x.Why) == 0
	if funds && len(x.Why) == 1 && pFee(t)+x.PooledAll-leavingAll <= x.Balance {
		x.CreditFlips = true
	}
	return x
}

// pChainReasons: what the transactions of the block that arrived in the middle
// of the history mean for t (the statement's ledger clauses).
func pChainReasons(t *transaction.Transaction, chain []*transaction.Transaction) []string {
	var why []string
	for _, z := range chain {
		switch {
		case z.Hash() == t.Hash():
			why = append(why, "on-chain")
		case pNames(t, z):
			why = append(why, "names-an-on-chain-tx")
		case pNames(z, t) && pShares(z, t):
			why = append(why, "named-by-an-on-chain-tx-of-a-signer")
		}
	}
	return why
}

// pUnpayable lists the payers of a listing whose pooled fees exceed the balance.
func pUnpayable(list []*transaction.Transaction, bal map[pKey]int64) []string {
	sums := map[pKey]int64{}
	for _, t := range list {
		sums[pPayer(t)] += pFee(t)
	}
	var out []string
	for k, s := range sums {
		if s > bal[k] {
			out = append(out, fmt.Sprintf("%s: pooled fees %d > balance %d", k, s, bal[k]))
		}
	}
	sort.Strings(out)
	return out
}

// ---- scenarios --------------------------------------------------------------------------------------

type pRole struct {
	Name   string
	Sender string   // "S", "R", "Q" (rich stranger, account 5), "N:S" / "N:R" (sent by the Notary contract, paid from the deposit of S / R)
	Cos    []string // cosigners
	Names  []string // roles named by Conflicts attributes
	Beats  []string // network fee = sum of these roles' network fees + margin
	Total  int64    // system + network fee (ignored for the tuned role)
}

type pScn struct {
	Name   string
	Roles  []pRole
	Tuned  string   // role whose total fee is tuned
	With   []string // roles whose fees stand next to it at the boundary
	Shifts []string // "0", "net:X", "sys:X", "fee:X", "fee:X1+fee:X2"
	Thor   bool     // thorough tier only
}

func pScenarios() []pScn {
	std := []string{"0", "net:X", "sys:X", "fee:X"}
	g := int64(gas)
	return []pScn{
		// T (sent by S) names X, which S only co-signed and R pays: X leaves, S gets no credit
		{Name: "evictee-cosigned", Tuned: "T", With: []string{"A"}, Shifts: append(append([]string{}, std...), "fee:A"), Roles: []pRole{
			{Name: "A", Sender: "S", Total: 2 * g},
			{Name: "X", Sender: "R", Cos: []string{"S"}, Total: g},
			{Name: "T", Sender: "S", Names: []string{"X"}, Beats: []string{"X"}}}},
		// the same with X paid by S and co-signed by R: the credit is due
		{Name: "evictee-own", Tuned: "T", With: []string{"A"}, Shifts: std, Roles: []pRole{
			{Name: "A", Sender: "S", Total: 2 * g},
			{Name: "X", Sender: "S", Cos: []string{"R"}, Total: g},
			{Name: "T", Sender: "S", Names: []string{"X"}, Beats: []string{"X"}}}},
		// T is sent by R and co-signed by S, who pays X
		{Name: "replacer-cosigned-by-evictee-payer", Tuned: "T", With: []string{"A"}, Shifts: std, Roles: []pRole{
			{Name: "A", Sender: "R", Total: 15 * g / 10},
			{Name: "X", Sender: "S", Total: g},
			{Name: "T", Sender: "R", Cos: []string{"S"}, Names: []string{"X"}, Beats: []string{"X"}}}},
		// the pooled X names T (the other direction of the attribute)
		{Name: "named-by-pooled-cosigned", Tuned: "T", With: []string{"A"}, Shifts: std, Roles: []pRole{
			{Name: "A", Sender: "S", Total: 2 * g},
			{Name: "T", Sender: "S", Beats: []string{"X"}},
			{Name: "X", Sender: "R", Cos: []string{"S"}, Names: []string{"T"}, Total: g}}},
		{Name: "named-by-pooled-own", Tuned: "T", With: []string{"A"}, Shifts: std, Roles: []pRole{
			{Name: "A", Sender: "S", Total: 2 * g},
			{Name: "T", Sender: "S", Beats: []string{"X"}},
			{Name: "X", Sender: "S", Cos: []string{"R"}, Names: []string{"T"}, Total: g}}},
		// ... by a stranger: X leaves although T need not beat its fee
		{Name: "named-by-pooled-stranger", Tuned: "T", With: []string{"A"}, Shifts: std, Roles: []pRole{
			{Name: "A", Sender: "S", Total: 2 * g},
			{Name: "T", Sender: "S"},
			{Name: "X", Sender: "R", Names: []string{"T"}, Total: g}}},
		// Notary as the sender: X is paid from S's DEPOSIT, T and A from S's balance
		{Name: "evictee-notary-sponsored", Tuned: "T", With: []string{"A"}, Shifts: std, Roles: []pRole{
			{Name: "A", Sender: "S", Total: 2 * g},
			{Name: "X", Sender: "N:S", Total: g},
			{Name: "T", Sender: "S", Names: []string{"X"}, Beats: []string{"X"}}}},
		// ... T and A from the deposit, X from the balance
		{Name: "replacer-notary-sponsored", Tuned: "T", With: []string{"A"}, Shifts: std, Roles: []pRole{
			{Name: "A", Sender: "N:S", Total: 12 * g / 10},
			{Name: "X", Sender: "S", Total: g},
			{Name: "T", Sender: "N:S", Names: []string{"X"}, Beats: []string{"X"}}}},
		// ... all three from the deposit of S: the credit is due
		{Name: "notary-own", Tuned: "T", With: []string{"A"}, Shifts: append(append([]string{}, std...), "fee:A"), Roles: []pRole{
			{Name: "A", Sender: "N:S", Total: 12 * g / 10},
			{Name: "X", Sender: "N:S", Total: 7 * g / 10},
			{Name: "T", Sender: "N:S", Names: []string{"X"}, Beats: []string{"X"}}}},
		// ... X from the deposit of R (the only shared signer is the Notary contract)
		{Name: "notary-other-depositor", Tuned: "T", With: []string{"A"}, Shifts: std, Roles: []pRole{
			{Name: "A", Sender: "N:S", Total: 12 * g / 10},
			{Name: "X", Sender: "N:R", Total: 7 * g / 10},
			{Name: "T", Sender: "N:S", Names: []string{"X"}, Beats: []string{"X"}}}},
		// ... the pooled X (deposit of R) names T (deposit of S): it carries the Notary contract's signature, not S's
		{Name: "named-by-pooled-other-depositor", Tuned: "T", With: []string{"A"}, Shifts: []string{"0", "fee:X"}, Roles: []pRole{
			{Name: "A", Sender: "N:S", Total: 12 * g / 10},
			{Name: "T", Sender: "N:S"},
			{Name: "X", Sender: "N:R", Names: []string{"T"}, Total: 7 * g / 10}}},
		// two transactions leave, one paid by S, one only co-signed
		{Name: "two-evictees", Tuned: "T", With: []string{"A"}, Shifts: []string{"0", "fee:X1", "fee:X2", "fee:X1+fee:X2"}, Roles: []pRole{
			{Name: "A", Sender: "S", Total: 2 * g},
			{Name: "X1", Sender: "S", Total: 6 * g / 10},
			{Name: "X2", Sender: "R", Cos: []string{"S"}, Total: 7 * g / 10},
			{Name: "T", Sender: "S", Names: []string{"X1", "X2"}, Beats: []string{"X1", "X2"}}}},
		// no Conflicts at all: a co-signed / sponsored transaction is not the co-signer's debt
		{Name: "cosigned-no-conflict", Tuned: "T", With: []string{"A"}, Shifts: []string{"0", "fee:X"}, Roles: []pRole{
			{Name: "A", Sender: "S", Total: 2 * g},
			{Name: "X", Sender: "R", Cos: []string{"S"}, Total: g},
			{Name: "T", Sender: "S"}}},
		{Name: "sponsored-no-conflict", Tuned: "T", With: []string{"A"}, Shifts: []string{"0", "fee:X"}, Roles: []pRole{
			{Name: "A", Sender: "S", Total: 2 * g},
			{Name: "X", Sender: "N:S", Total: g},
			{Name: "T", Sender: "S"}}},
		// a chain: T pushes out Y (own), which pushed out X (co-signed)
		{Name: "chain", Thor: true, Tuned: "T", With: []string{"A"}, Shifts: []string{"0", "fee:X", "fee:Y", "fee:X+fee:Y"}, Roles: []pRole{
			{Name: "A", Sender: "S", Total: 2 * g},
			{Name: "X", Sender: "R", Cos: []string{"S"}, Total: g},
			{Name: "Y", Sender: "S", Names: []string{"X"}, Beats: []string{"X"}, Total: 8 * g / 10},
			{Name: "T", Sender: "S", Names: []string{"Y"}, Beats: []string{"Y"}}}},
		// the mirror of the first one on the other account (other balance, other key order)
		{Name: "evictee-cosigned-mirror", Thor: true, Tuned: "T", With: []string{"A"}, Shifts: std, Roles: []pRole{
			{Name: "A", Sender: "R", Total: 15 * g / 10},
			{Name: "X", Sender: "S", Cos: []string{"R"}, Total: g},
			{Name: "T", Sender: "R", Names: []string{"X"}, Beats: []string{"X"}}}},
	}
}

// pVariant is one boundary point.
type pVariant struct {
	Shift  string
	D      int64
	Margin int64 // the beating role's network fee = sum of the beaten + Margin
}

func (v pVariant) String() string {
	return fmt.Sprintf("shift=%s,d=%+d,margin=%d", v.Shift, v.D, v.Margin)
}

func pVariants(s *pScn, thor bool) []pVariant {
	var out []pVariant
	ds := []int64{-1, 0, 1}
	if thor {
		ds = []int64{-2, -1, 0, 1, 2}
	}
	for _, sh := range s.Shifts {
		for _, d := range ds {
			out = append(out, pVariant{Shift: sh, D: d, Margin: 1})
		}
	}
	beats := false
	for _, r := range s.Roles {
		beats = beats || len(r.Beats) > 0
	}
	if beats {
		// the fee rule at its own boundary: equal network fee does not replace
		out = append(out, pVariant{Shift: "0", D: 0, Margin: 0})
		if thor {
			out = append(out, pVariant{Shift: s.Shifts[len(s.Shifts)-1], D: 0, Margin: 0}, pVariant{Shift: "0", D: 0, Margin: 2})
		}
	}
	return out
}

func pBalances() map[pKey]int64 {
	return map[pKey]int64{
		{P: r3S().Hash}:                                 r3BalS,
		{P: r3R().Hash}:                                 r3BalR,
		{P: nativehashes.Notary, D: r3S().Hash}:         r3DepS,
		{P: nativehashes.Notary, D: r3R().Hash}:         r3DepR,
		{P: sigAcct(5).Hash}:                            1 << 50, // the rich stranger is never at a boundary
		{P: nativehashes.Notary, D: sigAcct(5).Hash}:    0,
		{P: nativehashes.Notary, D: util.Uint160{0xff}}: 0,
	}
}

func pAcct(sym string) *acct {
	switch sym {
	case "S":
		return r3S()
	case "R":
		return r3R()
	case "Q":
		return sigAcct(5)
	}
	panic("payers: unknown account symbol " + sym)
}

func pRoleSigners(magic uint32, r *pRole) ([]*acct, []transaction.Attribute, pKey) {
	var signers []*acct
	var attrs []transaction.Attribute
	var pk pKey
	if strings.HasPrefix(r.Sender, "N:") {
		dep := pAcct(r.Sender[2:])
		signers = []*acct{notaryAcct(magic), dep}
		attrs = append(attrs, attrNotary(0))
		pk = pKey{P: nativehashes.Notary, D: dep.Hash}
	} else {
		a := pAcct(r.Sender)
		signers = []*acct{a}
		pk = pKey{P: a.Hash}
	}
	for _, c := range r.Cos {
		signers = append(signers, pAcct(c))
	}
	return signers, attrs, pk
}

// pSet is the built cast of one (scenario, variant).
type pSet struct {
	Names []string
	Tx    map[string]*transaction.Transaction
	Note  string
}

func (ps *pSet) nameOf(h util.Uint256) string {
	for n, t := range ps.Tx {
		if t.Hash() == h {
			return n
		}
	}
	return h.StringLE()[:8]
}

func (ps *pSet) listing(l []*transaction.Transaction) string {
	var out []string
	for _, t := range l {
		out = append(out, ps.nameOf(t.Hash()))
	}
	return strings.Join(out, ",")
}

func (ps *pSet) setKey(l []*transaction.Transaction) string {
	var out []string
	for _, t := range l {
		out = append(out, ps.nameOf(t.Hash()))
	}
	sort.Strings(out)
	return strings.Join(out, "+")
}

const pBeatenBoost = 20000000

const pMinSys = 2000 // enough for the few NOPs of the scripts at every execution fee factor of this state

// pBuild makes the transactions of scenario s at boundary point v for the chain state of n.
func pBuild(n *chainx.Node, s *pScn, v pVariant, bal map[pKey]int64) (*pSet, error) {
	magic := uint32(n.BC.GetConfig().Magic)
	height := n.BC.BlockHeight()
	role := map[string]*pRole{}
	idx := map[string]int{}
	for i := range s.Roles {
		role[s.Roles[i].Name] = &s.Roles[i]
		idx[s.Roles[i].Name] = i
	}
	beaten := map[string]bool{}
	for _, r := range s.Roles {
		for _, b := range r.Beats {
			if role[b] == nil {
				return nil, fmt.Errorf("role %s beats unknown %s", r.Name, b)
			}
			beaten[b] = true
		}
	}
	spec := func(r *pRole, hashes map[string]util.Uint256) (*txSpec, pKey) {
		signers, attrs, pk := pRoleSigners(magic, r)
		for _, nm := range r.Names {
			h, ok := hashes[nm]
			if !ok {
				h = util.Uint256{0xee, byte(idx[nm])}
			}
			attrs = append(attrs, attrConflicts(h))
		}
		return &txSpec{Label: "payers/" + s.Name + "/" + r.Name, Signers: signers, Script: nops(6 + idx[r.Name]), SysFee: gas / 100, Attrs: attrs}, pk
	}
	// 1. the calculator's fee of every role (it does not depend on the named hashes or on the system fee)
	base := map[string]int64{}
	payer := map[string]pKey{}
	for i := range s.Roles {
		r := &s.Roles[i]
		sp, pk := spec(r, nil)
		calc, _, err := calcFee(n.BC, magic, unsigned(height, sp), sp.Signers)
		if err != nil {
			return nil, fmt.Errorf("role %s: %w", r.Name, err)
		}
		base[r.Name] = calc
		payer[r.Name] = pk
	}
	// 2. network fees
	net := map[string]int64{}
	for len(net) < len(s.Roles) {
		progress := false
		for _, r := range s.Roles {
			if _, done := net[r.Name]; done {
				continue
			}
			if len(r.Beats) == 0 {
				net[r.Name] = base[r.Name]
				if beaten[r.Name] {
					// above the calculator's fee of every role of the family (a Notary-assisted one pays 0.1 GAS for the attribute)
					net[r.Name] += pBeatenBoost
				}
				progress = true
				continue
			}
			sum, ok := int64(0), true
			for _, b := range r.Beats {
				f, done := net[b]
				ok = ok && done
				sum += f
			}
			if !ok {
				continue
			}
			net[r.Name] = sum + v.Margin
			if net[r.Name] < base[r.Name] {
				return nil, fmt.Errorf("role %s: beating fee %d below the calculator's %d", r.Name, net[r.Name], base[r.Name])
			}
			progress = true
		}
		if !progress {
			return nil, fmt.Errorf("cyclic Beats in %s", s.Name)
		}
	}
	// 3. totals
	total := map[string]int64{}
	for _, r := range s.Roles {
		if r.Name != s.Tuned {
			total[r.Name] = r.Total
		}
	}
	term := func(t string) (int64, error) {
		if t == "0" {
			return 0, nil
		}
		kind, nm, ok := strings.Cut(t, ":")
		if !ok || role[nm] == nil || nm == s.Tuned {
			return 0, fmt.Errorf("bad shift term %q", t)
		}
		switch kind {
		case "fee":
			return total[nm], nil
		case "net":
			return net[nm], nil
		case "sys":
			return total[nm] - net[nm], nil
		}
		return 0, fmt.Errorf("bad shift term %q", t)
	}
	var shift int64
	for _, t := range strings.Split(v.Shift, "+") {
		x, err := term(t)
		if err != nil {
			return nil, err
		}
		shift += x
	}
	tt := bal[payer[s.Tuned]] + shift + v.D
	for _, w := range s.With {
		if payer[w] != payer[s.Tuned] {
			return nil, fmt.Errorf("companion %s is not paid by the payer of %s", w, s.Tuned)
		}
		tt -= total[w]
	}
	total[s.Tuned] = tt
	// 4. the transactions, named ones first
	ps := &pSet{Tx: map[string]*transaction.Transaction{}}
	hashes := map[string]util.Uint256{}
	for len(ps.Tx) < len(s.Roles) {
		progress := false
		for i := range s.Roles {
			r := &s.Roles[i]
			if ps.Tx[r.Name] != nil {
				continue
			}
			ready := true
			for _, nm := range r.Names {
				_, ok := hashes[nm]
				ready = ready && ok
			}
			if !ready {
				continue
			}
			sp, _ := spec(r, hashes)
			tx := unsigned(height, sp)
			calc, size, err := calcFee(n.BC, magic, tx, sp.Signers)
			if err != nil {
				return nil, fmt.Errorf("role %s: %w", r.Name, err)
			}
			if calc != base[r.Name] {
				return nil, fmt.Errorf("role %s: calculator says %d with the real hashes, %d with placeholders", r.Name, calc, base[r.Name])
			}
			tx = fresh(tx)
			tx.NetworkFee = net[r.Name]
			tx.SystemFee = total[r.Name] - net[r.Name]
			if tx.SystemFee < pMinSys {
				return nil, fmt.Errorf("role %s: total fee %d leaves a system fee of %d", r.Name, total[r.Name], tx.SystemFee)
			}
			sign(magic, tx, sp.Signers)
			if got := len(tx.Bytes()); got != size {
				return nil, fmt.Errorf("role %s: calculator size %d != serialised size %d", r.Name, size, got)
			}
			if pPayer(tx) != payer[r.Name] {
				return nil, fmt.Errorf("role %s: payer of the built transaction differs from the role's", r.Name)
			}
			ps.Tx[r.Name] = tx
			hashes[r.Name] = tx.Hash()
			progress = true
		}
		if !progress {
			return nil, fmt.Errorf("cyclic Names in %s", s.Name)
		}
	}
	for _, r := range s.Roles {
		ps.Names = append(ps.Names, r.Name)
	}
	var parts []string
	for _, nm := range ps.Names {
		parts = append(parts, fmt.Sprintf("%s{payer %s sys %d net %d}", nm, payer[nm], ps.Tx[nm].SystemFee, ps.Tx[nm].NetworkFee))
	}
	ps.Note = strings.Join(parts, " ") + fmt.Sprintf(" balances{S %d R %d dep(S) %d dep(R) %d}", r3BalS, r3BalR, r3DepS, r3DepR)
	return ps, nil
}

func permutations(names []string) [][]string {
	if len(names) <= 1 {
		return [][]string{append([]string{}, names...)}
	}
	var out [][]string
	for i := range names {
		rest := append(append([]string{}, names[:i]...), names[i+1:]...)
		for _, p := range permutations(rest) {
			out = append(out, append([]string{names[i]}, p...))
		}
	}
	return out
}

// ---- the run ------------------------------------------------------------------------------------------

type payersCount struct {
	variants, orders, admissions, midBlocks, midBlocksWithTx, proposals, creditFlips vk.Counter
	unbuildable, midUnbuildable                                                      vk.Counter
}

func (e *env) payersState() *state {
	return &state{Name: "r3-payers", Hist: []int{tSetup, tR3Payers}}
}

// pReach is a reachable pool content and the shortest history that produced it.
type pReach struct {
	Order []string
	List  string
}

// pJob: one (scenario, boundary variant, block in the middle).
type pJob struct {
	s       *pScn
	v       pVariant
	mid     int    // a block arrives after this many submissions (0: none)
	midRole string // ... carrying this role's transaction ("": an empty block)
}

func (j pJob) midName() string {
	if j.midRole == "" {
		return strconv.Itoa(j.mid)
	}
	return strconv.Itoa(j.mid) + ":" + j.midRole
}

func (e *env) runPayers() map[string]any {
	st := e.payersState()
	if e.sc.Get(st.Hist) == nil {
		if err := e.sc.Grow(st.Hist); err != nil {
			e.f.add("payers:harness:funding-block", &caseRec{Sub: "payers", Note: err.Error()})
			return nil
		}
	}
	// the history gave what the predicate assumes
	bal := pBalances()
	n, err := e.freshNode(st)
	if err != nil {
		e.f.add("payers:harness:replica", &caseRec{Sub: "payers", Note: err.Error()})
		return nil
	}
	for k, want := range bal {
		if k.P == sigAcct(5).Hash || want == 0 {
			continue
		}
		if got := n.BC.GetUtilityTokenBalance(k.P, k.D).Int64(); got != want {
			e.f.add("payers:state-differs-from-its-history:"+k.String(), &caseRec{Sub: "payers", State: st.Name, Note: fmt.Sprintf("balance getter says %d, the funding block gave %d", got, want)})
		}
	}
	n.Close()
	scns := pScenarios()
	mids := []int{0, 2}
	if e.thor {
		mids = []int{0, 1, 2, 3, 4}
	}
	var jobs []pJob
	var names []string
	nv := 0
	for i := range scns {
		s := &scns[i]
		if s.Thor && !e.thor {
			continue
		}
		names = append(names, s.Name)
		for _, v := range pVariants(s, e.thor) {
			nv++
			for _, m := range mids {
				if m > len(s.Roles) || (!e.thor && m >= len(s.Roles)) {
					continue
				}
				jobs = append(jobs, pJob{s: s, v: v, mid: m})
				if m == 0 {
					continue
				}
				// the block in the middle carries one of the cast (quick tier: at the three points next to the
				// unshifted boundary only; thorough: every boundary, d in -1..1)
				if !e.thor && (v.Shift != "0" || v.Margin != 1) {
					continue
				}
				if v.D < -1 || v.D > 1 {
					continue
				}
				for _, r := range s.Roles {
					jobs = append(jobs, pJob{s: s, v: v, mid: m, midRole: r.Name})
				}
			}
		}
	}
	if only := os.Getenv("C07_PAYERS"); only != "" {
		var keep []pJob
		for _, j := range jobs {
			if strings.Contains(j.s.Name+":"+j.v.String()+"|mid="+j.midName(), only) {
				keep = append(keep, j)
			}
		}
		jobs = keep
	}
	e.r.Parallel(len(jobs), func(i int) {
		j := jobs[i]
		sub := newFindings()
		e.payersJob(st, j, nil, sub)
		for k, f := range sub.m {
			e.f.addLazy(k, f.weight, func() *caseRec { return f.Detail })
		}
	})
	return map[string]any{"scenarios": names, "boundary_variants": nv, "mid_block_positions": mids, "jobs": len(jobs),
		"balances": map[string]int64{"S": r3BalS, "R": r3BalR, "deposit(S)": r3DepS, "deposit(R)": r3DepR}}
}

type pFail func(what string, order []string, note string)

// payersJob runs every admission order of one job - or only the recorded
// order (replay) - and proposes every distinct pool content met.
func (e *env) payersJob(st *state, j pJob, onlyOrder []string, out *findings) {
	s, v := j.s, j.v
	rec := &caseRec{Sub: "payers", State: st.Name, Family: s.Name, Rule: v.String()}
	var failAt pFail = func(what string, order []string, note string) {
		r := *rec
		r.Order = strings.Join(order, ">") + "|mid=" + j.midName()
		r.Note = note
		w := len(order)*10 + j.mid
		if j.midRole != "" {
			w += 5
		}
		out.addLazy(fmt.Sprintf("payers:%s:%s:%s", what, s.Name, v), w, func() *caseRec { return &r })
	}
	defer func() {
		if p := recover(); p != nil {
			failAt("panic", onlyOrder, fmt.Sprint(p))
		}
	}()
	bal := pBalances()
	B, err := e.freshNode(st) // builder: never pools, makes the cast and the block
	if err != nil {
		failAt("harness-replica", nil, err.Error())
		return
	}
	defer B.Close()
	ps, err := pBuild(B, s, v, bal)
	if err != nil {
		e.pay.unbuildable.Inc()
		failAt("harness-build", nil, err.Error())
		return
	}
	rec.Shape = ps.Note
	for _, nm := range ps.Names {
		rec.Pre = append(rec.Pre, nm+"="+fmt.Sprintf("%x", ps.Tx[nm].Bytes()))
	}
	var midWire []byte
	var chain []*transaction.Transaction
	balAfter := bal
	if j.mid > 0 {
		var txs []*transaction.Transaction
		if j.midRole != "" {
			z := ps.Tx[j.midRole]
			if pFee(z) > bal[pPayer(z)] {
				// its payer cannot pay it: no block can carry it
				e.pay.midUnbuildable.Inc()
				return
			}
			c, err := transaction.NewTransactionFromBytes(z.Bytes())
			if err != nil {
				failAt("harness-decode", nil, err.Error())
				return
			}
			txs = append(txs, c)
			chain = append(chain, z)
			balAfter = map[pKey]int64{}
			for k, b := range bal {
				balAfter[k] = b
			}
			balAfter[pPayer(z)] -= pFee(z)
		}
		b, err := B.AddBlock(txs...)
		if err == nil {
			midWire, err = chainx.BlockBytes(b)
		}
		if err != nil {
			failAt("harness-block", nil, err.Error())
			return
		}
		// the builder's ledger after the block agrees with the predicate's balances
		for k, want := range balAfter {
			if k.P == sigAcct(5).Hash || (want == 0 && bal[k] == 0) {
				continue
			}
			if got := B.BC.GetUtilityTokenBalance(k.P, k.D).Int64(); got != want {
				failAt("balance-after-block-differs-from-fees-paid:"+k.String(), nil, fmt.Sprintf("the block carried %s: getter says %d, balance minus fees is %d", j.midRole, got, want))
			}
		}
	}
	if j.mid == 0 {
		e.pay.variants.Inc()
	}
	reach := map[string]*pReach{}
	orders := permutations(ps.Names)
	if onlyOrder != nil {
		orders = [][]string{onlyOrder}
	}
	for _, order := range orders {
		e.payersOrder(st, j, ps, bal, balAfter, chain, order, midWire, reach, failAt)
	}
	// (b) every distinct pool content is proposed
	keys := make([]string, 0, len(reach))
	for k := range reach {
		keys = append(keys, k)
	}
	sort.Strings(keys)
	for _, k := range keys {
		e.payersPropose(st, j, ps, reach[k], midWire, failAt)
	}
}

// payersOrder submits the cast in one order to a fresh proposer.
func (e *env) payersOrder(st *state, j pJob, ps *pSet, bal0, bal1 map[pKey]int64, chain1 []*transaction.Transaction, order []string, midWire []byte,
	reach map[string]*pReach, failAt pFail) {
	P, err := e.freshNode(st)
	if err != nil {
		failAt("harness-replica", order, err.Error())
		return
	}
	defer P.Close()
	e.pay.orders.Inc()
	mp := P.BC.GetMemPool()
	bal := bal0
	var chain []*transaction.Transaction
	midDone := false
	for i, nm := range order {
		prefix := order[:i+1]
		before := mp.GetVerifiedTransactions()
		t, err := transaction.NewTransactionFromBytes(ps.Tx[nm].Bytes())
		if err != nil {
			failAt("harness-decode", prefix, err.Error())
			return
		}
		want := pPredicate(before, t, bal, chain)
		perr := P.BC.PoolTx(t)
		e.pay.admissions.Inc()
		after := mp.GetVerifiedTransactions()
		class := errClass(perr)
		desc := func() string {
			return fmt.Sprintf("submitting %s to pool [%s]: got %s (%v), predicate: accept=%v %v, payer %s balance %d, fee %d, own pooled fees %d of which %d stay, network fee %d to beat %d; pool afterwards [%s]",
				nm, ps.listing(before), class, perr, want.Accept, want.Why, pPayer(t), want.Balance, pFee(t), want.PooledAll, want.RestSum, t.NetworkFee, want.ToBeat, ps.listing(after))
		}
		why := "ok"
		if !want.Accept {
			why = strings.Join(want.Why, "+")
		}
		e.out("payers", fmt.Sprintf("%s:%s:%s:predicate=%s", j.s.Name, nm, class, why))
		e.r.Outcome("payers:" + class + ":predicate=" + why)
		if want.CreditFlips {
			e.pay.creditFlips.Inc()
			e.out("payers-boundary", j.s.Name+":only-the-payer-of-the-leaving-tx-decides")
		}
		// (c) verdict == predicate
		switch {
		case perr == nil && !want.Accept:
			what := "admitted-against-predicate"
			if len(want.Why) == 1 && strings.HasPrefix(want.Why[0], "payer-cannot") {
				what = "unpayable-admitted"
			}
			failAt(what+":"+nm, prefix, desc())
		case perr != nil && want.Accept:
			failAt("rejected-against-predicate:"+nm+":"+class, prefix, desc())
		}
		// a rejection changes nothing, an admitted transaction is listed
		if perr != nil && ps.listing(before) != ps.listing(after) {
			failAt("rejected-but-pool-changed:"+nm, prefix, desc())
		}
		if perr == nil && !mp.ContainsKey(t.Hash()) {
			failAt("admitted-but-not-pooled:"+nm, prefix, desc())
		}
		// (a) the listing is payable
		if bad := pUnpayable(after, bal); len(bad) > 0 {
			failAt("unpayable-pool", prefix, strings.Join(bad, "; ")+" after "+desc())
		}
		if j.mid > 0 && i+1 == j.mid {
			if err := P.AddBytes(midWire); err != nil {
				failAt("arriving-block-rejected-by-the-pooling-node", prefix, err.Error())
				return
			}
			midDone = true
			bal, chain = bal1, chain1
			e.pay.midBlocks.Inc()
			if j.midRole != "" {
				e.pay.midBlocksWithTx.Inc()
			}
			after2 := mp.GetVerifiedTransactions()
			e.out("payers-mid-block", fmt.Sprintf("carries-a-cast-tx=%v:pooled %d -> %d", j.midRole != "", len(after), len(after2)))
			// what is still offered is payable from what the block left and not contradicted by the block
			if bad := pUnpayable(after2, bal); len(bad) > 0 {
				failAt("unpayable-pool-after-block", prefix, strings.Join(bad, "; ")+"; pool ["+ps.listing(after2)+"]")
			}
			for _, o := range after2 {
				if why := pChainReasons(o, chain); len(why) > 0 {
					failAt("stale-tx-still-pooled-after-block:"+ps.nameOf(o.Hash()), prefix, fmt.Sprintf("%v; pool [%s]", why, ps.listing(after2)))
				}
			}
			after = after2
		}
		if j.mid > 0 && !midDone {
			continue // this prefix is the same as in the job without a block
		}
		if len(after) == 0 {
			continue
		}
		k := ps.setKey(after)
		if old := reach[k]; old == nil || len(prefix) < len(old.Order) {
			reach[k] = &pReach{Order: append([]string{}, prefix...), List: ps.listing(after)}
		}
	}
	e.count.states.Add("payers/" + j.s.Name + "/" + j.v.String() + "/" + strings.Join(order, ">") + "/" + j.midName())
}

// payersPropose re-creates a reached pool content on a fresh proposer and runs
// the proposal against a replica that never saw the pool.
func (e *env) payersPropose(st *state, j pJob, ps *pSet, rc *pReach, midWire []byte, failAt pFail) {
	fail := func(what, note string) {
		failAt("proposal:"+what, rc.Order, "pool ["+rc.List+"]: "+note)
	}
	P, err := e.freshNode(st)
	if err != nil {
		fail("harness-replica", err.Error())
		return
	}
	defer P.Close()
	var wires [][]byte
	for i, nm := range rc.Order {
		t, err := transaction.NewTransactionFromBytes(ps.Tx[nm].Bytes())
		if err != nil {
			fail("harness-decode", err.Error())
			return
		}
		_ = P.BC.PoolTx(t)
		if j.mid > 0 && i+1 == j.mid {
			if err := P.AddBytes(midWire); err != nil {
				fail("harness-block", err.Error())
				return
			}
			wires = append(wires, midWire)
		}
	}
	if got := ps.listing(P.BC.GetMemPool().GetVerifiedTransactions()); got != rc.List {
		fail("pool-content-not-reproducible", fmt.Sprintf("the same submissions gave [%s] this time", got))
		return
	}
	e.pay.proposals.Inc()
	newR := func() (*chainx.Node, error) {
		R, err := e.freshNode(st)
		if err != nil {
			return nil, err
		}
		for _, w := range wires {
			if err := R.AddBytes(w); err != nil {
				R.Close()
				return nil, fmt.Errorf("replica rejects the arriving block: %w", err)
			}
		}
		return R, nil
	}
	key := ps.setKey(P.BC.GetMemPool().GetVerifiedTransactions())
	nsel, _, _, ok := e.propose(P, "payers", limitsOf(P), newR, fail)
	if ok {
		e.out("payers-proposal", fmt.Sprintf("%s:pool=%s:in-block=%d", j.s.Name, key, nsel))
		e.out("payers-proposal-size", fmt.Sprintf("pooled=%d:in-block=%d:after-block=%v", strings.Count(rc.List, ",")+1, nsel, len(wires) > 0))
	}
}

func (e *env) replayPayers(c *caseRec) string {
	st := e.payersState()
	if e.sc.Get(st.Hist) == nil {
		if err := e.sc.Grow(st.Hist); err != nil {
			return "harness: " + err.Error()
		}
	}
	scns := pScenarios()
	for i := range scns {
		s := &scns[i]
		if s.Name != c.Family {
			continue
		}
		for _, v := range pVariants(s, true) {
			if v.String() != c.Rule {
				continue
			}
			ord, midS, _ := strings.Cut(c.Order, "|mid=")
			midN, midRole, _ := strings.Cut(midS, ":")
			mid, _ := strconv.Atoi(midN)
			var order []string
			if ord != "" {
				order = strings.Split(ord, ">")
			}
			sub := newFindings()
			e.payersJob(st, pJob{s: s, v: v, mid: mid, midRole: midRole}, order, sub)
			var out []string
			for k, f := range sub.m {
				out = append(out, k+": "+f.Detail.Note)
			}
			sort.Strings(out)
			return strings.Join(out, "; ")
		}
		return "harness: unknown variant " + c.Rule
	}
	return "harness: unknown scenario " + c.Family
}
