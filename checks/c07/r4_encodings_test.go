package c07

// Fourth extension round, family `encodings`: "in every accepted ENCODING of
// the same content" on the admission paths that take BYTES.
//
// A menu of valid transactions exercises every field kind of the wire format
// (every signer scope, every witness condition kind incl. Boolean / Not / And /
// Or nesting, group keys, every attribute type, several witnesses, standard,
// contract-based (empty scripts) and custom witnesses). Starting from the
// canonical bytes of each of them a wire walker written from the format
// description (independent of the codec under test) lists every site that has
// another spelling with the same meaning, and every single-site re-spelling is
// enumerated: boolean value bytes other than 0x01, every longer var-int form of
// every count / length, uncompressed and hybrid public keys, scope bytes with
// unknown bits, rule action bytes, trailing bytes after the transaction.
//
// For every candidate the hash THE NODE computes from those bytes is asked
// from the path's own decoder and the witnesses are made over that hash, so
// that only the encoding (never the signature) decides. A candidate the node
// refuses is fine. For a candidate the node ACCEPTS:
//
//	(1) the hash the submitter was told is the hash of the transaction's own
//	    re-encoding (and the cached size is the size of the re-encoding);
//	(2) the node hands the transaction out (GetTransaction, RPC getrawtransaction)
//	    as bytes that decode to the hash the submitter was told;
//	(3) a block proposed from that pool (ApplyPolicyToTxSet, wire bytes, decode,
//	    AddBlock on a replica that never saw the pool - env.propose) is accepted,
//	    and proposer and a second replica know the transaction under the hash
//	    the submitter was told.
//
// Paths: NewTransactionFromBytes + PoolTx, RPC sendrawtransaction with the raw
// base64 parameter, the P2P CMDTX message carrying the raw bytes (framed and
// compressed the way a sender would), and Transaction.DecodeBinary + PoolTx
// (the block-body codec, lax by design, hash from the re-encoding).
//
// On top of the catalogue of sites every single-byte substitution of the
// canonical bytes (quick: 15 values per position, thorough: all 255) is given
// to the path's decoder: bytes it accepts although they are not their own
// re-encoding become full candidates, whatever field they are in.
//
// Development: C07_ONLY=encodings runs the family alone (~17 CPU-s quick),
// C07_ENC=<substring of "item:path"> one job of it.

import (
	"bytes"
	"context"
	"crypto/elliptic"
	"encoding/base64"
	"encoding/binary"
	"encoding/hex"
	"encoding/json"
	"errors"
	"fmt"
	"os"
	"sort"
	"strings"

	"github.com/nspcc-dev/neo-go/pkg/core/native/nativehashes"
	"github.com/nspcc-dev/neo-go/pkg/core/transaction"
	"github.com/nspcc-dev/neo-go/pkg/crypto/keys"
	"github.com/nspcc-dev/neo-go/pkg/io"
	"github.com/nspcc-dev/neo-go/pkg/neorpc"
	"github.com/nspcc-dev/neo-go/pkg/network"
	"github.com/nspcc-dev/neo-go/pkg/util"
	"github.com/nspcc-dev/neo-go/pkg/vm/opcode"

	"verif/lib/chainx"
	"verif/lib/vk"
)

// ---- wire walker --------------------------------------------------------------------------------

type fKind int

const (
	fkVarint fKind = iota
	fkBool
	fkKey
	fkScope
	fkAction
)

func (k fKind) String() string {
	return [...]string{"varint", "bool", "key", "scope", "action"}[k]
}

// fsite is one place of the canonical wire form with further spellings.
type fsite struct {
	Off, Len int
	Kind     fKind
	Val      uint64
	Field    string
	Hashd    bool
}

type span struct{ Off, Len int }

type walk4 struct {
	b     []byte
	p     int
	err   error
	sites []fsite
	hashd bool
	invs  []span // content of the invocation scripts, by witness
}

func (w *walk4) need(n int) bool {
	if w.err != nil {
		return false
	}
	if n < 0 || w.p+n > len(w.b) {
		w.err = errors.New("short input")
		return false
	}
	return true
}

func (w *walk4) skip(n int) {
	if w.need(n) {
		w.p += n
	}
}

func (w *walk4) byte1() byte {
	if !w.need(1) {
		return 0
	}
	w.p++
	return w.b[w.p-1]
}

func (w *walk4) mark(k fKind, n int, field string) {
	if w.need(n) {
		w.sites = append(w.sites, fsite{Off: w.p, Len: n, Kind: k, Val: uint64(w.b[w.p]), Field: field, Hashd: w.hashd})
	}
}

func (w *walk4) varint(field string) uint64 {
	if !w.need(1) {
		return 0
	}
	off := w.p
	var v uint64
	switch c := w.b[w.p]; c {
	case 0xfd:
		if !w.need(3) {
			return 0
		}
		v = uint64(binary.LittleEndian.Uint16(w.b[w.p+1:]))
		w.p += 3
	case 0xfe:
		if !w.need(5) {
			return 0
		}
		v = uint64(binary.LittleEndian.Uint32(w.b[w.p+1:]))
		w.p += 5
	case 0xff:
		if !w.need(9) {
			return 0
		}
		v = binary.LittleEndian.Uint64(w.b[w.p+1:])
		w.p += 9
	default:
		v = uint64(c)
		w.p++
	}
	w.sites = append(w.sites, fsite{Off: off, Len: w.p - off, Kind: fkVarint, Val: v, Field: field, Hashd: w.hashd})
	return v
}

func (w *walk4) pubkey(field string) {
	if !w.need(1) {
		return
	}
	switch w.b[w.p] {
	case 2, 3:
		w.mark(fkKey, 33, field)
		w.skip(33)
	default:
		w.err = fmt.Errorf("key prefix %x in a canonical encoding", w.b[w.p])
	}
}

func (w *walk4) condition(depth int, field string) {
	if depth > 8 {
		w.err = errors.New("too deep")
		return
	}
	switch t := transaction.WitnessConditionType(w.byte1()); t {
	case transaction.WitnessBoolean:
		w.mark(fkBool, 1, field+"boolean-value")
		w.skip(1)
	case transaction.WitnessNot:
		w.condition(depth+1, field+"not/")
	case transaction.WitnessAnd, transaction.WitnessOr:
		name := "and"
		if t == transaction.WitnessOr {
			name = "or"
		}
		n := w.varint(field + name + "-count")
		for i := uint64(0); i < n && w.err == nil; i++ {
			w.condition(depth+1, field+name+"/")
		}
	case transaction.WitnessScriptHash, transaction.WitnessCalledByContract:
		w.skip(20)
	case transaction.WitnessGroup:
		w.pubkey(field + "group-key")
	case transaction.WitnessCalledByGroup:
		w.pubkey(field + "calledbygroup-key")
	case transaction.WitnessCalledByEntry:
	default:
		if w.err == nil {
			w.err = fmt.Errorf("unknown condition %x", byte(t))
		}
	}
}

// walkWire walks the canonical wire form of a transaction.
func walkWire(b []byte) (*walk4, error) {
	w := &walk4{b: b, hashd: true}
	w.skip(1 + 4 + 8 + 8 + 4)
	ns := w.varint("signer-count")
	for i := uint64(0); i < ns && w.err == nil; i++ {
		w.skip(20)
		w.mark(fkScope, 1, "scope")
		sc := transaction.WitnessScope(w.byte1())
		if sc&transaction.CustomContracts != 0 {
			n := w.varint("allowed-contracts-count")
			w.skip(int(n) * 20)
		}
		if sc&transaction.CustomGroups != 0 {
			n := w.varint("allowed-groups-count")
			for j := uint64(0); j < n && w.err == nil; j++ {
				w.pubkey("allowed-group-key")
			}
		}
		if sc&transaction.Rules != 0 {
			n := w.varint("rules-count")
			for j := uint64(0); j < n && w.err == nil; j++ {
				w.mark(fkAction, 1, "rule-action")
				w.skip(1)
				w.condition(0, "rule/")
			}
		}
	}
	na := w.varint("attr-count")
	for i := uint64(0); i < na && w.err == nil; i++ {
		switch t := transaction.AttrType(w.byte1()); t {
		case transaction.HighPriority:
		case transaction.OracleResponseT:
			w.skip(9)
			n := w.varint("oracle-result-len")
			w.skip(int(n))
		case transaction.NotValidBeforeT:
			w.skip(4)
		case transaction.ConflictsT:
			w.skip(32)
		case transaction.NotaryAssistedT:
			w.skip(1)
		default:
			if w.err == nil {
				w.err = fmt.Errorf("unknown attribute %x", byte(t))
			}
		}
	}
	n := w.varint("script-len")
	w.skip(int(n))
	w.hashd = false
	nw := w.varint("witness-count")
	for i := uint64(0); i < nw && w.err == nil; i++ {
		n := w.varint("invocation-len")
		w.invs = append(w.invs, span{Off: w.p, Len: int(n)})
		w.skip(int(n))
		n = w.varint("verification-len")
		w.skip(int(n))
	}
	if w.err == nil && w.p != len(b) {
		w.err = fmt.Errorf("%d trailing bytes", len(b)-w.p)
	}
	return w, w.err
}

// ---- re-spellings -----------------------------------------------------------------------------------

// respelling replaces canon[Off:Off+Len] by Alt (trailing bytes: Off = len(canon), Len = 0).
type respelling struct {
	Off, Len int
	Alt      []byte
	Kind     string // class of the re-spelling
	Field    string
	Name     string
	Part     string // signed | witness | after
	Shallow  bool   // an acceptance is judged without the proposal (the neighbours with the proposal stand for it)
}

func (m *respelling) label() string {
	return fmt.Sprintf("%s@%d=%s", m.Field, m.Off, m.Name)
}

func (m *respelling) apply(canon []byte) []byte {
	r := make([]byte, 0, len(canon)+len(m.Alt))
	r = append(r, canon[:m.Off]...)
	r = append(r, m.Alt...)
	return append(r, canon[m.Off+m.Len:]...)
}

// shifted is the position of a span of the canonical form inside the re-spelt one.
func (m *respelling) shifted(s span) span {
	if s.Off >= m.Off+m.Len {
		s.Off += len(m.Alt) - m.Len
	}
	return s
}

func partOf(s fsite) string {
	if s.Hashd {
		return "signed"
	}
	return "witness"
}

// respellings lists the single-site re-spellings of a canonical form.
func respellings(canon []byte, w *walk4, thorough bool) []respelling {
	var out []respelling
	add := func(s fsite, kind, name string, alt []byte) {
		out = append(out, respelling{Off: s.Off, Len: s.Len, Alt: alt, Kind: kind, Field: s.Field, Name: name, Part: partOf(s)})
	}
	bytesOf := func(all bool, few ...byte) []byte {
		if !all {
			return few
		}
		v := make([]byte, 0, 256)
		for i := 0; i < 256; i++ {
			v = append(v, byte(i))
		}
		return v
	}
	for _, s := range w.sites {
		switch s.Kind {
		case fkVarint:
			for _, wd := range []int{3, 5, 9} {
				if wd <= s.Len {
					continue
				}
				alt := make([]byte, wd)
				switch wd {
				case 3:
					alt[0] = 0xfd
					binary.LittleEndian.PutUint16(alt[1:], uint16(s.Val))
				case 5:
					alt[0] = 0xfe
					binary.LittleEndian.PutUint32(alt[1:], uint32(s.Val))
				case 9:
					alt[0] = 0xff
					binary.LittleEndian.PutUint64(alt[1:], s.Val)
				}
				add(s, "varint", fmt.Sprintf("%d-byte-form", wd), alt)
			}
		case fkBool:
			if s.Val != 1 {
				continue // false has one spelling
			}
			for _, v := range bytesOf(true) {
				if v > 1 {
					add(s, "bool", fmt.Sprintf("0x%02x", v), []byte{v})
					out[len(out)-1].Shallow = !thorough && v != 0x02 && v != 0x80 && v != 0xff
				}
			}
		case fkKey:
			pk, err := keys.NewPublicKeyFromBytes(canon[s.Off:s.Off+33], elliptic.P256())
			if err != nil {
				continue
			}
			un := pk.UncompressedBytes()
			add(s, "key", "uncompressed", un)
			hy := append([]byte{}, un...)
			hy[0] = 0x06 | (canon[s.Off] & 1)
			add(s, "key", "hybrid", hy)
			add(s, "key", "infinity", []byte{0})
		case fkScope:
			for _, bit := range []byte{0x02, 0x04, 0x08} {
				add(s, "scope", fmt.Sprintf("unknown-bit-0x%02x", bit), []byte{byte(s.Val) | bit})
			}
			if byte(s.Val) == byte(transaction.Global) {
				add(s, "scope", "global+calledbyentry", []byte{byte(s.Val) | byte(transaction.CalledByEntry)})
			}
		case fkAction:
			if s.Val != uint64(transaction.WitnessAllow) {
				continue
			}
			for _, v := range bytesOf(thorough, 0x02, 0x80, 0xff) {
				if v > 1 {
					add(s, "action", fmt.Sprintf("0x%02x", v), []byte{v})
				}
			}
		}
	}
	trail := func(name string, b []byte) {
		out = append(out, respelling{Off: len(canon), Alt: b, Kind: "trailing", Field: "after-transaction", Name: name, Part: "after"})
	}
	trail("0x00", []byte{0})
	trail("0xff", []byte{0xff})
	if n := len(w.invs); n > 0 {
		trail("last-witness-again", canon[w.invs[n-1].Off-1:])
	}
	return out
}

// ---- menu ------------------------------------------------------------------------------------------------

type encItem struct {
	Name    string
	State   string
	Spec    func(n *chainx.Node) *txSpec
	Signers func(tx *transaction.Transaction) // scopes and rules of the signers
}

func condBool(v bool) transaction.WitnessCondition {
	c := transaction.ConditionBoolean(v)
	return &c
}

func condNot(c transaction.WitnessCondition) transaction.WitnessCondition {
	return &transaction.ConditionNot{Condition: c}
}

func condAnd(c ...transaction.WitnessCondition) transaction.WitnessCondition {
	a := transaction.ConditionAnd(c)
	return &a
}

func condOr(c ...transaction.WitnessCondition) transaction.WitnessCondition {
	a := transaction.ConditionOr(c)
	return &a
}

func allow(c transaction.WitnessCondition) transaction.WitnessRule {
	return transaction.WitnessRule{Action: transaction.WitnessAllow, Condition: c}
}

func deny(c transaction.WitnessCondition) transaction.WitnessRule {
	return transaction.WitnessRule{Action: transaction.WitnessDeny, Condition: c}
}

func encMenu() []encItem {
	g1 := detKey("group-1").PublicKey()
	g2 := detKey("group-2").PublicKey()
	g3 := detKey("group-3").PublicKey()
	sh := transaction.ConditionScriptHash(nativehashes.GasToken)
	cc := transaction.ConditionCalledByContract(nativehashes.NeoToken)
	entry := transaction.ConditionCalledByEntry{}
	one := func(i int) func(n *chainx.Node) *txSpec {
		return func(n *chainx.Node) *txSpec {
			return &txSpec{Signers: []*acct{sigAcct(i)}, Script: nops(3), SysFee: gas / 10}
		}
	}
	return []encItem{
		{Name: "rules-boolean", State: "preamble", Spec: one(1), Signers: func(tx *transaction.Transaction) {
			tx.Signers[0].Scopes = transaction.Rules
			tx.Signers[0].Rules = []transaction.WitnessRule{
				allow(condBool(true)),
				deny(condBool(false)),
				allow(condNot(condBool(true))),
				deny(condAnd(condBool(true), condBool(false))),
				allow(condOr(condBool(false), condBool(true))),
				allow(condNot(condNot(condBool(true)))),
				deny(condAnd(condOr(condBool(true), entry), condNot(condBool(true)))),
			}
		}},
		{Name: "rules-every-condition", State: "preamble", Spec: one(2), Signers: func(tx *transaction.Transaction) {
			tx.Signers[0].Scopes = transaction.CalledByEntry | transaction.Rules
			tx.Signers[0].Rules = []transaction.WitnessRule{
				allow(&sh),
				deny(&cc),
				allow((*transaction.ConditionGroup)(g1)),
				deny((*transaction.ConditionCalledByGroup)(g2)),
				allow(entry),
				allow(condAnd((*transaction.ConditionGroup)(g2), (*transaction.ConditionCalledByGroup)(g1), condBool(true))),
				deny(condOr(&sh, &cc, condNot((*transaction.ConditionGroup)(g3)))),
				allow(condNot(condOr(entry, condBool(true)))),
			}
		}},
		{Name: "custom-scopes-three-witnesses", State: "preamble", Spec: func(n *chainx.Node) *txSpec {
			return &txSpec{Signers: []*acct{sigAcct(1), sigAcct(2), msAcct(0, 2, 3)}, Script: nops(40), SysFee: gas / 10}
		}, Signers: func(tx *transaction.Transaction) {
			tx.Signers[0].Scopes = transaction.CalledByEntry | transaction.CustomContracts | transaction.CustomGroups
			tx.Signers[0].AllowedContracts = []util.Uint160{nativehashes.GasToken, nativehashes.NeoToken}
			tx.Signers[0].AllowedGroups = []*keys.PublicKey{g1, g2}
			tx.Signers[1].Scopes = transaction.CustomContracts
			tx.Signers[1].AllowedContracts = []util.Uint160{nativehashes.PolicyContract}
			tx.Signers[2].Scopes = transaction.CustomGroups | transaction.Rules
			tx.Signers[2].AllowedGroups = []*keys.PublicKey{g3}
			tx.Signers[2].Rules = []transaction.WitnessRule{allow(condBool(true))}
		}},
		{Name: "equal-entries-twice", State: "preamble", Spec: one(5), Signers: func(tx *transaction.Transaction) {
			tx.Signers[0].Scopes = transaction.CustomContracts | transaction.CustomGroups | transaction.Rules
			tx.Signers[0].AllowedContracts = []util.Uint160{nativehashes.GasToken, nativehashes.GasToken}
			tx.Signers[0].AllowedGroups = []*keys.PublicKey{g1, g1}
			tx.Signers[0].Rules = []transaction.WitnessRule{allow(condBool(true)), allow(condBool(true)), deny(condAnd(entry, entry))}
		}},
		{Name: "attributes", State: "preamble", Spec: func(n *chainx.Node) *txSpec {
			return &txSpec{Signers: []*acct{sigAcct(1), msAcct(1, 1, 2)}, Script: nops(253), SysFee: gas / 10,
				Attrs: []transaction.Attribute{attrConflicts(unknownTx1), attrNVB(n.BC.BlockHeight()), attrConflicts(unknownTx2)}}
		}, Signers: func(tx *transaction.Transaction) {
			tx.Signers[1].Scopes = transaction.Rules
			tx.Signers[1].Rules = []transaction.WitnessRule{deny(condNot(condBool(true)))}
		}},
		{Name: "committee-high-priority", State: "preamble", Spec: func(n *chainx.Node) *txSpec {
			return &txSpec{Signers: []*acct{committeeAcct(n)}, Script: nops(3), SysFee: gas / 10, Attrs: []transaction.Attribute{attrHP}}
		}},
		{Name: "notary-assisted", State: "preamble", Spec: func(n *chainx.Node) *txSpec {
			return &txSpec{Signers: []*acct{sigAcct(1), notaryAcct(uint32(n.BC.GetConfig().Magic))}, Script: nops(3), SysFee: gas / 10, Attrs: []transaction.Attribute{attrNotary(1)}}
		}, Signers: func(tx *transaction.Transaction) {
			tx.Signers[0].Scopes = transaction.CalledByEntry | transaction.Rules
			tx.Signers[0].Rules = []transaction.WitnessRule{allow(condOr(condBool(true), entry))}
		}},
		{Name: "oracle-response", State: "oracle", Spec: func(n *chainx.Node) *txSpec {
			return &txSpec{Signers: []*acct{oracleContractAcct(), oracleNodesAcct()}, Script: oracleResponseScript(), SysFee: sysFeeOracle, Attrs: []transaction.Attribute{attrOracle(0)}}
		}},
		{Name: "large-script", State: "preamble", Spec: func(n *chainx.Node) *txSpec {
			// above network.CompressionMinSize: the CMDTX message carries it compressed
			return &txSpec{Signers: []*acct{sigAcct(6)}, Script: nops(2000), SysFee: gas / 10}
		}, Signers: func(tx *transaction.Transaction) {
			tx.Signers[0].Scopes = transaction.CalledByEntry | transaction.Rules
			tx.Signers[0].Rules = []transaction.WitnessRule{allow(condBool(true)), deny(condNot(condBool(true)))}
		}},
		{Name: "contract-and-custom-witness", State: "preamble", Spec: func(n *chainx.Node) *txSpec {
			return &txSpec{Signers: []*acct{sigAcct(1), uaAcct(), customAcct("custom-true-with-argument", []byte{byte(opcode.DROP), byte(opcode.PUSHT)}, []byte{byte(opcode.PUSH7)})},
				Script: nops(3), SysFee: gas / 10}
		}, Signers: func(tx *transaction.Transaction) {
			tx.Signers[0].Scopes = transaction.None
			tx.Signers[2].Scopes = transaction.Rules
			tx.Signers[2].Rules = []transaction.WitnessRule{allow(condBool(true))}
		}},
	}
}

const encFeeRoom = 64

// buildEnc makes the menu transaction with the calculator's fee and room for 64 more bytes, signed.
func buildEnc(n *chainx.Node, it *encItem) (*transaction.Transaction, *txSpec, error) {
	magic := uint32(n.BC.GetConfig().Magic)
	sp := it.Spec(n)
	if sp == nil {
		return nil, nil, errors.New("the shape does not exist in this state")
	}
	sp.Label = "encodings/" + it.Name
	tx := unsigned(n.BC.BlockHeight(), sp)
	if it.Signers != nil {
		it.Signers(tx)
	}
	calc, size, err := calcFee(n.BC, magic, tx, sp.Signers)
	if err != nil {
		return nil, nil, err
	}
	tx = fresh(tx)
	// room for the longest re-spelling (an uncompressed key: 32 bytes more), so that a
	// node that counts the received bytes is paid as well
	tx.NetworkFee = calc + encFeeRoom*n.BC.FeePerByte()
	fixSysFee(sp, tx)
	sign(magic, tx, sp.Signers)
	if got := len(tx.Bytes()); got != size {
		return nil, nil, fmt.Errorf("calculator size %d != serialised size %d", size, got)
	}
	return tx, sp, nil
}

// ---- paths that take bytes --------------------------------------------------------------------------------------

const (
	pathRPCRaw = "rpc-raw" // sendrawtransaction with the base64 of the bytes
	pathP2PRaw = "p2p-raw" // CMDTX message carrying the bytes
)

var encPaths = []string{pathFromBytes, pathRPCRaw, pathP2PRaw, pathDecodeBin}

// rawPayload is a message payload that is already serialised.
type rawPayload []byte

func (p rawPayload) EncodeBinary(w *io.BinWriter) { w.WriteBytes(p) }
func (p rawPayload) DecodeBinary(*io.BinReader)   {}

// viaMessage frames the bytes as the CMDTX message a peer would send (compressed
// when large) and parses the message the way the network server does.
func viaMessage(b []byte) (*transaction.Transaction, error) {
	wire, err := network.NewMessage(network.CMDTX, rawPayload(b)).Bytes()
	if err != nil {
		return nil, fmt.Errorf("harness: message does not serialise: %w", err)
	}
	m := &network.Message{}
	if err := m.Decode(io.NewBinReaderFromBuf(wire)); err != nil {
		return nil, err
	}
	tx, ok := m.Payload.(*transaction.Transaction)
	if !ok {
		return nil, errors.New("payload is not a transaction")
	}
	return tx, nil
}

// nodeDecode is the decoder the node applies to bytes arriving on the path.
func nodeDecode(path string, b []byte) (*transaction.Transaction, error) {
	switch path {
	case pathP2PRaw:
		return viaMessage(b)
	case pathDecodeBin:
		return decodeVia(pathDecodeBin, b)
	default: // plain bytes and the RPC server (rpcsrv.sendrawtransaction) call the same function
		return transaction.NewTransactionFromBytes(b)
	}
}

// rawCall sends one JSON-RPC request to the server on the runner's replica.
func (rn *runner) rawCall(method string, params ...any) (json.RawMessage, *neorpc.Error, error) {
	r := rn.rpcOf()
	if r == nil {
		return nil, nil, errors.New("no rpc end")
	}
	if r.raw == nil {
		ctx, cancel := context.WithCancel(context.Background())
		r.rawCancel = cancel
		r.raw = r.srv.RegisterLocal(ctx, make(chan neorpc.Notification, 16))
	}
	resp, err := r.raw(&neorpc.Request{JSONRPC: neorpc.JSONRPCVersion, Method: method, Params: params, ID: 1})
	if err != nil {
		return nil, nil, err
	}
	return resp.Result, resp.Error, nil
}

// submitRaw sends the bytes through one of the byte-taking paths and leaves an
// accepted transaction pooled.
func (rn *runner) submitRaw(path string, b []byte) (v verdict) {
	defer func() {
		if p := recover(); p != nil {
			v = verdict{Class: "PANIC", Err: fmt.Sprint(p)}
		}
	}()
	if path == pathRPCRaw {
		res, rerr, err := rn.rawCall("sendrawtransaction", base64.StdEncoding.EncodeToString(b))
		if err != nil {
			return verdict{Class: "no-rpc", Err: err.Error()}
		}
		if rerr != nil {
			v = verdict{Class: "rpc-error", Err: rerr.Error()}
			if strings.Contains(rerr.Error(), "can't decode transaction") {
				v.Class = "decode"
			} else {
				v.Dec = true
			}
			return v
		}
		var rr struct {
			Hash util.Uint256 `json:"hash"`
		}
		if err := json.Unmarshal(res, &rr); err != nil {
			return verdict{Class: "rpc-error", Err: "relay result: " + err.Error(), Dec: true}
		}
		rn.rpc.accepted++
		return verdict{OK: true, Class: "ok", Dec: true, Hash: rr.Hash}
	}
	tx, err := nodeDecode(path, b)
	if err != nil {
		return verdict{Class: "decode", Err: "decode: " + err.Error()}
	}
	v.Dec, v.Hash, v.Size = true, tx.Hash(), tx.Size()
	if err := rn.n.BC.PoolTx(tx); err != nil {
		v.Class, v.Err = errClass(err), err.Error()
		return v
	}
	v.OK, v.Class = true, "ok"
	return v
}

// ---- one candidate ------------------------------------------------------------------------------------------------

type encCount struct {
	items, sites, candidates, submissions, refused, accepted, resigned, sameMeaning, proposals, rpcReadBack vk.Counter
	sweep, sweepRefused, sweepOther, sweepLax                                                               vk.Counter
}

// reHash is the hash of a transaction's own re-encoding (no cached value involved).
func reHash(tx *transaction.Transaction) (util.Uint256, int) {
	c := fresh(tx)
	return c.Hash(), len(c.Bytes())
}

// judgeAccepted evaluates the oracles for bytes the node accepted on a path;
// the transaction is pooled on rn's replica. It returns the problems found as
// (what, note) pairs.
func (rn *runner) judgeAccepted(path string, b []byte, told util.Uint256, deep bool, report func(what, note string)) {
	e := rn.e
	bc := rn.n.BC
	// (1) the hash and the size are those of the re-encoding
	pooled, ok := bc.GetMemPool().TryGetValue(told)
	if !ok {
		report("accepted-but-not-pooled-under-the-hash-told", "hash told "+told.StringLE()+", pool: "+rn.poolList())
	} else {
		h, sz := reHash(pooled)
		if h != told {
			report("hash-told-is-not-the-hash-of-the-re-encoding", fmt.Sprintf("hash told %s, hash of the pooled transaction's own serialisation %s", told.StringLE(), h.StringLE()))
		}
		if pooled.Size() != sz {
			report("size-is-not-the-size-of-the-re-encoding", fmt.Sprintf("Size() %d, serialised %d bytes (received %d)", pooled.Size(), sz, len(b)))
		}
	}
	// (2) what the node hands out decodes to the hash told
	if got, _, err := bc.GetTransaction(told); err != nil {
		report("GetTransaction-does-not-know-the-hash-told", err.Error())
	} else if tx2, err := transaction.NewTransactionFromBytes(got.Bytes()); err != nil {
		report("GetTransaction-bytes-do-not-decode", err.Error())
	} else if tx2.Hash() != told {
		report("GetTransaction-bytes-decode-to-another-hash", fmt.Sprintf("hash told %s, decoded %s", told.StringLE(), tx2.Hash().StringLE()))
	}
	if path == pathRPCRaw {
		e.enc.rpcReadBack.Inc()
		res, rerr, err := rn.rawCall("getrawtransaction", told.StringLE())
		var s string
		switch {
		case err != nil:
			report("harness-getrawtransaction", err.Error())
		case rerr != nil:
			report("getrawtransaction-does-not-know-the-hash-told", rerr.Error())
		case json.Unmarshal(res, &s) != nil:
			report("getrawtransaction-result-is-not-a-string", string(res))
		default:
			raw, err := base64.StdEncoding.DecodeString(s)
			if err != nil {
				report("getrawtransaction-result-is-not-base64", err.Error())
			} else if tx2, err := transaction.NewTransactionFromBytes(raw); err != nil {
				report("getrawtransaction-bytes-do-not-decode", err.Error())
			} else if tx2.Hash() != told {
				report("getrawtransaction-bytes-decode-to-another-hash", fmt.Sprintf("hash told %s, decoded %s", told.StringLE(), tx2.Hash().StringLE()))
			}
		}
	}
	bc.GetMemPool().Remove(told)
	if !deep {
		return
	}
	// (3) a proposer that got these bytes on this path builds a block every peer accepts
	e.enc.proposals.Inc()
	st := rn.st
	P, err := e.freshNode(st)
	if err != nil {
		report("harness-replica", err.Error())
		return
	}
	defer P.Close()
	tx, err := nodeDecode(path, b)
	if err != nil {
		report("harness-second-decode", err.Error())
		return
	}
	if err := P.BC.PoolTx(tx); err != nil {
		report("not-admitted-by-a-fresh-replica", err.Error())
		return
	}
	nsel, _, _, ok := e.propose(P, "encodings", limitsOf(P), func() (*chainx.Node, error) { return e.freshNode(st) }, func(what, note string) { report("proposal:"+what, note) })
	if !ok {
		return
	}
	if nsel != 1 {
		report("proposal:transaction-not-selected", fmt.Sprint(nsel))
		return
	}
	blk, err := P.BC.GetBlock(P.BC.CurrentBlockHash())
	if err != nil {
		report("harness-getblock", err.Error())
		return
	}
	wire, err := chainx.BlockBytes(blk)
	if err != nil {
		report("harness-block-bytes", err.Error())
		return
	}
	R, err := e.freshNode(st)
	if err != nil {
		report("harness-replica", err.Error())
		return
	}
	defer R.Close()
	rb, err := chainx.DecodeBlock(wire, limitsOf(P).SRIH)
	if err != nil {
		report("stored-block-does-not-parse", err.Error())
		return
	}
	if err := R.BC.AddBlock(rb); err != nil {
		report("stored-block-rejected-by-a-replica", err.Error())
		return
	}
	for who, n := range map[string]*chainx.Node{"proposer": P, "replica": R} {
		got, h, err := n.BC.GetTransaction(told)
		switch {
		case err != nil:
			report("after-block:"+who+"-does-not-know-the-hash-told", fmt.Sprintf("%s: %v", told.StringLE(), err))
		case h != n.BC.BlockHeight():
			report("after-block:"+who+"-has-it-at-another-height", fmt.Sprint(h))
		default:
			if tx2, err := transaction.NewTransactionFromBytes(got.Bytes()); err != nil {
				report("after-block:"+who+"-bytes-do-not-decode", err.Error())
			} else if tx2.Hash() != told {
				report("after-block:"+who+"-bytes-decode-to-another-hash", fmt.Sprintf("hash told %s, decoded %s", told.StringLE(), tx2.Hash().StringLE()))
			}
		}
	}
}

// encSubmit sends final bytes through a path and judges an acceptance.
// It returns the outcome class.
func (rn *runner) encSubmit(item, label, kind, path string, b, canon []byte, deep bool) string {
	// the key names the oracle, the class of the re-spelling and the path; the
	// smallest failing bytes of the class are kept as the example
	class := label
	if i := strings.Index(label, "@"); i >= 0 {
		class = fieldClass(label[:i])
	}
	e := rn.e
	e.enc.submissions.Inc()
	rn.clearPool()
	v := rn.submitRaw(path, b)
	report := func(what, note string) {
		key := fmt.Sprintf("encodings:%s:%s:%s:%s", what, kind, class, path)
		e.f.addLazy(key, len(b), func() *caseRec {
			return &caseRec{Sub: "encodings", State: rn.st.Name, Path: path, Shape: item, Rule: label, Family: kind, Tx: hex.EncodeToString(b), Canonical: hex.EncodeToString(canon), Note: note}
		})
	}
	switch {
	case v.Class == "PANIC":
		report("panic", v.Err)
		rn.clearPool()
		return "panic"
	case v.Class == "no-rpc":
		report("harness-rpc", v.Err)
		return "no-rpc"
	case !v.OK:
		e.enc.refused.Inc()
		if after := rn.poolList(); after != "" {
			report("refused-but-pool-changed", after)
			rn.clearPool()
		}
		if !v.Dec {
			return "refused-by-decoder"
		}
		return "refused:" + v.Class
	}
	e.enc.accepted.Inc()
	rn.judgeAccepted(path, b, v.Hash, deep, report)
	rn.clearPool()
	return "accepted"
}

// encCandidate makes the final bytes of a re-spelling for a path (witnesses over
// the hash the node computes from them) and submits them.
func (rn *runner) encCandidate(it *encItem, sp *txSpec, canon []byte, canonHash util.Uint256, w *walk4, m *respelling, path string, deepLax map[string]bool) {
	e := rn.e
	e.enc.candidates.Inc()
	b := m.apply(canon)
	// does the lax block-body codec read the same content from it?
	meaning := "malformed"
	if tx, err := decodeVia(pathDecodeBin, b); err == nil {
		meaning = "other-meaning"
		if sameContent(tx, canon) {
			meaning = "same-meaning"
			e.enc.sameMeaning.Inc()
		}
	}
	outcome := func(res string) {
		e.out("encodings", fmt.Sprintf("%s/%s/%s/%s:%s->%s", m.Kind, m.Part, meaning, fieldClass(m.Field), path, res))
		e.r.Outcome("encodings:" + m.Kind + ":" + meaning + ":" + path + "->" + res)
		e.count.states.Add("encodings/" + it.Name + "/" + m.label() + "/" + path)
	}
	tx, err := nodeDecode(path, b)
	if err != nil {
		// the path's decoder refuses the bytes; they are sent all the same (the
		// RPC server is asked itself)
		outcome(rn.encSubmit(it.Name, m.label(), m.Kind, path, b, canon, true))
		return
	}
	if h := tx.Hash(); h != canonHash {
		// the node takes another hash from these bytes: the witnesses are made over that one
		magic := rn.facts.Magic
		for i, a := range sp.Signers {
			wi := a.witness(magic, tx)
			s := m.shifted(w.invs[i])
			if len(wi.InvocationScript) != s.Len {
				e.f.add("encodings:harness:invocation-length:"+it.Name, &caseRec{Sub: "encodings", State: rn.st.Name, Shape: it.Name, Rule: m.label(), Note: fmt.Sprint(len(wi.InvocationScript), s.Len)})
				return
			}
			copy(b[s.Off:s.Off+s.Len], wi.InvocationScript)
		}
		e.enc.resigned.Inc()
	}
	deep := !m.Shallow
	if deep && path == pathDecodeBin && meaning == "same-meaning" && !e.thor {
		// the lax codec accepts all of these: the proposal is made for the first of each class
		k := it.Name + "/" + m.Kind + "/" + m.Part
		deep = !deepLax[k]
		deepLax[k] = true
	}
	outcome(rn.encSubmit(it.Name, m.label(), m.Kind, path, b, canon, deep))
}

func fieldClass(f string) string {
	if i := strings.LastIndex(f, "/"); i >= 0 {
		return "rule/.." + f[i:]
	}
	return f
}

// sweepValues are the bytes tried at a position that holds c.
func sweepValues(c byte, all bool) []byte {
	var out []byte
	seen := map[byte]bool{c: true}
	add := func(v byte) {
		if !seen[v] {
			seen[v] = true
			out = append(out, v)
		}
	}
	if all {
		for i := 0; i < 256; i++ {
			add(byte(i))
		}
		return out
	}
	for _, v := range []byte{0x00, 0x01, 0x02, 0x03, 0x04, 0x7f, 0x80, 0x81, 0xfd, 0xfe, 0xff, c ^ 0x01, c ^ 0x80, c + 1, c - 1} {
		add(v)
	}
	return out
}

// ---- the family ------------------------------------------------------------------------------------------------------

func (e *env) runEncodings() map[string]any {
	menu := encMenu()
	type job struct {
		it   *encItem
		path string
	}
	var jobs []job
	for i := range menu {
		for _, p := range encPaths {
			jobs = append(jobs, job{&menu[i], p})
		}
	}
	only := os.Getenv("C07_ENC")
	perItem := map[string]map[string]int{}
	var names []string
	for _, it := range menu {
		names = append(names, it.Name)
	}
	e.r.Parallel(len(jobs), func(i int) {
		j := jobs[i]
		if only != "" && !strings.Contains(j.it.Name+":"+j.path, only) {
			return
		}
		st := e.state(j.it.State)
		if st == nil {
			e.f.add("encodings:harness:state:"+j.it.Name, &caseRec{Sub: "encodings", Shape: j.it.Name, Note: "no state " + j.it.State})
			return
		}
		rn, err := e.newRunner(st)
		if err != nil {
			e.f.add("encodings:harness:replica:"+j.it.Name, &caseRec{Sub: "encodings", State: st.Name, Shape: j.it.Name, Note: err.Error()})
			return
		}
		defer rn.close()
		tx, sp, err := buildEnc(rn.n, j.it)
		if err != nil {
			e.f.add("encodings:harness:build:"+j.it.Name, &caseRec{Sub: "encodings", State: st.Name, Shape: j.it.Name, Note: err.Error()})
			return
		}
		canon := tx.Bytes()
		w, err := walkWire(canon)
		if err != nil || len(w.invs) != len(sp.Signers) {
			e.f.add("encodings:harness:walk:"+j.it.Name, &caseRec{Sub: "encodings", State: st.Name, Shape: j.it.Name, Tx: hex.EncodeToString(canon), Note: fmt.Sprint(err)})
			return
		}
		ctx, err := transaction.NewTransactionFromBytes(canon)
		if err != nil {
			e.f.add("encodings:harness:canonical-does-not-decode:"+j.it.Name, &caseRec{Sub: "encodings", State: st.Name, Shape: j.it.Name, Tx: hex.EncodeToString(canon), Note: err.Error()})
			return
		}
		// the canonical bytes themselves: accepted on every path, all oracles
		if res := rn.encSubmit(j.it.Name, "canonical", "canonical", j.path, canon, canon, true); res != "accepted" {
			v := rn.submitRaw(j.path, canon)
			rn.clearPool()
			e.f.add(fmt.Sprintf("encodings:canonical-bytes-refused:%s:%s", j.it.Name, j.path), &caseRec{Sub: "encodings", State: st.Name, Path: j.path, Shape: j.it.Name, Rule: "canonical", Tx: hex.EncodeToString(canon), Canonical: hex.EncodeToString(canon), Got: res, Note: v.Err})
			return
		}
		e.out("encodings", "canonical:"+j.path+"->accepted")
		ms := respellings(canon, w, e.thor)
		if j.path == pathFromBytes {
			e.enc.items.Inc()
			e.enc.sites.Add(len(w.sites))
			kinds := map[string]int{}
			for _, m := range ms {
				kinds[m.Kind]++
			}
			e.omu.Lock()
			perItem[j.it.Name] = kinds
			e.omu.Unlock()
		}
		deepLax := map[string]bool{}
		for k := range ms {
			if e.r.Expired() {
				return
			}
			rn.encCandidate(j.it, sp, canon, ctx.Hash(), w, &ms[k], j.path, deepLax)
		}
		// every single-byte substitution: whatever the walker's catalogue of sites does
		// not know. The path's decoder is asked directly; bytes it accepts although they
		// are not their own re-encoding become full candidates.
		if j.path == pathRPCRaw {
			return // the same decoder function as the plain bytes path (asked there)
		}
		buf := append([]byte{}, canon...)
		for pos := range canon {
			if e.r.Expired() {
				return
			}
			for _, v := range sweepValues(canon[pos], e.thor) {
				buf[pos] = v
				e.enc.sweep.Inc()
				tx, err := nodeDecode(j.path, buf)
				switch {
				case err != nil:
					e.enc.sweepRefused.Inc()
				case bytes.Equal(tx.Bytes(), buf):
					e.enc.sweepOther.Inc() // the canonical encoding of another content
				default:
					e.enc.sweepLax.Inc()
					if j.path == pathDecodeBin && tx.Hash() == fresh(tx).Hash() && tx.Size() == len(tx.Bytes()) {
						continue // the lax codec, hash and size from the re-encoding: what the sites above judge in full
					}
					m := respelling{Off: pos, Len: 1, Alt: []byte{v}, Kind: "byte", Field: "byte", Name: fmt.Sprintf("0x%02x", v), Part: "any"}
					for _, p := range []string{j.path, pathRPCRaw} {
						if p == pathRPCRaw && j.path != pathFromBytes {
							continue
						}
						rn.encCandidate(j.it, sp, canon, ctx.Hash(), w, &m, p, deepLax)
					}
				}
			}
			buf[pos] = canon[pos]
		}
	})
	sort.Strings(names)
	return map[string]any{"menu": names, "paths": encPaths, "respellings_per_item_by_kind": perItem,
		"bool_bytes": "0x02..0xff (quick: proposals for 0x02,0x80,0xff)", "varint_forms": "every longer one of 3,5,9 bytes", "keys": "uncompressed, hybrid, infinity",
		"scope_bytes": "each unknown bit 0x02,0x04,0x08; Global|CalledByEntry", "trailing": "0x00, 0xff, the last witness again",
		"byte_sweep": map[string]any{"values_per_position": vk.Pick(e.r, "0x00..0x04,0x7f..0x81,0xfd..0xff, c^1, c^0x80, c+1, c-1", "all 255 others"), "decoder_calls": int(e.enc.sweep.Get()), "refused": int(e.enc.sweepRefused.Get()),
			"canonical_encoding_of_another_content": int(e.enc.sweepOther.Get()), "accepted_though_not_their_own_re_encoding": int(e.enc.sweepLax.Get())}}
}

// replayEncodings re-submits recorded final bytes (witnesses already over the
// hash the node takes from them) through the recorded path.
func (e *env) replayEncodings(c *caseRec) string {
	rn := e.replayRunner(c)
	defer rn.close()
	sub := newFindings()
	old := e.f
	e.f = sub
	rn.encSubmit(c.Shape, c.Rule, c.Family, c.Path, unhex(c.Tx), unhex(c.Canonical), true)
	e.f = old
	var out []string
	for k, f := range sub.m {
		out = append(out, k+": "+f.Detail.Note)
	}
	sort.Strings(out)
	return strings.Join(out, "; ")
}

var _ = bytes.Equal
