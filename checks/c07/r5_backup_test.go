package c07

// Fifth round, part 1: the backup-side check of a proposal is the one a real
// backup runs. A real consensus.Service (watch-only: no wallet, the timer is a
// dummy that never fires) is built over the ledger of the proposer and over the
// ledger of a replica and started, so that its dBFT context is initialised the
// way dbft.Start does it; the callbacks the service registered with dBFT
// (Config.NewPrepareRequest / NewConsensusPayload / NewBlockFromContext on the
// proposer, Config.VerifyPrepareRequest / VerifyBlock on every node) are the
// service's own unexported methods newPrepareRequest, newPayload,
// newBlockFromContext, verifyRequest and verifyBlock, reachable through
// consensus.VerifContext(svc).Config. The PrepareRequest goes over the wire
// (Payload.EncodeBinary -> NewPayload.DecodeBinary) before it is verified.
//
// Two kinds of backups exist in a network and verifyBlock treats them
// differently: one that holds the transactions in its own pool (cheap
// mempool.Add against a scratch pool) and one that got them from the primary
// (full PoolTx against a scratch pool). The proposer's own ledger plays the
// first kind, the replica that never saw the pool the second.

import (
	"fmt"
	"os"
	"strings"
	"time"

	"github.com/nspcc-dev/dbft"
	"github.com/nspcc-dev/neo-go/pkg/consensus"
	"github.com/nspcc-dev/neo-go/pkg/core/block"
	"github.com/nspcc-dev/neo-go/pkg/core/transaction"
	"github.com/nspcc-dev/neo-go/pkg/io"
	"github.com/nspcc-dev/neo-go/pkg/network/payload"
	"github.com/nspcc-dev/neo-go/pkg/util"
	"go.uber.org/zap"
	"go.uber.org/zap/zapcore"
	"go.uber.org/zap/zaptest/observer"

	"verif/lib/chainx"
)

const nsInMs = 1000000

// idleTimer is a dbft.Timer that never fires.
type idleTimer struct {
	ch chan time.Time
	h  uint32
	v  byte
}

func (t *idleTimer) Now() time.Time                          { return time.Unix(0, 0) }
func (t *idleTimer) Reset(h uint32, v byte, d time.Duration) { t.h, t.v = h, v }
func (t *idleTimer) Extend(d time.Duration)                  {}
func (t *idleTimer) Height() uint32                          { return t.h }
func (t *idleTimer) View() byte                              { return t.v }
func (t *idleTimer) C() <-chan time.Time                     { return t.ch }

type nullQueue struct{}

func (nullQueue) Put(*block.Block) error { return nil }

// svcEnd is a started watch-only consensus service over one ledger.
type svcEnd struct {
	svc  consensus.Service
	ctx  *dbft.Context[util.Uint256]
	logs *observer.ObservedLogs
}

func newSvcEnd(n *chainx.Node) (se *svcEnd, err error) {
	defer func() {
		if p := recover(); p != nil {
			se, err = nil, fmt.Errorf("panic: %v", p)
		}
	}()
	core, logs := observer.New(zapcore.WarnLevel)
	svc, err := consensus.NewService(consensus.Config{
		Logger:                zap.New(core, zap.WithFatalHook(zapcore.WriteThenPanic)),
		Broadcast:             func(*payload.Extensible) {},
		Chain:                 n.BC,
		BlockQueue:            nullQueue{},
		ProtocolConfiguration: n.BC.GetConfig().ProtocolConfiguration,
		RequestTx:             func(...util.Uint256) {},
		StopTxFlow:            func() {},
	})
	if err != nil {
		return nil, err
	}
	if !consensus.VerifSetTimer(svc, &idleTimer{ch: make(chan time.Time)}) {
		return nil, fmt.Errorf("VerifSetTimer refused the service")
	}
	svc.Start()
	ctx := consensus.VerifContext(svc)
	if ctx == nil || ctx.Config == nil {
		svc.Shutdown()
		return nil, fmt.Errorf("no dBFT context")
	}
	return &svcEnd{svc: svc, ctx: ctx, logs: logs}, nil
}

func (s *svcEnd) close() {
	if s != nil {
		s.svc.Shutdown()
	}
}

// lastWarn is what the service logged since the last call (the reason of a
// refusal by verifyBlock is only logged).
func (s *svcEnd) lastWarn() string {
	var out []string
	for _, l := range s.logs.TakeAll() {
		m := l.Message
		for k, v := range l.ContextMap() {
			m += fmt.Sprintf(" %s=%v", k, v)
		}
		out = append(out, m)
	}
	return strings.Join(out, "; ")
}

var noSvc = os.Getenv("C07_NOSVC") != ""

// consensusCheck runs the real proposal path of the consensus service for the
// block b the harness built from sel (the prefix of P's pool ApplyPolicyToTxSet
// kept): P's service makes the PrepareRequest and the block header; the
// request, after the wire, must pass verifyRequest of P's and R's services;
// the block made by newBlockFromContext must be the block the ledger accepts
// (same hash as b) and must pass verifyBlock on P (holds the pool) and on R
// (never saw it; transactions as the P2P decoder hands them over).
func (e *env) consensusCheck(P, R *chainx.Node, sel []*transaction.Transaction, b *block.Block, srih bool, fail func(what, note string)) {
	if noSvc {
		return
	}
	defer func() {
		if p := recover(); p != nil {
			fail("consensus-panic", fmt.Sprint(p))
		}
	}()
	ps, err := newSvcEnd(P)
	if err != nil {
		fail("harness-consensus-service", err.Error())
		return
	}
	defer ps.close()
	rs, err := newSvcEnd(R)
	if err != nil {
		fail("harness-consensus-service", err.Error())
		return
	}
	defer rs.close()
	e.r5.svcChecks.Inc()
	hashes := make([]util.Uint256, len(sel))
	for i, tx := range sel {
		hashes[i] = tx.Hash()
	}
	pctx := &dbft.Context[util.Uint256]{
		Config:            ps.ctx.Config,
		Timestamp:         b.Timestamp * nsInMs,
		Nonce:             b.Nonce,
		BlockIndex:        b.Index,
		PrevHash:          b.PrevHash,
		PrimaryIndex:      uint(b.PrimaryIndex),
		MyIndex:           int(b.PrimaryIndex),
		Validators:        ps.ctx.Validators,
		TransactionHashes: hashes,
	}
	if ps.ctx.PrevHash != b.PrevHash || ps.ctx.BlockIndex != b.Index || rs.ctx.PrevHash != b.PrevHash || rs.ctx.BlockIndex != b.Index {
		fail("harness-consensus-context", fmt.Sprintf("proposer ctx (%d, %s), replica ctx (%d, %s), block (%d, %s)", ps.ctx.BlockIndex, ps.ctx.PrevHash.StringLE(), rs.ctx.BlockIndex, rs.ctx.PrevHash.StringLE(), b.Index, b.PrevHash.StringLE()))
		return
	}
	// the PrepareRequest, over the wire
	req := ps.ctx.Config.NewPrepareRequest(pctx.Timestamp, pctx.Nonce, hashes)
	pl, ok := ps.ctx.Config.NewConsensusPayload(pctx, dbft.PrepareRequestType, req).(*consensus.Payload)
	if !ok {
		fail("harness-consensus-payload", "not a *consensus.Payload")
		return
	}
	_ = pl.Sign(detKey("r5-primary"))
	w := io.NewBufBinWriter()
	pl.EncodeBinary(w.BinWriter)
	if w.Err != nil {
		fail("prepare-request-does-not-serialise", w.Err.Error())
		return
	}
	reqWire := w.Bytes()
	for _, end := range []struct {
		name string
		s    *svcEnd
	}{{"pool-holder", ps}, {"fresh-replica", rs}} {
		q := consensus.NewPayload(P.BC.GetConfig().Magic, srih)
		rd := io.NewBinReaderFromBuf(reqWire)
		q.DecodeBinary(rd)
		if rd.Err != nil {
			fail("prepare-request-does-not-parse", fmt.Sprintf("%d transaction hashes: %v", len(hashes), rd.Err))
			e.out("r5-backup", "request-unparsable")
			continue
		}
		if err := end.s.ctx.Config.VerifyPrepareRequest(q); err != nil {
			fail("verifyRequest-refuses:"+end.name, fmt.Sprintf("%d transactions: %v", len(hashes), err))
			e.out("r5-backup", "verifyRequest-refuses")
		} else {
			e.out("r5-backup", "verifyRequest-ok")
		}
	}
	// the block of newBlockFromContext
	nb := ps.ctx.Config.NewBlockFromContext(pctx)
	if nb == nil {
		fail("newBlockFromContext-nil", "")
		return
	}
	if nb.Hash() != b.Hash() {
		fail("consensus-block-is-not-the-accepted-one", fmt.Sprintf("newBlockFromContext gives %s, the block the ledgers accept is %s", nb.Hash().StringLE(), b.Hash().StringLE()))
	}
	own := make([]dbft.Transaction[util.Uint256], len(sel))
	wired := make([]dbft.Transaction[util.Uint256], len(sel))
	for i, tx := range sel {
		own[i] = tx
		c, err := transaction.NewTransactionFromBytes(tx.Bytes())
		if err != nil {
			fail("harness-consensus-tx", err.Error())
			return
		}
		wired[i] = c
	}
	class := func(ok bool, why string) string {
		if ok {
			return "ok"
		}
		if i := strings.Index(why, " hash="); i > 0 {
			why = why[:i]
		}
		if len(why) > 60 {
			why = why[:60]
		}
		return "refused:" + why
	}
	nb.SetTransactions(own)
	ps.logs.TakeAll()
	okP := ps.ctx.Config.VerifyBlock(nb)
	whyP := ps.lastWarn()
	e.out("r5-backup", "verifyBlock:pool-holder:"+class(okP, whyP))
	if !okP {
		fail("verifyBlock-refuses:pool-holder", fmt.Sprintf("%d transactions, system fee %d: %s", len(sel), sumSys(sel), whyP))
	}
	nr := rs.ctx.Config.NewBlockFromContext(pctx)
	if nr == nil {
		fail("newBlockFromContext-nil", "on the replica")
		return
	}
	if nr.Hash() != b.Hash() {
		fail("consensus-block-is-not-the-accepted-one", fmt.Sprintf("the replica's newBlockFromContext gives %s, the block the ledgers accept is %s", nr.Hash().StringLE(), b.Hash().StringLE()))
	}
	nr.SetTransactions(wired)
	rs.logs.TakeAll()
	okR := rs.ctx.Config.VerifyBlock(nr)
	whyR := rs.lastWarn()
	e.out("r5-backup", "verifyBlock:fresh-replica:"+class(okR, whyR))
	if !okR {
		fail("verifyBlock-refuses:fresh-replica", fmt.Sprintf("%d transactions, system fee %d: %s", len(sel), sumSys(sel), whyR))
	}
	e.r.Outcome(fmt.Sprintf("backup:txs=%d:%v/%v", min(len(sel), 5), okP, okR))
}

func sumSys(txs []*transaction.Transaction) int64 {
	var s int64
	for _, t := range txs {
		s += t.SystemFee
	}
	return s
}
