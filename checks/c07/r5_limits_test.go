package c07

// Fifth round, part 2 (family `limits`): pool contents that sit EXACTLY on a
// block limit, one unit below and one unit above, proposed through e.propose
// (which now ends in the real consensus service's verifyRequest / verifyBlock
// on two kinds of backups, r5_backup_test.go, and in AddBlock):
//
//	system fee   one transaction carrying MaxBlockSystemFee+d; 2, 3, 4
//	             transactions summing to MaxBlockSystemFee+d; the same followed /
//	             preceded / interleaved by zero-fee transactions; a transaction
//	             that is cut followed by one that would fit
//	count        MaxTransactionsPerBlock+d pooled transactions (zero fee, and
//	             summing to the fee limit at the same time)
//	size         two transactions filling MaxBlockSize+d (the estimate with the
//	             block witness), with and without the state root in the header
//
// d in {-1, 0, +1}; every scenario in both admission orders. The limits are
// small (MaxTransactionsPerBlock 4, MaxBlockSystemFee 25 GAS) and come from the
// protocol configuration of the family.

import (
	"fmt"
	"strings"

	"github.com/nspcc-dev/neo-go/pkg/config"
	"github.com/nspcc-dev/neo-go/pkg/core/transaction"

	"verif/lib/chainx"
	"verif/lib/vk"
)

type r5Count struct {
	svcChecks, limCases, limPooled, limRefused, limCut vk.Counter
}

const (
	limMaxTx = 4
	limSys   = int64(maxBlockSysFee)
)

// limTx is one pooled transaction of a scenario: system fee and script length;
// the position in the list is the intended pool order (fee per byte falls).
type limTx struct {
	Sys int64
	Len int
}

type limScenario struct {
	Name string
	Kind string // fee | count | size
	Txs  func(d int64) []limTx
}

func limScenarios() []limScenario {
	L := limSys
	z := func(sys ...int64) []limTx {
		var out []limTx
		for i, s := range sys {
			out = append(out, limTx{Sys: s, Len: 10 + i})
		}
		return out
	}
	return []limScenario{
		{"one-at-limit", "fee", func(d int64) []limTx { return z(L + d) }},
		{"two-sum-to-limit", "fee", func(d int64) []limTx { return z(L/2, L-L/2+d) }},
		{"unit-then-rest", "fee", func(d int64) []limTx { return z(1, L-1+d) }},
		{"three-sum-to-limit", "fee", func(d int64) []limTx { return z(L/3, L/3, L-2*(L/3)+d) }},
		{"limit-then-zeros", "fee", func(d int64) []limTx { return z(L+d, 0, 0) }},
		{"two-sum-then-zero", "fee", func(d int64) []limTx { return z(L/2, L-L/2+d, 0) }},
		{"zero-then-limit", "fee", func(d int64) []limTx { return z(0, L+d) }},
		{"zeros-interleaved", "fee", func(d int64) []limTx { return z(0, L/2, 0, L-L/2+d) }},
		{"cut-then-one-that-fits", "fee", func(d int64) []limTx { return z(L/2+d, L/2+1, 1) }},
		{"four-sum-to-limit", "fee", func(d int64) []limTx { return z(L/4, L/4, L/4, L-3*(L/4)+d) }},
		{"four-sum-to-limit-then-zero", "fee", func(d int64) []limTx { return z(L/4, L/4, L/4, L-3*(L/4)+d, 0) }},
		{"count-zero-fee", "count", func(d int64) []limTx {
			var out []limTx
			for i := 0; i < limMaxTx+int(d); i++ {
				out = append(out, limTx{Sys: 0, Len: 10 + i})
			}
			return out
		}},
		{"count-unit-fee", "count", func(d int64) []limTx {
			var out []limTx
			for i := 0; i < limMaxTx+int(d); i++ {
				out = append(out, limTx{Sys: 1, Len: 10 + i})
			}
			return out
		}},
		{"size-two-fill-block", "size", func(d int64) []limTx { return []limTx{{Sys: gas, Len: 600}, {Sys: gas, Len: 300}} }},
		{"size-two-fill-block-then-small", "size", func(d int64) []limTx { return []limTx{{Sys: gas, Len: 600}, {Sys: gas, Len: 300}, {Sys: 0, Len: 10}} }},
		{"size-one-fills-block", "size", func(d int64) []limTx { return []limTx{{Sys: gas, Len: 700}} }},
	}
}

// limFam is a protocol family of the limits sub-check.
type limFam struct {
	Name    string
	SRIH    bool
	maxSize uint32 // 0: the default
	fam     chainx.Family
	batches []chainx.Batch
}

func (f *limFam) newNode() (*chainx.Node, error) {
	o := f.fam.Opts()
	o.Store = chainx.NewRecStore(chainx.ApplyBatches(f.batches, len(f.batches)))
	return chainx.New(o)
}

func (e *env) prepareLimFam(f *limFam) error {
	f.fam = chainx.Family{Name: f.Name, SRIH: f.SRIH, Extra: func(c *config.Blockchain) {
		c.MaxTransactionsPerBlock = limMaxTx
		c.MaxBlockSystemFee = limSys
		c.MemPoolSize = 64
		if f.maxSize != 0 {
			c.MaxBlockSize = f.maxSize
		}
	}}
	sc, err := chainx.NewScenario(f.fam, 0, []chainx.Tpl{setupTpl()})
	if err == nil {
		err = sc.Grow([]int{0})
	}
	if err != nil {
		return err
	}
	n, _, err := sc.RefNode([]int{0})
	if err != nil {
		return err
	}
	if err := n.Persist(); err != nil {
		n.Close()
		return err
	}
	rec := n.Store.(*chainx.RecStore)
	n.Close()
	f.batches = rec.Batches()
	return nil
}

var limSenders = []int{1, 2, 5, 6, 8, 3}

// limBuild makes the transactions of a scenario on node n (any node in the
// state after the setup block): position i pays (len-i)*1000 datoshi per byte
// above the threshold, so the pool order is the list order.
func limBuild(n *chainx.Node, sc *limScenario, d int64) ([]*transaction.Transaction, error) {
	specs := sc.Txs(d)
	var out []*transaction.Transaction
	for i, s := range specs {
		sp := &txSpec{Label: fmt.Sprintf("lim-%s-%d-%d", sc.Name, d, i), Signers: []*acct{sigAcct(limSenders[i%len(limSenders)])}, Script: nops(s.Len), SysFee: s.Sys}
		tx, err := boosted(n, sp, int64(len(specs)-i)*1000)
		if err != nil {
			return nil, err
		}
		out = append(out, tx)
	}
	return out, nil
}

func (e *env) limEmptyBlockLen(srih bool) (int, error) {
	g, err := chainx.New(chainx.Opts{SRIH: srih})
	if err != nil {
		return 0, err
	}
	defer g.Close()
	eb, err := g.NewBlock()
	if err != nil {
		return 0, err
	}
	bb, err := chainx.BlockBytes(eb)
	return len(bb), err
}

type limJob struct {
	f     *limFam
	sc    *limScenario
	d     int64
	order string
	txs   [][]byte
}

func (e *env) limJobs() ([]limJob, []*limFam, error) {
	probe, _, err := e.sc.RefNode([]int{tSetup})
	if err != nil {
		return nil, nil, err
	}
	defer probe.Close()
	scs := limScenarios()
	var fams []*limFam
	var jobs []limJob
	for _, srih := range []bool{false, true} {
		tag := "plain"
		if srih {
			tag = "srih"
		}
		base := &limFam{Name: "lim-" + tag, SRIH: srih}
		if err := e.prepareLimFam(base); err != nil {
			return nil, nil, fmt.Errorf("%s: %w", base.Name, err)
		}
		fams = append(fams, base)
		h0, err := e.limEmptyBlockLen(srih)
		if err != nil {
			return nil, nil, err
		}
		for si := range scs {
			sc := &scs[si]
			for _, d := range []int64{-1, 0, 1} {
				txs, err := limBuild(probe, sc, d)
				if err != nil {
					return nil, nil, fmt.Errorf("%s d=%d: %w", sc.Name, d, err)
				}
				var raw [][]byte
				for _, t := range txs {
					raw = append(raw, t.Bytes())
				}
				f := base
				if sc.Kind == "size" {
					// the first two (or the only) transactions fill MaxBlockSize + d exactly
					sz := h0
					for i, t := range txs {
						if i < 2 {
							sz += len(t.Bytes())
						}
					}
					f = &limFam{Name: fmt.Sprintf("lim-%s-%s%+d", tag, sc.Name, d), SRIH: srih, maxSize: uint32(int64(sz) + d)}
					if err := e.prepareLimFam(f); err != nil {
						return nil, nil, fmt.Errorf("%s: %w", f.Name, err)
					}
					fams = append(fams, f)
				}
				for _, o := range []string{"asc", "desc"} {
					if len(raw) < 2 && o != "asc" {
						continue
					}
					jobs = append(jobs, limJob{f: f, sc: sc, d: d, order: o, txs: raw})
				}
			}
		}
	}
	return jobs, fams, nil
}

func (e *env) runLimits() map[string]any {
	jobs, fams, err := e.limJobs()
	if err != nil {
		e.f.add("limits:harness:families", &caseRec{Sub: "limits", Note: err.Error()})
		return nil
	}
	e.r.Parallel(len(jobs), func(i int) { e.limCase(&jobs[i]) })
	var fn []string
	for _, f := range fams {
		fn = append(fn, f.Name)
	}
	var sn []string
	for _, s := range limScenarios() {
		sn = append(sn, s.Name)
	}
	return map[string]any{"families": fn, "scenarios": sn, "deltas": []int{-1, 0, 1}, "orders": []string{"asc", "desc"}, "jobs": len(jobs),
		"MaxTransactionsPerBlock": limMaxTx, "MaxBlockSystemFee": limSys}
}

func (e *env) limCase(j *limJob) {
	name := fmt.Sprintf("%s:%s:d=%+d:%s", j.f.Name, j.sc.Name, j.d, j.order)
	rec := &caseRec{Sub: "limits", Family: j.f.Name, Shape: j.sc.Name, Subset: []int{int(j.d)}, Order: j.order}
	fail := func(what, note string) {
		r := *rec
		r.Note = note
		e.f.add(fmt.Sprintf("limits:%s:%s:%s:d=%+d", what, j.f.Name, j.sc.Name, j.d), &r)
	}
	defer func() {
		if p := recover(); p != nil {
			fail("panic", fmt.Sprint(p))
		}
	}()
	e.r5.limCases.Inc()
	P, err := j.f.newNode()
	if err != nil {
		fail("harness-replica", err.Error())
		return
	}
	defer P.Close()
	idx := make([]int, len(j.txs))
	for i := range idx {
		idx[i] = i
	}
	if j.order == "desc" {
		for a, b := 0, len(idx)-1; a < b; a, b = a+1, b-1 {
			idx[a], idx[b] = idx[b], idx[a]
		}
	}
	specs := j.sc.Txs(j.d)
	pooled := 0
	var total int64
	for _, i := range idx {
		tx, err := transaction.NewTransactionFromBytes(j.txs[i])
		if err != nil {
			fail("harness-tx", err.Error())
			return
		}
		err = P.BC.PoolTx(tx)
		// the only transactions of this family the node may refuse: system fee above the block limit
		if over := specs[i].Sys > limSys; over != (err != nil) {
			if err != nil {
				fail("admission-refuses", fmt.Sprintf("transaction %d (system fee %d, limit %d): %v", i, specs[i].Sys, limSys, err))
			} else {
				fail("admission-accepts-fee-above-block-limit", fmt.Sprintf("transaction %d (system fee %d, limit %d)", i, specs[i].Sys, limSys))
			}
		}
		if err != nil {
			e.r5.limRefused.Inc()
			e.out("limits", "admission:"+errClass(err))
			continue
		}
		pooled++
		total += specs[i].Sys
		e.r5.limPooled.Inc()
	}
	lim := limitsOf(P)
	nsel, wlen, _, ok := e.propose(P, "limits", lim, j.f.newNode, fail)
	if !ok {
		return
	}
	// what the packing had to keep: the longest prefix of the pool order within all three limits
	if nsel < pooled {
		e.r5.limCut.Inc()
	}
	e.out("limits", fmt.Sprintf("%s:d=%+d:pooled=%d:in-block=%d", j.sc.Name, j.d, pooled, nsel))
	e.r.Outcome(fmt.Sprintf("limits:%s:d=%+d:in-block=%d", j.sc.Kind, j.d, nsel))
	e.count.states.Add("limits/" + name)
	e.r.Sample(map[string]any{"sub": "limits", "case": name, "pooled": pooled, "pooled_system_fee": total, "in_block": nsel, "block_bytes": wlen, "MaxBlockSize": lim.MaxSize})
}

func (e *env) replayLimits(c *caseRec) string {
	jobs, _, err := e.limJobs()
	if err != nil {
		return "harness: " + err.Error()
	}
	if len(c.Subset) != 1 {
		return "harness: no delta recorded"
	}
	sub := newFindings()
	old := e.f
	e.f = sub
	defer func() { e.f = old }()
	found := false
	for i := range jobs {
		j := &jobs[i]
		if j.f.Name == c.Family && j.sc.Name == c.Shape && int(j.d) == c.Subset[0] && j.order == c.Order {
			e.limCase(j)
			found = true
		}
	}
	if !found {
		return "harness: unknown case"
	}
	var out []string
	for k, f := range sub.m {
		out = append(out, k+": "+f.Detail.Note)
	}
	return strings.Join(out, "; ")
}
