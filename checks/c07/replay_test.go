package c07

import (
	"encoding/hex"
	"fmt"
	"os"
	"strings"

	"github.com/nspcc-dev/neo-go/pkg/core/mempool"
	"github.com/nspcc-dev/neo-go/pkg/core/transaction"
)

// replay re-runs one recorded case five times on fresh replicas.
func replay(e *env) {
	var c caseRec
	if err := e.r.ReadReplay(&c); err != nil {
		fmt.Println("cannot read replay:", err)
		os.Exit(3)
	}
	n := 0
	for i := 0; i < 5; i++ {
		var msg string
		switch c.Sub {
		case "sound", "fee":
			msg = e.replaySubmit(&c)
		case "script":
			msg = e.replayScript(&c)
		case "encoding":
			msg = e.replayEncoding(&c)
		case "proposable":
			msg = e.replayBlock(&c)
		case "proposable-attr":
			msg = e.replayAttrBlock(&c)
		case "e2e":
			msg = e.replayE2E(&c)
		case "stale":
			msg = e.replayStale(&c)
		case "count":
			msg = e.replayCount(&c)
		case "rebuilt":
			msg = e.replayRebuilt(&c)
		case "payers":
			msg = e.replayPayers(&c)
		case "encodings":
			msg = e.replayEncodings(&c)
		case "limits":
			msg = e.replayLimits(&c)
		default:
			fmt.Println("unknown sub-check in replay:", c.Sub)
			os.Exit(3)
		}
		if msg != "" {
			n++
			fmt.Printf("replay %d: REPRODUCED: %s\n", i, msg)
			rc := c
			rc.Note = msg
			key := c.Key
			if key == "" {
				key = "replay:" + c.Sub + ":" + c.Rule + ":" + c.Shape + ":" + c.State + c.Family + ":" + c.Path
			}
			e.r.Violation(key, &rc)
		} else {
			fmt.Printf("replay %d: the case passes\n", i)
		}
	}
	e.r.Finish(map[string]any{"states": 1, "transitions": 5, "traces_validated_against_impl": 5, "reproduced": n}, nil)
}

func unhex(s string) []byte {
	b, err := hex.DecodeString(s)
	if err != nil {
		fmt.Println("bad hex in replay:", err)
		os.Exit(3)
	}
	return b
}

func (e *env) replayRunner(c *caseRec) *runner {
	st := e.state(c.State)
	if st == nil {
		fmt.Println("unknown state in replay:", c.State)
		os.Exit(3)
	}
	rn, err := e.newRunner(st)
	if err != nil {
		fmt.Println("replay: replica:", err)
		os.Exit(3)
	}
	for _, p := range c.Pre {
		if v := rn.submit(pathFromBytes, unhex(p), true); !v.OK {
			fmt.Println("replay: pre-pooled transaction rejected:", v.Err)
		}
	}
	return rn
}

func (rn *runner) via(path string, b []byte) verdict {
	if path == "rpc" {
		return rn.submitRPC(b)
	}
	if path == "p2p" {
		tx, err := transaction.NewTransactionFromBytes(b)
		if err != nil {
			return verdict{Class: "decode", Err: err.Error()}
		}
		return rn.submitP2P(tx)
	}
	if path == "pooltxwithdata" {
		tx, err := transaction.NewTransactionFromBytes(b)
		if err != nil {
			return verdict{Class: "decode", Err: err.Error()}
		}
		if err := rn.n.BC.PoolTxWithData(tx, struct{}{}, mempool.New(4, false, nil), rn.n.BC, nil); err != nil {
			return verdict{Class: errClass(err), Err: err.Error(), Dec: true}
		}
		return verdict{OK: true, Class: "ok", Dec: true}
	}
	if path == "verifytx" {
		tx, err := transaction.NewTransactionFromBytes(b)
		if err != nil {
			return verdict{Class: "decode", Err: err.Error()}
		}
		return rn.verify(tx)
	}
	return rn.submit(path, b, false)
}

func (e *env) replaySubmit(c *caseRec) string {
	rn := e.replayRunner(c)
	defer rn.close()
	if c.Sub == "fee" && (c.Path == "rpc" || c.Path == "neotest") {
		// the recorded transaction carries the threshold as its network fee
		tx, err := transaction.NewTransactionFromBytes(unhex(c.Tx))
		if err != nil {
			return "harness: " + err.Error()
		}
		if c.Path == "rpc" {
			got, err := rn.rpcFee(tx)
			if err != nil {
				return "calculatenetworkfee failed: " + err.Error()
			}
			if got != tx.NetworkFee {
				return fmt.Sprintf("calculatenetworkfee says %d, the acceptance threshold is %d", got, tx.NetworkFee)
			}
			return ""
		}
		var signers []*acct
		for _, s := range tx.Signers {
			a := rn.facts.Accts[s.Account]
			for pos := 0; pos < 3 && a == nil; pos++ {
				for _, sh := range sigShapes() {
					if x := sh.acct(pos); x.Hash == s.Account {
						a = x
					}
				}
			}
			if a == nil {
				return "harness: unknown signer in the recorded transaction"
			}
			signers = append(signers, a)
		}
		if got, ok := neotestFee(rn.n, tx, signers); ok && got != tx.NetworkFee {
			return fmt.Sprintf("neotest.AddNetworkFee says %d, the acceptance threshold is %d", got, tx.NetworkFee)
		}
		return ""
	}
	before := rn.poolList()
	v := rn.via(c.Path, unhex(c.Tx))
	var out []string
	wantOK := strings.HasPrefix(c.Want, "accepted")
	if v.OK != wantOK {
		out = append(out, fmt.Sprintf("want %s (%s), got %s %s", c.Want, c.Why, v, v.Err))
	} else if strings.Contains(c.Want, "for the fee") && v.Class != "ErrTxSmallNetworkFee" && v.Class != "ErrVerificationFailed" {
		out = append(out, fmt.Sprintf("want %s, got %s %s", c.Want, v, v.Err))
	}
	if !v.OK {
		if after := rn.poolList(); after != before {
			out = append(out, "mempool listing changed by a rejected transaction: "+before+" -> "+after)
		}
		if ch := rn.ledgerChanged(); ch != "" {
			out = append(out, "ledger changed by a rejected transaction: "+ch)
		}
	}
	return strings.Join(out, "; ")
}

func (e *env) replayEncoding(c *caseRec) string {
	rn := e.replayRunner(c)
	defer rn.close()
	canon, alt := unhex(c.Canonical), unhex(c.Tx)
	ctx, cerr := decodeVia(c.Path, canon)
	atx, aerr := decodeVia(c.Path, alt)
	if aerr != nil {
		return ""
	}
	if cerr != nil {
		return "the decoder accepts this spelling and rejects the canonical one: " + cerr.Error()
	}
	var out []string
	if !sameContent(atx, canon) {
		out = append(out, "content differs")
	}
	if atx.Hash() != ctx.Hash() {
		out = append(out, fmt.Sprintf("hash %s != canonical %s", atx.Hash().StringLE(), ctx.Hash().StringLE()))
	}
	if atx.Size() != ctx.Size() {
		out = append(out, fmt.Sprintf("size %d != canonical %d", atx.Size(), ctx.Size()))
	}
	cv := rn.submit(c.Path, canon, false)
	av := rn.submit(c.Path, alt, false)
	if cv.OK != av.OK {
		out = append(out, fmt.Sprintf("verdict %s %s != canonical %s %s", av, av.Err, cv, cv.Err))
	}
	return strings.Join(out, "; ")
}

func (e *env) replayBlock(c *caseRec) string {
	probe, _, err := e.sc.RefNode([]int{tSetup})
	if err != nil {
		return "harness: " + err.Error()
	}
	al, err := buildAlphabet(probe)
	probe.Close()
	if err != nil {
		return "harness: " + err.Error()
	}
	e.thor = true // all families
	var fam *blockFam
	for _, f := range e.blockFams() {
		if f.Name == c.Family {
			fam = f
		}
	}
	if fam == nil {
		return "harness: unknown family " + c.Family
	}
	if err := e.prepareFam(fam, al); err != nil {
		return "harness: " + err.Error()
	}
	var extra []byte
	if c.Tx != "" {
		extra = unhex(c.Tx)
	}
	sub := newFindings()
	old := e.f
	e.f = sub
	e.blockCase(fam, al, c.Subset, "as-recorded", extra)
	e.f = old
	var out []string
	for k, f := range sub.m {
		out = append(out, k+": "+f.Detail.Note)
	}
	return strings.Join(out, "; ")
}

func (e *env) replayAttrBlock(c *caseRec) string {
	st := e.state(c.State)
	if st == nil {
		return "harness: unknown state " + c.State
	}
	cb := []sigShape{{}}
	if c.Shape == "sig+2of3" {
		cb = append(cb, sigShape{2, 3})
	}
	for _, m := range attrMixes(true) {
		if m.Name != c.Rule {
			continue
		}
		sub := newFindings()
		old := e.f
		e.f = sub
		e.attrBlockCase(st, m, cb, c.Order)
		e.f = old
		var out []string
		for k, f := range sub.m {
			out = append(out, k+": "+f.Detail.Note)
		}
		return strings.Join(out, "; ")
	}
	return "harness: unknown attribute shape " + c.Rule
}

func (e *env) replayScript(c *caseRec) string {
	rn := e.replayRunner(c)
	defer rn.close()
	b := unhex(c.Tx)
	var v verdict
	switch c.Path {
	case "addblock":
		v = rn.viaBlock(b)
	default:
		v = rn.via(c.Path, b)
	}
	if v.OK != strings.HasPrefix(c.Want, "accepted") {
		return fmt.Sprintf("%s; reference says %s (%s), got %s %s", c.Note, c.Want, c.Why, v, v.Err)
	}
	return ""
}
