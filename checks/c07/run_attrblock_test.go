package c07

import (
	"encoding/hex"
	"fmt"

	"github.com/nspcc-dev/neo-go/pkg/core/transaction"

	"verif/lib/chainx"
)

// runAttrBlocks is the end-to-end clause of the property at the attribute fee
// boundaries: for every attribute shape of the fee alphabet a transaction
// paying exactly the required fee, one unit less, and nothing for the
// attributes is offered to the pool of a proposer; whatever the pool admits is
// packed by ApplyPolicyToTxSet, sent over the wire and must be accepted by a
// replica that never saw the pool (same state root as the proposer).
func (e *env) runAttrBlocks() map[string]any {
	type job struct {
		st      *state
		mix     attrMix
		signers []sigShape
		variant string
	}
	var jobs []job
	mixes := attrMixes(true)
	variants := []string{"exact", "one-less", "attribute-fee-unpaid"}
	for _, m := range mixes {
		st := e.state("preamble")
		shapes := [][]sigShape{{{}}, {{}, {2, 3}}}
		if m.Oracle {
			st = e.state("oracle")
			shapes = shapes[:1]
		}
		for _, sh := range shapes {
			for _, v := range variants {
				if m.Name == "none" && v == "attribute-fee-unpaid" {
					continue
				}
				jobs = append(jobs, job{st, m, sh, v})
			}
		}
	}
	e.r.Parallel(len(jobs), func(i int) {
		j := jobs[i]
		e.attrBlockCase(j.st, j.mix, j.signers, j.variant)
	})
	var names []string
	for _, m := range mixes {
		names = append(names, m.Name)
	}
	return map[string]any{"attribute_shapes": names, "fee_variants": variants, "signers": []string{"sig", "sig+2of3"}, "jobs": len(jobs)}
}

func (e *env) attrBlockCase(st *state, mix attrMix, cb []sigShape, variant string) {
	name := ""
	for i, s := range cb {
		if i > 0 {
			name += "+"
		}
		name += s.String()
	}
	rec := &caseRec{Sub: "proposable-attr", State: st.Name, Rule: mix.Name, Shape: name, Order: variant}
	fail := func(what, note string) {
		r := *rec
		r.Note = note
		e.f.add(fmt.Sprintf("proposable:attr-%s:%s:%s:%s", what, mix.Name, variant, name), &r)
	}
	defer func() {
		if p := recover(); p != nil {
			fail("panic", fmt.Sprint(p))
		}
	}()
	e.count.block.Inc()
	P, _, err := e.sc.RefNode(st.Hist)
	if err != nil {
		fail("harness-replica", err.Error())
		return
	}
	defer P.Close()
	b, err := attrTx(P, st, mix, cb, variant)
	if err != nil {
		fail("harness-build", err.Error())
		return
	}
	if b == nil {
		return // the variant does not exist for this shape (no attribute fee)
	}
	rec.Tx = hex.EncodeToString(b)
	tx, err := transaction.NewTransactionFromBytes(b)
	if err != nil {
		fail("harness-decode", err.Error())
		return
	}
	perr := P.BC.PoolTx(tx)
	e.out("proposable", fmt.Sprintf("attr:%s:%s->%s", mix.Name, variant, errClass(perr)))
	e.count.states.Add(fmt.Sprintf("proposable-attr/%s/%s/%s", mix.Name, name, variant))
	if perr != nil {
		if variant == "exact" {
			fail("not-admitted", perr.Error())
		}
		return
	}
	cfg := P.BC.GetConfig()
	lim := limits{MaxTx: int(cfg.MaxTransactionsPerBlock), MaxSize: int(cfg.MaxBlockSize), MaxSys: cfg.MaxBlockSystemFee}
	newR := func() (*chainx.Node, error) {
		n, _, err := e.sc.RefNode(st.Hist)
		return n, err
	}
	nsel, _, _, ok := e.propose(P, "single", lim, newR, fail)
	if ok && nsel != 1 {
		fail("not-packed", fmt.Sprintf("%d transactions in the block", nsel))
	}
}

// attrTx builds the transaction of an attribute shape with the given fee variant on n.
func attrTx(n *chainx.Node, st *state, mix attrMix, cb []sigShape, variant string) ([]byte, error) {
	bc := n.BC
	magic := uint32(bc.GetConfig().Magic)
	var signers []*acct
	for pos, s := range cb {
		signers = append(signers, s.acct(pos))
	}
	if mix.Extra != nil {
		signers = append(signers, mix.Extra(n))
	}
	sp := &txSpec{Label: "attrblock/" + mix.Name + "/" + variant + fmt.Sprint(len(cb)), Signers: signers, Script: nops(4), SysFee: gas / 10}
	if mix.Oracle {
		sp.Signers = []*acct{oracleContractAcct(), oracleNodesAcct()}
		sp.Script = oracleResponseScript()
		sp.SysFee = sysFeeOracle
	}
	sp.Attrs = mix.Attrs(bc.BlockHeight(), len(sp.Signers))
	tx := unsigned(bc.BlockHeight(), sp)
	calc, _, err := calcFee(bc, magic, tx, sp.Signers)
	if err != nil {
		return nil, err
	}
	attrFee, err := attrFeeRef(bc, tx)
	if err != nil {
		return nil, err
	}
	tx = fresh(tx)
	switch variant {
	case "exact":
		tx.NetworkFee = calc
	case "one-less":
		tx.NetworkFee = calc - 1
	case "attribute-fee-unpaid":
		if attrFee == 0 {
			return nil, nil
		}
		tx.NetworkFee = calc - attrFee
	}
	fixSysFee(sp, tx)
	sign(magic, tx, sp.Signers)
	return tx.Bytes(), nil
}
