package c07

import (
	"encoding/hex"
	"fmt"
	"sort"
	"strings"

	"github.com/nspcc-dev/neo-go/pkg/config"
	"github.com/nspcc-dev/neo-go/pkg/core/mempool"
	"github.com/nspcc-dev/neo-go/pkg/core/transaction"

	"verif/lib/chainx"
)

// blockFam is a protocol family with small block limits.
type blockFam struct {
	Name      string
	SRIH      bool
	MaxTx     uint16
	SizeSlack int // MaxBlockSize = empty block + size(a4) + size(a0) + SizeSlack
	maxSize   uint32
	sc        *chainx.Scenario
	fam       chainx.Family
	batches   []chainx.Batch // the store content after the setup block
}

// newNode opens a replica on a private copy of the family's store (the state
// after the setup block) - the same as replaying the blocks, but cheaper.
func (f *blockFam) newNode() (*chainx.Node, error) {
	o := f.fam.Opts()
	o.Store = chainx.NewRecStore(chainx.ApplyBatches(f.batches, len(f.batches)))
	n, err := chainx.New(o)
	if err != nil {
		return nil, err
	}
	if n.BC.BlockHeight() != 4 {
		n.Close()
		return nil, fmt.Errorf("replica opened at height %d", n.BC.BlockHeight())
	}
	return n, nil
}

const maxBlockSysFee = 25 * gas

// alpha is the transaction alphabet of the proposable-blocks sub-check.
type alpha struct {
	Names []string
	Bytes [][]byte
	Sizes []int
}

// boosted builds spec with k extra datoshi of network fee per byte.
func boosted(n *chainx.Node, sp *txSpec, k int64) (*transaction.Transaction, error) {
	tx, _, err := build(n, sp)
	if err != nil {
		return nil, err
	}
	if k == 0 {
		return tx, nil
	}
	sp.NetDelta = k * int64(len(tx.Bytes()))
	tx, _, err = build(n, sp)
	return tx, err
}

func buildAlphabet(n *chainx.Node) (*alpha, error) {
	a := &alpha{}
	add := func(name string, sp *txSpec, k int64) (*transaction.Transaction, error) {
		sp.Label = "alpha-" + name
		tx, err := boosted(n, sp, k)
		if err != nil {
			return nil, fmt.Errorf("%s: %w", name, err)
		}
		a.Names = append(a.Names, name)
		a.Bytes = append(a.Bytes, tx.Bytes())
		a.Sizes = append(a.Sizes, len(tx.Bytes()))
		return tx, nil
	}
	s := func(i int) []*acct { return []*acct{sigAcct(i)} }
	a0, err := add("a0-small", &txSpec{Signers: s(1), Script: nops(10), SysFee: gas}, 0)
	if err != nil {
		return nil, err
	}
	if _, err = add("a1-small+1byte-richer", &txSpec{Signers: s(1), Script: nops(11), SysFee: gas}, 5000); err != nil {
		return nil, err
	}
	if _, err = add("a2-sysfee15", &txSpec{Signers: s(2), Script: nops(12), SysFee: 15 * gas}, 3000); err != nil {
		return nil, err
	}
	if _, err = add("a3-sysfee15", &txSpec{Signers: s(2), Script: nops(13), SysFee: 15 * gas}, 2000); err != nil {
		return nil, err
	}
	if _, err = add("a4-fills-block", &txSpec{Signers: s(5), Script: nops(1300), SysFee: gas}, 8000); err != nil {
		return nil, err
	}
	if _, err = add("a5-fills-block+1byte", &txSpec{Signers: s(5), Script: nops(1301), SysFee: gas}, 7000); err != nil {
		return nil, err
	}
	if _, err = add("a6-conflicts-with-a0", &txSpec{Signers: s(1), Script: nops(14), SysFee: gas, Attrs: []transaction.Attribute{attrConflicts(a0.Hash())}}, 6000); err != nil {
		return nil, err
	}
	if _, err = add("a7-larger-than-block", &txSpec{Signers: s(6), Script: nops(3000), SysFee: gas}, 9000); err != nil {
		return nil, err
	}
	if _, err = add("a8-highpriority", &txSpec{Signers: []*acct{committeeAcct(n)}, Script: nops(15), SysFee: gas, Attrs: []transaction.Attribute{attrHP}}, 0); err != nil {
		return nil, err
	}
	if _, err = add("a9-ties-with-a0", &txSpec{Signers: s(8), Script: nops(10), SysFee: gas}, 0); err != nil {
		return nil, err
	}
	if a.Sizes[9] != a.Sizes[0] || a.Sizes[1] != a.Sizes[0]+1 || a.Sizes[5] != a.Sizes[4]+1 {
		return nil, fmt.Errorf("alphabet sizes not as designed: %v", a.Sizes)
	}
	return a, nil
}

// respelledTx is a0's content with a non-minimal script length, signed over
// the hash the P2P/RPC entry path computes for it (what a sender who wants it
// accepted there would do).
func respelledTx(n *chainx.Node) ([]byte, error) {
	magic := uint32(n.BC.GetConfig().Magic)
	sp := &txSpec{Label: "alpha-respelled", Signers: []*acct{sigAcct(1)}, Script: nops(10), SysFee: gas, NetDelta: 2 * n.BC.FeePerByte()}
	tx, _, err := build(n, sp)
	if err != nil {
		return nil, err
	}
	canon := tx.Bytes()
	sites, err := findSites(canon)
	if err != nil {
		return nil, err
	}
	for _, s := range sites {
		if s.Field != "script-len" {
			continue
		}
		alts, _ := respell(canon, s, []int{3})
		alt := alts[0]
		got, err := transaction.NewTransactionFromBytes(alt)
		if err != nil {
			return nil, nil // the entry path does not accept this spelling: nothing to pool
		}
		w := sigAcct(1).witness(magic, got) // signs got.Hash()
		hp, _ := tx.EncodeHashableFields()
		wlen := len(canon) - len(hp)
		out := append([]byte{}, alt[:len(alt)-wlen]...)
		out = append(out, 1)
		out = append(out, w.Bytes()...)
		return out, nil
	}
	return nil, fmt.Errorf("no script-len site")
}

func (e *env) blockFams() []*blockFam {
	var out []*blockFam
	maxes := []uint16{1, 2, 3}
	if e.thor {
		maxes = append(maxes, 4)
	}
	for _, srih := range []bool{false, true} {
		for _, m := range maxes {
			out = append(out, &blockFam{SRIH: srih, MaxTx: m})
		}
		out = append(out, &blockFam{SRIH: srih, MaxTx: 3, SizeSlack: -1})
		if e.thor {
			out = append(out, &blockFam{SRIH: srih, MaxTx: 2, SizeSlack: -1}, &blockFam{SRIH: srih, MaxTx: 4, SizeSlack: 1})
		}
	}
	for _, f := range out {
		f.Name = fmt.Sprintf("plain-maxtx%d-size%+d", f.MaxTx, f.SizeSlack)
		if f.SRIH {
			f.Name = fmt.Sprintf("srih-maxtx%d-size%+d", f.MaxTx, f.SizeSlack)
		}
	}
	return out
}

func subsets(n, maxK int) [][]int {
	var out [][]int
	var cur []int
	var rec func(start, k int)
	rec = func(start, k int) {
		if len(cur) == k {
			out = append(out, append([]int{}, cur...))
			return
		}
		for i := start; i < n; i++ {
			cur = append(cur, i)
			rec(i+1, k)
			cur = cur[:len(cur)-1]
		}
	}
	for k := 0; k <= maxK; k++ {
		rec(0, k)
	}
	return out
}

func ordered(sub []int, order string) []int {
	o := append([]int{}, sub...)
	switch order {
	case "desc":
		sort.Sort(sort.Reverse(sort.IntSlice(o)))
	case "rotate":
		if len(o) > 1 {
			o = append(o[1:], o[0])
		}
	case "inside-out":
		var r []int
		for i, j := (len(o)-1)/2, (len(o)-1)/2+1; i >= 0 || j < len(o); i, j = i-1, j+1 {
			if i >= 0 {
				r = append(r, o[i])
			}
			if j < len(o) {
				r = append(r, o[j])
			}
		}
		o = r
	}
	return o
}

// prepareFam computes the family's MaxBlockSize (a block with a4 and a0 fits
// exactly, plus SizeSlack) and builds its scenario.
func (e *env) prepareFam(f *blockFam, al *alpha) error {
	g, err := chainx.New(chainx.Opts{SRIH: f.SRIH})
	if err != nil {
		return err
	}
	eb, err := g.NewBlock()
	var h0 int
	if err == nil {
		bb, _ := chainx.BlockBytes(eb)
		h0 = len(bb)
	}
	g.Close()
	if h0 == 0 {
		return fmt.Errorf("empty block: %v", err)
	}
	f.maxSize = uint32(h0 + al.Sizes[4] + al.Sizes[0] + f.SizeSlack)
	fam := chainx.Family{Name: f.Name, SRIH: f.SRIH, Extra: func(c *config.Blockchain) {
		c.MaxTransactionsPerBlock = f.MaxTx
		c.MaxBlockSize = f.maxSize
		c.MaxBlockSystemFee = maxBlockSysFee
		c.MemPoolSize = 64
	}}
	sc, err := chainx.NewScenario(fam, 0, []chainx.Tpl{setupTpl()})
	if err == nil {
		err = sc.Grow([]int{0})
	}
	if err != nil {
		return err
	}
	f.sc = sc
	f.fam = fam
	n, _, err := sc.RefNode([]int{0})
	if err != nil {
		return err
	}
	if err := n.Persist(); err != nil {
		n.Close()
		return err
	}
	rec := n.Store.(*chainx.RecStore)
	n.Close()
	f.batches = rec.Batches()
	return nil
}

func (e *env) runBlocks() map[string]any {
	// the alphabet is built once on the state after the setup block; that state
	// (balances, height) is the same in every family
	probe, _, err := e.sc.RefNode([]int{tSetup})
	if err != nil {
		e.f.add("proposable:harness:probe", &caseRec{Sub: "proposable", Note: err.Error()})
		return nil
	}
	al, err := buildAlphabet(probe)
	var resp []byte
	if err == nil {
		resp, err = respelledTx(probe)
	}
	probe.Close()
	if err != nil {
		e.f.add("proposable:harness:alphabet", &caseRec{Sub: "proposable", Note: err.Error()})
		return nil
	}
	fams := e.blockFams()
	for _, f := range fams {
		if err := e.prepareFam(f, al); err != nil {
			e.f.add("proposable:harness:family:"+f.Name, &caseRec{Sub: "proposable", Family: f.Name, Note: err.Error()})
			return nil
		}
	}
	maxK := 4
	orders := []string{"asc", "desc"}
	if e.thor {
		maxK = 5
		orders = []string{"asc", "desc", "rotate", "inside-out"}
	}
	subs := subsets(len(al.Names), maxK)
	type job struct {
		f     *blockFam
		sub   []int
		order string
		extra []byte
	}
	var jobs []job
	for _, f := range fams {
		for _, s := range subs {
			// quick tier: subsets of 4 only in the two families where all three limits bind
			if !e.thor && len(s) > 3 && !(f.MaxTx >= 2 && f.SizeSlack == 0 && !f.SRIH) {
				continue
			}
			for _, o := range orders {
				if len(s) < 2 && o != "asc" {
					continue
				}
				if len(s) == 2 && o != "asc" && o != "desc" {
					continue
				}
				jobs = append(jobs, job{f: f, sub: s, order: o})
			}
		}
	}
	// the respelled transaction: alone and together with ordinary ones
	if resp == nil {
		e.out("proposable", "respelled-tx-rejected-by-decoder")
	}
	for _, f := range fams {
		if f.MaxTx != 3 || f.SizeSlack != 0 || resp == nil {
			continue
		}
		for _, s := range [][]int{{}, {1}, {1, 2}} {
			jobs = append(jobs, job{f: f, sub: s, order: "asc", extra: resp})
		}
	}
	e.r.Parallel(len(jobs), func(i int) {
		j := jobs[i]
		e.blockCase(j.f, al, j.sub, j.order, j.extra)
	})
	var fn []string
	for _, f := range fams {
		fn = append(fn, fmt.Sprintf("%s(MaxBlockSize=%d)", f.Name, f.maxSize))
	}
	return map[string]any{"alphabet": al.Names, "alphabet_sizes": al.Sizes, "families": fn, "max_subset": maxK, "insertion_orders": orders,
		"subsets": len(subs), "MaxBlockSystemFee": maxBlockSysFee, "jobs": len(jobs)}
}

// limits are the block limits of a family.
type limits struct {
	MaxTx   int
	MaxSize int
	MaxSys  int64
	SRIH    bool
}

// propose does what a primary does with its pool and what its peers do with
// the result: GetVerifiedTransactions -> ApplyPolicyToTxSet -> block built the
// way consensus.newBlockFromContext builds it -> serialise -> parse -> the
// backup-side checks of consensus.verifyBlock and AddBlock on a replica that
// never saw the pool; then the proposer adds its own block and the state
// roots must agree.
func (e *env) propose(P *chainx.Node, name string, lim limits, newR func() (*chainx.Node, error), fail func(what, note string)) (int, int, string, bool) {
	mp := P.BC.GetMemPool()
	verified := mp.GetVerifiedTransactions()
	sel := verified
	if len(verified) > 0 {
		sel = P.BC.ApplyPolicyToTxSet(verified)
	}
	e.out("proposable", fmt.Sprintf("%s:pool=%d->block=%d", name, len(verified), len(sel)))
	e.r.Outcome(fmt.Sprintf("proposable:pool=%d->block=%d", len(verified), len(sel)))
	e.count.states.Add(fmt.Sprintf("proposable/%s/%v", name, txids(verified)))
	// the selection is a prefix of the pool order
	for i := range sel {
		if sel[i] != verified[i] {
			fail("not-a-prefix-of-pool-order", fmt.Sprintf("selected %v of %v", txids(sel), txids(verified)))
			return 0, 0, "", false
		}
	}
	// limits on the selected set
	if len(sel) > lim.MaxTx {
		fail("exceeds-MaxTransactionsPerBlock", fmt.Sprintf("%d transactions, limit %d", len(sel), lim.MaxTx))
	}
	var sys int64
	for _, tx := range sel {
		sys += tx.SystemFee
	}
	if sys > lim.MaxSys {
		fail("exceeds-MaxBlockSystemFee", fmt.Sprintf("%d > %d", sys, lim.MaxSys))
	}
	// build like consensus.newBlockFromContext, serialise
	b, err := P.NewBlock(sel...)
	if err != nil {
		fail("harness-newblock", err.Error())
		return 0, 0, "", false
	}
	wire, err := chainx.BlockBytes(b)
	if err != nil {
		fail("block-does-not-serialise", err.Error())
		return 0, 0, "", false
	}
	if len(wire) > lim.MaxSize {
		fail("exceeds-MaxBlockSize", fmt.Sprintf("serialised block is %d bytes, MaxBlockSize %d (%d transactions)", len(wire), lim.MaxSize, len(sel)))
	}
	// a replica that never saw the pool
	R, err := newR()
	if err != nil {
		fail("harness-replica", err.Error())
		return 0, 0, "", false
	}
	defer R.Close()
	rb, err := chainx.DecodeBlock(wire, lim.SRIH)
	if err != nil {
		fail("block-does-not-parse", err.Error())
		return 0, 0, "", false
	}
	// backup-side verification as consensus.verifyBlock does it
	if sz := rb.GetExpectedBlockSize(); sz > lim.MaxSize {
		fail("backup-rejects-size", fmt.Sprintf("expected block size %d > MaxBlockSize %d", sz, lim.MaxSize))
	}
	bp := mempool.New(len(rb.Transactions)+1, false, nil)
	for _, tx := range rb.Transactions {
		c, _ := transaction.NewTransactionFromBytes(tx.Bytes())
		if err := R.BC.PoolTx(c, bp); err != nil {
			fail("backup-rejects-tx", fmt.Sprintf("%s: %v", tx.Hash().StringLE(), err))
		}
	}
	// ... and as the real consensus service does it (r5_backup_test.go)
	e.consensusCheck(P, R, sel, b, lim.SRIH, fail)
	if err := R.BC.AddBlock(rb); err != nil {
		fail("block-rejected-by-replica", err.Error())
		return 0, 0, "", false
	}
	if err := P.BC.AddBlock(b); err != nil {
		fail("block-rejected-by-proposer", err.Error())
		return 0, 0, "", false
	}
	pr, rr := P.BC.GetStateModule().CurrentLocalStateRoot(), R.BC.GetStateModule().CurrentLocalStateRoot()
	if pr != rr {
		fail("state-roots-differ", fmt.Sprintf("proposer %s, replica %s", pr.StringLE(), rr.StringLE()))
	}
	if P.BC.CurrentBlockHash() != R.BC.CurrentBlockHash() {
		fail("block-hashes-differ", "")
	}
	return len(sel), len(wire), pr.StringLE(), true
}

func (e *env) blockCase(f *blockFam, al *alpha, sub []int, order string, extra []byte) {
	ord := ordered(sub, order)
	rec := &caseRec{Sub: "proposable", Family: f.Name, Subset: ord, Order: order}
	if extra != nil {
		rec.Tx = hex.EncodeToString(extra)
	}
	var names []string
	for _, i := range ord {
		names = append(names, al.Names[i])
	}
	rec.Shape = strings.Join(names, ",")
	key := func(what string) string {
		if extra != nil {
			return fmt.Sprintf("proposable:nonminimal-varint-tx-pooled:%s:%s", what, f.Name)
		}
		return fmt.Sprintf("proposable:%s:%s", what, f.Name)
	}
	fail := func(what, note string) {
		r := *rec
		r.Note = note
		e.f.add(key(what), &r)
	}
	defer func() {
		if p := recover(); p != nil {
			fail("panic", fmt.Sprint(p))
		}
	}()
	e.count.block.Inc()
	P, err := f.newNode()
	if err != nil {
		fail("harness-replica", err.Error())
		return
	}
	defer P.Close()
	pooled := 0
	if extra != nil {
		tx, err := transaction.NewTransactionFromBytes(extra)
		if err != nil {
			e.out("proposable", "respelled-tx-rejected-by-decoder")
			return
		}
		if err := P.BC.PoolTx(tx); err != nil {
			e.out("proposable", "respelled-tx-rejected-by-pool:"+errClass(err))
			return
		}
		e.out("proposable", "respelled-tx-pooled")
		pooled++
	}
	for _, i := range ord {
		tx, err := transaction.NewTransactionFromBytes(al.Bytes[i])
		if err != nil {
			fail("harness-alphabet", err.Error())
			return
		}
		err = P.BC.PoolTx(tx)
		e.out("proposable", "pool:"+al.Names[i]+"->"+errClass(err))
		if err == nil {
			pooled++
		}
	}
	nsel, wlen, root, ok := e.propose(P, f.Name, limits{MaxTx: int(f.MaxTx), MaxSize: int(f.maxSize), MaxSys: maxBlockSysFee, SRIH: f.SRIH}, f.newNode, fail)
	if !ok {
		return
	}
	e.r.Sample(map[string]any{"sub": "proposable", "family": f.Name, "inserted": ord, "pooled": pooled, "in_block": nsel, "block_bytes": wlen, "state_root": root})
}

func txids(txs []*transaction.Transaction) []string {
	var out []string
	for _, t := range txs {
		out = append(out, t.Hash().StringLE()[:8])
	}
	return out
}
