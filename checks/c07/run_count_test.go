package c07

// Block packing where the transaction COUNT crosses the var-int boundary
// (252 -> 253 transactions: the count takes 3 bytes instead of 1): a pool of
// 256 equally sized transactions and a MaxBlockSize that admits exactly 253 of
// them, and 1, 2, 3 bytes less. The small pool contents of the main
// proposable sub-check never get near this boundary.

import (
	"fmt"
	"strings"
	"sync"

	"github.com/nspcc-dev/neo-go/pkg/config"
	"github.com/nspcc-dev/neo-go/pkg/core/transaction"

	"verif/lib/chainx"
)

const (
	countPool  = 256
	countFit   = 253
	countMaxTx = 300
)

type countBase struct {
	once    sync.Once
	err     error
	batches []chainx.Batch
	h0      int
	txs     [][]byte
	size    int
}

var countBases [2]countBase

func countProto(maxSize uint32) func(c *config.Blockchain) {
	return func(c *config.Blockchain) {
		protoExtra(c)
		c.MaxTransactionsPerBlock = countMaxTx
		c.MemPoolSize = 2 * countPool
		if maxSize != 0 {
			c.MaxBlockSize = maxSize
		}
	}
}

func (e *env) countBaseOf(srih bool) (*countBase, error) {
	i := 0
	if srih {
		i = 1
	}
	cb := &countBases[i]
	cb.once.Do(func() {
		fam := chainx.Family{Name: fmt.Sprintf("count-srih=%v", srih), SRIH: srih, Extra: countProto(0)}
		sc, err := chainx.NewScenario(fam, 0, []chainx.Tpl{setupTpl()})
		if err == nil {
			err = sc.Grow([]int{0})
		}
		if err != nil {
			cb.err = err
			return
		}
		n, _, err := sc.RefNode([]int{0})
		if err != nil {
			cb.err = err
			return
		}
		defer n.Close()
		if err := n.Persist(); err != nil {
			cb.err = err
			return
		}
		cb.batches = n.Store.(*chainx.RecStore).Batches()
		eb, err := n.NewBlock()
		if err != nil {
			cb.err = err
			return
		}
		bb, err := chainx.BlockBytes(eb)
		if err != nil {
			cb.err = err
			return
		}
		cb.h0 = len(bb)
		senders := []int{1, 2, 5, 6}
		for k := 0; k < countPool; k++ {
			tx, _, err := build(n, &txSpec{Label: fmt.Sprintf("count/%d", k), Signers: []*acct{sigAcct(senders[k%len(senders)])}, Script: nops(4), SysFee: gas / 100})
			if err != nil {
				cb.err = err
				return
			}
			b := tx.Bytes()
			if cb.size != 0 && len(b) != cb.size {
				cb.err = fmt.Errorf("transactions of the count family differ in size: %d, %d", cb.size, len(b))
				return
			}
			cb.size = len(b)
			cb.txs = append(cb.txs, b)
		}
	})
	return cb, cb.err
}

// countSlacks: quick tier around the boundary, thorough tier a wider band.
func (e *env) countSlacks() []int {
	if e.thor {
		return []int{-9, -8, -7, -6, -5, -4, -3, -2, -1, 0, 1, 2, 3}
	}
	return []int{-3, -2, -1, 0}
}

func (e *env) runCount() map[string]any {
	type job struct {
		srih  bool
		slack int
	}
	var jobs []job
	for _, srih := range []bool{false, true} {
		for _, s := range e.countSlacks() {
			jobs = append(jobs, job{srih, s})
		}
	}
	e.r.Parallel(len(jobs), func(i int) {
		sub := newFindings()
		e.countCase(jobs[i].srih, jobs[i].slack, sub)
		for k, f := range sub.m {
			e.f.add(k, f.Detail)
		}
	})
	return map[string]any{"pool": countPool, "fit_at_slack_0": countFit, "slacks": e.countSlacks(), "families": []string{"plain", "srih"}, "cases": len(jobs),
		"tx_size": countBases[0].size, "MaxBlockSize_at_slack_0": countBases[0].h0 + 2 + countFit*countBases[0].size}
}

func (e *env) countCase(srih bool, slack int, out *findings) {
	name := fmt.Sprintf("count-varint:srih=%v:size%+d", srih, slack)
	rec := &caseRec{Sub: "count", Family: fmt.Sprint(srih), Subset: []int{slack}}
	fail := func(what, note string) {
		r := *rec
		r.Note = note
		out.add(fmt.Sprintf("packing:%s:%s", what, name), &r)
	}
	defer func() {
		if p := recover(); p != nil {
			fail("panic", fmt.Sprint(p))
		}
	}()
	cb, err := e.countBaseOf(srih)
	if err != nil {
		fail("harness-family", err.Error())
		return
	}
	e.count.countFam.Inc()
	// the empty block has a 1-byte count; 253 transactions need 3 bytes
	maxSize := cb.h0 + 2 + countFit*cb.size + slack
	fam := chainx.Family{Name: name, SRIH: srih, Extra: countProto(uint32(maxSize))}
	node := func() (*chainx.Node, error) {
		o := fam.Opts()
		o.Store = chainx.NewRecStore(chainx.ApplyBatches(cb.batches, len(cb.batches)))
		return chainx.New(o)
	}
	P, err := node()
	if err != nil {
		fail("harness-replica", err.Error())
		return
	}
	defer P.Close()
	for _, b := range cb.txs {
		tx, err := transaction.NewTransactionFromBytes(b)
		if err == nil {
			err = P.BC.PoolTx(tx)
		}
		if err != nil {
			fail("harness-not-pooled", err.Error())
			return
		}
	}
	nsel, wlen, _, ok := e.propose(P, "count-varint", limits{MaxTx: countMaxTx, MaxSize: maxSize, MaxSys: P.BC.GetConfig().MaxBlockSystemFee, SRIH: srih}, node, fail)
	if ok {
		e.out("count", fmt.Sprintf("size%+d:in-block=%d", slack, nsel))
		e.r.Outcome(fmt.Sprintf("count:size%+d:in-block=%d", slack, nsel))
		e.count.states.Add(name)
		e.r.Sample(map[string]any{"sub": "count-varint", "srih": srih, "MaxBlockSize": maxSize, "pooled": countPool, "in_block": nsel, "block_bytes": wlen})
	}
}

func (e *env) replayCount(c *caseRec) string {
	if len(c.Subset) != 1 {
		return "harness: no slack recorded"
	}
	sub := newFindings()
	e.countCase(c.Family == "true", c.Subset[0], sub)
	var out []string
	for k, f := range sub.m {
		out = append(out, k+": "+f.Detail.Note)
	}
	return strings.Join(out, "; ")
}
