package c07

import (
	"encoding/hex"
	"fmt"

	"github.com/nspcc-dev/neo-go/pkg/core/transaction"
	"github.com/nspcc-dev/neo-go/pkg/util"

	"verif/lib/chainx"
)

// sigShape is the shape of one signer: a signature contract (N == 0) or an
// M-of-N multi-signature contract.
type sigShape struct{ M, N int }

func (s sigShape) String() string {
	if s.N == 0 {
		return "sig"
	}
	return fmt.Sprintf("%dof%d", s.M, s.N)
}

func (s sigShape) acct(pos int) *acct {
	if s.N == 0 {
		return sigAcct([]int{1, 2, 5}[pos])
	}
	return msAcct(pos, s.M, s.N)
}

func sigShapes() []sigShape {
	out := []sigShape{{}}
	for _, mn := range shapeMN() {
		out = append(out, sigShape{mn[0], mn[1]})
	}
	return out
}

func reducedShapes() []sigShape {
	return []sigShape{{}, {1, 1}, {2, 3}, {5, 5}, {15, 16}}
}

func tinyShapes() []sigShape {
	return []sigShape{{}, {2, 3}, {15, 16}}
}

type attrMix struct {
	Name  string
	Attrs func(h uint32) []transaction.Attribute
	Extra func(n *chainx.Node) *acct // additional last signer the mix needs
}

func attrMixes(thorough bool) []attrMix {
	none := func(uint32) []transaction.Attribute { return nil }
	committee := func(n *chainx.Node) *acct { return committeeAcct(n) }
	notary := func(n *chainx.Node) *acct { return notaryAcct(uint32(n.BC.GetConfig().Magic)) }
	ms := []attrMix{
		{Name: "none", Attrs: none},
		{Name: "highpriority", Attrs: func(uint32) []transaction.Attribute { return []transaction.Attribute{attrHP} }, Extra: committee},
		{Name: "conflicts1", Attrs: func(uint32) []transaction.Attribute { return []transaction.Attribute{attrConflicts(unknownTx1)} }},
		{Name: "conflicts2", Attrs: func(uint32) []transaction.Attribute {
			return []transaction.Attribute{attrConflicts(unknownTx1), attrConflicts(unknownTx2)}
		}},
		{Name: "notvalidbefore", Attrs: func(h uint32) []transaction.Attribute { return []transaction.Attribute{attrNVB(h)} }},
		{Name: "notaryassisted0", Attrs: func(uint32) []transaction.Attribute { return []transaction.Attribute{attrNotary(0)} }, Extra: notary},
		{Name: "notaryassisted3", Attrs: func(uint32) []transaction.Attribute { return []transaction.Attribute{attrNotary(3)} }, Extra: notary},
	}
	if thorough {
		ms = append(ms, attrMix{Name: "highpriority+conflicts2+notvalidbefore", Attrs: func(h uint32) []transaction.Attribute {
			return []transaction.Attribute{attrHP, attrConflicts(unknownTx1), attrNVB(h - 1), attrConflicts(unknownTx2)}
		}, Extra: committee})
	}
	return ms
}

var feeStates = []string{"preamble", "exec-min", "exec-frac"}

// feePlan is the enumeration of one (state, first signer, attribute mix) job:
// the shapes of the second and third signer and the script lengths.
//
//	quick:    no attributes: second signer of every shape, third of 3 shapes (with a second of the same 3);
//	          with attributes: second signer of 5 shapes; script lengths 1, 252, 253, 65535 for a single signer, 1 otherwise
//	thorough: second signer of every shape, second x third of 5 x 5 shapes, all script lengths everywhere
func (e *env) feePlan(first sigShape, mix attrMix) (combos [][]sigShape, lensOf func(cb []sigShape) []int) {
	all := sigShapes()
	combos = append(combos, []sigShape{first})
	if e.thor {
		for _, s := range all {
			combos = append(combos, []sigShape{first, s})
		}
		for _, s := range reducedShapes() {
			for _, t := range reducedShapes() {
				combos = append(combos, []sigShape{first, s, t})
			}
		}
		return combos, func([]sigShape) []int { return []int{1, 252, 253, transaction.MaxScriptLength} }
	}
	if mix.Name == "none" {
		for _, s := range all {
			combos = append(combos, []sigShape{first, s})
		}
		for _, s := range tinyShapes() {
			for _, t := range tinyShapes() {
				combos = append(combos, []sigShape{first, s, t})
			}
		}
	} else {
		for _, s := range reducedShapes() {
			combos = append(combos, []sigShape{first, s})
		}
	}
	return combos, func(cb []sigShape) []int {
		if len(cb) == 1 {
			return []int{1, 252, 253, transaction.MaxScriptLength}
		}
		return []int{1}
	}
}

func (e *env) runFee() map[string]any {
	type job struct {
		st    *state
		first sigShape
		mix   attrMix
	}
	all := sigShapes()
	mixes := attrMixes(e.thor)
	var jobs []job
	for _, sn := range feeStates {
		for _, f := range all {
			for _, m := range mixes {
				jobs = append(jobs, job{e.state(sn), f, m})
			}
		}
	}
	factors := map[string]int64{}
	e.r.Parallel(len(jobs), func(i int) {
		j := jobs[i]
		rn, err := e.newRunner(j.st)
		if err != nil {
			e.f.add("fee:harness:replica:"+j.st.Name, &caseRec{Sub: "fee", State: j.st.Name, Note: err.Error()})
			return
		}
		defer rn.close()
		if j.first.N == 0 && j.mix.Name == "none" {
			e.f.mu.Lock()
			factors[j.st.Name] = rn.n.BC.GetBaseExecFee()
			e.f.mu.Unlock()
		}
		combos, lensOf := e.feePlan(j.first, j.mix)
		for _, cb := range combos {
			for _, l := range lensOf(cb) {
				if e.r.Expired() {
					return
				}
				rn.feeCase(cb, j.mix, l)
			}
		}
	})
	var sn, mn []string
	for _, s := range all {
		sn = append(sn, s.String())
	}
	for _, m := range mixes {
		mn = append(mn, m.Name)
	}
	return map[string]any{"signer_shapes": sn, "attribute_mixes": mn, "script_lengths": []int{1, 252, 253, transaction.MaxScriptLength}, "exec_fee_factors_pico": factors, "jobs": len(jobs),
		"plan": "quick: no attributes: second signer of every shape, third of 3 shapes; with attributes: second signer of 5 shapes; all script lengths for a single signer. thorough: second of every shape, second x third of 5 x 5 shapes, all script lengths"}
}

// feeCase: with the calculator's network fee the transaction is accepted, with
// one unit less it is rejected for its fee.
func (rn *runner) feeCase(cb []sigShape, mix attrMix, scriptLen int) {
	e := rn.e
	n := rn.n
	bc := n.BC
	var signers []*acct
	name := ""
	for pos, s := range cb {
		signers = append(signers, s.acct(pos))
		if pos > 0 {
			name += "+"
		}
		name += s.String()
	}
	if mix.Extra != nil {
		signers = append(signers, mix.Extra(n))
	}
	label := fmt.Sprintf("fee/%s/%s/%s/%d", rn.st.Name, name, mix.Name, scriptLen)
	sp := &txSpec{Label: label, Signers: signers, Script: nops(scriptLen), Attrs: mix.Attrs(bc.BlockHeight())}
	tx := unsigned(bc.BlockHeight(), sp)
	calc, size, err := calcFee(bc, rn.facts.Magic, tx, signers)
	shapeKey := fmt.Sprintf("%s:%s:len%d", name, mix.Name, scriptLen)
	rec := func(path string, t *transaction.Transaction, want string, v verdict) *caseRec {
		return &caseRec{Sub: "fee", State: rn.st.Name, Path: path, Rule: mix.Name, Shape: name, Tx: hex.EncodeToString(t.Bytes()), Want: want, Got: v.String() + " " + v.Err,
			Note: fmt.Sprintf("calculator network fee %d, size %d, script length %d", calc, size, scriptLen)}
	}
	if err != nil {
		e.f.add("fee:calculator-failed:"+shapeKey+":"+rn.st.Name, &caseRec{Sub: "fee", State: rn.st.Name, Shape: name, Rule: mix.Name, Note: err.Error()})
		return
	}
	e.count.states.Add("fee/" + rn.st.Name + "/" + shapeKey)
	// exact: accepted (wire bytes -> PoolTx)
	tx = fresh(tx)
	tx.NetworkFee = calc
	sign(rn.facts.Magic, tx, signers)
	canon := tx.Bytes()
	if len(canon) != size {
		e.f.add("fee:calculator-size:"+shapeKey+":"+rn.st.Name, rec(pathFromBytes, tx, fmt.Sprintf("size %d", size), verdict{Err: fmt.Sprintf("serialised size %d", len(canon))}))
	}
	rn.clearPool()
	res := map[string]verdict{}
	for _, path := range paths {
		v := rn.submit(path, canon, false)
		res[path] = v
		e.count.fee.Inc()
		e.out("fee", "exact->"+v.Class)
		e.r.Outcome("fee:exact->" + v.Class)
		if !v.OK {
			e.f.add(fmt.Sprintf("fee:exact-rejected:%s:%s:%s", shapeKey, rn.st.Name, path), rec(path, tx, "accepted", v))
		}
	}
	// one unit less: rejected (structure -> VerifyTx, and wire bytes -> PoolTx)
	less := unsigned(bc.BlockHeight(), sp)
	less.NetworkFee = calc - 1
	sign(rn.facts.Magic, less, signers)
	for _, path := range []string{"verifytx", pathFromBytes} {
		var v verdict
		if path == "verifytx" {
			v = rn.verify(less)
		} else {
			v = rn.submit(path, less.Bytes(), false)
		}
		e.count.fee.Inc()
		e.out("fee", "exact-1->"+v.Class)
		e.r.Outcome("fee:exact-1->" + v.Class)
		switch {
		case v.OK:
			e.f.add(fmt.Sprintf("fee:one-less-accepted:%s:%s:%s", shapeKey, rn.st.Name, path), rec(path, less, "rejected", v))
		case v.Class != "ErrTxSmallNetworkFee" && v.Class != "ErrVerificationFailed":
			e.f.add(fmt.Sprintf("fee:one-less-rejected-for-another-reason:%s:%s:%s", shapeKey, rn.st.Name, path), rec(path, less, "rejected for the fee", v))
		}
	}
	if len(canon) < 600 {
		e.r.Sample(map[string]any{"sub": "fee", "state": rn.st.Name, "signers": name, "attributes": mix.Name, "script_length": scriptLen,
			"calculator_fee": calc, "size": size, "with_fee": res[pathFromBytes].String(), "tx_hex": hex.EncodeToString(canon)})
	}
	// spellings: hash and size for every transaction, verdicts for the
	// single-signer ones (quick) / up to two signers (thorough)
	withVerdict := len(cb) == 1 && (e.thor || scriptLen == 1 || scriptLen == transaction.MaxScriptLength)
	withVerdict = withVerdict || (e.thor && len(cb) == 2 && scriptLen == 1)
	if !e.thor && len(cb) == 3 {
		return
	}
	base := caseRec{Sub: "encoding", State: rn.st.Name, Rule: "fee-" + mix.Name, Shape: name}
	rn.encodings(base, canon, res, withVerdict)
}

var _ = util.Uint160{}
