package c07

import (
	"encoding/hex"
	"fmt"
	"os"

	"github.com/nspcc-dev/neo-go/pkg/core/transaction"
	"github.com/nspcc-dev/neo-go/pkg/util"

	"verif/lib/chainx"
)

// sigShape is the shape of one signer: a signature contract (N == 0) or an
// M-of-N multi-signature contract.
type sigShape struct{ M, N int }

func (s sigShape) String() string {
	if s.N == 0 {
		return "sig"
	}
	return fmt.Sprintf("%dof%d", s.M, s.N)
}

func (s sigShape) acct(pos int) *acct {
	if s.N == 0 {
		return sigAcct([]int{1, 2, 5}[pos])
	}
	return msAcct(pos, s.M, s.N)
}

func sigShapes() []sigShape {
	out := []sigShape{{}}
	for _, mn := range shapeMN() {
		out = append(out, sigShape{mn[0], mn[1]})
	}
	return out
}

func reducedShapes() []sigShape {
	return []sigShape{{}, {1, 1}, {2, 3}, {5, 5}, {15, 16}}
}

func tinyShapes() []sigShape {
	return []sigShape{{}, {2, 3}, {15, 16}}
}

// attrMix is one attribute shape of the fee alphabet.
type attrMix struct {
	Name     string
	Attrs    func(h uint32, nSigners int) []transaction.Attribute
	Extra    func(n *chainx.Node) *acct // additional last signer the mix needs
	Boundary bool                       // a parameter boundary of a kind that a core mix already covers: reduced signer plan
	Oracle   bool                       // the oracle response: its own signers, script and state
}

func conflictsN(k int) []transaction.Attribute {
	var out []transaction.Attribute
	for i := 0; i < k; i++ {
		out = append(out, attrConflicts(util.Uint256{0xc0, byte(i)}))
	}
	return out
}

// nkeysBoundaries are the NKeys values of the NotaryAssisted shapes.
var nkeysBoundaries = []uint8{0, 1, 2, 127, 128, 254, 255}

func attrMixes(thorough bool) []attrMix {
	type attrs = func(uint32, int) []transaction.Attribute
	fixed := func(a ...transaction.Attribute) attrs {
		return func(uint32, int) []transaction.Attribute { return a }
	}
	committee := func(n *chainx.Node) *acct { return committeeAcct(n) }
	notary := func(n *chainx.Node) *acct { return notaryAcct(uint32(n.BC.GetConfig().Magic)) }
	ms := []attrMix{
		{Name: "none", Attrs: fixed()},
		{Name: "highpriority", Attrs: fixed(attrHP), Extra: committee},
		{Name: "conflicts1", Attrs: fixed(conflictsN(1)...)},
		{Name: "conflicts2", Attrs: fixed(conflictsN(2)...)},
		// as many Conflicts as the attribute limit (16 minus the signers) allows
		{Name: "conflicts-max", Boundary: true, Attrs: func(_ uint32, ns int) []transaction.Attribute { return conflictsN(transaction.MaxAttributes - ns) }},
		{Name: "notvalidbefore=height", Attrs: func(h uint32, _ int) []transaction.Attribute { return []transaction.Attribute{attrNVB(h)} }},
		{Name: "notvalidbefore=height-1", Boundary: true, Attrs: func(h uint32, _ int) []transaction.Attribute { return []transaction.Attribute{attrNVB(h - 1)} }},
		{Name: "notvalidbefore=0", Boundary: true, Attrs: fixed(attrNVB(0))},
	}
	for _, k := range nkeysBoundaries {
		ms = append(ms, attrMix{Name: fmt.Sprintf("notaryassisted-nkeys=%d", k), Attrs: fixed(attrNotary(k)), Extra: notary, Boundary: k != 0 && k != 255})
	}
	ms = append(ms, attrMix{Name: "oracleresponse-id0", Oracle: true, Attrs: fixed(attrOracle(0))})
	ms = append(ms, attrMix{Name: "highpriority+conflicts2+notvalidbefore", Boundary: !thorough, Attrs: func(h uint32, _ int) []transaction.Attribute {
		return []transaction.Attribute{attrHP, attrConflicts(unknownTx1), attrNVB(h - 1), attrConflicts(unknownTx2)}
	}, Extra: committee})
	ms = append(ms, attrMix{Name: "notaryassisted-nkeys=255+conflicts2+notvalidbefore", Boundary: !thorough, Attrs: func(h uint32, _ int) []transaction.Attribute {
		return []transaction.Attribute{attrConflicts(unknownTx1), attrNotary(255), attrNVB(h), attrConflicts(unknownTx2)}
	}, Extra: notary})
	return ms
}

var feeStates = []string{"preamble", "exec-min", "exec-frac", "policy-twice"}

// feePlan is the enumeration of one (state, first signer, attribute mix) job:
// the shapes of the second and third signer and the script lengths.
//
//	boundary mixes (both tiers): second signer of 3 shapes, script length 1; the oracle response has its own two signers
//	quick:    no attributes: second signer of every shape, third of 3 shapes (with a second of the same 3);
//	          with attributes: second signer of 5 shapes; script lengths 1, 252, 253, 65535 for a single signer, 1 otherwise
//	thorough: second signer of every shape, second x third of 5 x 5 shapes, all script lengths everywhere
func (e *env) feePlan(first sigShape, mix attrMix, st *state) (combos [][]sigShape, lensOf func(cb []sigShape) []int) {
	all := sigShapes()
	combos = append(combos, []sigShape{first})
	one := func([]sigShape) []int { return []int{1} }
	if mix.Oracle {
		return combos, one
	}
	if mix.Boundary {
		// a second signer matters for Conflicts (fee x signers) only; keep three shapes
		for _, s := range tinyShapes() {
			combos = append(combos, []sigShape{first, s})
		}
		return combos, one
	}
	if e.thor && st.Expect == nil { // the added state keeps the quick plan in both tiers
		for _, s := range all {
			combos = append(combos, []sigShape{first, s})
		}
		for _, s := range reducedShapes() {
			for _, t := range reducedShapes() {
				combos = append(combos, []sigShape{first, s, t})
			}
		}
		return combos, func([]sigShape) []int { return []int{1, 252, 253, transaction.MaxScriptLength} }
	}
	if mix.Name == "none" {
		for _, s := range all {
			combos = append(combos, []sigShape{first, s})
		}
		for _, s := range tinyShapes() {
			for _, t := range tinyShapes() {
				combos = append(combos, []sigShape{first, s, t})
			}
		}
	} else {
		for _, s := range reducedShapes() {
			combos = append(combos, []sigShape{first, s})
		}
	}
	return combos, func(cb []sigShape) []int {
		if len(cb) == 1 {
			return []int{1, 252, 253, transaction.MaxScriptLength}
		}
		return []int{1}
	}
}

func (e *env) runFee() map[string]any {
	type job struct {
		st    *state
		first sigShape
		mix   attrMix
	}
	all := sigShapes()
	mixes := attrMixes(e.thor)
	var jobs []job
	for _, sn := range feeStates {
		for _, f := range all {
			for _, m := range mixes {
				if m.Oracle {
					continue
				}
				if m.Boundary && f.N != 0 && sn != "preamble" {
					// boundary mixes: every first-signer shape in the default state, the signature contract in the others
					continue
				}
				jobs = append(jobs, job{e.state(sn), f, m})
			}
		}
	}
	for _, m := range mixes {
		if m.Oracle {
			jobs = append(jobs, job{e.state("oracle"), sigShape{}, m})
		}
	}
	factors := map[string]int64{}
	e.r.Parallel(len(jobs), func(i int) {
		j := jobs[i]
		rn, err := e.newRunner(j.st)
		if err != nil {
			e.f.add("fee:harness:replica:"+j.st.Name, &caseRec{Sub: "fee", State: j.st.Name, Note: err.Error()})
			return
		}
		defer rn.close()
		if j.first.N == 0 && j.mix.Name == "none" {
			e.f.mu.Lock()
			factors[j.st.Name] = rn.n.BC.GetBaseExecFee()
			e.f.mu.Unlock()
		}
		combos, lensOf := e.feePlan(j.first, j.mix, j.st)
		for _, cb := range combos {
			for _, l := range lensOf(cb) {
				if e.r.Expired() {
					return
				}
				rn.feeCase(cb, j.mix, l)
			}
		}
	})
	var sn, mn []string
	for _, s := range all {
		sn = append(sn, s.String())
	}
	for _, m := range mixes {
		mn = append(mn, m.Name)
	}
	return map[string]any{"signer_shapes": sn, "attribute_mixes": mn, "script_lengths": []int{1, 252, 253, transaction.MaxScriptLength}, "exec_fee_factors_pico": factors, "jobs": len(jobs),
		"plan": "quick: no attributes: second signer of every shape, third of 3 shapes; with attributes: second signer of 5 shapes; all script lengths for a single signer. thorough: second of every shape, second x third of 5 x 5 shapes, all script lengths"}
}

// feeCase: with the calculator's network fee the transaction is accepted, with
// one unit less it is rejected for its fee.
func (rn *runner) feeCase(cb []sigShape, mix attrMix, scriptLen int) {
	e := rn.e
	n := rn.n
	bc := n.BC
	var signers []*acct
	name := ""
	for pos, s := range cb {
		signers = append(signers, s.acct(pos))
		if pos > 0 {
			name += "+"
		}
		name += s.String()
	}
	if mix.Extra != nil {
		signers = append(signers, mix.Extra(n))
	}
	label := fmt.Sprintf("fee/%s/%s/%s/%d", rn.st.Name, name, mix.Name, scriptLen)
	sp := &txSpec{Label: label, Signers: signers, Script: nops(scriptLen)}
	if mix.Oracle {
		name = "oracle"
		sp.Signers = []*acct{oracleContractAcct(), oracleNodesAcct()}
		sp.Script = oracleResponseScript()
		sp.SysFee = sysFeeOracle
		signers = sp.Signers
	}
	sp.Attrs = mix.Attrs(bc.BlockHeight(), len(signers))
	tx := unsigned(bc.BlockHeight(), sp)
	calc, size, err := calcFee(bc, rn.facts.Magic, tx, signers)
	shapeKey := fmt.Sprintf("%s:%s:len%d", name, mix.Name, scriptLen)
	rec := func(path string, t *transaction.Transaction, want string, v verdict) *caseRec {
		return &caseRec{Sub: "fee", State: rn.st.Name, Path: path, Rule: mix.Name, Shape: name, Tx: hex.EncodeToString(t.Bytes()), Want: want, Got: v.String() + " " + v.Err,
			Note: fmt.Sprintf("calculator network fee %d, size %d, script length %d", calc, size, scriptLen)}
	}
	if err != nil {
		e.f.add("fee:calculator-failed:"+shapeKey+":"+rn.st.Name, &caseRec{Sub: "fee", State: rn.st.Name, Shape: name, Rule: mix.Name, Note: err.Error()})
		return
	}
	e.count.states.Add("fee/" + rn.st.Name + "/" + shapeKey)
	// exact: accepted (wire bytes -> PoolTx)
	tx = fresh(tx)
	tx.NetworkFee = calc
	fixSysFee(sp, tx)
	sign(rn.facts.Magic, tx, signers)
	canon := tx.Bytes()
	if len(canon) != size {
		e.f.add("fee:calculator-size:"+shapeKey+":"+rn.st.Name, rec(pathFromBytes, tx, fmt.Sprintf("size %d", size), verdict{Err: fmt.Sprintf("serialised size %d", len(canon))}))
	}
	rn.clearPool()
	res := map[string]verdict{}
	for _, path := range paths {
		v := rn.submit(path, canon, false)
		res[path] = v
		e.count.fee.Inc()
		e.out("fee", "exact->"+v.Class)
		e.r.Outcome("fee:exact->" + v.Class)
		if !v.OK {
			e.f.add(fmt.Sprintf("fee:exact-rejected:%s:%s:%s", shapeKey, rn.st.Name, path), rec(path, tx, "accepted", v))
		}
	}
	// the calculators the property names must give the same number
	if os.Getenv("C07_NOCALC") != "" {
		// development aid: measure the cost of the comparisons
	} else if got, err := rn.rpcFee(tx); err != nil {
		e.out("fee-calculators", "rpc-error")
		e.f.add(fmt.Sprintf("fee:rpc-calculatenetworkfee-failed:%s:%s", shapeKey, rn.st.Name), rec("rpc", tx, fmt.Sprint(calc), verdict{Err: err.Error()}))
	} else {
		e.count.rpcFee.Inc()
		if got != calc {
			e.out("fee-calculators", "rpc-differs")
			e.f.add(fmt.Sprintf("fee:rpc-calculatenetworkfee-differs:%s:%s", shapeKey, rn.st.Name), rec("rpc", tx, fmt.Sprintf("threshold %d", calc), verdict{Err: fmt.Sprintf("calculatenetworkfee says %d", got)}))
		} else {
			e.out("fee-calculators", "rpc-equal")
		}
	}
	if os.Getenv("C07_NOCALC") != "" {
	} else if got, ok := neotestFee(n, tx, signers); ok {
		e.count.ntFee.Inc()
		if got != calc {
			e.out("fee-calculators", "neotest-differs")
			e.f.add(fmt.Sprintf("fee:neotest-addnetworkfee-differs:%s:%s", shapeKey, rn.st.Name), rec("neotest", tx, fmt.Sprintf("threshold %d", calc), verdict{Err: fmt.Sprintf("AddNetworkFee says %d", got)}))
		} else {
			e.out("fee-calculators", "neotest-equal")
		}
	} else {
		e.out("fee-calculators", "neotest-not-applicable")
	}
	// one unit less: rejected (structure -> VerifyTx, and wire bytes -> PoolTx);
	// the attribute fee (taken from the Policy getter) not paid at all: rejected
	attrFee, _ := attrFeeRef(bc, tx)
	type under struct {
		name string
		fee  int64
	}
	unders := []under{{"one-less", calc - 1}}
	if attrFee > 0 {
		unders = append(unders, under{"attribute-fee-unpaid", calc - attrFee})
	}
	for _, u := range unders {
		less := unsigned(bc.BlockHeight(), sp)
		less.NetworkFee = u.fee
		fixSysFee(sp, less)
		sign(rn.facts.Magic, less, signers)
		for _, path := range []string{"verifytx", pathFromBytes} {
			var v verdict
			if path == "verifytx" {
				v = rn.verify(less)
			} else {
				v = rn.submit(path, less.Bytes(), false)
			}
			e.count.fee.Inc()
			e.out("fee", u.name+"->"+v.Class)
			e.r.Outcome("fee:" + u.name + "->" + v.Class)
			switch {
			case v.OK:
				e.f.add(fmt.Sprintf("fee:%s-accepted:%s:%s:%s", u.name, shapeKey, rn.st.Name, path), rec(path, less, "rejected", v))
			case v.Class != "ErrTxSmallNetworkFee" && v.Class != "ErrVerificationFailed":
				e.f.add(fmt.Sprintf("fee:%s-rejected-for-another-reason:%s:%s:%s", u.name, shapeKey, rn.st.Name, path), rec(path, less, "rejected for the fee", v))
			}
		}
	}
	if len(canon) < 600 {
		e.r.Sample(map[string]any{"sub": "fee", "state": rn.st.Name, "signers": name, "attributes": mix.Name, "script_length": scriptLen,
			"calculator_fee": calc, "size": size, "with_fee": res[pathFromBytes].String(), "tx_hex": hex.EncodeToString(canon)})
	}
	// spellings: hash and size for every transaction, verdicts for the
	// single-signer ones (quick) / up to two signers (thorough)
	withVerdict := len(cb) == 1 && (e.thor || scriptLen == 1 || scriptLen == transaction.MaxScriptLength)
	withVerdict = withVerdict || (e.thor && len(cb) == 2 && scriptLen == 1)
	if !e.thor && len(cb) == 3 {
		return
	}
	base := caseRec{Sub: "encoding", State: rn.st.Name, Rule: "fee-" + mix.Name, Shape: name}
	rn.encodings(base, canon, res, withVerdict)
}

var _ = util.Uint160{}
