package c07

import (
	"encoding/hex"
	"fmt"

	"github.com/nspcc-dev/neo-go/pkg/core/transaction"

	"verif/lib/chainx"
)

// runScripts is the script well-formedness dimension of the soundness
// sub-check: every script of the alphabet in an otherwise valid, fee-exact
// transaction must be admitted iff the reference predicate says well-formed,
// through PoolTx (both decoders), VerifyTx and inside a block via AddBlock.
func (e *env) runScripts() map[string]any {
	cases := scriptCases()
	const chunk = 150
	var jobs [][]scriptCase
	for i := 0; i < len(cases); i += chunk {
		jobs = append(jobs, cases[i:min(i+chunk, len(cases))])
	}
	st := e.state("preamble")
	var wf, excluded int
	for _, c := range cases {
		if usesUndetermined(c.Script) {
			excluded++
			continue
		}
		if ok, _ := scriptWellFormed(c.Script); ok {
			wf++
		}
	}
	e.r.Parallel(len(jobs), func(i int) {
		rn, err := e.newRunner(st)
		if err != nil {
			e.f.add("sound:harness:replica:"+st.Name, &caseRec{Sub: "sound", State: st.Name, Note: err.Error()})
			return
		}
		defer rn.close()
		for _, c := range jobs[i] {
			if e.r.Expired() {
				return
			}
			if usesUndetermined(c.Script) {
				continue
			}
			rn.scriptCase(c)
		}
	})
	return map[string]any{"scripts": len(cases), "well_formed_by_reference": wf, "excluded_as_undetermined": excluded,
		"paths":          []string{pathFromBytes, pathDecodeBin, "verifytx", "addblock"},
		"target_classes": len(targetClasses()), "opcodes_in_reference_table": len(opTable)}
}

// scriptTx builds the otherwise valid, fee-exact transaction around script at the replica's current height.
func (rn *runner) scriptTx(c scriptCase) (*transaction.Transaction, error) {
	sp := &txSpec{Label: fmt.Sprintf("script/%s/%s/%d", c.Op, c.Class, rn.n.BC.BlockHeight()), Signers: []*acct{sigAcct(1)}, Script: c.Script, SysFee: gas / 100}
	tx, _, err := build(rn.n, sp)
	return tx, err
}

func (rn *runner) scriptCase(c scriptCase) {
	e := rn.e
	want, why := scriptWellFormed(c.Script)
	tx, err := rn.scriptTx(c)
	if err != nil {
		e.f.add(fmt.Sprintf("sound:script:harness:%s:%s", c.Op, c.Class), &caseRec{Sub: "script", State: rn.st.Name, Rule: c.Op, Shape: c.Class, Note: err.Error()})
		return
	}
	canon := tx.Bytes()
	rec := func(path string, v verdict) *caseRec {
		return &caseRec{Sub: "script", State: rn.st.Name, Path: path, Rule: c.Op, Shape: c.Class, Tx: hex.EncodeToString(canon), Want: wantStr(want),
			Got: v.String() + " " + v.Err, Why: why, Note: "script " + hex.EncodeToString(c.Script)}
	}
	e.count.states.Add("script/" + c.Op + "/" + c.Class)
	for _, path := range []string{pathFromBytes, pathDecodeBin, "verifytx", "addblock"} {
		var v verdict
		switch path {
		case "verifytx":
			v = rn.verify(tx)
		case "addblock":
			v = rn.viaBlock(canon)
		default:
			v = rn.submit(path, canon, false)
		}
		e.count.sound.Inc()
		e.count.scripts.Inc()
		e.out("script", wantStr(want)+":"+path+"->"+v.Class)
		e.r.Outcome("script:" + wantStr(want) + "->" + v.Class)
		if v.OK != want || v.Class == "PANIC" {
			e.f.addLazy(fmt.Sprintf("sound:script:%s:%s:%s", c.Op, c.Class, path), len(canon), func() *caseRec { return rec(path, v) })
		} else if !v.OK && path != "addblock" && v.Class != "ErrInvalidScript" && v.Class != "decode" {
			e.f.addLazy(fmt.Sprintf("sound:script-rejected-for-another-reason:%s:%s:%s", c.Op, c.Class, path), len(canon), func() *caseRec { return rec(path, v) })
		}
	}
	if len(c.Script) < 24 {
		e.r.Sample(map[string]any{"sub": "script", "opcode": c.Op, "class": c.Class, "script": hex.EncodeToString(c.Script), "reference": wantStr(want), "why": why})
	}
}

// stateBatches returns the store content of a state (taken once from a
// replica that replayed the state's blocks and flushed).
func (e *env) stateBatches(st *state) ([]chainx.Batch, error) {
	e.omu.Lock()
	defer e.omu.Unlock()
	if b, ok := e.batches[st.Name]; ok {
		return b, nil
	}
	n, _, err := e.scOf(st).RefNode(st.Hist)
	if err != nil {
		return nil, err
	}
	if err := n.Persist(); err != nil {
		n.Close()
		return nil, err
	}
	rec := n.Store.(*chainx.RecStore)
	n.Close()
	if e.batches == nil {
		e.batches = map[string][]chainx.Batch{}
	}
	e.batches[st.Name] = rec.Batches()
	return e.batches[st.Name], nil
}

// viaBlock puts the transaction (wire bytes) alone into the next block, sends
// the block over the wire and adds it to a fresh replica in the runner's state
// (a block rejected for its transactions leaves its header behind, so a
// replica is used for one block only).
func (rn *runner) viaBlock(b []byte) (v verdict) {
	defer func() {
		if p := recover(); p != nil {
			v = verdict{Class: "PANIC", Err: fmt.Sprint(p)}
		}
	}()
	r := func(err error) verdict { return verdict{Class: "block:" + errClass(err), Err: err.Error()} }
	tx, err := decodeVia(pathDecodeBin, b)
	if err != nil {
		return verdict{Class: "decode", Err: "decode: " + err.Error()}
	}
	batches, err := rn.e.stateBatches(rn.st)
	if err != nil {
		return r(err)
	}
	o := rn.e.scOf(rn.st).Fam.Opts()
	o.Store = chainx.NewRecStore(chainx.ApplyBatches(batches, len(batches)))
	n, err := chainx.New(o)
	if err != nil {
		return r(err)
	}
	defer n.Close()
	if n.BC.BlockHeight() != rn.facts.Height {
		return r(fmt.Errorf("harness: replica opened at height %d", n.BC.BlockHeight()))
	}
	blk, err := n.NewBlock(tx)
	if err != nil {
		return r(err)
	}
	wire, err := chainx.BlockBytes(blk)
	if err != nil {
		return r(err)
	}
	rb, err := chainx.DecodeBlock(wire, false)
	if err != nil {
		return verdict{Class: "decode", Err: "decode: " + err.Error()}
	}
	if err := n.BC.AddBlock(rb); err != nil {
		return r(err)
	}
	return verdict{OK: true, Class: "ok", Dec: true}
}
