package c07

import (
	"encoding/hex"
	"fmt"

	"github.com/nspcc-dev/neo-go/pkg/core/mempool"
	"github.com/nspcc-dev/neo-go/pkg/core/transaction"
	"github.com/nspcc-dev/neo-go/pkg/util"

	"verif/lib/chainx"
)

var soundStates = []string{"preamble", "fee-raised", "acc3-blocked", "conflicts-onchain", "oracle"}

// buildCase makes the submission of shape sh with mutation m in the runner's state.
func (rn *runner) buildCase(sh shape, m mutation, scriptLen int) (*sCase, bool, error) {
	n := rn.n
	bc := n.BC
	magic := rn.facts.Magic
	sp := sh.Spec(n)
	if sp == nil {
		return nil, false, nil
	}
	if scriptLen > 0 {
		sp.Script = nops(scriptLen)
	}
	sp.Label = rn.st.Name + "/" + sh.Name + "/" + m.Rule
	if m.Spec != nil && !m.Spec(n, sp) {
		return nil, false, nil
	}
	tx := unsigned(bc.BlockHeight(), sp)
	calc, size, gasOf, err := calcFeeGas(bc, magic, tx, sp.Signers)
	if err != nil {
		return nil, false, err
	}
	un := tx
	tx = fresh(tx)
	tx.NetworkFee = calc + sp.NetDelta
	fixSysFee(sp, tx)
	if m.Tx != nil {
		m.Tx(n, tx)
	}
	sign(magic, tx, sp.Signers)
	if m.Wit != nil && !m.Wit(n, sp, tx) {
		return nil, false, nil
	}
	c := &sCase{Rule: m.Rule, Tx: tx, Gas: gasOf, Unsigned: un, Signers: sp.Signers}
	c.Need = calc + int64(len(tx.Bytes())-size)*bc.FeePerByte()
	if m.Pre != nil {
		for _, ps := range m.Pre(n, sp) {
			p, _, err := build(n, ps)
			if err != nil {
				return nil, false, err
			}
			// a variant with pooled transactions exists only where those can be pooled
			if ok, _ := valid(rn.facts, &sCase{Tx: p, Need: p.NetworkFee}); !ok {
				return nil, false, nil
			}
			c.Pre = append(c.Pre, p)
		}
	}
	c.Want, c.Why = valid(rn.facts, c)
	return c, true, nil
}

func wantStr(b bool) string {
	if b {
		return "accepted"
	}
	return "rejected"
}

// runCase submits one case through all paths, checks the verdicts against the
// predicate, the absence of effects of a rejection, and all spellings.
func (rn *runner) runCase(shapeName string, c *sCase) {
	e := rn.e
	canon := c.Tx.Bytes()
	rec := func(path string, v verdict) *caseRec {
		return &caseRec{Sub: "sound", State: rn.st.Name, Path: path, Rule: c.Rule, Shape: shapeName, Tx: hex.EncodeToString(canon),
			Pre: hexs(c.Pre), Want: wantStr(c.Want), Got: v.String() + " " + v.Err, Why: c.Why}
	}
	rn.clearPool()
	for _, p := range c.Pre {
		if v := rn.submit(pathFromBytes, p.Bytes(), true); !v.OK {
			e.f.add(fmt.Sprintf("sound:pre-pooled-rejected:%s:%s:%s", c.Rule, shapeName, rn.st.Name), rec(pathFromBytes, v))
			return
		}
	}
	before := rn.poolList()
	res := map[string]verdict{}
	for _, path := range paths {
		v := rn.submit(path, canon, false)
		res[path] = v
		e.count.sound.Inc()
		e.out("sound", c.Rule+"->"+v.Class)
		e.r.Outcome("sound:" + wantStr(c.Want) + "->" + v.Class)
		if c.Rule == "valid" && (rn.st.Sc != nil || rn.st.Only != nil || rn.st.Expect != nil) {
			e.out("sound-new-states", rn.st.Name+"/"+shapeName+"->"+v.Class)
		}
		if path == pathFromBytes && e.isR2(rn.st.Name) {
			e.out("r2-states", rn.st.Name+"/"+shapeName+"/"+c.Rule+"->"+v.Class)
		}
		if v.Class == "PANIC" {
			e.f.add(fmt.Sprintf("sound:panic:%s:%s:%s:%s", c.Rule, shapeName, rn.st.Name, path), rec(path, v))
			continue
		}
		if c.NoDemand != "" {
			e.out("sound", "no-demand:"+c.Rule+"->"+v.Class)
		} else if v.OK != c.Want {
			e.f.add(fmt.Sprintf("sound:%s:%s:%s:%s", c.Rule, shapeName, rn.st.Name, path), rec(path, v))
		}
		if !v.OK {
			e.count.soundRej.Inc()
			if after := rn.poolList(); after != before {
				r := rec(path, v)
				r.Note = "mempool listing changed by a rejected transaction: " + before + " -> " + after
				e.f.add(fmt.Sprintf("sound-effect:pool:%s:%s:%s", c.Rule, shapeName, rn.st.Name), r)
			}
			if ch := rn.ledgerChanged(); ch != "" {
				r := rec(path, v)
				r.Note = "ledger changed by a rejected transaction: " + ch
				e.f.add(fmt.Sprintf("sound-effect:ledger:%s:%s:%s", c.Rule, shapeName, rn.st.Name), r)
			}
		}
	}
	if res[pathFromBytes].Dec && len(c.Pre) == 0 {
		v := rn.verify(c.Tx)
		e.count.sound.Inc()
		e.out("sound", c.Rule+"->"+v.Class)
		if c.NoDemand == "" && v.OK != c.Want {
			e.f.add(fmt.Sprintf("sound:%s:%s:%s:%s", c.Rule, shapeName, rn.st.Name, "verifytx"), rec("verifytx", v))
		}
	}
	if len(canon) < 20000 || rn.st.Name == "preamble" {
		v := rn.submitRPCTx(c.Tx)
		if v.Class != "no-rpc" {
			e.count.sound.Inc()
			e.count.rpc.Inc()
			switch {
			case c.NoDemand != "":
				e.out("rpc", "no-demand->"+v.Class)
			default:
				e.out("rpc", wantStr(c.Want)+"->"+v.Class)
				if v.OK != c.Want || v.Class == "PANIC" {
					e.f.add(fmt.Sprintf("sound:%s:%s:%s:%s", c.Rule, shapeName, rn.st.Name, "rpc"), rec("rpc", v))
				}
			}
			if !v.OK {
				if after := rn.poolList(); after != before {
					r := rec("rpc", v)
					r.Note = "mempool listing changed by a rejected transaction: " + before + " -> " + after
					e.f.add(fmt.Sprintf("sound-effect:pool:%s:%s:%s", c.Rule, shapeName, rn.st.Name), r)
				}
			}
		}
	}
	{
		v := rn.submitP2P(c.Tx)
		e.count.sound.Inc()
		e.count.p2p.Inc()
		if c.NoDemand != "" {
			e.out("p2p-message", "no-demand->"+v.Class)
		} else {
			e.out("p2p-message", wantStr(c.Want)+"->"+v.Class)
			if v.OK != c.Want || v.Class == "PANIC" {
				e.f.add(fmt.Sprintf("sound:%s:%s:%s:%s", c.Rule, shapeName, rn.st.Name, "p2p"), rec("p2p", v))
			} else if v.Dec && res[pathFromBytes].Dec && (v.Hash != res[pathFromBytes].Hash || v.Size != res[pathFromBytes].Size) {
				r := rec("p2p", v)
				r.Note = fmt.Sprintf("hash/size through the P2P message %s/%d, through the plain bytes %s/%d", v.Hash.StringLE(), v.Size, res[pathFromBytes].Hash.StringLE(), res[pathFromBytes].Size)
				e.f.add(fmt.Sprintf("encoding:p2p-message:%s:%s:%s", c.Rule, shapeName, rn.st.Name), r)
			}
		}
	}
	if res[pathFromBytes].Dec && len(c.Pre) == 0 {
		rn.partialPath(shapeName, c, rec)
	}
	if c.Want && c.NoDemand == "" && len(c.Pre) == 0 && res[pathFromBytes].OK {
		rn.endToEnd(shapeName, c)
	}
	e.count.states.Add("sound/" + rn.st.Name + "/" + shapeName + "/" + c.Rule)
	if len(canon) < 400 {
		e.r.Sample(map[string]any{"sub": "sound", "state": rn.st.Name, "shape": shapeName, "variant": c.Rule, "predicate": wantStr(c.Want), "why": c.Why,
			"frombytes": res[pathFromBytes].String(), "decodebinary": res[pathDecodeBin].String(), "tx_hex": hex.EncodeToString(canon)})
	}
	if !c.NoEnc {
		base := caseRec{Sub: "encoding", State: rn.st.Name, Rule: c.Rule, Shape: shapeName, Pre: hexs(c.Pre)}
		rn.encodings(base, canon, res, true)
	}
}

// partialPath submits the case through PoolTxWithData (the entry of the
// notary request pool) into a pool of its own. The same predicate applies with
// the relaxations the code documents for partially filled transactions: no
// upper bound on ValidUntilBlock, NotValidBefore within MaxNotValidBeforeDelta,
// the first witness may be a dummy (not judged).
func (rn *runner) partialPath(shapeName string, c *sCase, rec func(string, verdict) *caseRec) {
	e := rn.e
	f := *rn.facts
	f.Partial = true
	d, err := rn.n.BC.GetMaxNotValidBeforeDelta()
	if err != nil {
		return
	}
	f.MaxNVBDelta = d
	pc := *c
	pc.NoDemand = ""
	pc.Want, pc.Why = valid(&f, &pc)
	v := func() (v verdict) {
		defer func() {
			if p := recover(); p != nil {
				v = verdict{Class: "PANIC", Err: fmt.Sprint(p)}
			}
		}()
		tx, err := transaction.NewTransactionFromBytes(c.Tx.Bytes())
		if err != nil {
			return verdict{Class: "decode", Err: err.Error()}
		}
		if err := rn.n.BC.PoolTxWithData(tx, struct{}{}, mempool.New(4, false, nil), rn.n.BC, nil); err != nil {
			return verdict{Class: errClass(err), Err: err.Error(), Dec: true}
		}
		return verdict{OK: true, Class: "ok", Dec: true}
	}()
	e.count.sound.Inc()
	e.count.partial.Inc()
	if pc.NoDemand != "" {
		e.out("pooltxwithdata", "no-demand:"+c.Rule+"->"+v.Class)
		return
	}
	if pc.Want != c.Want {
		e.out("pooltxwithdata", "relaxed:"+c.Rule+"->"+v.Class)
	} else {
		e.out("pooltxwithdata", wantStr(pc.Want)+"->"+v.Class)
	}
	if v.OK != pc.Want || v.Class == "PANIC" {
		r := rec("pooltxwithdata", v)
		r.Want, r.Why = wantStr(pc.Want), pc.Why
		e.f.add(fmt.Sprintf("sound:%s:%s:%s:%s", c.Rule, shapeName, rn.st.Name, "pooltxwithdata"), r)
	}
}

// encodings submits every alternative spelling of canon through both paths.
func (rn *runner) encodings(base caseRec, canon []byte, canonV map[string]verdict, withVerdict bool) {
	e := rn.e
	sites, err := findSites(canon)
	if err != nil {
		e.r.Outcome("encoding:canonical-not-walkable")
		return
	}
	for _, s := range sites {
		class := "nonminimal-varint"
		if s.Key {
			class = "uncompressed-pubkey"
		}
		alts, names := respell(canon, s, []int{1, 3, 5, 9})
		for ai, alt := range alts {
			// quick tier: verdicts for the shortest alternative only, hash and size for all
			verdictHere := withVerdict && (e.thor || ai == 0)
			for _, path := range paths {
				cv := canonV[path]
				e.count.enc.Inc()
				mk := func(got string) *caseRec {
					r := base
					r.Path = path
					r.Tx = hex.EncodeToString(alt)
					r.Canonical = hex.EncodeToString(canon)
					r.Got = got
					r.Note = fmt.Sprintf("%s at offset %d respelled as %s", s.Field, s.Off, names[ai])
					return &r
				}
				tx, derr := decodeVia(path, alt)
				if derr != nil {
					e.out("encoding", class+":"+path+":"+s.Field+":decoder-rejects")
					e.r.Outcome("encoding:" + class + ":" + path + ":decoder-rejects")
					continue
				}
				e.out("encoding", class+":"+path+":"+s.Field+":decoder-accepts")
				e.r.Outcome("encoding:" + class + ":" + path + ":decoder-accepts")
				if !cv.Dec {
					e.f.add(fmt.Sprintf("encoding:%s:%s:%s:accepted-but-canonical-rejected", class, path, s.Field), mk("decoder accepts this spelling and rejects the canonical one"))
					continue
				}
				if !sameContent(tx, canon) {
					e.f.add(fmt.Sprintf("encoding:%s:%s:%s:content-differs", class, path, s.Field), mk("decodes to different content"))
					continue
				}
				w := 2 * (len(alt) + len(canon))
				if tx.Hash() != cv.Hash {
					e.f.addLazy(fmt.Sprintf("encoding:%s:%s:%s:hash-differs", class, path, s.Field), w, func() *caseRec {
						return mk(fmt.Sprintf("hash %s, canonical %s", tx.Hash().StringLE(), cv.Hash.StringLE()))
					})
				}
				if tx.Size() != cv.Size {
					e.f.addLazy(fmt.Sprintf("encoding:%s:%s:%s:size-differs", class, path, s.Field), w, func() *caseRec {
						return mk(fmt.Sprintf("size %d, canonical %d", tx.Size(), cv.Size))
					})
				}
				if verdictHere {
					v := rn.submit(path, alt, false)
					e.count.encVerdict.Inc()
					if v.OK != cv.OK {
						e.f.addLazy(fmt.Sprintf("encoding:%s:%s:%s:verdict-differs", class, path, s.Field), 2*(len(alt)+len(canon)), func() *caseRec {
							r := mk(v.String() + " " + v.Err)
							r.Want = cv.String()
							return r
						})
					}
				}
			}
		}
	}
}

// tuneBig finds the script length that makes the "big" shape exactly
// MaxTransactionSize + delta bytes long.
func (rn *runner) tuneBig(sh shape, delta int) (int, error) {
	l := transaction.MaxScriptLength - 1
	for try := 0; try < 4; try++ {
		c, _, err := rn.buildCase(sh, mutation{Rule: "probe"}, l)
		if err != nil {
			return 0, err
		}
		d := len(c.Tx.Bytes()) - (transaction.MaxTransactionSize + delta)
		if d == 0 {
			return l, nil
		}
		l -= d
		if l >= transaction.MaxScriptLength || l < 300 {
			break
		}
	}
	return 0, fmt.Errorf("cannot tune the big shape")
}

func (e *env) runSound() map[string]any {
	type job struct {
		st    *state
		sh    *shape
		level bool
	}
	shs := allShapes()
	var jobs []job
	states := e.soundStateNames()
	perState := map[string]int{}
	for _, sn := range states {
		st := e.state(sn)
		if !st.LevelOnly {
			for i := range shs {
				if runsIn(&shs[i], st) {
					jobs = append(jobs, job{st: st, sh: &shs[i]})
					perState[sn]++
				}
			}
		}
		if st.Only == nil {
			jobs = append(jobs, job{st: st, level: true})
		}
	}
	nmut := len(mutations(util.Uint256{}))
	e.r.Parallel(len(jobs), func(i int) {
		j := jobs[i]
		rn, err := e.newRunner(j.st)
		if err != nil {
			e.f.add("sound:harness:replica:"+j.st.Name, &caseRec{Sub: "sound", State: j.st.Name, Note: err.Error()})
			return
		}
		defer rn.close()
		if j.level {
			rn.stateLevel()
			return
		}
		if j.sh.Big {
			for _, d := range []int{0, 1, -1} {
				l, err := rn.tuneBig(*j.sh, d)
				if err != nil {
					e.f.add("sound:harness:big:"+j.st.Name, &caseRec{Sub: "sound", State: j.st.Name, Note: err.Error()})
					return
				}
				c, _, err := rn.buildCase(*j.sh, mutation{Rule: fmt.Sprintf("size=max%+d", d)}, l)
				if err != nil {
					e.f.add("sound:harness:big:"+j.st.Name, &caseRec{Sub: "sound", State: j.st.Name, Note: err.Error()})
					return
				}
				if got := len(c.Tx.Bytes()); got != transaction.MaxTransactionSize+d {
					e.f.add("sound:harness:big-size:"+j.st.Name, &caseRec{Sub: "sound", State: j.st.Name, Note: fmt.Sprint(got)})
					return
				}
				c.NoEnc = !e.thor && (j.st.Name != "preamble" || d == -1)
				rn.runCase(j.sh.Name, c)
			}
			return
		}
		onchain := rn.lastOnChain().Hash()
		for _, m := range rn.allMutations(onchain) {
			if e.r.Expired() {
				return
			}
			c, ok, err := rn.buildCase(*j.sh, m, 0)
			if err != nil {
				e.f.add(fmt.Sprintf("sound:harness:build:%s:%s:%s", m.Rule, j.sh.Name, j.st.Name), &caseRec{Sub: "sound", State: j.st.Name, Rule: m.Rule, Shape: j.sh.Name, Note: err.Error()})
				continue
			}
			if !ok {
				continue
			}
			rn.runCase(j.sh.Name, c)
		}
	})
	var names []string
	for _, s := range shs {
		names = append(names, s.Name)
	}
	return map[string]any{"states": states, "shapes": names, "shapes_per_state": perState, "variants_per_shape_max": nmut, "jobs": len(jobs)}
}

func (e *env) isR2(name string) bool {
	for _, n := range e.r2Names {
		if n == name {
			return true
		}
	}
	return false
}

// allShapes is the whole shape menu (base, first and second extension).
func allShapes() []shape { return append(append(shapes(), extShapes()...), r2Shapes()...) }

// allMutations is the whole variant menu of the runner's state.
func (rn *runner) allMutations(onchain util.Uint256) []mutation {
	return append(append(mutations(onchain), rn.extMutations()...), r2Mutations()...)
}

// soundStateNames lists the states of the soundness menu.
func (e *env) soundStateNames() []string {
	states := append([]string{}, soundStates...)
	for _, s := range extStates() {
		states = append(states, s.Name)
	}
	states = append(append(states, e.mtbNames...), e.comNames...)
	return append(states, e.r2Names...)
}

// stateLevel submits the transactions that are special in the runner's state:
// a duplicate of an on-chain transaction and the cast of the Conflicts scenario.
func (rn *runner) stateLevel() {
	for _, c := range rn.levelCases() {
		rn.runCase("state-level", c)
	}
}

// levelCases builds the state-level submissions.
func (rn *runner) levelCases() []*sCase {
	f := rn.facts
	var out []*sCase
	mk := func(rule string, tx *transaction.Transaction) *sCase {
		c := &sCase{Rule: rule, Tx: tx, Need: tx.NetworkFee, Unsigned: stripped(tx), Signers: acctsOf(f, tx)}
		// the network fee was exact when the transaction was built; a later
		// fee-per-byte increase makes it too small
		if need, _, err := calcFee(rn.n.BC, f.Magic, stripped(tx), acctsOf(f, tx)); err == nil {
			c.Need = need
		}
		c.Want, c.Why = valid(f, c)
		return c
	}
	out = append(out, mk("duplicate-of-onchain-tx", rn.lastOnChain()))
	for _, role := range []string{"by-sender", "by-cosigner", "second-signer", "by-stranger", "onchain-X", "onchain-Y"} {
		cast := rn.e.cast
		if rn.st.Sc != nil && rn.st.Sc == rn.e.scMTB {
			cast = rn.e.castMTB
		}
		if rn.st.Cast != nil {
			cast = rn.st.Cast
		}
		b := cast.get(role)
		if b == nil {
			continue
		}
		tx, err := transaction.NewTransactionFromBytes(b)
		if err != nil {
			panic(err)
		}
		out = append(out, mk("conflicts-cast-"+role, tx))
	}
	return out
}

func stripped(tx *transaction.Transaction) *transaction.Transaction {
	c := tx.Copy()
	c.Scripts = nil
	return c
}

func acctsOf(f *facts, tx *transaction.Transaction) []*acct {
	var out []*acct
	for _, s := range tx.Signers {
		a := f.Accts[s.Account]
		if a == nil {
			a = &acct{Name: "unknown", Hash: s.Account}
		}
		out = append(out, a)
	}
	return out
}

var _ = chainx.Acc
