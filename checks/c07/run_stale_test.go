package c07

// Histories of the proposable clause: transactions that were valid when they
// were pooled and a block that arrives afterwards. Whatever the pool offers
// after that block (GetVerifiedTransactions -> ApplyPolicyToTxSet) must again
// form a block that a replica which never saw the pool accepts. Every scenario
// comes with its boundary twin (the same block leaves the transaction valid by
// exactly one unit / one block), so both outcomes of the pool's re-check are
// exercised.

import (
	"fmt"
	"strings"

	"github.com/nspcc-dev/neo-go/pkg/core/native/nativehashes"
	"github.com/nspcc-dev/neo-go/pkg/core/native/noderoles"
	"github.com/nspcc-dev/neo-go/pkg/core/transaction"
	"github.com/nspcc-dev/neo-go/pkg/neotest"
	"github.com/nspcc-dev/neo-go/pkg/util"
	"github.com/nspcc-dev/neo-go/pkg/vm/opcode"

	"verif/lib/chainx"
)

type staleScn struct {
	Name string
	Base string
	// Pool builds the transactions the proposer pools before the block arrives (all must be admitted).
	Pool func(n *chainx.Node) ([]*transaction.Transaction, error)
	// Block builds the transactions of the arriving block on the builder replica.
	Block func(m *chainx.Node, w *chainx.World, pooled []*transaction.Transaction) ([]*transaction.Transaction, error)
	// Empties is the number of empty blocks that follow.
	Empties int
	// Kept: by construction the first pooled transaction is still valid after the block(s).
	Kept bool
	// MayFault: the transactions of the arriving block need not halt.
	MayFault bool
	// Ctl is the sender of the control transaction (0: account 8).
	Ctl int
	// Lead is the number of empty blocks that arrive before the scenario's block.
	Lead int
}

// buildHook is build with a hook that changes the hashable content after the
// calculator ran and before signing.
func buildHook(n *chainx.Node, sp *txSpec, hook func(tx *transaction.Transaction)) (*transaction.Transaction, error) {
	magic := uint32(n.BC.GetConfig().Magic)
	tx := unsigned(n.BC.BlockHeight(), sp)
	calc, _, err := calcFee(n.BC, magic, tx, sp.Signers)
	if err != nil {
		return nil, err
	}
	tx = fresh(tx)
	tx.NetworkFee = calc + sp.NetDelta
	fixSysFee(sp, tx)
	if hook != nil {
		hook(tx)
	}
	sign(magic, tx, sp.Signers)
	return tx, nil
}

func staleScenarios() []staleScn {
	sig := func(i ...int) []*acct {
		var out []*acct
		for _, k := range i {
			out = append(out, sigAcct(k))
		}
		return out
	}
	one := func(f func(n *chainx.Node) (*transaction.Transaction, error)) func(n *chainx.Node) ([]*transaction.Transaction, error) {
		return func(n *chainx.Node) ([]*transaction.Transaction, error) {
			tx, err := f(n)
			if err != nil {
				return nil, err
			}
			return []*transaction.Transaction{tx}, nil
		}
	}
	plain := func(label string, vubDelta uint32, signers ...int) func(n *chainx.Node) ([]*transaction.Transaction, error) {
		return one(func(n *chainx.Node) (*transaction.Transaction, error) {
			sp := &txSpec{Label: "stale/" + label, Signers: sig(signers...), Script: nops(7), SysFee: gas / 10}
			if vubDelta != 0 {
				sp.VUB = n.BC.BlockHeight() + vubDelta
			}
			tx, _, err := build(n, sp)
			return tx, err
		})
	}
	none := func(m *chainx.Node, w *chainx.World, pooled []*transaction.Transaction) ([]*transaction.Transaction, error) {
		return nil, nil
	}
	committee := func(h util.Uint160, method string, args ...any) func(m *chainx.Node, w *chainx.World, pooled []*transaction.Transaction) ([]*transaction.Transaction, error) {
		return func(m *chainx.Node, w *chainx.World, pooled []*transaction.Transaction) ([]*transaction.Transaction, error) {
			tx, err := m.CallTx([]neotest.Signer{m.Committee}, h, method, args...)
			if err != nil {
				return nil, err
			}
			return []*transaction.Transaction{tx}, nil
		}
	}
	pol := nativehashes.PolicyContract
	committeeDyn := func(h util.Uint160, method string, v func(m *chainx.Node) int64) func(m *chainx.Node, w *chainx.World, pooled []*transaction.Transaction) ([]*transaction.Transaction, error) {
		return func(m *chainx.Node, w *chainx.World, pooled []*transaction.Transaction) ([]*transaction.Transaction, error) {
			tx, err := m.CallTx([]neotest.Signer{m.Committee}, h, method, v(m))
			if err != nil {
				return nil, err
			}
			return []*transaction.Transaction{tx}, nil
		}
	}
	// a transaction that names the first pooled one in a Conflicts attribute
	naming := func(signer int) func(m *chainx.Node, w *chainx.World, pooled []*transaction.Transaction) ([]*transaction.Transaction, error) {
		return func(m *chainx.Node, w *chainx.World, pooled []*transaction.Transaction) ([]*transaction.Transaction, error) {
			tx, _, err := build(m, &txSpec{Label: "stale/naming", Signers: sig(signer), Script: nops(8), SysFee: gas / 10, Attrs: []transaction.Attribute{attrConflicts(pooled[0].Hash())}})
			if err != nil {
				return nil, err
			}
			return []*transaction.Transaction{tx}, nil
		}
	}
	otherSpec := func() *txSpec {
		return &txSpec{Label: "stale/other", Signers: sig(5), Script: nops(9), SysFee: gas / 10}
	}
	boostedBy := func(label string, perByte, delta int64, attrs func(n *chainx.Node) []transaction.Attribute) func(n *chainx.Node) ([]*transaction.Transaction, error) {
		return one(func(n *chainx.Node) (*transaction.Transaction, error) {
			sp := &txSpec{Label: "stale/" + label, Signers: sig(1), Script: nops(7), SysFee: gas / 10}
			if attrs != nil {
				sp.Attrs = attrs(n)
			}
			tx, _, err := build(n, sp)
			if err != nil {
				return nil, err
			}
			sp.NetDelta = perByte*int64(len(tx.Bytes())) + delta
			tx, _, err = build(n, sp)
			return tx, err
		})
	}
	nvb := func(n *chainx.Node) []transaction.Attribute {
		return []transaction.Attribute{attrNVB(n.BC.BlockHeight())}
	}
	// account 7 holds poorBalance; total is system + network fee
	poorTx := func(n *chainx.Node, label string, total int64) (*transaction.Transaction, error) {
		return buildHook(n, &txSpec{Label: "stale/" + label, Signers: sig(7), Script: nops(7)}, func(tx *transaction.Transaction) { tx.SystemFee = total - tx.NetworkFee })
	}
	poorPool := func(totals ...int64) func(n *chainx.Node) ([]*transaction.Transaction, error) {
		return func(n *chainx.Node) ([]*transaction.Transaction, error) {
			var out []*transaction.Transaction
			for i, t := range totals {
				tx, err := poorTx(n, fmt.Sprintf("poor%d", i), t)
				if err != nil {
					return nil, err
				}
				out = append(out, tx)
			}
			return out, nil
		}
	}
	poorBlock := func(total int64) func(m *chainx.Node, w *chainx.World, pooled []*transaction.Transaction) ([]*transaction.Transaction, error) {
		return func(m *chainx.Node, w *chainx.World, pooled []*transaction.Transaction) ([]*transaction.Transaction, error) {
			tx, err := poorTx(m, "poor-in-block", total)
			if err != nil {
				return nil, err
			}
			return []*transaction.Transaction{tx}, nil
		}
	}
	third := int64(poorBalance / 3)
	return []staleScn{
		{Name: "unrelated-block", Pool: plain("t", 0, 1), Block: func(m *chainx.Node, w *chainx.World, pooled []*transaction.Transaction) ([]*transaction.Transaction, error) {
			tx, _, err := build(m, otherSpec())
			return []*transaction.Transaction{tx}, err
		}, Kept: true},
		// validity window
		{Name: "vub=next-block", Pool: plain("t", 1, 1), Block: none},
		{Name: "vub=block-after-next", Pool: plain("t", 2, 1), Block: none, Kept: true},
		{Name: "vub=block-after-next,two-blocks", Pool: plain("t", 2, 1), Block: none, Empties: 1},
		{Name: "vub=height+40,max-increment-set-to-30", Pool: plain("t", 40, 1), Block: committee(pol, "setMaxValidUntilBlockIncrement", int64(30))},
		{Name: "vub=height+31,max-increment-set-to-30", Pool: plain("t", 31, 1), Block: committee(pol, "setMaxValidUntilBlockIncrement", int64(30)), Kept: true},
		{Name: "vub=height+32,max-increment-set-to-30", Pool: plain("t", 32, 1), Block: committee(pol, "setMaxValidUntilBlockIncrement", int64(30))},
		// on chain / conflicts
		{Name: "included-in-the-block", Pool: plain("t", 0, 1), Block: func(m *chainx.Node, w *chainx.World, pooled []*transaction.Transaction) ([]*transaction.Transaction, error) {
			tx, err := transaction.NewTransactionFromBytes(pooled[0].Bytes())
			return []*transaction.Transaction{tx}, err
		}},
		{Name: "named-by-sender-in-block", Pool: plain("t", 0, 1), Block: naming(1)},
		{Name: "named-by-cosigner-in-block", Pool: plain("t", 0, 1, 2), Block: naming(2)},
		{Name: "named-by-stranger-in-block", Pool: plain("t", 0, 1), Block: naming(5), Kept: true},
		{Name: "names-a-transaction-of-the-block", Pool: one(func(n *chainx.Node) (*transaction.Transaction, error) {
			o, _, err := build(n, otherSpec())
			if err != nil {
				return nil, err
			}
			tx, _, err := build(n, &txSpec{Label: "stale/t", Signers: sig(1), Script: nops(7), SysFee: gas / 10, NetDelta: gas / 100, Attrs: []transaction.Attribute{attrConflicts(o.Hash())}})
			return tx, err
		}), Block: func(m *chainx.Node, w *chainx.World, pooled []*transaction.Transaction) ([]*transaction.Transaction, error) {
			tx, _, err := build(m, otherSpec())
			return []*transaction.Transaction{tx}, err
		}},
		// policy
		{Name: "sender-blocked", Pool: plain("t", 0, 2), Block: committee(pol, "blockAccount", chainx.Acc(2).ScriptHash())},
		{Name: "cosigner-blocked", Pool: plain("t", 0, 1, 2), Block: committee(pol, "blockAccount", chainx.Acc(2).ScriptHash())},
		{Name: "other-account-blocked", Pool: plain("t", 0, 1, 2), Block: committee(pol, "blockAccount", chainx.Acc(6).ScriptHash()), Kept: true},
		{Name: "fee-per-byte+1,exact-fee", Pool: boostedBy("t", 0, 0, nil), Block: committeeDyn(pol, "setFeePerByte", func(m *chainx.Node) int64 { return m.BC.FeePerByte() + 1 })},
		{Name: "fee-per-byte+1,pays-one-unit-less-than-new-fee", Pool: boostedBy("t", 1, -1, nil), Block: committeeDyn(pol, "setFeePerByte", func(m *chainx.Node) int64 { return m.BC.FeePerByte() + 1 })},
		{Name: "fee-per-byte+1,pays-new-fee-exactly", Pool: boostedBy("t", 1, 0, nil), Block: committeeDyn(pol, "setFeePerByte", func(m *chainx.Node) int64 { return m.BC.FeePerByte() + 1 }), Kept: true},
		{Name: "exec-fee-factor-doubled,exact-fee", Pool: boostedBy("t", 0, 0, nil), Block: committeeDyn(pol, "setExecFeeFactor", func(m *chainx.Node) int64 { return m.BC.GetBaseExecFee() * 2 })},
		{Name: "exec-fee-factor-halved,exact-fee", Pool: boostedBy("t", 0, 0, nil), Block: committeeDyn(pol, "setExecFeeFactor", func(m *chainx.Node) int64 { return m.BC.GetBaseExecFee() / 2 }), Kept: true},
		{Name: "attribute-fee+1,exact-fee", Pool: boostedBy("t", 0, 0, nvb), Block: committee(pol, "setAttributeFee", int64(transaction.NotValidBeforeT), int64(feeNVB+1))},
		{Name: "attribute-fee+1,pays-new-fee-exactly", Pool: boostedBy("t", 0, 1, nvb), Block: committee(pol, "setAttributeFee", int64(transaction.NotValidBeforeT), int64(feeNVB+1)), Kept: true},
		{Name: "other-attribute-fee+1,exact-fee", Pool: boostedBy("t", 0, 0, nvb), Block: committee(pol, "setAttributeFee", int64(transaction.ConflictsT), int64(feeConflicts+1)), Kept: true},
		// solvency
		{Name: "balance-drained-by-block,one-unit-short", Pool: poorPool(2 * third), Block: poorBlock(poorBalance - 2*third + 1)},
		{Name: "balance-drained-by-block,exactly-enough-left", Pool: poorPool(2 * third), Block: poorBlock(poorBalance - 2*third), Kept: true},
		{Name: "three-pooled-fill-balance,first-included", Pool: poorPool(third, third, poorBalance-2*third), Block: func(m *chainx.Node, w *chainx.World, pooled []*transaction.Transaction) ([]*transaction.Transaction, error) {
			tx, err := transaction.NewTransactionFromBytes(pooled[0].Bytes())
			return []*transaction.Transaction{tx}, err
		}},
		{Name: "two-pooled,block-leaves-enough-for-one", Pool: poorPool(third, third), Block: poorBlock(poorBalance - third - third/2), Kept: true},
		// witnesses that depend on the chain state
		{Name: "contract-of-cosigner-destroyed", Pool: one(func(n *chainx.Node) (*transaction.Transaction, error) {
			tx, _, err := build(n, &txSpec{Label: "stale/t", Signers: []*acct{sigAcct(1), ubAcct()}, Script: nops(7), SysFee: gas / 10})
			return tx, err
		}), Block: func(m *chainx.Node, w *chainx.World, pooled []*transaction.Transaction) ([]*transaction.Transaction, error) {
			return chainx.TplByName("destroy-ub")[0].Build(w)
		}},
		{Name: "other-contract-destroyed", Pool: one(func(n *chainx.Node) (*transaction.Transaction, error) {
			tx, _, err := build(n, &txSpec{Label: "stale/t", Signers: []*acct{sigAcct(1), uaAcct()}, Script: nops(7), SysFee: gas / 10})
			return tx, err
		}), Block: func(m *chainx.Node, w *chainx.World, pooled []*transaction.Transaction) ([]*transaction.Transaction, error) {
			return chainx.TplByName("destroy-ub")[0].Build(w)
		}, Kept: true},
		{Name: "notary-role-moved", Pool: one(func(n *chainx.Node) (*transaction.Transaction, error) {
			tx, _, err := build(n, &txSpec{Label: "stale/t", Signers: []*acct{sigAcct(1), notaryAcct(uint32(n.BC.GetConfig().Magic))}, Script: nops(7), SysFee: gas / 10, Attrs: []transaction.Attribute{attrNotary(1)}})
			return tx, err
		}), Block: committee(nativehashes.RoleManagement, "designateAsRole", int64(noderoles.P2PNotary), []any{chainx.Acc(3).PublicKey().Bytes()})},
		{Name: "notary-role-extended", Pool: one(func(n *chainx.Node) (*transaction.Transaction, error) {
			tx, _, err := build(n, &txSpec{Label: "stale/t", Signers: []*acct{sigAcct(1), notaryAcct(uint32(n.BC.GetConfig().Magic))}, Script: nops(7), SysFee: gas / 10, Attrs: []transaction.Attribute{attrNotary(1)}})
			return tx, err
		}), Block: committee(nativehashes.RoleManagement, "designateAsRole", int64(noderoles.P2PNotary), []any{chainx.Acc(3).PublicKey().Bytes(), chainx.Acc(4).PublicKey().Bytes()}), Kept: true},
		// attributes that depend on the chain state
		{Name: "oracle-request-answered-by-block", Base: "oracle", Pool: one(func(n *chainx.Node) (*transaction.Transaction, error) {
			tx, _, err := build(n, &txSpec{Label: "stale/t", Signers: []*acct{oracleContractAcct(), oracleNodesAcct()}, Script: oracleResponseScript(), SysFee: sysFeeOracle, Attrs: []transaction.Attribute{attrOracle(0)}})
			return tx, err
		}), Block: func(m *chainx.Node, w *chainx.World, pooled []*transaction.Transaction) ([]*transaction.Transaction, error) {
			// (the callback of the request does not exist: the response faults and the request stays pending)
			tx, err := chainx.OracleRespondTx(m)
			return []*transaction.Transaction{tx}, err
		}, MayFault: true, Kept: true},
		{Name: "oracle-role-moved", Base: "oracle", Pool: one(func(n *chainx.Node) (*transaction.Transaction, error) {
			tx, _, err := build(n, &txSpec{Label: "stale/t", Signers: []*acct{oracleContractAcct(), oracleNodesAcct()}, Script: oracleResponseScript(), SysFee: sysFeeOracle, Attrs: []transaction.Attribute{attrOracle(0)}})
			return tx, err
		}), Block: committee(nativehashes.RoleManagement, "designateAsRole", int64(noderoles.Oracle), []any{chainx.Acc(5).PublicKey().Bytes()})},
		{Name: "highpriority,unrelated-block", Pool: one(func(n *chainx.Node) (*transaction.Transaction, error) {
			tx, _, err := build(n, &txSpec{Label: "stale/t", Signers: []*acct{committeeAcct(n)}, Script: nops(7), SysFee: gas / 10, Attrs: []transaction.Attribute{attrHP}})
			return tx, err
		}), Block: none, Kept: true},
		// the committee changes with the arriving block (multi-validator scenario: the vote is on chain,
		// the next block is the first of the new committee)
		{Name: "highpriority,committee-replaced-by-block", Base: "committee-1", Ctl: 5, Pool: one(func(n *chainx.Node) (*transaction.Transaction, error) {
			tx, _, err := build(n, &txSpec{Label: "stale/t", Signers: []*acct{sigAcct(1), standbyCommitteeAcct(n)}, Script: nops(7), SysFee: gas / 10, Attrs: []transaction.Attribute{attrHP}})
			return tx, err
		}), Block: none},
		{Name: "highpriority,committee-not-yet-replaced", Base: "committee-0", Ctl: 5, Pool: one(func(n *chainx.Node) (*transaction.Transaction, error) {
			tx, _, err := build(n, &txSpec{Label: "stale/t", Signers: []*acct{sigAcct(1), standbyCommitteeAcct(n)}, Script: nops(7), SysFee: gas / 10, Attrs: []transaction.Attribute{attrHP}})
			return tx, err
		}), Block: none, Kept: true},
	}
}

var _ = opcode.RET

func (e *env) runStale() map[string]any {
	scns := staleScenarios()
	if e.thor {
		// deep bound: the pool also lives through an unrelated empty block before the scenario's block arrives
		for _, s := range staleScenarios() {
			s.Lead = 1
			s.Name += ",after-an-empty-block"
			scns = append(scns, s)
		}
	}
	e.r.Parallel(len(scns), func(i int) {
		sub := newFindings()
		e.staleCase(&scns[i], sub)
		for k, f := range sub.m {
			e.f.add(k, f.Detail)
		}
	})
	var names []string
	for _, s := range scns {
		names = append(names, s.Name)
	}
	return map[string]any{"scenarios": names, "cases": len(scns)}
}

func (e *env) staleCase(s *staleScn, out *findings) {
	base := s.Base
	if base == "" {
		base = "preamble"
	}
	st := e.state(base)
	rec := &caseRec{Sub: "stale", State: base, Rule: s.Name}
	fail := func(what, note string) {
		r := *rec
		r.Note = note
		out.add(fmt.Sprintf("after-block:%s:%s", what, s.Name), &r)
	}
	defer func() {
		if p := recover(); p != nil {
			fail("panic", fmt.Sprint(p))
		}
	}()
	e.count.stale.Inc()
	P, err := e.freshNode(st)
	if err != nil {
		fail("harness-replica", err.Error())
		return
	}
	defer P.Close()
	M, err := e.freshNode(st)
	if err != nil {
		fail("harness-replica", err.Error())
		return
	}
	defer M.Close()
	pooled, err := s.Pool(P)
	if err != nil {
		fail("harness-build", err.Error())
		return
	}
	// a control transaction of an account no scenario touches
	ctlAcc := 8
	if s.Ctl != 0 {
		ctlAcc = s.Ctl
	}
	ctl, _, err := build(P, &txSpec{Label: "stale/control", Signers: []*acct{sigAcct(ctlAcc)}, Script: nops(6), SysFee: gas / 10, NetDelta: gas / 100})
	if err != nil {
		fail("harness-build", err.Error())
		return
	}
	for _, tx := range append(append([]*transaction.Transaction{}, pooled...), ctl) {
		c, err := transaction.NewTransactionFromBytes(tx.Bytes())
		if err == nil {
			err = P.BC.PoolTx(c)
		}
		if err != nil {
			fail("harness-not-pooled", fmt.Sprintf("%s: %v", tx.Hash().StringLE(), err))
			return
		}
		rec.Pre = append(rec.Pre, fmt.Sprintf("%x", tx.Bytes()))
	}
	var wires [][]byte
	for i := 0; i < s.Lead; i++ {
		b, err := M.AddBlock()
		if err != nil {
			fail("harness-block", err.Error())
			return
		}
		wire, _ := chainx.BlockBytes(b)
		wires = append(wires, wire)
		if err := P.AddBytes(wire); err != nil {
			fail("arriving-block-rejected-by-the-pooling-node", err.Error())
			return
		}
	}
	txs, err := s.Block(M, e.scOf(st).World.Attach(M), pooled)
	if err != nil {
		fail("harness-block", err.Error())
		return
	}
	for i := 0; i <= s.Empties; i++ {
		var b, err = M.AddBlock(txs...)
		if err != nil {
			fail("harness-block", err.Error())
			return
		}
		for _, tx := range txs {
			if s.MayFault {
				break
			}
			if err := M.CheckHalt(tx.Hash()); err != nil {
				fail("harness-block-tx-faulted", err.Error())
				return
			}
		}
		txs = nil
		wire, err := chainx.BlockBytes(b)
		if err != nil {
			fail("harness-block", err.Error())
			return
		}
		wires = append(wires, wire)
		if err := P.AddBytes(wire); err != nil {
			fail("arriving-block-rejected-by-the-pooling-node", err.Error())
			return
		}
	}
	kept := P.BC.GetMemPool().ContainsKey(pooled[0].Hash())
	class := fmt.Sprintf("valid-afterwards=%v,offered=%v", s.Kept, kept)
	e.out("stale", s.Name+":"+class)
	e.r.Outcome("stale:" + class)
	e.count.states.Add("stale/" + s.Name)
	newR := func() (*chainx.Node, error) {
		R, err := e.freshNode(st)
		if err != nil {
			return nil, err
		}
		for _, w := range wires {
			if err := R.AddBytes(w); err != nil {
				R.Close()
				return nil, fmt.Errorf("replica rejects the arriving block: %w", err)
			}
		}
		return R, nil
	}
	nsel, _, _, ok := e.propose(P, "after-block", limitsOf(P), newR, fail)
	if ok {
		e.r.Sample(map[string]any{"sub": "stale", "scenario": s.Name, "first_pooled_still_offered": kept, "valid_afterwards_by_construction": s.Kept, "in_next_block": nsel})
	}
}

func (e *env) replayStale(c *caseRec) string {
	all := staleScenarios()
	for _, s := range staleScenarios() {
		s.Lead = 1
		s.Name += ",after-an-empty-block"
		all = append(all, s)
	}
	for _, s := range all {
		if s.Name != c.Rule {
			continue
		}
		sub := newFindings()
		e.staleCase(&s, sub)
		var out []string
		for k, f := range sub.m {
			out = append(out, k+": "+f.Detail.Note)
		}
		return strings.Join(out, "; ")
	}
	return "harness: unknown scenario " + c.Rule
}
