package c07

import (
	"encoding/binary"
	"fmt"
)

// ---- independent reference for script well-formedness ---------------------------------
//
// Written from the NeoVM instruction set description (opcode byte, operand
// size class), not from pkg/vm/opcode or scparser:
//
//   - a script is a sequence of complete instructions with known opcodes;
//   - PUSHDATA1/2/4 carry a 1/2/4 byte little-endian length followed by that many bytes;
//   - every instruction that carries a code offset - JMP*, JMP*_L, CALL, CALL_L,
//     PUSHA, ENDTRY, ENDTRY_L (one signed offset) and TRY, TRY_L (two) - must
//     point, relative to its own position, to the first byte of an instruction
//     of the script or to the end of the script (offset == len(script) is the
//     implicit RET: scparser.Context.CalcJumpOffset documents that it is allowed);
//   - NEWARRAY_T, ISTYPE and CONVERT carry a stack item type: it must be one of
//     the defined types, and not Any for ISTYPE and CONVERT.

type opKind int

const (
	kPlain opKind = iota // fixed operand, no meaning for well-formedness
	kOff1                // one signed 1-byte code offset
	kOff4                // one signed 4-byte code offset
	kTry                 // two 1-byte offsets
	kTryL                // two 4-byte offsets
	kData1
	kData2
	kData4
	kType
)

type opInfo struct {
	Name    string
	Operand int
	Kind    opKind
}

var opTable = func() map[byte]opInfo {
	t := map[byte]opInfo{}
	add := func(b byte, name string, operand int, kind opKind) { t[b] = opInfo{name, operand, kind} }
	for i, n := range []int{1, 2, 4, 8, 16, 32} {
		add(byte(i), fmt.Sprintf("PUSHINT%d", n*8), n, kPlain)
	}
	add(0x08, "PUSHT", 0, kPlain)
	add(0x09, "PUSHF", 0, kPlain)
	add(0x0a, "PUSHA", 4, kOff4)
	add(0x0b, "PUSHNULL", 0, kPlain)
	add(0x0c, "PUSHDATA1", 1, kData1)
	add(0x0d, "PUSHDATA2", 2, kData2)
	add(0x0e, "PUSHDATA4", 4, kData4)
	add(0x0f, "PUSHM1", 0, kPlain)
	for i := 0; i <= 16; i++ {
		add(byte(0x10+i), fmt.Sprintf("PUSH%d", i), 0, kPlain)
	}
	add(0x21, "NOP", 0, kPlain)
	for i, n := range []string{"JMP", "JMPIF", "JMPIFNOT", "JMPEQ", "JMPNE", "JMPGT", "JMPGE", "JMPLT", "JMPLE", "CALL"} {
		add(byte(0x22+2*i), n, 1, kOff1)
		add(byte(0x23+2*i), n+"_L", 4, kOff4)
	}
	add(0x36, "CALLA", 0, kPlain)
	add(0x37, "CALLT", 2, kPlain)
	add(0x38, "ABORT", 0, kPlain)
	add(0x39, "ASSERT", 0, kPlain)
	add(0x3a, "THROW", 0, kPlain)
	add(0x3b, "TRY", 2, kTry)
	add(0x3c, "TRY_L", 8, kTryL)
	add(0x3d, "ENDTRY", 1, kOff1)
	add(0x3e, "ENDTRY_L", 4, kOff4)
	add(0x3f, "ENDFINALLY", 0, kPlain)
	add(0x40, "RET", 0, kPlain)
	add(0x41, "SYSCALL", 4, kPlain)
	plain := func(names map[byte]string) {
		for b, n := range names {
			add(b, n, 0, kPlain)
		}
	}
	plain(map[byte]string{0x43: "DEPTH", 0x45: "DROP", 0x46: "NIP", 0x48: "XDROP", 0x49: "CLEAR", 0x4a: "DUP", 0x4b: "OVER", 0x4d: "PICK", 0x4e: "TUCK",
		0x50: "SWAP", 0x51: "ROT", 0x52: "ROLL", 0x53: "REVERSE3", 0x54: "REVERSE4", 0x55: "REVERSEN"})
	add(0x56, "INITSSLOT", 1, kPlain)
	add(0x57, "INITSLOT", 2, kPlain)
	for g, n := range []string{"LDSFLD", "STSFLD", "LDLOC", "STLOC", "LDARG", "STARG"} {
		base := byte(0x58 + 8*g)
		for i := 0; i < 7; i++ {
			add(base+byte(i), fmt.Sprintf("%s%d", n, i), 0, kPlain)
		}
		add(base+7, n, 1, kPlain)
	}
	plain(map[byte]string{0x88: "NEWBUFFER", 0x89: "MEMCPY", 0x8b: "CAT", 0x8c: "SUBSTR", 0x8d: "LEFT", 0x8e: "RIGHT",
		0x90: "INVERT", 0x91: "AND", 0x92: "OR", 0x93: "XOR", 0x97: "EQUAL", 0x98: "NOTEQUAL",
		0x99: "SIGN", 0x9a: "ABS", 0x9b: "NEGATE", 0x9c: "INC", 0x9d: "DEC", 0x9e: "ADD", 0x9f: "SUB", 0xa0: "MUL", 0xa1: "DIV", 0xa2: "MOD",
		0xa3: "POW", 0xa4: "SQRT", 0xa5: "MODMUL", 0xa6: "MODPOW", 0xa8: "SHL", 0xa9: "SHR", 0xaa: "NOT", 0xab: "BOOLAND", 0xac: "BOOLOR",
		0xb1: "NZ", 0xb3: "NUMEQUAL", 0xb4: "NUMNOTEQUAL", 0xb5: "LT", 0xb6: "LE", 0xb7: "GT", 0xb8: "GE", 0xb9: "MIN", 0xba: "MAX", 0xbb: "WITHIN",
		0xbe: "PACKMAP", 0xbf: "PACKSTRUCT", 0xc0: "PACK", 0xc1: "UNPACK", 0xc2: "NEWARRAY0", 0xc3: "NEWARRAY", 0xc5: "NEWSTRUCT0", 0xc6: "NEWSTRUCT",
		0xc8: "NEWMAP", 0xca: "SIZE", 0xcb: "HASKEY", 0xcc: "KEYS", 0xcd: "VALUES", 0xce: "PICKITEM", 0xcf: "APPEND", 0xd0: "SETITEM",
		0xd1: "REVERSEITEMS", 0xd2: "REMOVE", 0xd3: "CLEARITEMS", 0xd4: "POPITEM", 0xd8: "ISNULL", 0xe0: "ABORTMSG", 0xe1: "ASSERTMSG"})
	add(0xc4, "NEWARRAY_T", 1, kType)
	add(0xd9, "ISTYPE", 1, kType)
	add(0xdb, "CONVERT", 1, kType)
	return t
}()

var validItemTypes = map[byte]bool{0x00: true, 0x10: true, 0x20: true, 0x21: true, 0x28: true, 0x30: true, 0x40: true, 0x41: true, 0x48: true, 0x60: true}

// undeterminedOps are opcode bytes the reference does not want to judge;
// scripts using them are excluded instead of guessed. Empty: the reference
// table covers all 256 byte values.
var undeterminedOps = map[byte]bool{}

// scriptWellFormed is the reference predicate.
func scriptWellFormed(s []byte) (bool, string) {
	boundary := make([]bool, len(s)+1)
	type ref struct{ at, target int }
	var refs []ref
	for ip := 0; ip < len(s); {
		boundary[ip] = true
		info, ok := opTable[s[ip]]
		if !ok {
			return false, fmt.Sprintf("unknown opcode 0x%02x at %d", s[ip], ip)
		}
		p := ip + 1
		if p+info.Operand > len(s) {
			return false, fmt.Sprintf("%s at %d: operand incomplete", info.Name, ip)
		}
		op := s[p : p+info.Operand]
		next := p + info.Operand
		switch info.Kind {
		case kData1, kData2, kData4:
			var n uint64
			switch info.Kind {
			case kData1:
				n = uint64(op[0])
			case kData2:
				n = uint64(binary.LittleEndian.Uint16(op))
			default:
				n = uint64(binary.LittleEndian.Uint32(op))
			}
			if uint64(next)+n > uint64(len(s)) {
				return false, fmt.Sprintf("%s at %d: data runs past the end", info.Name, ip)
			}
			next += int(n)
		case kOff1:
			refs = append(refs, ref{ip, ip + int(int8(op[0]))})
		case kOff4:
			refs = append(refs, ref{ip, ip + int(int32(binary.LittleEndian.Uint32(op)))})
		case kTry:
			refs = append(refs, ref{ip, ip + int(int8(op[0]))}, ref{ip, ip + int(int8(op[1]))})
		case kTryL:
			refs = append(refs, ref{ip, ip + int(int32(binary.LittleEndian.Uint32(op)))}, ref{ip, ip + int(int32(binary.LittleEndian.Uint32(op[4:])))})
		case kType:
			if !validItemTypes[op[0]] {
				return false, fmt.Sprintf("%s at %d: undefined item type 0x%02x", info.Name, ip, op[0])
			}
			if op[0] == 0 && info.Name != "NEWARRAY_T" {
				return false, fmt.Sprintf("%s at %d: type Any", info.Name, ip)
			}
		}
		ip = next
	}
	for _, r := range refs {
		if r.target < 0 || r.target > len(s) {
			return false, fmt.Sprintf("offset at %d points outside the script (%d)", r.at, r.target)
		}
		if r.target < len(s) && !boundary[r.target] {
			return false, fmt.Sprintf("offset at %d points into the middle of an instruction (%d)", r.at, r.target)
		}
	}
	return true, ""
}

// usesUndetermined reports whether the reference walk of s meets an opcode byte of the undetermined set.
func usesUndetermined(s []byte) bool {
	for ip := 0; ip < len(s); {
		if undeterminedOps[s[ip]] {
			return true
		}
		info, ok := opTable[s[ip]]
		if !ok {
			return false
		}
		ip += 1 + info.Operand
		if info.Kind == kData1 || info.Kind == kData2 || info.Kind == kData4 {
			return false // generated scripts have nothing of interest after data
		}
	}
	return false
}

// ---- the script alphabet ------------------------------------------------------------------------

type scriptCase struct {
	Op     string
	Class  string
	Script []byte
}

func le32(v int) []byte {
	b := make([]byte, 4)
	binary.LittleEndian.PutUint32(b, uint32(int32(v)))
	return b
}

// offsetLayout is the frame around an offset-carrying instruction of length
// ilen placed at position 4:
//
//	0: PUSHINT16 (3 bytes)   3: NOP   4: <instruction>   4+ilen: NOP
//	5+ilen: PUSHINT32 (5 bytes)   [pad NOPs]   last: RET
func offsetLayout(instr []byte, pad int) []byte {
	s := []byte{0x01, 0x11, 0x22, 0x21}
	s = append(s, instr...)
	s = append(s, 0x21, 0x02, 1, 2, 3, 4)
	for i := 0; i < pad; i++ {
		s = append(s, 0x21)
	}
	return append(s, 0x40)
}

type targetClass struct {
	Name string
	At   func(ilen, total int) int // absolute target
}

func targetClasses() []targetClass {
	return []targetClass{
		{"start", func(int, int) int { return 0 }},
		{"own-position", func(int, int) int { return 4 }},
		{"own-operand", func(int, int) int { return 5 }},
		{"middle-of-earlier-instruction", func(int, int) int { return 1 }},
		{"previous-instruction", func(int, int) int { return 3 }},
		{"next-instruction", func(l, _ int) int { return 4 + l }},
		{"middle-of-later-instruction", func(l, _ int) int { return 4 + l + 3 }},
		{"last-instruction", func(_, t int) int { return t - 1 }},
		{"end-of-script", func(_, t int) int { return t }},
		{"end-of-script+1", func(_, t int) int { return t + 1 }},
		{"before-start", func(int, int) int { return -1 }},
		{"far-forward", func(int, int) int { return 4 + 127 }},
		{"far-backward", func(int, int) int { return 4 - 128 }},
	}
}

// scriptCases enumerates the script well-formedness alphabet.
func scriptCases() []scriptCase {
	var out []scriptCase
	tcs := targetClasses()
	// 1. every offset-carrying opcode x every target class, in two frames: a short
	// one and one whose length is exactly 64 (a word boundary of the bit sets)
	for b := 0; b < 256; b++ {
		info, ok := opTable[byte(b)]
		if !ok {
			continue
		}
		for _, frame := range []string{"", "@len64"} {
			switch info.Kind {
			case kOff1, kOff4:
				ilen := 1 + info.Operand
				for _, tc := range tcs {
					pad := 0
					if frame != "" {
						pad = 64 - len(offsetLayout(make([]byte, ilen), 0))
					}
					total := len(offsetLayout(make([]byte, ilen), pad))
					rel := tc.At(ilen, total) - 4
					instr := []byte{byte(b)}
					if info.Kind == kOff1 {
						instr = append(instr, byte(int8(rel)))
					} else {
						instr = append(instr, le32(rel)...)
					}
					out = append(out, scriptCase{info.Name, tc.Name + frame, offsetLayout(instr, pad)})
					if info.Kind == kOff4 && (tc.Name == "far-forward" || tc.Name == "far-backward") {
						far := 0x7fffffff
						if tc.Name == "far-backward" {
							far = -0x80000000
						}
						out = append(out, scriptCase{info.Name, tc.Name + "-32bit" + frame, offsetLayout(append([]byte{byte(b)}, le32(far)...), pad)})
					}
				}
			case kTry, kTryL:
				ilen := 1 + info.Operand
				for _, c := range tcs {
					for _, f := range tcs {
						if frame != "" && c.Name != "end-of-script" && f.Name != "end-of-script" {
							continue // the long frame matters for the end-of-script targets only
						}
						pad := 0
						if frame != "" {
							pad = 64 - len(offsetLayout(make([]byte, ilen), 0))
						}
						total := len(offsetLayout(make([]byte, ilen), pad))
						rc, rf := c.At(ilen, total)-4, f.At(ilen, total)-4
						instr := []byte{byte(b)}
						if info.Kind == kTry {
							instr = append(instr, byte(int8(rc)), byte(int8(rf)))
						} else {
							instr = append(append(instr, le32(rc)...), le32(rf)...)
						}
						out = append(out, scriptCase{info.Name, "catch=" + c.Name + ",finally=" + f.Name + frame, offsetLayout(instr, pad)})
					}
				}
			}
		}
	}
	// 2. every byte value as an opcode: complete instruction (known opcodes) / unknown opcode
	for b := 0; b < 256; b++ {
		info, ok := opTable[byte(b)]
		if !ok {
			out = append(out, scriptCase{fmt.Sprintf("0x%02x", b), "unknown-opcode", []byte{0x11, byte(b), 0x40}})
			out = append(out, scriptCase{fmt.Sprintf("0x%02x", b), "unknown-opcode-last", []byte{0x11, byte(b)}})
			continue
		}
		operand := make([]byte, info.Operand)
		if info.Kind == kType {
			operand[0] = 0x21
		}
		out = append(out, scriptCase{info.Name, "complete", append(append([]byte{0x11, byte(b)}, operand...), 0x40)})
		out = append(out, scriptCase{info.Name, "complete-last", append([]byte{0x11, byte(b)}, operand...)})
		// 3. truncated operands: every shorter length
		for k := 0; k < info.Operand; k++ {
			if info.Operand > 8 && k != 0 && k != info.Operand-1 && k != info.Operand/2 {
				continue
			}
			out = append(out, scriptCase{info.Name, fmt.Sprintf("operand-truncated-to-%d-of-%d", k, info.Operand), append([]byte{0x11, byte(b)}, operand[:k]...)})
		}
	}
	// 4. PUSHDATA lengths around the end of the script
	for _, pd := range []struct {
		b    byte
		name string
		pre  func(n int) []byte
	}{
		{0x0c, "PUSHDATA1", func(n int) []byte { return []byte{byte(n)} }},
		{0x0d, "PUSHDATA2", func(n int) []byte { return []byte{byte(n), byte(n >> 8)} }},
		{0x0e, "PUSHDATA4", func(n int) []byte { return le32(n) }},
	} {
		for _, c := range []struct {
			name       string
			decl, have int
			tail       bool
		}{
			{"data-exact-at-end", 5, 5, false},
			{"data-exact-then-RET", 5, 5, true},
			{"data-one-byte-short", 5, 4, false},
			{"data-absent", 5, 0, false},
			{"data-empty", 0, 0, true},
			{"data-length-past-end-by-one-with-RET", 6, 5, true}, // the RET is swallowed as data and one byte is missing
			{"data-length-255", 255, 5, true},
		} {
			s := append([]byte{0x11, pd.b}, pd.pre(c.decl)...)
			s = append(s, make([]byte, c.have)...)
			if c.tail {
				s = append(s, 0x40)
			}
			out = append(out, scriptCase{pd.name, c.name, s})
		}
	}
	out = append(out, scriptCase{"PUSHDATA2", "data-length-65535", append([]byte{0x0d, 0xff, 0xff}, make([]byte, 16)...)})
	out = append(out, scriptCase{"PUSHDATA4", "data-length-2^20+1", append(append([]byte{0x0e}, le32(1<<20+1)...), make([]byte, 16)...)})
	out = append(out, scriptCase{"PUSHDATA4", "data-length-2^31", append([]byte{0x0e, 0, 0, 0, 0x80}, make([]byte, 16)...)})
	out = append(out, scriptCase{"PUSHDATA4", "data-length-2^32-1", append([]byte{0x0e, 0xff, 0xff, 0xff, 0xff}, make([]byte, 16)...)})
	// 5. item type operands: every byte value
	for _, b := range []byte{0xc4, 0xd9, 0xdb} {
		for t := 0; t < 256; t++ {
			class := "type-undefined"
			if validItemTypes[byte(t)] {
				class = "type-defined"
			}
			if t == 0 {
				class = "type-any"
			}
			out = append(out, scriptCase{opTable[b].Name, fmt.Sprintf("%s-0x%02x", class, t), []byte{0x11, b, byte(t), 0x40}})
		}
	}
	// 6. an offset of one instruction pointing into the operand of another offset instruction, and data that looks like code
	out = append(out, scriptCase{"JMP", "into-pushdata-payload", []byte{0x22, 4, 0x0c, 3, 0x21, 0x21, 0x21, 0x40}})
	out = append(out, scriptCase{"JMP", "to-instruction-after-pushdata", []byte{0x22, 7, 0x0c, 3, 0x21, 0x21, 0x21, 0x40}})
	out = append(out, scriptCase{"PUSHA", "into-pushdata-payload", []byte{0x0a, 8, 0, 0, 0, 0x0c, 3, 0x21, 0x21, 0x21, 0x40}})
	out = append(out, scriptCase{"PUSHA", "backward-to-start", []byte{0x21, 0x21, 0x0a, 0xfe, 0xff, 0xff, 0xff, 0x40}})
	out = append(out, scriptCase{"PUSHA", "only-instruction-to-end", []byte{0x0a, 5, 0, 0, 0}})
	out = append(out, scriptCase{"PUSHA", "only-instruction-past-end", []byte{0x0a, 6, 0, 0, 0}})
	return out
}
