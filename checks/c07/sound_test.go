package c07

import (
	"fmt"

	"github.com/nspcc-dev/neo-go/pkg/core/native/nativehashes"
	"github.com/nspcc-dev/neo-go/pkg/core/transaction"
	"github.com/nspcc-dev/neo-go/pkg/crypto/hash"
	"github.com/nspcc-dev/neo-go/pkg/crypto/keys"
	"github.com/nspcc-dev/neo-go/pkg/io"
	"github.com/nspcc-dev/neo-go/pkg/util"
	"github.com/nspcc-dev/neo-go/pkg/vm/emit"
	"github.com/nspcc-dev/neo-go/pkg/vm/opcode"

	"verif/lib/chainx"
)

// ---- the independent validity predicate -------------------------------------------

// facts is what the predicate knows about a chain state. Everything comes
// from the scenario's construction or from plain getters, nothing from the
// verification code under test.
type facts struct {
	Magic          uint32
	Height         uint32
	MaxVUBInc      uint32
	FeePerByte     int64
	MaxBlockSysFee int64
	MaxVerGas      int64
	Blocked        map[util.Uint160]bool
	OnChain        map[util.Uint256]bool
	// Named: hash named by a Conflicts attribute of an on-chain transaction ->
	// the signers of those on-chain transactions.
	Named      map[util.Uint256]map[util.Uint160]bool
	Committee  util.Uint160
	NotaryKeys keys.PublicKeys
	OracleHash util.Uint160     // account of the designated oracle nodes (zero: none designated)
	OracleReq  map[uint64]int64 // pending oracle request id -> GAS reserved for the response
	Balance    func(util.Uint160) int64
	Accts      map[util.Uint160]*acct // accounts the harness knows (to judge witnesses)
	// extensions
	Blocks   []util.Uint256                           // hashes of the blocks on chain (height 1..)
	NamedAt  map[util.Uint256]map[util.Uint160]uint32 // like Named, with the index of the newest naming block per signer
	MTB      uint32                                   // MaxTraceableBlocks
	Deposits map[util.Uint160]int64                   // Notary deposits, from the history's construction
	Deployed map[util.Uint160]bool                    // deployed contracts, from the history's construction
	// Partial: the rules of PoolTxWithData (partially filled transactions of the notary request pool)
	Partial     bool
	MaxNVBDelta uint32
}

// sCase is one submission of the soundness menu.
type sCase struct {
	Rule  string                   // name of the variant (the rule it is about)
	Tx    *transaction.Transaction // content as built (possibly ill-formed)
	Need  int64                    // the calculator's network fee for this content
	Pre   []*transaction.Transaction
	Gas   map[int]int64 // verification cost of non-standard witnesses (index -> datoshi), measured the way the RPC server does
	Want  bool
	Why   string
	NoEnc bool // do not derive encodings (huge transactions in the quick tier)
	// NoDemand: the property text alone does not decide this case (a Conflicts
	// record older than MaxTraceableBlocks): verdicts are counted, not judged.
	NoDemand string
	// Unsigned / Signers: what the fee calculator was run on, so that it can be
	// run again on another node in the same chain state (ext_rebuilt_test.go)
	Unsigned *transaction.Transaction
	Signers  []*acct
}

// valid decides from the property text whether content c may enter the pool
// in the state described by f.
func valid(f *facts, c *sCase) (bool, string) {
	tx := c.Tx
	// well-formed
	if tx.Version != 0 {
		return false, "version"
	}
	if len(tx.Script) == 0 {
		return false, "empty script"
	}
	if ok, why := scriptWellFormed(tx.Script); !ok {
		return false, "script malformed for the VM: " + why
	}
	if tx.SystemFee < 0 || tx.NetworkFee < 0 {
		return false, "negative fee"
	}
	if tx.SystemFee+tx.NetworkFee < tx.SystemFee {
		return false, "fee sum overflows"
	}
	if len(tx.Signers) == 0 {
		return false, "no signers"
	}
	if len(tx.Signers)+len(tx.Attributes) > transaction.MaxAttributes {
		return false, "too many signers/attributes"
	}
	for i := range tx.Signers {
		for j := i + 1; j < len(tx.Signers); j++ {
			if tx.Signers[i].Account == tx.Signers[j].Account {
				return false, "duplicate signers"
			}
		}
	}
	if len(tx.Scripts) != len(tx.Signers) {
		return false, "witness count differs from signer count"
	}
	seen := map[transaction.AttrType]int{}
	for _, a := range tx.Attributes {
		seen[a.Type]++
		if a.Type != transaction.ConflictsT && seen[a.Type] > 1 {
			return false, "duplicate attribute of a non-repeatable type"
		}
	}
	size := len(tx.Bytes())
	if size > transaction.MaxTransactionSize {
		return false, "oversize"
	}
	// validity window
	if tx.ValidUntilBlock <= f.Height {
		return false, "expired"
	}
	if !f.Partial && tx.ValidUntilBlock > f.Height+f.MaxVUBInc {
		return false, "ValidUntilBlock too far"
	}
	// policy
	for _, s := range tx.Signers {
		if f.Blocked[s.Account] {
			return false, "blocked signer"
		}
	}
	if tx.SystemFee > f.MaxBlockSysFee {
		return false, "system fee above MaxBlockSystemFee"
	}
	// on chain / named as a conflict by an on-chain transaction of one of its signers
	h := hashOf(tx)
	if f.OnChain[h] {
		return false, "already on chain"
	}
	for _, p := range c.Pre {
		if hashOf(p) == h {
			return false, "already in the pool"
		}
	}
	if by := f.Named[h]; by != nil {
		for _, s := range tx.Signers {
			if by[s.Account] {
				// inside the traceability window of the ledger the statement is
				// demanded as written; the code documents that older conflict
				// records are ignored (dao.HasTransaction), which the statement
				// does not mention: no demand there
				if at, ok := f.NamedAt[h][s.Account]; ok && f.MTB != 0 && at+f.MTB <= f.Height {
					c.NoDemand = "named by an on-chain transaction that is not traceable any more"
					continue
				}
				return false, "named by a Conflicts attribute of an on-chain tx of signer"
			}
		}
	}
	// attribute rules
	conf := map[util.Uint256]bool{}
	for _, a := range tx.Attributes {
		switch a.Type {
		case transaction.HighPriority:
			if !tx.HasSigner(f.Committee) {
				return false, "HighPriority without committee"
			}
		case transaction.OracleResponseT:
			if f.OracleHash == (util.Uint160{}) {
				return false, "OracleResponse without oracle role"
			}
			for _, s := range tx.Signers {
				if s.Scopes != transaction.None {
					return false, "OracleResponse signer with a scope"
				}
			}
			if !tx.HasSigner(f.OracleHash) {
				return false, "OracleResponse not signed by the oracle nodes"
			}
			if string(tx.Script) != string(oracleResponseScript()) {
				return false, "OracleResponse with another script"
			}
			g, ok := f.OracleReq[a.Value.(*transaction.OracleResponse).ID]
			if !ok {
				return false, "OracleResponse for an unknown request"
			}
			if tx.NetworkFee+tx.SystemFee < g {
				return false, "OracleResponse pays less than the request reserved"
			}
		case transaction.NotValidBeforeT:
			nvb := a.Value.(*transaction.NotValidBefore).Height
			if f.Partial {
				// documented for partially filled transactions (verifyTxAttributes): within MaxNotValidBeforeDelta of the height and of ValidUntilBlock
				if f.Height+f.MaxNVBDelta < nvb {
					return false, "NotValidBefore further than MaxNotValidBeforeDelta in the future"
				}
				if nvb+f.MaxNVBDelta < tx.ValidUntilBlock {
					return false, "NotValidBefore more than MaxNotValidBeforeDelta before ValidUntilBlock"
				}
			} else if nvb > f.Height {
				return false, "NotValidBefore in the future"
			}
		case transaction.ConflictsT:
			ch := a.Value.(*transaction.Conflicts).Hash
			if conf[ch] {
				return false, "duplicate Conflicts"
			}
			conf[ch] = true
			if f.OnChain[ch] {
				return false, "Conflicts names an on-chain tx"
			}
		case transaction.NotaryAssistedT:
			if !tx.HasSigner(nativehashes.Notary) {
				return false, "NotaryAssisted without Notary signer"
			}
			if tx.Sender() == nativehashes.Notary && len(tx.Signers) != 2 {
				return false, "sent by the Notary contract with other than 2 signers"
			}
		default:
			return false, "reserved attribute"
		}
	}
	// fee
	if tx.NetworkFee < c.Need {
		return false, "network fee below size x fee-per-byte + attribute fees + witness cost"
	}
	// witnesses
	msg := hash.NetSha256(f.Magic, hashOnly{h})
	witnessOK := func(i int, s transaction.Signer) (bool, string) {
		w := &tx.Scripts[i]
		if s.Account == nativehashes.Notary {
			if len(w.VerificationScript) != 0 || !tx.HasAttribute(transaction.NotaryAssistedT) || s.Scopes != transaction.None {
				return false, "notary witness"
			}
			sigs, ok := pushes(w.InvocationScript)
			if !ok || len(sigs) != 1 {
				return false, "notary witness"
			}
			good := false
			for _, k := range f.NotaryKeys {
				good = good || k.Verify(sigs[0], msg[:])
			}
			if !good {
				return false, "notary witness signature"
			}
			return true, ""
		}
		if s.Account == nativehashes.OracleContract {
			if len(w.VerificationScript) != 0 || len(w.InvocationScript) != 0 || !tx.HasAttribute(transaction.OracleResponseT) {
				return false, "oracle contract witness"
			}
			return true, ""
		}
		if ca := f.Accts[s.Account]; ca != nil && ca.Contract {
			// contract-based witness: the deployed contract's verify method decides
			if len(w.VerificationScript) != 0 {
				return false, "verification script given for a contract account"
			}
			if !f.Deployed[s.Account] {
				return false, "contract of the signer is not deployed"
			}
			if !ca.GoodInv(w.InvocationScript) {
				return false, "verify method missing or not returning exactly true for this invocation script"
			}
			if g := c.Gas[i]; g > f.MaxVerGas {
				return false, "verification too costly"
			}
			return true, ""
		}
		if hash.Hash160(w.VerificationScript) != s.Account {
			return false, "witness for another signer"
		}
		a := f.Accts[s.Account]
		if a == nil {
			return false, "unknown account"
		}
		if a.Bad != "" {
			return false, "witness does not verify: " + a.Bad
		}
		if !a.Std {
			// harness-made scripts: valid by construction, possibly too costly
			if g := c.Gas[i]; g > f.MaxVerGas {
				return false, "verification too costly"
			}
			if string(w.InvocationScript) != string(a.Inv(tx)) {
				return false, "non-standard witness changed"
			}
			return true, ""
		}
		sigs, ok := pushes(w.InvocationScript)
		if !ok || len(sigs) != a.M {
			return false, "wrong number of signatures"
		}
		k := 0
		for _, sg := range sigs {
			for k < len(a.Privs) && !a.Privs[k].PublicKey().Verify(sg, msg[:]) {
				k++
			}
			if k == len(a.Privs) {
				return false, "bad signature"
			}
			k++
		}
		return true, ""
	}
	for i, s := range tx.Signers {
		if ok, why := witnessOK(i, s); !ok {
			if f.Partial && i == 0 {
				// documented for PoolTxWithData: the first witness of a partially filled
				// transaction may be a dummy; which failures are tolerated is not judged
				c.NoDemand = "first witness of a partially filled transaction: " + why
				continue
			}
			return false, why
		}
	}
	// solvency of the sender
	need := tx.SystemFee + tx.NetworkFee
	if tx.Sender() == nativehashes.Notary {
		// paid from the Notary deposit of the second signer
		if len(tx.Signers) < 2 || f.Deposits[tx.Signers[1].Account] < need {
			return false, "deposit of the second signer cannot pay"
		}
		return true, ""
	}
	for _, p := range c.Pre {
		if p.Sender() == tx.Sender() {
			need += p.SystemFee + p.NetworkFee
		}
	}
	if f.Balance(tx.Sender()) < need {
		return false, "sender cannot pay"
	}
	return true, ""
}

// hashOnly lets the predicate compute the signed message from a hash.
type hashOnly struct{ h util.Uint256 }

func (h hashOnly) Hash() util.Uint256 { return h.h }

// hashOf is the transaction hash from the format description: sha256 of the
// canonical serialisation without witnesses.
func hashOf(tx *transaction.Transaction) util.Uint256 {
	w := io.NewBufBinWriter()
	c := *tx
	c.Scripts = nil
	c.EncodeBinary(w.BinWriter)
	b := w.Bytes()
	return hash.Sha256(b[:len(b)-1]) // without the witness count
}

// pushes parses a script consisting of PUSHDATA1 pushes of 64 bytes only.
func pushes(s []byte) ([][]byte, bool) {
	var out [][]byte
	for len(s) > 0 {
		if len(s) < 66 || s[0] != byte(opcode.PUSHDATA1) || s[1] != 64 {
			return nil, false
		}
		out = append(out, s[2:66])
		s = s[66:]
	}
	return out, true
}

type namedScript struct {
	name string
	s    []byte
}

func malformedScripts() []namedScript {
	return []namedScript{
		{"truncated-pushdata", []byte{byte(opcode.PUSHDATA1), 5, 1}},
		{"jump-out-of-bounds", []byte{byte(opcode.PUSH1), byte(opcode.JMP), 0x7f}},
		{"jump-into-operand", []byte{byte(opcode.JMP), 3, byte(opcode.PUSHINT16), 1, 2, byte(opcode.RET)}},
		{"unknown-opcode", []byte{byte(opcode.PUSH1), 0xff}},
		{"truncated-syscall", []byte{byte(opcode.SYSCALL), 1, 2}},
	}
}

// ---- the menu ---------------------------------------------------------------------------

// loopScript is a verification script that runs n signature checks (each
// costs 2^15 x the execution fee factor) and then succeeds.
func loopScript(n int, tag byte) []byte {
	w := io.NewBufBinWriter()
	emit.Int(w.BinWriter, int64(n))
	start := w.Len()
	emit.Bytes(w.BinWriter, append(make([]byte, 63), tag))
	emit.Bytes(w.BinWriter, chainx.Acc(9).PublicKey().Bytes())
	emit.Syscall(w.BinWriter, "System.Crypto.CheckSig")
	emit.Opcodes(w.BinWriter, opcode.DROP, opcode.DEC, opcode.DUP)
	off := start - w.Len()
	w.WriteBytes([]byte{byte(opcode.JMPIF), byte(int8(off))})
	emit.Opcodes(w.BinWriter, opcode.DROP, opcode.PUSH1)
	return w.Bytes()
}

// padScript is a verification script of exactly n bytes that succeeds.
func padScript(n int, tag byte) []byte {
	// PUSHDATA2 <n-5 bytes> DROP PUSH1
	w := io.NewBufBinWriter()
	d := make([]byte, n-5)
	d[0] = tag
	w.WriteB(byte(opcode.PUSHDATA2))
	w.WriteU16LE(uint16(len(d)))
	w.WriteBytes(d)
	w.WriteBytes([]byte{byte(opcode.DROP), byte(opcode.PUSH1)})
	return w.Bytes()
}

type shape struct {
	Name string
	Spec func(n *chainx.Node) *txSpec // nil result: the shape does not exist in this state
	Big  bool
	In   []string // states whose menu has this shape (nil: the states of the main scenario without a menu of their own)
}

func attrConflicts(h util.Uint256) transaction.Attribute {
	return transaction.Attribute{Type: transaction.ConflictsT, Value: &transaction.Conflicts{Hash: h}}
}

func attrNVB(h uint32) transaction.Attribute {
	return transaction.Attribute{Type: transaction.NotValidBeforeT, Value: &transaction.NotValidBefore{Height: h}}
}

func attrNotary(k uint8) transaction.Attribute {
	return transaction.Attribute{Type: transaction.NotaryAssistedT, Value: &transaction.NotaryAssisted{NKeys: k}}
}

var (
	attrHP     = transaction.Attribute{Type: transaction.HighPriority}
	unknownTx1 = util.Uint256{1, 2, 3}
	unknownTx2 = util.Uint256{4, 5, 6}
)

func cheapLoop() *acct  { return customAcct("loop100", loopScript(100, 1), nil) }
func costlyLoop() *acct { return customAcct("loop200", loopScript(200, 2), nil) }

// bigSigners are 15 contracts with 1024-byte verification and invocation scripts.
func bigSigners() []*acct {
	var out []*acct
	for i := 0; i < 15; i++ {
		out = append(out, customAcct(fmt.Sprintf("pad%d", i), padScript(transaction.MaxVerificationScript, byte(i+1)), nops(transaction.MaxInvocationScript)))
	}
	return out
}

func shapes() []shape {
	return []shape{
		{Name: "sig1", Spec: func(n *chainx.Node) *txSpec {
			return &txSpec{Signers: []*acct{sigAcct(1)}, Script: nops(3), SysFee: gas / 10}
		}},
		{Name: "sig1+sig2", Spec: func(n *chainx.Node) *txSpec {
			return &txSpec{Signers: []*acct{sigAcct(1), sigAcct(2)}, Script: nops(40), SysFee: gas / 10}
		}},
		{Name: "ms2of3", Spec: func(n *chainx.Node) *txSpec {
			return &txSpec{Signers: []*acct{msAcct(0, 2, 3)}, Script: nops(3), SysFee: gas / 10}
		}},
		{Name: "sig2+sig3", Spec: func(n *chainx.Node) *txSpec {
			return &txSpec{Signers: []*acct{sigAcct(2), sigAcct(3)}, Script: nops(3), SysFee: gas / 10}
		}},
		{Name: "attrs-rich", Spec: func(n *chainx.Node) *txSpec {
			return &txSpec{Signers: []*acct{sigAcct(1), msAcct(1, 1, 2)}, Script: nops(253), SysFee: gas / 10, Rich: 1,
				Attrs: []transaction.Attribute{attrConflicts(unknownTx1), attrNVB(n.BC.BlockHeight())}}
		}},
		{Name: "committee-hp", Spec: func(n *chainx.Node) *txSpec {
			return &txSpec{Signers: []*acct{committeeAcct(n)}, Script: nops(3), SysFee: gas / 10, Attrs: []transaction.Attribute{attrHP}}
		}},
		{Name: "notary-assisted", Spec: func(n *chainx.Node) *txSpec {
			return &txSpec{Signers: []*acct{sigAcct(1), notaryAcct(uint32(n.BC.GetConfig().Magic))}, Script: nops(3), SysFee: gas / 10, Attrs: []transaction.Attribute{attrNotary(1)}}
		}},
		{Name: "custom-witness", Spec: func(n *chainx.Node) *txSpec {
			return &txSpec{Signers: []*acct{sigAcct(1), cheapLoop()}, Script: nops(3), SysFee: gas / 10}
		}},
		{Name: "poor", Spec: func(n *chainx.Node) *txSpec {
			return &txSpec{Signers: []*acct{sigAcct(7)}, Script: nops(3), SysFee: gas / 100}
		}},
		{Name: "oracle-response", Spec: func(n *chainx.Node) *txSpec {
			return &txSpec{Signers: []*acct{oracleContractAcct(), oracleNodesAcct()}, Script: oracleResponseScript(), SysFee: sysFeeOracle, Attrs: []transaction.Attribute{attrOracle(0)}}
		}},
		{Name: "big", Big: true, Spec: func(n *chainx.Node) *txSpec {
			return &txSpec{Signers: append([]*acct{sigAcct(1)}, bigSigners()...), Script: nops(transaction.MaxScriptLength), SysFee: gas / 10, Rich: 2}
		}},
	}
}

// known registers the accounts the predicate may meet.
func knownAccts(n *chainx.Node) map[util.Uint160]*acct {
	m := map[util.Uint160]*acct{}
	add := func(a *acct) { m[a.Hash] = a }
	for i := 1; i <= 9; i++ {
		add(sigAcct(i))
	}
	add(msAcct(0, 2, 3))
	add(msAcct(1, 1, 2))
	add(committeeAcct(n))
	add(cheapLoop())
	add(costlyLoop())
	add(oracleNodesAcct())
	for _, a := range bigSigners() {
		add(a)
	}
	return m
}

type mutation struct {
	Rule string
	// Spec changes the specification before fees and signatures.
	Spec func(n *chainx.Node, sp *txSpec) bool
	// Tx changes the hashable content after the calculator ran and before signing.
	Tx func(n *chainx.Node, tx *transaction.Transaction)
	// Wit changes the witnesses after signing.
	Wit func(n *chainx.Node, sp *txSpec, tx *transaction.Transaction) bool
	// Pre builds transactions pooled before the submission.
	Pre func(n *chainx.Node, sp *txSpec) []*txSpec
}

func mutations(onchain util.Uint256) []mutation {
	var ms []mutation
	add := func(m mutation) { ms = append(ms, m) }
	add(mutation{Rule: "valid"})
	for _, m := range malformedScripts() {
		s := m.s
		add(mutation{Rule: "script-" + m.name, Spec: func(n *chainx.Node, sp *txSpec) bool { sp.Script = s; return true }})
	}
	add(mutation{Rule: "script-empty", Spec: func(n *chainx.Node, sp *txSpec) bool { sp.Script = []byte{}; return true }})
	vub := func(name string, f func(h, inc uint32) uint32) {
		add(mutation{Rule: name, Spec: func(n *chainx.Node, sp *txSpec) bool {
			sp.VUB = f(n.BC.BlockHeight(), n.BC.GetMaxValidUntilBlockIncrement())
			return true
		}})
	}
	vub("vub=height", func(h, inc uint32) uint32 { return h })
	vub("vub=height-1", func(h, inc uint32) uint32 { return h - 1 })
	vub("vub=height+1", func(h, inc uint32) uint32 { return h + 1 })
	vub("vub=height+max", func(h, inc uint32) uint32 { return h + inc })
	vub("vub=height+max+1", func(h, inc uint32) uint32 { return h + inc + 1 })
	add(mutation{Rule: "sender-acc3", Spec: func(n *chainx.Node, sp *txSpec) bool {
		if sp.Signers[0].Name != "sig1" || len(sp.Attrs) != 0 {
			return false
		}
		sp.Signers = append([]*acct{sigAcct(3)}, sp.Signers[1:]...)
		return true
	}})
	add(mutation{Rule: "cosigner-acc3", Spec: func(n *chainx.Node, sp *txSpec) bool {
		for _, s := range sp.Signers {
			if s.Name == "sig3" {
				return false
			}
		}
		sp.Signers = append(sp.Signers[:len(sp.Signers):len(sp.Signers)], sigAcct(3))
		return true
	}})
	add(mutation{Rule: "netfee-1", Spec: func(n *chainx.Node, sp *txSpec) bool { sp.NetDelta = -1; return true }})
	add(mutation{Rule: "netfee+1", Spec: func(n *chainx.Node, sp *txSpec) bool { sp.NetDelta = 1; return true }})
	add(mutation{Rule: "sysfee-negative", Spec: func(n *chainx.Node, sp *txSpec) bool { sp.SysFee = -1; return true }})
	add(mutation{Rule: "sysfee=MaxBlockSystemFee", Spec: func(n *chainx.Node, sp *txSpec) bool {
		sp.SysFee = n.BC.GetConfig().MaxBlockSystemFee
		return true
	}})
	add(mutation{Rule: "sysfee=MaxBlockSystemFee+1", Spec: func(n *chainx.Node, sp *txSpec) bool {
		sp.SysFee = n.BC.GetConfig().MaxBlockSystemFee + 1
		return true
	}})
	add(mutation{Rule: "signers-duplicate", Spec: func(n *chainx.Node, sp *txSpec) bool {
		sp.Signers = append(sp.Signers[:len(sp.Signers):len(sp.Signers)], sp.Signers[0])
		return true
	}})
	add(mutation{Rule: "signers-none", Spec: func(n *chainx.Node, sp *txSpec) bool { sp.Signers = nil; return true }})
	attr := func(name string, f func(n *chainx.Node) []transaction.Attribute) {
		add(mutation{Rule: name, Spec: func(n *chainx.Node, sp *txSpec) bool {
			if len(sp.Signers)+len(sp.Attrs) > 14 {
				return false
			}
			sp.Attrs = append(sp.Attrs[:len(sp.Attrs):len(sp.Attrs)], f(n)...)
			return true
		}})
	}
	one := func(a transaction.Attribute) func(*chainx.Node) []transaction.Attribute {
		return func(*chainx.Node) []transaction.Attribute { return []transaction.Attribute{a} }
	}
	hasAttr := func(sp *txSpec, t transaction.AttrType) bool {
		for _, a := range sp.Attrs {
			if a.Type == t {
				return true
			}
		}
		return false
	}
	add(mutation{Rule: "attr-highpriority", Spec: func(n *chainx.Node, sp *txSpec) bool {
		if hasAttr(sp, transaction.HighPriority) {
			return false
		}
		sp.Attrs = append(sp.Attrs[:len(sp.Attrs):len(sp.Attrs)], attrHP)
		return true
	}})
	add(mutation{Rule: "attr-highpriority-twice", Spec: func(n *chainx.Node, sp *txSpec) bool {
		if !hasAttr(sp, transaction.HighPriority) {
			return false
		}
		sp.Attrs = append(sp.Attrs[:len(sp.Attrs):len(sp.Attrs)], attrHP)
		return true
	}})
	attr("attr-oracle-response", one(transaction.Attribute{Type: transaction.OracleResponseT, Value: &transaction.OracleResponse{ID: 0, Code: transaction.Success, Result: []byte{1, 2, 3}}}))
	attr("attr-oracle-response-twice", func(*chainx.Node) []transaction.Attribute {
		return []transaction.Attribute{
			{Type: transaction.OracleResponseT, Value: &transaction.OracleResponse{ID: 1, Code: transaction.Success, Result: []byte{1}}},
			{Type: transaction.OracleResponseT, Value: &transaction.OracleResponse{ID: 2, Code: transaction.Success, Result: []byte{2}}},
		}
	})
	add(mutation{Rule: "attr-nvb=height", Spec: func(n *chainx.Node, sp *txSpec) bool {
		if hasAttr(sp, transaction.NotValidBeforeT) {
			return false
		}
		sp.Attrs = append(sp.Attrs[:len(sp.Attrs):len(sp.Attrs)], attrNVB(n.BC.BlockHeight()))
		return true
	}})
	add(mutation{Rule: "attr-nvb=height+1", Spec: func(n *chainx.Node, sp *txSpec) bool {
		if hasAttr(sp, transaction.NotValidBeforeT) {
			return false
		}
		sp.Attrs = append(sp.Attrs[:len(sp.Attrs):len(sp.Attrs)], attrNVB(n.BC.BlockHeight()+1))
		return true
	}})
	add(mutation{Rule: "attr-nvb=height+1000", Spec: func(n *chainx.Node, sp *txSpec) bool {
		if hasAttr(sp, transaction.NotValidBeforeT) {
			return false
		}
		sp.Attrs = append(sp.Attrs[:len(sp.Attrs):len(sp.Attrs)], attrNVB(n.BC.BlockHeight()+1000))
		return true
	}})
	add(mutation{Rule: "attr-nvb-twice", Spec: func(n *chainx.Node, sp *txSpec) bool {
		if hasAttr(sp, transaction.NotValidBeforeT) {
			return false
		}
		sp.Attrs = append(sp.Attrs[:len(sp.Attrs):len(sp.Attrs)], attrNVB(n.BC.BlockHeight()), attrNVB(n.BC.BlockHeight()-1))
		return true
	}})
	attr("attr-conflicts-unknown", one(attrConflicts(unknownTx2)))
	attr("attr-conflicts-two", func(*chainx.Node) []transaction.Attribute {
		return []transaction.Attribute{attrConflicts(unknownTx2), attrConflicts(util.Uint256{7})}
	})
	attr("attr-conflicts-duplicate", func(*chainx.Node) []transaction.Attribute {
		return []transaction.Attribute{attrConflicts(unknownTx2), attrConflicts(unknownTx2)}
	})
	attr("attr-conflicts-onchain", one(attrConflicts(onchain)))
	add(mutation{Rule: "attr-notaryassisted-no-notary-signer", Spec: func(n *chainx.Node, sp *txSpec) bool {
		if hasAttr(sp, transaction.NotaryAssistedT) {
			return false
		}
		sp.Attrs = append(sp.Attrs[:len(sp.Attrs):len(sp.Attrs)], attrNotary(0))
		return true
	}})
	add(mutation{Rule: "attr-notaryassisted-twice", Spec: func(n *chainx.Node, sp *txSpec) bool {
		if !hasAttr(sp, transaction.NotaryAssistedT) {
			return false
		}
		sp.Attrs = append(sp.Attrs[:len(sp.Attrs):len(sp.Attrs)], attrNotary(1))
		return true
	}})
	add(mutation{Rule: "attr-notaryassisted-nkeys=0", Spec: func(n *chainx.Node, sp *txSpec) bool {
		if !hasAttr(sp, transaction.NotaryAssistedT) {
			return false
		}
		sp.Attrs = []transaction.Attribute{attrNotary(0)}
		return true
	}})
	for _, k := range []uint8{2, 127, 128, 254, 255} {
		k := k
		add(mutation{Rule: fmt.Sprintf("attr-notaryassisted-nkeys=%d", k), Spec: func(n *chainx.Node, sp *txSpec) bool {
			if !hasAttr(sp, transaction.NotaryAssistedT) {
				return false
			}
			sp.Attrs = []transaction.Attribute{attrNotary(k)}
			return true
		}})
	}
	add(mutation{Rule: "attr-notaryassisted-nkeys=255-netfee-1", Spec: func(n *chainx.Node, sp *txSpec) bool {
		if !hasAttr(sp, transaction.NotaryAssistedT) {
			return false
		}
		sp.Attrs = []transaction.Attribute{attrNotary(255)}
		sp.NetDelta = -1
		return true
	}})
	add(mutation{Rule: "attr-notaryassisted-nkeys=255-attribute-fee-unpaid", Spec: func(n *chainx.Node, sp *txSpec) bool {
		if !hasAttr(sp, transaction.NotaryAssistedT) {
			return false
		}
		fees, err := policyAttrFees(n.BC)
		if err != nil {
			return false
		}
		sp.Attrs = []transaction.Attribute{attrNotary(255)}
		sp.NetDelta = -256 * fees[transaction.NotaryAssistedT]
		return true
	}})
	isOracle := func(sp *txSpec) bool { return len(sp.Signers) > 0 && sp.Signers[0].Name == "oracle-contract" }
	add(mutation{Rule: "oracle-unknown-request-id", Spec: func(n *chainx.Node, sp *txSpec) bool {
		if !isOracle(sp) {
			return false
		}
		sp.Attrs = []transaction.Attribute{attrOracle(1)}
		return true
	}})
	add(mutation{Rule: "oracle-signer-with-global-scope", Spec: func(n *chainx.Node, sp *txSpec) bool {
		if !isOracle(sp) {
			return false
		}
		sp.GlobalScopes = true
		return true
	}})
	add(mutation{Rule: "oracle-other-script", Spec: func(n *chainx.Node, sp *txSpec) bool {
		if !isOracle(sp) {
			return false
		}
		sp.Script = nops(3)
		return true
	}})
	add(mutation{Rule: "oracle-without-nodes-signer", Spec: func(n *chainx.Node, sp *txSpec) bool {
		if !isOracle(sp) {
			return false
		}
		a := *sigAcct(1)
		a.NoneScope = true
		sp.Signers = []*acct{sp.Signers[0], &a}
		return true
	}})
	add(mutation{Rule: "oracle-pays-one-less-than-reserved", Spec: func(n *chainx.Node, sp *txSpec) bool { return isOracle(sp) },
		Tx: func(n *chainx.Node, tx *transaction.Transaction) { tx.SystemFee-- }})
	attr("attr-reserved", one(transaction.Attribute{Type: transaction.ReservedLowerBound + 1, Value: &transaction.Reserved{Value: []byte{9, 9}}}))
	add(mutation{Rule: "notary-signer-without-attribute", Spec: func(n *chainx.Node, sp *txSpec) bool {
		if !hasAttr(sp, transaction.NotaryAssistedT) {
			return false
		}
		sp.Attrs = nil
		return true
	}})
	add(mutation{Rule: "costly-verification", Spec: func(n *chainx.Node, sp *txSpec) bool {
		if len(sp.Signers) != 2 || sp.Signers[1].Name != "loop100" {
			return false
		}
		sp.Signers = []*acct{sp.Signers[0], costlyLoop()}
		return true
	}})
	// witness faults
	flip := func(name string, which func(tx *transaction.Transaction) int) {
		add(mutation{Rule: name, Wit: func(n *chainx.Node, sp *txSpec, tx *transaction.Transaction) bool {
			i := which(tx)
			if i < 0 || !sp.Signers[i].Std {
				return false
			}
			inv := append([]byte{}, tx.Scripts[i].InvocationScript...)
			inv[10] ^= 0x40
			tx.Scripts[i].InvocationScript = inv
			return true
		}})
	}
	flip("witness-bad-signature-first", func(tx *transaction.Transaction) int { return 0 })
	flip("witness-bad-signature-last", func(tx *transaction.Transaction) int {
		if len(tx.Scripts) < 2 {
			return -1
		}
		return len(tx.Scripts) - 1
	})
	add(mutation{Rule: "witness-swapped", Wit: func(n *chainx.Node, sp *txSpec, tx *transaction.Transaction) bool {
		if len(tx.Scripts) < 2 {
			return false
		}
		tx.Scripts[0], tx.Scripts[1] = tx.Scripts[1], tx.Scripts[0]
		return true
	}})
	add(mutation{Rule: "witness-of-other-account", Wit: func(n *chainx.Node, sp *txSpec, tx *transaction.Transaction) bool {
		tx.Scripts[0] = sigAcct(5).witness(uint32(n.BC.GetConfig().Magic), tx)
		return true
	}})
	add(mutation{Rule: "witness-signs-other-tx", Wit: func(n *chainx.Node, sp *txSpec, tx *transaction.Transaction) bool {
		if !sp.Signers[0].Std {
			return false
		}
		o := tx.Copy()
		o.Nonce++
		tx.Scripts[0] = sp.Signers[0].witness(uint32(n.BC.GetConfig().Magic), o)
		return true
	}})
	add(mutation{Rule: "witness-signs-other-network", Wit: func(n *chainx.Node, sp *txSpec, tx *transaction.Transaction) bool {
		if !sp.Signers[0].Std {
			return false
		}
		tx.Scripts[0] = sp.Signers[0].witness(uint32(n.BC.GetConfig().Magic)+1, tx)
		return true
	}})
	add(mutation{Rule: "witness-empty-invocation", Wit: func(n *chainx.Node, sp *txSpec, tx *transaction.Transaction) bool {
		if !sp.Signers[0].Std {
			return false
		}
		tx.Scripts[0].InvocationScript = []byte{}
		return true
	}})
	add(mutation{Rule: "witness-empty", Wit: func(n *chainx.Node, sp *txSpec, tx *transaction.Transaction) bool {
		tx.Scripts[0] = transaction.Witness{InvocationScript: []byte{}, VerificationScript: []byte{}}
		return true
	}})
	add(mutation{Rule: "witness-missing-last", Wit: func(n *chainx.Node, sp *txSpec, tx *transaction.Transaction) bool {
		tx.Scripts = tx.Scripts[:len(tx.Scripts)-1]
		return true
	}})
	add(mutation{Rule: "witness-extra", Wit: func(n *chainx.Node, sp *txSpec, tx *transaction.Transaction) bool {
		tx.Scripts = append(tx.Scripts, sigAcct(5).witness(uint32(n.BC.GetConfig().Magic), tx))
		return true
	}})
	multi := func(tx *transaction.Transaction, sp *txSpec) int {
		for i, a := range sp.Signers {
			if a.Std && len(a.Privs) > 1 {
				return i
			}
		}
		return -1
	}
	add(mutation{Rule: "multisig-one-signature-less", Wit: func(n *chainx.Node, sp *txSpec, tx *transaction.Transaction) bool {
		i := multi(tx, sp)
		if i < 0 {
			return false
		}
		inv := tx.Scripts[i].InvocationScript
		tx.Scripts[i].InvocationScript = append([]byte{}, inv[:len(inv)-66]...)
		return true
	}})
	add(mutation{Rule: "multisig-one-signature-more", Wit: func(n *chainx.Node, sp *txSpec, tx *transaction.Transaction) bool {
		i := multi(tx, sp)
		if i < 0 || sp.Signers[i].M >= len(sp.Signers[i].Privs) {
			return false
		}
		a := sp.Signers[i]
		inv := append([]byte{}, tx.Scripts[i].InvocationScript...)
		inv = append(inv, pushSig(a.Privs[a.M].SignHashable(uint32(n.BC.GetConfig().Magic), tx))...)
		tx.Scripts[i].InvocationScript = inv
		return true
	}})
	add(mutation{Rule: "multisig-signatures-out-of-order", Wit: func(n *chainx.Node, sp *txSpec, tx *transaction.Transaction) bool {
		i := multi(tx, sp)
		if i < 0 || sp.Signers[i].M < 2 {
			return false
		}
		inv := append([]byte{}, tx.Scripts[i].InvocationScript...)
		a, b := append([]byte{}, inv[:66]...), append([]byte{}, inv[66:132]...)
		copy(inv, b)
		copy(inv[66:], a)
		tx.Scripts[i].InvocationScript = inv
		return true
	}})
	add(mutation{Rule: "multisig-other-keys-of-the-set", Wit: func(n *chainx.Node, sp *txSpec, tx *transaction.Transaction) bool {
		i := multi(tx, sp)
		if i < 0 || sp.Signers[i].M >= len(sp.Signers[i].Privs) {
			return false
		}
		a := sp.Signers[i]
		var inv []byte
		for k := len(a.Privs) - a.M; k < len(a.Privs); k++ {
			inv = append(inv, pushSig(a.Privs[k].SignHashable(uint32(n.BC.GetConfig().Magic), tx))...)
		}
		tx.Scripts[i].InvocationScript = inv
		return true
	}})
	// solvency
	poor := func(sp *txSpec) bool { return len(sp.Signers) == 1 && sp.Signers[0].Name == "sig7" }
	add(mutation{Rule: "balance-exact", Spec: func(n *chainx.Node, sp *txSpec) bool {
		if !poor(sp) {
			return false
		}
		sp.SysFee = -7 // fixed up after the calculator ran
		return true
	}, Tx: func(n *chainx.Node, tx *transaction.Transaction) {
		tx.SystemFee = poorBalance - tx.NetworkFee
	}})
	add(mutation{Rule: "balance-one-short", Spec: func(n *chainx.Node, sp *txSpec) bool {
		if !poor(sp) {
			return false
		}
		sp.SysFee = -7
		return true
	}, Tx: func(n *chainx.Node, tx *transaction.Transaction) {
		tx.SystemFee = poorBalance - tx.NetworkFee + 1
	}})
	pre := func(share int64) func(n *chainx.Node, sp *txSpec) []*txSpec {
		return func(n *chainx.Node, sp *txSpec) []*txSpec {
			return []*txSpec{{Label: "pre-pooled", Signers: sp.Signers, Script: nops(5), SysFee: poorBalance * share / 100}}
		}
	}
	add(mutation{Rule: "pooled-leaves-enough", Spec: func(n *chainx.Node, sp *txSpec) bool {
		if !poor(sp) {
			return false
		}
		sp.SysFee = poorBalance * 40 / 100
		return true
	}, Pre: pre(40)})
	add(mutation{Rule: "pooled-leaves-too-little", Spec: func(n *chainx.Node, sp *txSpec) bool {
		if !poor(sp) {
			return false
		}
		sp.SysFee = poorBalance * 40 / 100
		return true
	}, Pre: pre(60)})
	return ms
}

func bigMutations() []mutation {
	// size is tuned through the script length by the caller; only the rules that
	// matter for a 100 KiB transaction
	return []mutation{
		{Rule: "size=max"},
		{Rule: "size=max+1"},
		{Rule: "size=max-1"},
	}
}
