// C08: memory pool invariants, by exhaustive enumeration of operation
// sequences on the real mempool.Pool (DESIGN.md section 4, C08).
package c08

import (
	"encoding/json"
	"fmt"
	"math/big"
	"os"
	"sort"
	"strings"
	"sync"
	"testing"
	"time"

	"github.com/nspcc-dev/neo-go/pkg/core/mempool"
	"github.com/nspcc-dev/neo-go/pkg/core/native/nativehashes"
	"github.com/nspcc-dev/neo-go/pkg/core/transaction"
	"github.com/nspcc-dev/neo-go/pkg/util"
	"github.com/nspcc-dev/neo-go/pkg/vm/opcode"

	"verif/lib/vk"
)

// ---- harness Feer ----------------------------------------------------------

type pkey struct{ p, s util.Uint160 }

type feer struct {
	bal    map[pkey]int64
	fpb    int64
	height uint32
}

func (f *feer) FeePerByte() int64   { return f.fpb }
func (f *feer) BlockHeight() uint32 { return f.height }
func (f *feer) GetUtilityTokenBalance(p, s util.Uint160) *big.Int {
	return big.NewInt(f.bal[pkey{p, s}])
}

// ---- alphabet ----------------------------------------------------------------

type txSpec struct {
	Name     string
	Signers  []string // account names; "N" is the Notary contract
	Sys, Net int64
	Big      bool     // long script: bigger size, lower fee per byte
	Pad      int      // extra script bytes (to give an ordinary tx the size of one with an attribute)
	High     bool     // HighPriority attribute
	Confl    []string // names of (earlier) txs named by Conflicts attributes
	Oracle   int      // oracle response id, 0 = none
	// fee relative to the serialized size (fpb_test.go): if Q != 0 the network fee is
	// Q*size + R (+ size/2 with RHalf), size being the size of this very transaction.
	Q, R  int64
	RHalf bool
	// explicit attribute LAYOUT (layout_test.go): if non-nil the attributes are exactly these tokens in this
	// order ("C:<tx name>", "HP", "OR:<id>", "NVB", "NA", "R") and High/Confl/Oracle must be unset.
	Attrs []string
}

type opKind int

const (
	opAdd opKind = iota
	opRemove
	opBlock // set balances/fee-per-byte, then RemoveStale with a predicate
)

type op struct {
	Kind opKind
	Tx   int              // opAdd/opRemove: index in scenario txs
	Bal  map[string]int64 // opBlock: payer name -> new balance (others unchanged)
	Fpb  int64            // opBlock: new fee per byte (0 = unchanged)
	Drop []int            // opBlock: txs the predicate rejects
	Name string
}

type scenario struct {
	Name   string
	Txs    []txSpec
	Bal    map[string]int64 // initial balances by payer name ("S1", "N/D1")
	Caps   []int
	Blocks []op
	Depth  int      // layout families: maximal length of the operation sequences of the quick tier (0 = the run's depth); thorough adds one
	Order  []string // fpb families: the strict priority chain the alphabet was designed to have (checked at build time with the independent key)
	txs    []*transaction.Transaction
	ops    []op
}

func acc(name string) util.Uint160 {
	if name == "N" {
		return nativehashes.Notary
	}
	var u util.Uint160
	copy(u[:], name)
	return u
}

func payerOfName(n string) pkey {
	if strings.HasPrefix(n, "N/") {
		return pkey{nativehashes.Notary, acc(n[2:])}
	}
	return pkey{p: acc(n)}
}

func payerOf(t *transaction.Transaction) pkey {
	if t.Sender().Equals(nativehashes.Notary) {
		return pkey{t.Sender(), t.Signers[1].Account}
	}
	return pkey{p: t.Sender()}
}

func (sc *scenario) build() {
	byName := map[string]*transaction.Transaction{}
	for i, s := range sc.Txs {
		mk := func(net int64) *transaction.Transaction {
			script := []byte{byte(opcode.PUSH1)}
			if s.Big {
				script = make([]byte, 400)
				for j := range script {
					script[j] = byte(opcode.NOP)
				}
			}
			for j := 0; j < s.Pad; j++ {
				script = append(script, byte(opcode.NOP))
			}
			t := transaction.New(script, s.Sys)
			t.Nonce = uint32(1000 + i)
			t.NetworkFee = net
			t.ValidUntilBlock = 100
			for _, a := range s.Signers {
				t.Signers = append(t.Signers, transaction.Signer{Account: acc(a)})
				t.Scripts = append(t.Scripts, transaction.Witness{InvocationScript: []byte{}, VerificationScript: []byte{}})
			}
			if s.Attrs != nil {
				if s.High || len(s.Confl) > 0 || s.Oracle != 0 {
					panic("Attrs excludes High/Confl/Oracle: " + s.Name)
				}
				t.Attributes = layoutAttrs(s.Attrs, byName)
			}
			if s.High {
				t.Attributes = append(t.Attributes, transaction.Attribute{Type: transaction.HighPriority})
			}
			for _, c := range s.Confl {
				ct, ok := byName[c]
				if !ok {
					panic("conflict target must be defined earlier: " + c)
				}
				t.Attributes = append(t.Attributes, transaction.Attribute{Type: transaction.ConflictsT, Value: &transaction.Conflicts{Hash: ct.Hash()}})
			}
			if s.Oracle != 0 {
				t.Attributes = append(t.Attributes, transaction.Attribute{Type: transaction.OracleResponseT, Value: &transaction.OracleResponse{ID: uint64(s.Oracle), Code: transaction.Success, Result: []byte{}}})
			}
			return t
		}
		net := s.Net
		if s.Q != 0 {
			// the fee is fixed-width in the encoding, so the size does not depend on it; a throw-away
			// copy is measured because Size() and Hash() are cached inside the transaction.
			size := int64(mk(0).Size())
			net = s.Q*size + s.R
			if s.RHalf {
				net += size / 2
			}
			sc.Txs[i].Net = net
		}
		t := mk(net)
		_ = t.Hash()
		_ = t.Size()
		byName[s.Name] = t
		sc.txs = append(sc.txs, t)
	}
	for i, s := range sc.Txs {
		sc.ops = append(sc.ops, op{Kind: opAdd, Tx: i, Name: "Add(" + s.Name + ")"})
	}
	for i, s := range sc.Txs {
		sc.ops = append(sc.ops, op{Kind: opRemove, Tx: i, Name: "Remove(" + s.Name + ")"})
	}
	sc.ops = append(sc.ops, sc.Blocks...)
	sc.checkOrder(byName)
}

func scenarios() []*scenario {
	keepAll := op{Kind: opBlock, Name: "Block(keep all)"}
	scs := []*scenario{
		{
			Name: "order-capacity",
			Txs: []txSpec{
				{Name: "a10", Signers: []string{"S1"}, Net: 10000},
				{Name: "a20", Signers: []string{"S1"}, Net: 20000},
				{Name: "abig", Signers: []string{"S1"}, Net: 30000, Big: true}, // more net fee, lower fee per byte
				{Name: "b10", Signers: []string{"S2"}, Net: 10000},             // same priority as a10
				{Name: "bhi", Signers: []string{"S2"}, Net: 100, High: true},
				{Name: "b15s", Signers: []string{"S2"}, Net: 5000, Sys: 10000},
			},
			Bal:  map[string]int64{"S1": 60000, "S2": 25100},
			Caps: []int{1, 2, 3},
			Blocks: []op{keepAll,
				{Kind: opBlock, Name: "Block(S1:=30000)", Bal: map[string]int64{"S1": 30000}},
				{Kind: opBlock, Name: "Block(fpb:=60)", Fpb: 60},
				{Kind: opBlock, Name: "Block(drop a20)", Drop: []int{1}},
			},
		},
		{
			// the priority attribute is the FIRST ordering key: high-priority transactions with exactly
			// the fees (network fee AND fee per byte: sizes are made equal) of ordinary ones
			Name: "priority-ties",
			Txs: []txSpec{
				{Name: "p10", Signers: []string{"S1"}, Net: 10000, Pad: 1},
				{Name: "h10", Signers: []string{"S2"}, Net: 10000, High: true},
				{Name: "p20", Signers: []string{"S1"}, Net: 20000, Pad: 1},
				{Name: "h20", Signers: []string{"S2"}, Net: 20000, High: true},
				{Name: "q10", Signers: []string{"S3"}, Net: 10000, Pad: 1}, // same priority as p10
				{Name: "q5", Signers: []string{"S3"}, Net: 5000, Pad: 1},
			},
			Bal:  map[string]int64{"S1": 30000, "S2": 30000, "S3": 15000},
			Caps: []int{1, 2, 3},
			Blocks: []op{keepAll,
				{Kind: opBlock, Name: "Block(drop p10)", Drop: []int{0}},
			},
		},
		{
			Name: "conflicts",
			Txs: []txSpec{
				{Name: "z", Signers: []string{"S1"}, Net: 10000},
				{Name: "y", Signers: []string{"S2", "S1"}, Net: 20000, Confl: []string{"z"}}, // names z, shares signer S1
				{Name: "x", Signers: []string{"S1", "S2"}, Net: 30000, Confl: []string{"y"}}, // chain x -> y -> z
				{Name: "w", Signers: []string{"S3"}, Net: 40000, Confl: []string{"z"}},       // stranger naming z
				{Name: "v", Signers: []string{"S2", "S1"}, Net: 5000, Confl: []string{"z"}},  // cheaper than z
				{Name: "u", Signers: []string{"S1"}, Net: 50000, Confl: []string{"z", "y"}},  // names two
				{Name: "q", Signers: []string{"S3"}, Net: 1000},
			},
			Bal:  map[string]int64{"S1": 60000, "S2": 30000, "S3": 45000},
			Caps: []int{2, 3},
			Blocks: []op{keepAll,
				{Kind: opBlock, Name: "Block(drop z)", Drop: []int{0}},
				{Kind: opBlock, Name: "Block(S1:=50000)", Bal: map[string]int64{"S1": 50000}},
			},
		},
		{
			Name: "notary",
			Txs: []txSpec{
				{Name: "n1a", Signers: []string{"N", "D1"}, Net: 5000},
				{Name: "n2a", Signers: []string{"N", "D2"}, Net: 10000},
				{Name: "n2b", Signers: []string{"N", "D2"}, Net: 6000, Confl: []string{"n1a"}}, // D2's tx replacing D1's
				{Name: "n1b", Signers: []string{"N", "D1"}, Net: 7000},
				{Name: "n1c", Signers: []string{"N", "D1"}, Net: 12000, Confl: []string{"n2a"}},
				{Name: "d1", Signers: []string{"D1"}, Net: 3000}, // D1 paying from its own account
				{Name: "n2c", Signers: []string{"N", "D2"}, Net: 2000, Sys: 1000},
			},
			Bal:  map[string]int64{"N/D1": 12000, "N/D2": 12000, "D1": 3000},
			Caps: []int{2, 4},
			Blocks: []op{keepAll,
				{Kind: opBlock, Name: "Block(N/D2:=16000)", Bal: map[string]int64{"N/D2": 16000}},
				{Kind: opBlock, Name: "Block(N/D1:=7000)", Bal: map[string]int64{"N/D1": 7000}},
			},
		},
		{
			Name: "oracle",
			Txs: []txSpec{
				{Name: "o7a", Signers: []string{"S1"}, Net: 10000, Oracle: 7},
				{Name: "o7b", Signers: []string{"S2"}, Net: 20000, Oracle: 7},
				{Name: "o7c", Signers: []string{"S1"}, Net: 5000, Oracle: 7},
				{Name: "o8", Signers: []string{"S1"}, Net: 15000, Oracle: 8},
				{Name: "p30", Signers: []string{"S3"}, Net: 30000},
				{Name: "p25", Signers: []string{"S3"}, Net: 25000},
				{Name: "o7z", Signers: []string{"S2"}, Net: 40000, Oracle: 7, Confl: []string{"p30"}},
			},
			Bal:  map[string]int64{"S1": 30000, "S2": 60000, "S3": 55000},
			Caps: []int{1, 2, 3},
			Blocks: []op{keepAll,
				{Kind: opBlock, Name: "Block(drop o7b)", Drop: []int{1}},
				{Kind: opBlock, Name: "Block(S2:=10000)", Bal: map[string]int64{"S2": 10000}},
			},
		},
		{
			Name: "mixed",
			Txs: []txSpec{
				{Name: "a", Signers: []string{"S1"}, Net: 10000},
				{Name: "b", Signers: []string{"S1"}, Net: 20000, Big: true},
				{Name: "c", Signers: []string{"S2", "S1"}, Net: 15000, Confl: []string{"a"}},
				{Name: "h", Signers: []string{"S2"}, Net: 500, High: true},
				{Name: "n", Signers: []string{"N", "S1"}, Net: 8000},
				{Name: "m", Signers: []string{"N", "S2"}, Net: 9000, Confl: []string{"n"}},
				{Name: "o", Signers: []string{"S1"}, Net: 12000, Oracle: 3},
				{Name: "r", Signers: []string{"S2"}, Net: 13000, Oracle: 3},
			},
			Bal:  map[string]int64{"S1": 30000, "S2": 28500, "N/S1": 8000, "N/S2": 9000},
			Caps: []int{2, 3},
			Blocks: []op{keepAll,
				{Kind: opBlock, Name: "Block(S1:=20000;drop a)", Bal: map[string]int64{"S1": 20000}, Drop: []int{0}},
				{Kind: opBlock, Name: "Block(fpb:=100)", Fpb: 100},
			},
		},
	}
	// the families for additions with overlapping side effects go FIRST (sharpest, see overlap_test.go)
	scs = append(overlapScenarios(), scs...)
	// ...after the attribute-LAYOUT families (layout_test.go): tiny alphabets, short sequences, run first
	scs = append(layoutScenarios(), scs...)
	// ...after the families whose fee-per-byte / network-fee keys sit at the rounding and width boundaries (fpb_test.go)
	scs = append(fpbScenarios(), scs...)
	if only := os.Getenv("C08_ONLY"); only != "" { // development aid: "fpb,fee-width" keeps, "!fpb,!fee-width" drops families by substring
		var kept []*scenario
		for _, s := range scs {
			keep, sawPos := false, false
			drop := false
			for _, w := range strings.Split(only, ",") {
				if strings.HasPrefix(w, "!") {
					drop = drop || strings.Contains(s.Name, w[1:])
				} else {
					sawPos = true
					keep = keep || strings.Contains(s.Name, w)
				}
			}
			if !drop && (keep || !sawPos) {
				kept = append(kept, s)
			}
		}
		scs = kept
	}
	for _, s := range scs {
		s.build()
	}
	return scs
}

// ---- one instance ------------------------------------------------------------

type inst struct {
	sc   *scenario
	cap  int
	mp   *mempool.Pool
	f    *feer
	dead bool // a panic happened; locks may be poisoned
}

func newInst(sc *scenario, capacity int) *inst {
	f := &feer{bal: map[pkey]int64{}, fpb: 1}
	for n, v := range sc.Bal {
		f.bal[payerOfName(n)] = v
	}
	return &inst{sc: sc, cap: capacity, mp: mempool.New(capacity, false, nil), f: f}
}

// apply runs one op; result is a short string ("ok", error text, "panic: ...").
func (in *inst) apply(o op) (res string) {
	defer func() {
		if r := recover(); r != nil {
			in.dead = true
			res = fmt.Sprintf("panic: %v", r)
		}
	}()
	switch o.Kind {
	case opAdd:
		if err := in.mp.Add(in.sc.txs[o.Tx], in.f, o.Tx); err != nil {
			s := err.Error()
			if i := strings.Index(s, ":"); i > 0 && strings.HasPrefix(s, "conflicts with memory pool") {
				s = s[:i]
			}
			return "err: " + s
		}
		return "ok"
	case opRemove:
		in.mp.Remove(in.sc.txs[o.Tx].Hash())
		return "ok"
	case opBlock:
		for n, v := range o.Bal {
			in.f.bal[payerOfName(n)] = v
		}
		if o.Fpb != 0 {
			in.f.fpb = o.Fpb
		}
		in.f.height++
		drop := map[util.Uint256]bool{}
		for _, d := range o.Drop {
			drop[in.sc.txs[d].Hash()] = true
		}
		in.mp.RemoveStale(func(t *transaction.Transaction) bool { return !drop[t.Hash()] }, in.f)
		return "ok"
	}
	panic("bad op")
}

func (in *inst) listing() []int {
	l := in.mp.GetVerifiedTransactions()
	out := make([]int, len(l))
	for i, t := range l {
		out[i] = -1
		for j, k := range in.sc.txs {
			if k.Hash() == t.Hash() {
				out[i] = j
			}
		}
	}
	return out
}

// observe returns everything the exported API shows, as a string. It also
// checks the invariants of the property and returns the first broken one.
func (in *inst) observe() (obs string, broken string) {
	defer func() {
		if r := recover(); r != nil {
			in.dead = true
			broken = fmt.Sprintf("panic-in-getters: %v", r)
		}
	}()
	sc := in.sc
	l := in.listing()
	var b strings.Builder
	fmt.Fprintf(&b, "list=%v count=%d", l, in.mp.Count())
	if in.mp.Count() != len(l) {
		broken = "count-vs-listing"
	}
	seen := map[int]bool{}
	for _, i := range l {
		if i < 0 {
			return b.String(), "unknown-tx-listed"
		}
		if seen[i] {
			broken = "duplicate"
		}
		seen[i] = true
	}
	if len(l) > in.cap {
		broken = "over-capacity"
	}
	for k := 1; k < len(l); k++ {
		if cmpPrio(sc.txs[l[k-1]], sc.txs[l[k]]) < 0 {
			broken = "order"
		}
	}
	sums := map[pkey]int64{}
	for _, i := range l {
		t := sc.txs[i]
		sums[payerOf(t)] += t.SystemFee + t.NetworkFee
	}
	for p, s := range sums {
		if s > in.f.bal[p] {
			broken = "solvency"
		}
	}
	oracle := map[uint64]int{}
	for _, i := range l {
		t := sc.txs[i]
		// the attributes are read with the check's own loops (namesCount / oracleID in model_test.go), never through the subject's accessors
		for _, j := range l {
			if namesCount(t, sc.txs[j]) > 0 {
				broken = "conflicting-pair-pooled"
			}
		}
		for k := range t.Attributes {
			if t.Attributes[k].Type == transaction.OracleResponseT {
				oracle[t.Attributes[k].Value.(*transaction.OracleResponse).ID]++
			}
		}
	}
	for _, n := range oracle {
		if n > 1 {
			broken = "two-oracle-responses"
		}
	}
	for i, t := range sc.txs {
		ck := in.mp.ContainsKey(t.Hash())
		tv, okv := in.mp.TryGetValue(t.Hash())
		d, okd := in.mp.TryGetData(t.Hash())
		hc := in.mp.HasConflicts(t, in.f)
		fmt.Fprintf(&b, " |%d:%v,%v,%v/%v,%v", i, ck, okv, d, okd, hc)
		if ck != seen[i] || okv != seen[i] || (okv && tv.Hash() != t.Hash()) {
			broken = "lookup-vs-listing"
		}
		if okd != seen[i] || (okd && d != any(i)) {
			broken = "data-lookup-vs-listing"
		}
		// documented meaning of HasConflicts, computed from the listing.
		want := seen[i]
		for _, j := range l {
			o := sc.txs[j]
			if namesCount(o, t) > 0 || namesCount(t, o) > 0 {
				want = true
			}
		}
		if hc != want {
			broken = "hasconflicts-vs-listing"
		}
	}
	// second listing path: IterateVerifiedTransactions must walk the same transactions with their data.
	k := 0
	in.mp.IterateVerifiedTransactions(func(t *transaction.Transaction, d any) bool {
		if k >= len(l) || sc.txs[l[k]].Hash() != t.Hash() || d != any(l[k]) {
			broken = "iterate-vs-listing"
		}
		k++
		return true
	})
	if k != len(l) {
		broken = "iterate-vs-listing"
	}
	// Verify goes last: it may cache balances inside the pool (the instance is
	// thrown away after observation, so that cannot leak into other paths).
	for i, t := range sc.txs {
		fmt.Fprintf(&b, " v%d:%v", i, in.mp.Verify(t, in.f))
	}
	return b.String(), broken
}

// cmpPrio is the INDEPENDENT order key of the property: (HighPriority attribute,
// fee per byte, network fee). It is computed from the three public facts of a
// transaction only - the attribute, NetworkFee and the serialized size - and
// uses nothing of the pool (not item.Compare) and not transaction.FeePerByte():
// the fee per byte is the INTEGER NetworkFee / size the Feer's policy value is
// compared with (floored, so 593/54 and 1100/110 are both 10).
func cmpPrio(a, b *transaction.Transaction) int {
	ah, bh := isHigh(a), isHigh(b)
	if ah != bh {
		if ah {
			return 1
		}
		return -1
	}
	if fa, fb := fpbOf(a), fpbOf(b); fa != fb {
		if fa > fb {
			return 1
		}
		return -1
	}
	if a.NetworkFee != b.NetworkFee {
		if a.NetworkFee > b.NetworkFee {
			return 1
		}
		return -1
	}
	return 0
}

func isHigh(t *transaction.Transaction) bool {
	for i := range t.Attributes {
		if t.Attributes[i].Type == transaction.HighPriority {
			return true
		}
	}
	return false
}

// fpbOf: integer fee per byte (Go's / truncates; fees and sizes are positive).
func fpbOf(t *transaction.Transaction) int64 { return t.NetworkFee / int64(t.Size()) }

// related: does adding t justify removing o (Conflicts either way or same oracle id)?
func related(t, o *transaction.Transaction) bool {
	if namesCount(t, o) > 0 || namesCount(o, t) > 0 {
		return true
	}
	ti, tok := oracleID(t)
	oi, ook := oracleID(o)
	return tok && ook && ti == oi
}

// ---- exploration ---------------------------------------------------------------

type caseRec struct {
	Scenario string   `json:"scenario"`
	Capacity int      `json:"capacity"`
	Ops      []string `json:"ops"`
	OpIdx    []int    `json:"op_idx"`
	Results  []string `json:"results,omitempty"`
	Broken   string   `json:"broken,omitempty"`
	Obs      string   `json:"observation,omitempty"`
	Extra    string   `json:"extra,omitempty"`
}

type explorer struct {
	r          *vk.Run
	sc         *scenario
	cap        int
	depth      int
	probeDepth int
	preDepth   int // levels explored (and cached) by the shallow first pass
	passDepth  int // depth limit of the running pass (set between passes)
	maxDepth   int // depth limit of this scenario (layout families are explored to a smaller depth)
	quietUpTo  int // sequences up to this length were counted by an earlier pass (set between passes)
	nodes      vk.Counter
	execs      vk.Counter
	probes     vk.Counter
	states     *vk.Set
	nontrivial vk.Counter
	fam        *famStats // counters of the transition model / overlap families (shared by all explorers)
	cmu        sync.Mutex
	cache      map[string][]childEval // evaluations of the children of a shallow sequence
}

// childEval is what the evaluation of one sequence left for its siblings: the
// result of its last operation and the full observation afterwards (the "pool
// that never saw the failed Add" side of the failed-Add comparison).
type childEval struct {
	res, obs  string
	ok, dead  bool
	needProbe bool
}

func (e *explorer) replay(seq []int) (*inst, []string) {
	in := newInst(e.sc, e.cap)
	res := make([]string, 0, len(seq))
	for _, k := range seq {
		if in.dead {
			break
		}
		res = append(res, in.apply(e.sc.ops[k]))
	}
	e.execs.Inc()
	return in, res
}

func (e *explorer) rec(seq []int, res []string, broken, obs, extra string) caseRec {
	c := caseRec{Scenario: e.sc.Name, Capacity: e.cap, Results: res, Broken: broken, Obs: obs, Extra: extra, OpIdx: append([]int{}, seq...)}
	for _, k := range seq {
		c.Ops = append(c.Ops, e.sc.ops[k].Name)
	}
	return c
}

// report records a violation found at the end of seq.
func (e *explorer) report(seq []int, kind, obs, extra string) {
	sc := e.sc
	last := sc.ops[seq[len(seq)-1]]
	_, rs := e.replay(seq)
	if kind == "solvency" && last.Kind == opAdd && len(rs) == len(seq) && rs[len(rs)-1] == "ok" && hasDupConflicts(sc.txs[last.Tx]) {
		// The new transaction carries the same Conflicts hash twice. One key per transaction (the
		// histories that reach it differ only in how the pool got its content; the shallow pass
		// runs first, so the replay kept is a shortest one).
		key := fmt.Sprintf("solvency-after-duplicate-conflicts-attr:%s:%s", sc.Name, last.Name)
		e.r.Violation(key, e.rec(seq, rs, "solvency", obs, extra))
		return
	}
	key := fmt.Sprintf("%s:%s:cap%d:%s", kind, sc.Name, e.cap, strings.Join(e.rec(seq, nil, "", "", "").Ops, ","))
	e.r.Violation(key, e.rec(seq, rs, kind, obs, extra))
}

// node evaluates the sequence seq (all of whose proper prefixes were clean) and
// returns false if it must not be extended (violation or dead instance). With
// deferProbe the one-step continuation comparison after a failed Add is left
// to the caller (probeCached), which has the sibling evaluations at hand.
func (e *explorer) node(seq []int, deferProbe bool) (bool, childEval) {
	quiet := len(seq) <= e.quietUpTo // re-evaluation by a deeper pass: same checks, no counting
	if !quiet {
		e.nodes.Inc()
	}
	sc := e.sc
	last := sc.ops[seq[len(seq)-1]]
	pre, _ := e.replay(seq[:len(seq)-1])
	before := pre.listing()
	r := pre.apply(last)
	in := pre
	ev := childEval{res: r}
	report := func(kind, obs, extra string) { e.report(seq, kind, obs, extra) }
	if !quiet {
		e.r.Outcome(last.Name[:strings.IndexAny(last.Name+"(", "(")] + "->" + r)
	}
	if in.dead {
		ev.dead = true
		report("panic", "", r)
		return false, ev
	}
	obs, broken := in.observe()
	ev.obs = obs
	if broken != "" {
		report(broken, obs, "")
		return false, ev
	}
	after := in.listing()
	if !quiet && e.states.Add(fmt.Sprintf("%s/%d/%s/%v/%d", sc.Name, e.cap, obs, in.f.bal, in.f.fpb)) {
		if len(after) > 0 {
			e.nontrivial.Inc()
		}
	}
	if !quiet && len(seq) <= 3 {
		e.r.Sample(e.rec(seq, nil, "", obs, r))
	}
	var jKind, jExtra string
	if last.Kind == opAdd {
		var class string
		jKind, jExtra, class = judgeAdd(sc, e.cap, in.f.bal, before, last.Tx, r, after)
		if !quiet {
			e.fam.add(sc, e.cap, before, last.Tx, r, class)
			e.fam.fpb(sc, e.cap, before, last.Tx, r, after)
			e.fam.layout(sc, before, last.Tx, r)
		}
	}
	switch {
	case last.Kind == opAdd && r != "ok":
		// A failed Add leaves the pool unchanged: same listing...
		if fmt.Sprint(before) != fmt.Sprint(after) {
			report("failed-add-changed-listing", obs, fmt.Sprintf("before=%v after=%v", before, after))
			return false, ev
		}
		// ...the error has its documented reason and the model does not demand acceptance...
		if jKind != "" {
			report(jKind, obs, jExtra)
			return false, ev
		}
		// ...and the same behaviour from here on (hidden state): every
		// continuation up to probeDepth gives identical results and
		// observations on a pool that never saw the failed Add.
		pd := e.probeDepth
		if sc.Depth != 0 {
			pd = 1 // layout families: one-step continuations in both tiers (many tiny alphabets)
		}
		if pd > 1 && len(seq) >= e.passDepth && e.passDepth >= 4 {
			pd = 1 // deepest level of the thorough tier: one-step continuations only (keeps the run exhaustive within its budget)
		}
		if deferProbe && pd == 1 {
			ev.needProbe = true
		} else if bad, extra := e.probe(seq, nil, pd); bad {
			report("failed-add-changed-behaviour", obs, extra)
			return false, ev
		}
	case last.Kind == opAdd:
		t := sc.txs[last.Tx]
		am := map[int]bool{}
		for _, i := range after {
			am[i] = true
		}
		var evicted, kept []int
		for _, i := range before {
			if am[i] {
				kept = append(kept, i)
				continue
			}
			if !related(t, sc.txs[i]) {
				evicted = append(evicted, i)
			}
		}
		if len(evicted) > 1 {
			report("evicted-more-than-one", obs, fmt.Sprintf("before=%v after=%v", before, after))
			return false, ev
		}
		if len(evicted) == 1 {
			if len(after) < e.cap {
				report("evicted-below-capacity", obs, fmt.Sprintf("before=%v after=%v", before, after))
				return false, ev
			}
			v := sc.txs[evicted[0]]
			for _, i := range append(kept, last.Tx) {
				if cmpPrio(v, sc.txs[i]) > 0 {
					report("evicted-not-lowest", obs, fmt.Sprintf("before=%v after=%v evicted=%d", before, after, evicted[0]))
					return false, ev
				}
			}
		}
		if !am[last.Tx] {
			report("add-ok-but-not-listed", obs, "")
			return false, ev
		}
		// exact effect: the model's removal set left, every bystander stayed, at most one lowest-priority capacity victim.
		if jKind != "" {
			report(jKind, obs, jExtra)
			return false, ev
		}
	case last.Kind == opRemove:
		want := []int{}
		for _, i := range before {
			if i != last.Tx {
				want = append(want, i)
			}
		}
		if fmt.Sprint(want) != fmt.Sprint(after) {
			report("remove-wrong-effect", obs, fmt.Sprintf("before=%v after=%v", before, after))
			return false, ev
		}
	case last.Kind == opBlock:
		// refresh only removes, keeps relative order, drops rejected ones.
		j := 0
		for _, i := range after {
			for j < len(before) && before[j] != i {
				j++
			}
			if j == len(before) {
				report("refresh-added-or-reordered", obs, fmt.Sprintf("before=%v after=%v", before, after))
				return false, ev
			}
		}
		for _, d := range last.Drop {
			for _, i := range after {
				if i == d {
					report("refresh-kept-rejected", obs, "")
					return false, ev
				}
			}
		}
		if kind, extra := judgeRefresh(sc, in.f, last.Drop, before, after); kind != "" {
			report(kind, obs, extra)
			return false, ev
		}
	}
	// the pool must behave like a fresh pool holding the same transactions (no stale hidden
	// bookkeeping left by removals that happened for several reasons at once).
	if kind, extra := e.rebuildDiff(in, seq, after, obs); kind != "" {
		report(kind, obs, extra)
		return false, ev
	}
	return true, ev
}

// probe compares pool(seq + cont) with pool(seq minus its last op + cont).
func (e *explorer) probe(seq []int, cont []int, left int) (bool, string) {
	if len(cont) > 0 {
		e.probes.Inc()
		a, ra := e.replay(append(append([]int{}, seq...), cont...))
		b, rb := e.replay(append(append([]int{}, seq[:len(seq)-1]...), cont...))
		ra = ra[len(seq):]
		rb = rb[len(seq)-1:]
		names := []string{}
		for _, k := range cont {
			names = append(names, e.sc.ops[k].Name)
		}
		if fmt.Sprint(ra) != fmt.Sprint(rb) {
			return true, fmt.Sprintf("continuation %v: results with failed add %v, without %v", names, ra, rb)
		}
		if a.dead || b.dead {
			return false, "" // both died the same way: reported on the plain path
		}
		oa, _ := a.observe()
		ob, _ := b.observe()
		if oa != ob {
			return true, fmt.Sprintf("continuation %v: observation with failed add %q, without %q", names, oa, ob)
		}
	}
	if left == 0 {
		return false, ""
	}
	for k := range e.sc.ops {
		if bad, x := e.probe(seq, append(append([]int{}, cont...), k), left-1); bad {
			return bad, x
		}
	}
	return false, ""
}

// probeCached is probe for continuations of length one with the side "pool that
// never saw the failed Add" taken from the sibling evaluations: pool(seq+k) must
// give the result and the observation of pool(seq minus its last op + k).
func (e *explorer) probeCached(seq []int, sib []childEval, obs string) bool {
	for k := range e.sc.ops {
		e.probes.Inc()
		a, ra := e.replay(append(append([]int{}, seq...), k))
		if len(ra) != len(seq)+1 || ra[len(seq)] != sib[k].res {
			e.report(seq, "failed-add-changed-behaviour", obs, fmt.Sprintf("continuation [%s]: results with failed add %v, without [%s]", e.sc.ops[k].Name, ra[len(seq):], sib[k].res))
			return false
		}
		if a.dead || sib[k].dead {
			continue // both died the same way: reported on the plain path
		}
		if oa, _ := a.observe(); oa != sib[k].obs {
			e.report(seq, "failed-add-changed-behaviour", obs, fmt.Sprintf("continuation [%s]: observation with failed add %q, without %q", e.sc.ops[k].Name, oa, sib[k].obs))
			return false
		}
	}
	return true
}

func seqKey(seq []int) string {
	b := make([]byte, len(seq))
	for i, k := range seq {
		b[i] = byte(k)
	}
	return string(b)
}

// children evaluates seq+k for every op k (nil if the run had to stop). The
// evaluations of the shallow levels are kept: the second pass starts from them.
func (e *explorer) children(seq []int) []childEval {
	shallow := len(seq)+1 <= e.preDepth
	if shallow {
		e.cmu.Lock()
		ce, ok := e.cache[seqKey(seq)]
		e.cmu.Unlock()
		if ok {
			return ce
		}
	}
	ce := make([]childEval, len(e.sc.ops))
	for k := range e.sc.ops {
		if e.r.Expired() || e.r.TooMany() {
			return nil
		}
		ok, ev := e.node(append(append([]int{}, seq...), k), true)
		ev.ok = ok
		ce[k] = ev
	}
	for k := range e.sc.ops {
		if ce[k].ok && ce[k].needProbe {
			if e.r.Expired() || e.r.TooMany() {
				return nil
			}
			ce[k].ok = e.probeCached(append(append([]int{}, seq...), k), ce, ce[k].obs)
		}
	}
	if shallow {
		e.cmu.Lock()
		e.cache[seqKey(seq)] = ce
		e.cmu.Unlock()
	}
	return ce
}

// expand explores everything below seq (itself evaluated and clean) down to depth.
func (e *explorer) expand(seq []int, depth int) {
	if len(seq) >= depth {
		return
	}
	ce := e.children(seq)
	for k := range ce {
		if ce[k].ok {
			e.expand(append(append([]int{}, seq...), k), depth)
		}
	}
}

func TestCheck(t *testing.T) {
	vk.UseT(t)
	r := vk.Start("C08", "model_checking", 150*time.Second, 25*time.Minute)
	scs := scenarios()
	if r.Replay != "" {
		replay(r, scs)
		return
	}
	depth := vk.Pick(r, 4, 5)
	probeDepth := vk.Pick(r, 1, 2)
	states := vk.NewSet()
	fam := newFamStats()
	var nodes, execs, probes, nontriv int64
	type job struct {
		e     *explorer
		first int
	}
	preDepth := min(3, depth)
	var jobs []job
	var exps []*explorer
	for _, sc := range scs { // overlap families first
		for _, c := range sc.Caps {
			e := &explorer{r: r, sc: sc, cap: c, depth: depth, probeDepth: probeDepth, preDepth: preDepth, states: states, fam: fam, cache: map[string][]childEval{}}
			e.maxDepth = depth
			if sc.Depth != 0 {
				e.maxDepth = min(depth, sc.Depth+vk.Pick(r, 0, 1))
			}
			exps = append(exps, e)
			for k := range sc.ops {
				jobs = append(jobs, job{e, k})
			}
		}
	}
	// Shards: every first op of every (scenario, capacity). Pass 0 evaluates the sequences of length
	// one, pass 1 everything up to preDepth (so the first counterexample reported is a short one and
	// every scenario is covered to that depth before anything deep starts), pass 2 continues from the
	// kept evaluations of pass 1 down to the full depth.
	for _, e := range exps {
		e.passDepth = preDepth
	}
	r.Parallel(len(exps), func(i int) { exps[i].children(nil) })
	passes := []int{preDepth}
	for d := preDepth + 1; d <= depth; d++ {
		passes = append(passes, d) // thorough: all scenarios at depth 4 (the quick tier's coverage) before any at depth 5
	}
	for pi, d := range passes {
		for _, e := range exps {
			e.passDepth = d
			if pi >= 2 {
				e.quietUpTo = passes[pi-1] // levels beyond the kept ones are walked again by the next pass
			}
		}
		r.Parallel(len(jobs), func(i int) {
			e, k := jobs[i].e, jobs[i].first
			if pi >= 1 && e.maxDepth <= passes[pi-1] {
				return // a scenario with a smaller depth limit was finished by the previous pass
			}
			if root := e.children(nil); root != nil && root[k].ok {
				e.expand([]int{k}, min(d, e.maxDepth))
			}
		})
	}
	for _, e := range exps {
		nodes += e.nodes.Get()
		execs += e.execs.Get()
		probes += e.probes.Get()
		nontriv += e.nontrivial.Get()
	}
	var alpha []string
	for _, sc := range scs {
		alpha = append(alpha, fmt.Sprintf("%s: %d txs, %d ops, capacities %v", sc.Name, len(sc.Txs), len(sc.ops), sc.Caps))
	}
	cov := map[string]any{
		"states":                        states.Len(),
		"transitions":                   int(nodes),
		"traces_validated_against_impl": int(nodes),
		"evaluations":                   int(nodes),
		"distinct_nontrivial":           int(nontriv),
		"rule":                          "every operation sequence up to the depth over each scenario alphabet on a fresh real mempool.Pool; a state is distinct by its full exported observation + feer; non-trivial = non-empty pool",
		"depth":                         depth,
		"pass_depths":                   passes,
		"failed_add_probe_depth":        probeDepth,
		"failed_add_probe_depth_note":   "continuations of length <= probe depth after every failed Add; at the deepest level of a pass of depth >= 4 the continuation length is 1",
		"probe_continuations":           int(probes),
		"pool_replays":                  int(execs),
		"scenarios":                     alpha,
	}
	fam.export(cov)
	layoutStatic(scs, cov)
	fpbStatic(scs, cov)
	r.Finish(cov, []string{
		"balances change only together with RemoveStale (as on a real node, where both happen at block acceptance)",
		"ties in (priority, fee per byte, network fee) may be ordered and evicted either way",
		"fee per byte is the integer NetworkFee / serialized size (the quantity the Feer's policy value is compared with); the order key of the oracle is computed from the HighPriority attribute, NetworkFee and Size() only",
		"a refresh is not required to drop a transaction whose fee per byte is below the policy value (only forbidden to drop one that is not)",
		"the search runs on the implementation itself: every transition is a call into pkg/core/mempool",
	})
}

func replay(r *vk.Run, scs []*scenario) {
	var c caseRec
	if err := r.ReadReplay(&c); err != nil {
		fmt.Println("cannot read replay:", err)
		r.Finish(map[string]any{"states": 1, "transitions": 1, "traces_validated_against_impl": 0}, nil)
	}
	for _, sc := range scs {
		if sc.Name != c.Scenario {
			continue
		}
		e := &explorer{r: r, sc: sc, cap: c.Capacity, depth: len(c.OpIdx), probeDepth: vk.Pick(r, 1, 2), passDepth: max(len(c.OpIdx), 5), states: vk.NewSet(), fam: newFamStats()}
		outs := map[string]bool{}
		for i := 0; i < 5; i++ {
			ok, _ := e.node(c.OpIdx, false)
			outs[fmt.Sprint(ok)] = true
		}
		b, _ := json.Marshal(c.Ops)
		fmt.Printf("replayed %s cap=%d %s 5x: clean=%v\n", c.Scenario, c.Capacity, b, sortedKeys(outs))
	}
	r.Finish(map[string]any{"states": 1, "transitions": 5, "traces_validated_against_impl": 5}, nil)
}

func sortedKeys(m map[string]bool) []string {
	var k []string
	for s := range m {
		k = append(k, s)
	}
	sort.Strings(k)
	return k
}
