// Measured counters of the transition model and of the overlap families, and the
// "same content, fresh pool" comparison.
package c08

import (
	"fmt"
	"sort"
	"strings"
	"sync"

	"github.com/nspcc-dev/neo-go/pkg/core/mempool"
	"github.com/nspcc-dev/neo-go/pkg/core/transaction"
	"github.com/nspcc-dev/neo-go/pkg/util"

	"verif/lib/vk"
)

func hasDupConflicts(t *transaction.Transaction) bool {
	seen := map[util.Uint256]bool{}
	for i := range t.Attributes {
		if t.Attributes[i].Type != transaction.ConflictsT {
			continue
		}
		h := t.Attributes[i].Value.(*transaction.Conflicts).Hash
		if seen[h] {
			return true
		}
		seen[h] = true
	}
	return false
}

type famStats struct {
	mu          sync.Mutex
	n           map[string]int64 // counter name -> count
	cases       *vk.Set          // distinct (scenario, capacity-independent pool content, added tx, result) of the overlap families
	shapes      *vk.Set          // distinct shapes of successful overlapping additions
	rebuilds    vk.Counter
	fpbCases    *vk.Set // fpb families: distinct (capacity, full pool content, newcomer, result)
	layoutCases *vk.Set // layout families: distinct Add transitions decided by an attribute outside the first Conflicts run / a split duplicate
	listings    *vk.Set // fpb families: distinct listings in which the newcomer's position was decided (fpb_test.go)
}

func newFamStats() *famStats {
	return &famStats{n: map[string]int64{}, cases: vk.NewSet(), shapes: vk.NewSet(), listings: vk.NewSet(), fpbCases: vk.NewSet(), layoutCases: vk.NewSet()}
}

func (f *famStats) inc(names ...string) {
	f.mu.Lock()
	for _, n := range names {
		f.n[n]++
	}
	f.mu.Unlock()
}

// add records one evaluated Add transition.
func (f *famStats) add(sc *scenario, capacity int, before []int, ti int, res, class string) {
	names := []string{"model:" + class + "/" + map[bool]string{true: "accepted", false: "rejected"}[res == "ok"]}
	if !strings.HasPrefix(sc.Name, "overlap-") {
		f.inc(names...)
		return
	}
	m := addModel(sc, before, ti)
	names = append(names, "overlap:adds")
	f.cases.Add(fmt.Sprintf("%s/%v/%d/%s", sc.Name, before, ti, res))
	if m.unsigned {
		names = append(names, "overlap:names-pooled-tx-without-common-signer")
	}
	if res == "ok" && !m.dup {
		var why []string
		if len(m.removal) >= 2 {
			why = append(why, "removes>=2")
		}
		if len(m.removal) >= 3 {
			why = append(why, "removes>=3")
		}
		if m.overlap {
			why = append(why, "same-tx-for-two-reasons")
		}
		if m.replaced >= 0 && (len(m.named) > 0 || len(m.namers) > 0) {
			why = append(why, "oracle-replacement+conflicts")
		}
		if len(m.namers) > 0 && len(m.named) > 0 {
			why = append(why, "both-directions")
		}
		if len(m.removal) > 0 && len(before) > len(m.removal) {
			why = append(why, "with-bystander")
		}
		if len(m.removal) > 0 && len(before) == capacity {
			why = append(why, "pool-was-full")
		}
		for _, w := range why {
			names = append(names, "overlap:ok:"+w)
		}
		if len(m.removal) > 0 {
			names = append(names, "overlap:ok:with-removals")
			sort.Strings(why)
			f.shapes.Add(fmt.Sprintf("%s/%d/%v/%v/%v/%d|%s", sc.Name, ti, m.namers, m.named, m.rest, m.replaced, strings.Join(why, ",")))
		}
	}
	f.inc(names...)
}

func (f *famStats) export(cov map[string]any) {
	f.mu.Lock()
	defer f.mu.Unlock()
	mc, fc, lc := map[string]int64{}, map[string]int64{}, map[string]int64{}
	for k, v := range f.n {
		if strings.HasPrefix(k, "fpb:") {
			fc[k] = v
		} else if strings.HasPrefix(k, "layout:") {
			lc[k] = v
		} else {
			mc[k] = v
		}
	}
	cov["transition_model_counters"] = mc
	cov["fpb_family_counters"] = fc
	cov["layout_family_counters"] = lc
	cov["layout_adds"] = int(lc["layout:adds"])
	for name, sub := range map[string]string{
		"layout_adds_newcomer_names_pooled_only_outside_first_conflicts_run": "layout:newcomer-names-pooled-tx-only-outside",
		"layout_adds_pooled_names_newcomer_only_outside_first_conflicts_run": "layout:pooled-tx-names-newcomer-only-outside",
		"layout_adds_newcomer_names_pooled_in_non_adjacent_duplicates":       "layout:newcomer-names-pooled-tx-in-non-adjacent",
		"layout_adds_pooled_names_newcomer_in_non_adjacent_duplicates":       "layout:pooled-tx-names-newcomer-in-non-adjacent",
	} {
		var acc, rej int64
		for k, v := range lc {
			if strings.HasPrefix(k, sub) {
				if strings.HasSuffix(k, "/accepted") {
					acc += v
				} else {
					rej += v
				}
			}
		}
		cov[name+"_accepted"] = int(acc)
		cov[name+"_rejected"] = int(rej)
	}
	cov["layout_distinct_decided_adds"] = f.layoutCases.Len()
	// scalars (the merged evidence keeps only those): transitions DECIDED by a pair of each boundary class
	for name, sub := range map[string]string{
		"fpb_decided_by_equal_floor_ratio_opposing_net": "floor-eq/ratio-opposes-net",
		"fpb_decided_by_equal_floor_equal_ratio":        "floor-eq/ratio-eq/net-differs",
		"fpb_decided_by_equal_floor_same_size":          "floor-eq/same-size",
		"fpb_decided_by_floor_differing_by_1_vs_net":    "floor-differs-by-1/net-opposes",
		"fpb_decided_by_difference_of_2^31_or_more":     "floor-differs-by>=2^31",
	} {
		var full, ins int64
		for k, v := range fc {
			if strings.Contains(k, sub) {
				if strings.HasPrefix(k, "fpb:add-to-full-pool:") {
					full += v
				} else {
					ins += v
				}
			}
		}
		cov[name+"_adds_to_full_pool"] = int(full)
		cov[name+"_insert_positions"] = int(ins)
	}
	cov["fpb_adds"] = int(fc["fpb:adds"])
	cov["fpb_distinct_adds_to_full_pool"] = f.fpbCases.Len()
	cov["fpb_distinct_decided_listings"] = f.listings.Len()
	cov["overlap_distinct_cases"] = f.cases.Len()
	cov["overlap_distinct_removal_shapes"] = f.shapes.Len()
	cov["same_content_fresh_pool_comparisons"] = int(f.rebuilds.Get())
}

// rebuildDiff builds a fresh pool with the same feer and the same content (added in
// listing order) and compares everything the exported API shows. A difference means
// the pool's behaviour depends on bookkeeping left behind by its history.
func (e *explorer) rebuildDiff(in *inst, seq []int, after []int, obs string) (kind, extra string) {
	sc := e.sc
	f2 := &feer{bal: map[pkey]int64{}, fpb: in.f.fpb, height: in.f.height}
	for k, v := range in.f.bal {
		f2.bal[k] = v
	}
	ni := &inst{sc: sc, cap: e.cap, mp: mempool.New(e.cap, false, nil), f: f2}
	hadBlock := false
	for _, k := range seq {
		if sc.ops[k].Kind == opBlock {
			hadBlock = true
		}
	}
	fail := func() (s string) {
		defer func() {
			if r := recover(); r != nil {
				s = fmt.Sprintf("panic: %v", r)
			}
		}()
		if hadBlock { // the policy value the pool saw at its last refresh
			ni.mp.RemoveStale(func(*transaction.Transaction) bool { return true }, f2)
		}
		for _, i := range after {
			if err := ni.mp.Add(sc.txs[i], f2, i); err != nil {
				return fmt.Sprintf("Add(%s) to a fresh pool holding the higher-priority part of %v: %v", sc.Txs[i].Name, after, err)
			}
		}
		return ""
	}()
	e.fam.rebuilds.Inc()
	if fail != "" {
		return "pool-content-not-addable-to-fresh-pool", fail
	}
	o2, _ := ni.observe()
	if o2 != obs {
		return "history-dependent-observation", fmt.Sprintf("fresh pool with the same content and feer shows %q", o2)
	}
	return "", ""
}
