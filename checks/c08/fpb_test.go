// Scenario families for the ROUNDING and WIDTH boundaries of the order key
// (round 3). The property orders the pool by (high-priority attribute, fee per
// byte, network fee) where the fee per byte is the INTEGER NetworkFee / size
// (what transaction.FeePerByte() and the Feer's policy value are). An order
// computed from the exact ratio (cross-multiplication, floating point) is still
// a consistent total preorder - binary search, the append-at-the-end shortcut
// and every self-consistency check keep working - and differs from the stated
// one only for transactions of DIFFERENT sizes whose floored fees per byte are
// equal. The older alphabets have two sizes whose fees per byte are far apart,
// so no such pair existed.
//
// Network fees are given relative to the measured size of the very transaction
// (txSpec.Q/R/RHalf): Q*size-1 is the largest fee of floor Q-1 (exact ratio
// Q-1/size below Q), Q*size the smallest of floor Q (exact ratio Q.0).
//
//	fpb-floor       one priority class, four sizes; floors equal with the exact ratios
//	                ordered against / with the network fees, floors differing by exactly
//	                one against the network fees, equal exact ratios with different fees
//	fpb-floor-high  the same roles played by high-priority transactions next to
//	                ordinary ones (the attribute adds a byte: yet other sizes)
//	fee-width       differences of the second and third key of 2^31 and 2^32 (a
//	                narrowed comparison result turns them negative or zero)
//
// The families are explored by the same exhaustive operation-sequence search and
// judged by the same oracles as all others (listing order, capacity victim,
// must-accept / must-reject at capacity, justified ErrOOM); what is new is the
// alphabet, the build-time proof that it has the intended shape, and counters of
// how often a transition was DECIDED by such a pair.
package c08

import (
	"fmt"

	"github.com/nspcc-dev/neo-go/pkg/core/transaction"
)

func fpbScenarios() []*scenario {
	keepAll := op{Kind: opBlock, Name: "Block(keep all)"}
	big := int64(1) << 40
	s := func(n string) []string { return []string{n} }
	return []*scenario{
		{
			// sizes: a,d,e smallest (pad 0), c +21, b,f +56, g +300 (script length varint grows too).
			// stated order: d(11) > f(10; 11*size-1) > b(10; 10*size) > c(10) > a(10) > e(10) > g(9, the largest fee).
			// by exact ratio a (10.98) would precede c (10.5) and b (10.0), and c would precede b.
			Name: "fpb-floor",
			Txs: []txSpec{
				{Name: "a", Signers: s("S1"), Q: 11, R: -1},                // floor 10, the largest fee of floor 10 at the small size
				{Name: "b", Signers: s("S2"), Q: 10, Pad: 56},              // floor 10, exact 10.0, about twice a's fee
				{Name: "c", Signers: s("S3"), Q: 10, RHalf: true, Pad: 21}, // floor 10, exact 10.5, fee between a's and b's
				{Name: "d", Signers: s("S4"), Q: 11},                       // floor 11 with a's fee + 1: above b, c, f although it pays less
				{Name: "e", Signers: s("S5"), Q: 10},                       // exact 10.0 like b, fee about half of b's
				{Name: "f", Signers: s("S6"), Q: 11, R: -1, Pad: 56},       // floor 10: more fee AND larger exact ratio than a (both orders agree)
				{Name: "g", Signers: s("S7"), Q: 10, R: -1, Pad: 300},      // floor 9 with the largest fee of all
			},
			Order: []string{"d", "f", "b", "c", "a", "e", "g"},
			Bal:   map[string]int64{"S1": big, "S2": big, "S3": big, "S4": big, "S5": big, "S6": big, "S7": big},
			Caps:  []int{1, 2, 3},
			Blocks: []op{keepAll,
				{Kind: opBlock, Name: "Block(fpb:=10)", Fpb: 10}, // exactly the floor of a,b,c,e,f; g (exact 9.99) is below
				{Kind: opBlock, Name: "Block(fpb:=11)", Fpb: 11}, // exactly d's; a and f (exact 10.98) are below
			},
		},
		{
			// the HighPriority attribute is one more byte. ha/hb/hd/he repeat the roles a/b/d/e, p is an ordinary
			// transaction with twice the fee per byte of every high-priority one, a and b as above.
			Name: "fpb-floor-high",
			Txs: []txSpec{
				{Name: "ha", Signers: s("S1"), Q: 11, R: -1, High: true},
				{Name: "hb", Signers: s("S2"), Q: 10, Pad: 56, High: true},
				{Name: "hd", Signers: s("S3"), Q: 11, High: true},
				{Name: "he", Signers: s("S4"), Q: 10, High: true},
				{Name: "p", Signers: s("S5"), Q: 22},
				{Name: "a", Signers: s("S6"), Q: 11, R: -1},
				{Name: "b", Signers: s("S7"), Q: 10, Pad: 56},
			},
			Order: []string{"hd", "hb", "ha", "he", "p", "b", "a"},
			Bal:   map[string]int64{"S1": big, "S2": big, "S3": big, "S4": big, "S5": big, "S6": big, "S7": big},
			Caps:  []int{1, 2, 3},
			Blocks: []op{keepAll,
				{Kind: opBlock, Name: "Block(fpb:=11)", Fpb: 11},
			},
		},
		{
			// x0/x1/x2: one size, fees per byte 1, 1+2^31, 1+2^32 (second key apart by 2^31 and 2^32).
			// y0/y1: floor 2^23 at two sizes (+302 bytes): equal second key, fees apart by more than 2^31.
			// y2: y1's size, one unit of fee less than floor 2^23: below y0 although its fee is 6 times y0's.
			Name: "fee-width",
			Txs: []txSpec{
				{Name: "x0", Signers: s("S1"), Q: 1},
				{Name: "x1", Signers: s("S2"), Q: 1 + 1<<31},
				{Name: "x2", Signers: s("S3"), Q: 1 + 1<<32},
				{Name: "y0", Signers: s("S4"), Q: 1 << 23},
				{Name: "y1", Signers: s("S5"), Q: 1 << 23, Pad: 300},
				{Name: "y2", Signers: s("S6"), Q: 1 << 23, R: -1, Pad: 300},
			},
			Order:  []string{"x2", "x1", "y1", "y0", "y2", "x0"},
			Bal:    map[string]int64{"S1": big, "S2": big, "S3": big, "S4": big, "S5": big, "S6": big},
			Caps:   []int{1, 2},
			Blocks: []op{keepAll},
		},
	}
}

func isFpbFamily(sc *scenario) bool { return len(sc.Order) > 0 }

func sign(v int64) int {
	switch {
	case v > 0:
		return 1
	case v < 0:
		return -1
	}
	return 0
}

// pairClass names how the three keys and the exact ratio relate for two transactions.
func pairClass(a, b *transaction.Transaction) string {
	ah, bh := isHigh(a), isHigh(b)
	if ah != bh {
		return "priority-differs"
	}
	pre := ""
	if ah {
		pre = "high:"
	}
	fa, fb := fpbOf(a), fpbOf(b)
	nr := sign(a.NetworkFee - b.NetworkFee)
	if fa == fb {
		if nr == 0 {
			return pre + "tie"
		}
		if a.Size() == b.Size() {
			return pre + "floor-eq/same-size"
		}
		// exact ratios compared by cross-multiplication in 128 bits' worth of care: the families keep fee*size < 2^62
		cr := sign(a.NetworkFee*int64(b.Size()) - b.NetworkFee*int64(a.Size()))
		switch {
		case cr == 0:
			return pre + "floor-eq/ratio-eq/net-differs"
		case cr == nr:
			return pre + "floor-eq/ratio-agrees-with-net"
		}
		return pre + "floor-eq/ratio-opposes-net"
	}
	d := fa - fb
	if d < 0 {
		d = -d
	}
	w := "net-agrees"
	if sign(fa-fb) != nr {
		w = "net-opposes"
	}
	switch {
	case d == 1:
		return pre + "floor-differs-by-1/" + w
	case d >= 1<<31:
		return pre + "floor-differs-by>=2^31/" + w
	}
	return pre + "floor-differs/" + w
}

// checkOrder proves at build time that the alphabet has the shape it was designed to
// have: Order is a strict chain by the independent key and covers every transaction.
func (sc *scenario) checkOrder(byName map[string]*transaction.Transaction) {
	if !isFpbFamily(sc) {
		return
	}
	if len(sc.Order) != len(sc.Txs) {
		panic(sc.Name + ": Order must list every transaction")
	}
	for k := 1; k < len(sc.Order); k++ {
		hi, lo := byName[sc.Order[k-1]], byName[sc.Order[k]]
		if hi == nil || lo == nil {
			panic(sc.Name + ": unknown name in Order")
		}
		if cmpPrio(hi, lo) <= 0 {
			panic(fmt.Sprintf("%s: designed order broken: %s (size %d, fee %d) is not above %s (size %d, fee %d)",
				sc.Name, sc.Order[k-1], hi.Size(), hi.NetworkFee, sc.Order[k], lo.Size(), lo.NetworkFee))
		}
	}
}

// fpb records what the fee-per-byte families measured for one evaluated Add.
func (f *famStats) fpb(sc *scenario, capacity int, before []int, ti int, res string, after []int) {
	if !isFpbFamily(sc) {
		return
	}
	names := []string{"fpb:adds"}
	m := addModel(sc, before, ti)
	if !m.dup && len(m.rest) == capacity {
		low := lowestOf(sc, m.rest)
		r := "refused"
		if res == "ok" {
			r = "evicts-lowest"
		}
		names = append(names, "fpb:add-to-full-pool:newcomer-vs-lowest:"+pairClass(sc.txs[ti], sc.txs[low])+":"+r)
		f.fpbCases.Add(fmt.Sprintf("%s/%d/%v/%d/%s", sc.Name, capacity, before, ti, res))
	}
	if res == "ok" {
		for k := 1; k < len(after); k++ {
			if after[k-1] == ti || after[k] == ti { // the position of the newcomer was decided against this neighbour
				c := pairClass(sc.txs[after[k-1]], sc.txs[after[k]])
				names = append(names, "fpb:inserted-next-to:"+c)
				f.listings.Add(fmt.Sprintf("%s/%v", sc.Name, after))
			}
		}
	}
	f.inc(names...)
}

// fpbStatic: the pairs of every class the alphabets contain.
func fpbStatic(scs []*scenario, cov map[string]any) {
	pairs := map[string]int{}
	var shapes []string
	for _, sc := range scs {
		if !isFpbFamily(sc) {
			continue
		}
		for i := range sc.txs {
			for j := i + 1; j < len(sc.txs); j++ {
				pairs[sc.Name+":"+pairClass(sc.txs[i], sc.txs[j])]++
			}
		}
		d := sc.Name + ":"
		for _, n := range sc.Order {
			for i, s := range sc.Txs {
				if s.Name == n {
					d += fmt.Sprintf(" %s(size %d fee %d fpb %d)", n, sc.txs[i].Size(), sc.txs[i].NetworkFee, fpbOf(sc.txs[i]))
				}
			}
		}
		shapes = append(shapes, d)
	}
	cov["fpb_alphabet_pairs_by_class"] = pairs
	cov["fpb_alphabets_in_stated_order"] = shapes
}
