// Scenario families for the ORDER / LAYOUT of a transaction's attributes (round 4).
//
// The pool learns about Conflicts attributes only through
// tx.GetAttributes(transaction.ConflictsT) and about the other attributes through
// HasAttribute / GetAttributes(OracleResponseT). Every older alphabet put the
// attributes of one type next to each other (HighPriority, then all Conflicts,
// then OracleResponse), so an accessor that sees only the FIRST CONTIGUOUS RUN
// of a type, stops at the first attribute of a larger / smaller type ("sorted
// attributes") or de-duplicates only NEIGHBOURS behaved exactly like the real
// one. Here transactions with 2..3 Conflicts attributes carry them in every
// interleaving with the other attribute kinds (NotValidBefore, HighPriority,
// OracleResponse, NotaryAssisted, a reserved type):
//
//	layout-k2   two Conflicts naming z1, z2 among 1..2 other attributes (every arrangement);
//	            two layout transactions per scenario (L: fee = sum of the named + 1, L2:
//	            exactly the sum, hashes in reversed order), so that every position holds the
//	            DECISIVE hash (the one naming a pooled transaction / the one a newcomer is
//	            named by) in some history, with one or two pooled namers.
//	layout-k3   three Conflicts naming z1, z2, z3 (z3 pays more than L: it replaces L when it
//	            arrives later), same construction.
//	layout-dup  the SAME hash in two or three NON-ADJACENT Conflicts attributes (separated by
//	            other kinds and / or by a Conflicts attribute naming something else), next to
//	            another transaction k of the same payer with the balance one below what is
//	            needed when the fees of the conflicting transaction are credited once (the
//	            accounting repaired in bcada37) and a cheap transaction M of a second payer with
//	            another such layout (z, named twice by the pooled M, must be able to replace it).
//	            Every layout plays both roles (L and M) in some scenario.
//
// The families are explored by the same exhaustive operation-sequence search
// (Add / Remove of every transaction, refreshes) and judged by the same oracles
// (transition model, listing invariants after every step, same-content fresh
// pool, failed-Add continuations) as all others, to a smaller depth (3 in the
// quick tier, 4 in thorough: the alphabets are tiny and everything a layout can
// break shows within Add, Add, Remove/Block/Add). The model and the invariants
// read the attributes with their own loops (namesCount, oracleID, isHigh), never
// through the accessors of the transaction package.
package c08

import (
	"fmt"
	"os"
	"strings"

	"github.com/nspcc-dev/neo-go/pkg/core/transaction"
	"github.com/nspcc-dev/neo-go/pkg/crypto/hash"
)

// layoutAttrs builds the attribute list of an explicit layout.
func layoutAttrs(tokens []string, byName map[string]*transaction.Transaction) []transaction.Attribute {
	var out []transaction.Attribute
	for _, tok := range tokens {
		switch {
		case strings.HasPrefix(tok, "C:!"): // a hash no transaction of the alphabet has
			out = append(out, transaction.Attribute{Type: transaction.ConflictsT, Value: &transaction.Conflicts{Hash: hash.Sha256([]byte("c08 ghost " + tok[3:]))}})
		case strings.HasPrefix(tok, "C:"):
			ct, ok := byName[tok[2:]]
			if !ok {
				panic("conflict target must be defined earlier: " + tok)
			}
			out = append(out, transaction.Attribute{Type: transaction.ConflictsT, Value: &transaction.Conflicts{Hash: ct.Hash()}})
		case tok == "HP":
			out = append(out, transaction.Attribute{Type: transaction.HighPriority})
		case strings.HasPrefix(tok, "OR:"):
			var id uint64
			fmt.Sscan(tok[3:], &id)
			out = append(out, transaction.Attribute{Type: transaction.OracleResponseT, Value: &transaction.OracleResponse{ID: id, Code: transaction.Success, Result: []byte{}}})
		case tok == "NVB":
			out = append(out, transaction.Attribute{Type: transaction.NotValidBeforeT, Value: &transaction.NotValidBefore{Height: 1}})
		case tok == "NA":
			out = append(out, transaction.Attribute{Type: transaction.NotaryAssistedT, Value: &transaction.NotaryAssisted{NKeys: 1}})
		case tok == "R":
			out = append(out, transaction.Attribute{Type: transaction.ReservedLowerBound + 2, Value: &transaction.Reserved{Value: []byte{1, 2}}})
		default:
			panic("bad attribute token " + tok)
		}
	}
	return out
}

// the other attribute kinds, by type value: HP 0x01, OR 0x11, NVB 0x20 are BELOW Conflicts (0x21), NA 0x22 and R 0xe2 above.
func layoutKinds() []string { return []string{"NVB", "HP", "OR:9", "NA", "R"} }

// otherSets: the fillings of m "other" slots: every kind for one slot; for two slots the quick tier
// takes the 5 cyclic ordered pairs (every kind once in the first and once in the second slot, both
// type orders), thorough all 20 ordered pairs of distinct kinds.
func otherSets(m int, all bool) [][]string {
	k := layoutKinds()
	var out [][]string
	if m == 1 {
		for _, a := range k {
			out = append(out, []string{a})
		}
		return out
	}
	for i, a := range k {
		for j, b := range k {
			if i == j {
				continue
			}
			if all || j == (i+1)%len(k) {
				out = append(out, []string{a, b})
			}
		}
	}
	return out
}

// arrangements: every string over {C,o} with c C's and m o's (lexicographic, 'C' < 'o').
func arrangements(c, m int) []string {
	if c == 0 && m == 0 {
		return []string{""}
	}
	var out []string
	if c > 0 {
		for _, s := range arrangements(c-1, m) {
			out = append(out, "C"+s)
		}
	}
	if m > 0 {
		for _, s := range arrangements(c, m-1) {
			out = append(out, "o"+s)
		}
	}
	return out
}

// fill turns a pattern into tokens: the i-th upper-case letter other than 'o' takes targets[letter]
// ('C' takes the next of seq), 'o' the next of others.
func fill(pattern string, seq []string, letter map[byte]string, others []string) []string {
	var out []string
	ci, oi := 0, 0
	for i := 0; i < len(pattern); i++ {
		switch ch := pattern[i]; ch {
		case 'o':
			out = append(out, others[oi])
			oi++
		case 'C':
			out = append(out, "C:"+seq[ci])
			ci++
		default:
			out = append(out, "C:"+letter[ch])
		}
	}
	return out
}

func layoutName(tokens []string) string {
	var p []string
	for _, t := range tokens {
		if i := strings.IndexByte(t, ':'); i > 0 && t[0] != 'C' {
			t = t[:i]
		}
		p = append(p, strings.TrimPrefix(t, "C:"))
	}
	return strings.Join(p, ".")
}

type layoutSpec struct {
	pattern string
	others  []string
}

func (l layoutSpec) String() string { return l.pattern + "/" + strings.Join(l.others, "+") }

func thoroughTier() bool { return os.Getenv("VERIF_TIER") == "thorough" }

func layoutScenarios() []*scenario {
	all := thoroughTier()
	keepAll := op{Kind: opBlock, Name: "Block(keep all)"}
	var scs []*scenario

	// ---- layout-k2 / layout-k3: distinct named hashes ------------------------------------------
	for _, c := range []int{2, 3} {
		var specs []layoutSpec
		for m := 1; m <= 2; m++ {
			for _, arr := range arrangements(c, m) {
				for _, o := range otherSets(m, all) {
					specs = append(specs, layoutSpec{arr, o})
				}
			}
		}
		for i := 0; i < len(specs); i += 2 {
			a, b := specs[i], specs[(i+1)%len(specs)]
			var sc *scenario
			if c == 2 {
				la := fill(a.pattern, []string{"z1", "z2"}, nil, a.others)
				lb := fill(b.pattern, []string{"z2", "z1"}, nil, b.others)
				sc = &scenario{
					Name: "layout-k2:" + layoutName(la) + "|" + layoutName(lb),
					Txs: []txSpec{
						{Name: "z1", Signers: []string{"S1"}, Net: 5000},
						{Name: "z2", Signers: []string{"S2"}, Net: 6000},
						{Name: "L", Signers: []string{"S1", "S2"}, Net: 11001, Attrs: la},        // the sum of the named + 1
						{Name: "L2", Signers: []string{"S3", "S2", "S1"}, Net: 11000, Attrs: lb}, // exactly the sum
					},
					// ample balances: the balance check must never hide a missed conflict (S1 can pay z1 AND L)
					Bal: map[string]int64{"S1": 16001, "S2": 6000, "S3": 11000},
				}
			} else {
				la := fill(a.pattern, []string{"z1", "z2", "z3"}, nil, a.others)
				lb := fill(b.pattern, []string{"z3", "z1", "z2"}, nil, b.others)
				sc = &scenario{
					Name: "layout-k3:" + layoutName(la) + "|" + layoutName(lb),
					Txs: []txSpec{
						{Name: "z1", Signers: []string{"S1"}, Net: 5000},
						{Name: "z2", Signers: []string{"S2"}, Net: 6000},
						{Name: "z3", Signers: []string{"S3"}, Net: 30000},                              // pays more than L: replaces it when it comes later
						{Name: "L", Signers: []string{"S1", "S2", "S3"}, Net: 11001, Attrs: la},        // beats z1+z2, not z3
						{Name: "L2", Signers: []string{"S4", "S1", "S2", "S3"}, Net: 41001, Attrs: lb}, // beats all three
					},
					Bal: map[string]int64{"S1": 16001, "S2": 6000, "S3": 30000, "S4": 41001},
				}
			}
			sc.Caps = []int{2, 3}
			sc.Blocks = []op{keepAll}
			sc.Depth = 3
			scs = append(scs, sc)
		}
	}

	// ---- layout-dup: the same hash in non-adjacent attributes ----------------------------------
	// Z = the pooled transaction z, X = a hash nothing has (a Conflicts attribute between the two
	// equal ones without any other attribute kind: "ZXZ"), o = another kind.
	var dups []layoutSpec
	for _, p := range []string{"ZoZ", "ZXZ", "ZoXZ", "ZXoZ", "ZoZX", "XZoZ", "ZZoZ", "ZoZZ", "ZooZ", "oZoZ", "ZoZo", "ZoXoZ", "ZoZoZ"} {
		m := strings.Count(p, "o")
		if m == 0 {
			dups = append(dups, layoutSpec{p, nil})
			continue
		}
		for _, o := range otherSets(m, all) {
			dups = append(dups, layoutSpec{p, o})
		}
	}
	letters := map[byte]string{'Z': "z", 'X': "!x"}
	for i := range dups { // every layout once in the role of L and once in the role of M
		a, b := dups[i], dups[(i+1)%len(dups)]
		la, lb := fill(a.pattern, nil, letters, a.others), fill(b.pattern, nil, letters, b.others)
		scs = append(scs, &scenario{
			Name: "layout-dup:" + layoutName(la) + "|" + layoutName(lb),
			Txs: []txSpec{
				{Name: "z", Signers: []string{"S1"}, Net: 5000},
				{Name: "k", Signers: []string{"S1"}, Net: 15000},
				{Name: "L", Signers: []string{"S1"}, Net: 20000, Attrs: la},      // same payer as z and k
				{Name: "M", Signers: []string{"S2", "S1"}, Net: 2400, Attrs: lb}, // other payer, shares signer S1; z beats it even if its fee is counted per attribute
			},
			// S1: z + k + L = 40000; with z leaving 35000 are needed - one more than there is
			Bal:  map[string]int64{"S1": 34999, "S2": 20000},
			Caps: []int{2, 3},
			Blocks: []op{keepAll,
				{Kind: opBlock, Name: "Block(S1:=35000)", Bal: map[string]int64{"S1": 35000}},
			},
			Depth: 3,
		})
	}
	return scs
}

// ---- what a layout hides from an accessor that sees one contiguous run ---------------------------

// hiddenNaming: a names b ONLY through Conflicts attributes standing outside a's first contiguous
// run of Conflicts attributes.
func hiddenNaming(a, b *transaction.Transaction) bool {
	h := b.Hash()
	inRun, after, named := false, false, false
	for i := range a.Attributes {
		isC := a.Attributes[i].Type == transaction.ConflictsT
		switch {
		case isC && !after:
			inRun = true
		case !isC && inRun:
			after = true
		}
		if isC && a.Attributes[i].Value.(*transaction.Conflicts).Hash == h {
			if !after {
				return false
			}
			named = true
		}
	}
	return named
}

// splitDup: a names b in two Conflicts attributes that are not neighbours.
func splitDup(a, b *transaction.Transaction) bool {
	h := b.Hash()
	last := -1
	for i := range a.Attributes {
		if a.Attributes[i].Type == transaction.ConflictsT && a.Attributes[i].Value.(*transaction.Conflicts).Hash == h {
			if last >= 0 && i-last > 1 {
				return true
			}
			last = i
		}
	}
	return false
}

// layout records one evaluated Add transition of a layout family.
func (f *famStats) layout(sc *scenario, before []int, ti int, res string) {
	if !strings.HasPrefix(sc.Name, "layout-") {
		return
	}
	t := sc.txs[ti]
	names := []string{"layout:adds"}
	verdict := map[bool]string{true: "accepted", false: "rejected"}[res == "ok"]
	var hid, split, hidBack, splitBack bool
	for _, i := range before {
		if i == ti {
			return
		}
		x := sc.txs[i]
		hid = hid || hiddenNaming(t, x)
		split = split || splitDup(t, x)
		hidBack = hidBack || hiddenNaming(x, t)
		splitBack = splitBack || splitDup(x, t)
	}
	for n, on := range map[string]bool{
		"layout:newcomer-names-pooled-tx-only-outside-its-first-conflicts-run": hid,
		"layout:pooled-tx-names-newcomer-only-outside-its-first-conflicts-run": hidBack,
		"layout:newcomer-names-pooled-tx-in-non-adjacent-duplicate-attributes": split,
		"layout:pooled-tx-names-newcomer-in-non-adjacent-duplicate-attributes": splitBack,
	} {
		if on {
			names = append(names, n+"/"+verdict)
			f.layoutCases.Add(fmt.Sprintf("%s/%s/%v/%d/%s", n, sc.Name, before, ti, res))
		}
	}
	f.inc(names...)
}

func layoutStatic(scs []*scenario, cov map[string]any) {
	n := map[string]int{}
	lay := map[string]bool{}
	types := map[string]bool{}
	for _, sc := range scs {
		if !strings.HasPrefix(sc.Name, "layout-") {
			continue
		}
		fam := sc.Name[:strings.IndexByte(sc.Name, ':')]
		n[fam]++
		for i, s := range sc.Txs {
			if s.Attrs == nil {
				continue
			}
			lay[fam+"/"+layoutName(s.Attrs)] = true
			var ty []string
			for _, a := range sc.txs[i].Attributes {
				ty = append(ty, fmt.Sprintf("%02x", byte(a.Type)))
			}
			types[strings.Join(ty, " ")] = true
		}
	}
	for k, v := range n {
		cov["layout_scenarios_"+strings.TrimPrefix(k, "layout-")] = v
	}
	cov["layout_distinct_attribute_layouts"] = len(lay)
	cov["layout_distinct_attribute_type_sequences"] = len(types)
}
