// Reference model of ONE pool transition (stateless: it judges the step from
// the listing before, the feer, the operation, its result and the listing
// after). It is what makes "exactly the model's removal set left the pool and
// every bystander is still listed" checkable for additions whose side effects
// overlap (several Conflicts attributes, duplicates, oracle replacement plus
// conflicts, conflicts plus capacity).
//
// The model is three-valued on acceptance: must-reject / must-accept / either.
// "Either" is the zone where the property and the documentation of the errors
// do not decide (credit for the fees of transactions that leave the pool in
// the same Add, duplicate Conflicts attributes counted once or twice, equal
// oracle fees, priority ties at capacity).
package c08

import (
	"fmt"
	"sort"

	"github.com/nspcc-dev/neo-go/pkg/core/native/nativehashes"
	"github.com/nspcc-dev/neo-go/pkg/core/transaction"
	"github.com/nspcc-dev/neo-go/pkg/util"
)

const (
	eDup      = "err: already in the memory pool"
	eFunds    = "err: insufficient funds"
	eConflict = "err: conflicts: insufficient funds for all pooled tx"
	eAttr     = "err: conflicts with memory pool due to Conflicts attribute"
	eOracle   = "err: conflicts with memory pool due to OracleResponse attribute"
	eOOM      = "err: out of memory"
)

// namesCount: number of Conflicts attributes of a that carry b's hash, wherever they stand among
// a's attributes (own loop over the attribute list: the model must not see the transaction
// through the accessor the pool uses).
func namesCount(a, b *transaction.Transaction) int {
	n := 0
	h := b.Hash()
	for i := range a.Attributes {
		if a.Attributes[i].Type == transaction.ConflictsT && a.Attributes[i].Value.(*transaction.Conflicts).Hash == h {
			n++
		}
	}
	return n
}

func sharesSigner(a, b *transaction.Transaction) bool {
	for _, s := range a.Signers {
		if b.HasSigner(s.Account) {
			return true
		}
	}
	return false
}

// authorOf: the account on whose behalf the fees are paid (the depositor for a
// Notary-sponsored transaction).
func authorOf(t *transaction.Transaction) util.Uint160 {
	if t.Sender().Equals(nativehashes.Notary) {
		return t.Signers[1].Account
	}
	return t.Sender()
}

func oracleID(t *transaction.Transaction) (uint64, bool) {
	for i := range t.Attributes {
		if t.Attributes[i].Type == transaction.OracleResponseT {
			return t.Attributes[i].Value.(*transaction.OracleResponse).ID, true
		}
	}
	return 0, false
}

func feeOf(t *transaction.Transaction) int64 { return t.SystemFee + t.NetworkFee }

// addFacts is what the model derives for Add(t) on a pool listing `before`.
type addFacts struct {
	dup         bool
	namers      []int // pooled transactions naming t
	named       []int // pooled transactions t names
	unsigned    bool  // t names a pooled transaction it shares no signer with
	multSum     int64 // network fees t has to beat, every attribute counted
	distinctSum int64 // ... every transaction counted once
	replaced    int   // pooled response with t's oracle id, -1 if none
	removal     []int // distinct union of namers, named, replaced (sorted)
	rest        []int // before minus removal, in listing order
	pooledSum   int64 // fees of the pooled transactions of t's payer
	overlap     bool  // some transaction is in the removal set for more than one reason / attribute
}

func addModel(sc *scenario, before []int, ti int) addFacts {
	t := sc.txs[ti]
	f := addFacts{replaced: -1}
	author := authorOf(t)
	id, isResp := oracleID(t)
	rm := map[int]int{}
	for _, i := range before {
		x := sc.txs[i]
		if i == ti {
			f.dup = true
			continue
		}
		if payerOf(x) == payerOf(t) {
			f.pooledSum += feeOf(x)
		}
		if c := namesCount(x, t); c > 0 {
			f.namers = append(f.namers, i)
			rm[i] += c
			if x.HasSigner(author) {
				f.multSum += int64(c) * x.NetworkFee
				f.distinctSum += x.NetworkFee
			}
		}
		if c := namesCount(t, x); c > 0 {
			f.named = append(f.named, i)
			rm[i] += c
			if !sharesSigner(t, x) {
				f.unsigned = true
			}
			f.multSum += int64(c) * x.NetworkFee
			f.distinctSum += x.NetworkFee
		}
		if xid, ok := oracleID(x); ok && isResp && xid == id {
			f.replaced = i
			rm[i]++
		}
	}
	for i, c := range rm {
		f.removal = append(f.removal, i)
		if c > 1 {
			f.overlap = true
		}
	}
	sort.Ints(f.removal)
	for _, i := range before {
		if _, gone := rm[i]; !gone && i != ti {
			f.rest = append(f.rest, i)
		}
	}
	return f
}

// lowestOf: an element of l no other element of l is less prioritized than.
func lowestOf(sc *scenario, l []int) int {
	m := l[0]
	for _, i := range l[1:] {
		if cmpPrio(sc.txs[i], sc.txs[m]) <= 0 {
			m = i
		}
	}
	return m
}

// judgeAdd returns the first broken demand ("" if none) and the acceptance class
// the model assigned ("must-accept", "must-reject", "either", "dup").
func judgeAdd(sc *scenario, capacity int, bal map[pkey]int64, before []int, ti int, res string, after []int) (kind, extra, class string) {
	t := sc.txs[ti]
	f := addModel(sc, before, ti)
	desc := fmt.Sprintf("before=%v after=%v model{removal=%v rest=%v namers=%v named=%v replaced=%d unsigned=%v feesToBeat=%d..%d pooledSum=%d balance=%d}",
		before, after, f.removal, f.rest, f.namers, f.named, f.replaced, f.unsigned, f.distinctSum, f.multSum, f.pooledSum, bal[payerOf(t)])
	if f.dup {
		if res == "ok" {
			return "added-twice", desc, "dup"
		}
		return "", "", "dup"
	}
	b := bal[payerOf(t)]
	full := len(f.rest) == capacity
	var low *transaction.Transaction
	if len(f.rest) > 0 {
		low = sc.txs[lowestOf(sc, f.rest)]
	}
	hasConfl := len(f.namers)+len(f.named) > 0
	var repl *transaction.Transaction
	if f.replaced >= 0 {
		repl = sc.txs[f.replaced]
	}

	// --- must-reject: the property / the documented replacement rules forbid acceptance
	mustReject := ""
	switch {
	case f.unsigned:
		mustReject = "replaced-without-shared-signer"
	case f.distinctSum != 0 && t.NetworkFee <= f.distinctSum:
		mustReject = "replaced-without-higher-fee"
	case repl != nil && repl.NetworkFee > t.NetworkFee:
		mustReject = "replaced-oracle-response-with-higher-fee"
	case b < feeOf(t):
		mustReject = "accepted-unpayable"
	case full && cmpPrio(t, low) < 0:
		mustReject = "accepted-below-lowest-at-capacity"
	}
	// --- must-accept: no documented reason for any of the errors exists
	mustAccept := !f.unsigned &&
		(f.multSum == 0 || t.NetworkFee > f.multSum) &&
		b >= feeOf(t)+f.pooledSum &&
		(repl == nil || repl.NetworkFee < t.NetworkFee) &&
		(!full || cmpPrio(t, low) > 0)
	class = "either"
	if mustReject != "" {
		class = "must-reject"
	} else if mustAccept {
		class = "must-accept"
	}

	if res != "ok" {
		if mustAccept {
			return "spurious-reject", res + " " + desc, class
		}
		// every error class has a documented condition
		just := true
		switch res {
		case eDup:
			just = false // t is not pooled
		case eFunds:
			just = b < feeOf(t)
		case eConflict:
			just = b < feeOf(t)+f.pooledSum
		case eAttr:
			just = hasConfl
		case eOracle:
			just = repl != nil && repl.NetworkFee >= t.NetworkFee
		case eOOM:
			just = full && cmpPrio(t, low) <= 0
		default:
			return "undocumented-error", res + " " + desc, class
		}
		if !just {
			return "unjustified-error", res + " " + desc, class
		}
		return "", "", class
	}

	if mustReject != "" {
		return mustReject, desc, class
	}
	// --- effects of a successful Add: after == rest (minus at most one capacity victim) + t
	am := map[int]bool{}
	for _, i := range after {
		am[i] = true
	}
	okm := map[int]bool{ti: true}
	for _, i := range f.rest {
		okm[i] = true
	}
	for _, i := range after {
		if !okm[i] {
			return "removal-set-member-still-pooled", fmt.Sprintf("tx %d %s", i, desc), class
		}
	}
	if !am[ti] {
		return "add-ok-but-not-listed", desc, class
	}
	var gone []int
	for _, i := range f.rest {
		if !am[i] {
			gone = append(gone, i)
		}
	}
	switch {
	case len(gone) == 0:
	case !full:
		return "bystander-removed", fmt.Sprintf("tx %v left a pool that had room %s", gone, desc), class
	case len(gone) > 1:
		return "bystander-removed", fmt.Sprintf("tx %v left, one capacity victim allowed %s", gone, desc), class
	default:
		v := sc.txs[gone[0]]
		if cmpPrio(v, low) > 0 || cmpPrio(v, t) > 0 {
			return "capacity-victim-not-lowest", fmt.Sprintf("victim %d %s", gone[0], desc), class
		}
	}
	if full && len(gone) == 0 {
		return "over-capacity", desc, class
	}
	return "", "", class
}

// judgeRefresh: a refresh may drop a transaction only for a reason: rejected by
// the predicate, fee per byte below the policy value, or its payer cannot pay
// for all of its still acceptable transactions.
func judgeRefresh(sc *scenario, f *feer, drop []int, before, after []int) (kind, extra string) {
	dm := map[int]bool{}
	for _, d := range drop {
		dm[d] = true
	}
	am := map[int]bool{}
	for _, i := range after {
		am[i] = true
	}
	sums := map[pkey]int64{}
	for _, i := range before {
		t := sc.txs[i]
		if !dm[i] && fpbOf(t) >= f.fpb {
			sums[payerOf(t)] += feeOf(t)
		}
	}
	for _, i := range before {
		t := sc.txs[i]
		if am[i] || dm[i] || fpbOf(t) < f.fpb {
			continue
		}
		if sums[payerOf(t)] <= f.bal[payerOf(t)] {
			return "refresh-dropped-valid", fmt.Sprintf("tx %d before=%v after=%v payer sum %d balance %d", i, before, after, sums[payerOf(t)], f.bal[payerOf(t)])
		}
	}
	return "", ""
}
