// Scenario families for additions whose side effects OVERLAP: one Add that has
// several reasons to remove pooled transactions (several Conflicts attributes,
// the same hash twice, pooled transactions naming the new one, an oracle
// response being replaced, a full pool) - possibly the same transaction for
// two reasons - next to bystanders that must stay. They are explored by the
// same exhaustive operation-sequence search as the older scenarios and run
// FIRST.
//
// Balances are chosen at the boundary: "exactly enough if the fees of the
// conflicting transaction of the same payer are credited ONCE", one below
// that, or exactly the sum of what can be pooled together.
package c08

func overlapScenarios() []*scenario {
	keepAll := op{Kind: opBlock, Name: "Block(keep all)"}
	return []*scenario{
		{
			// oracle replacement x Conflicts x bystander. r7c/r7s name the pooled response they also
			// replace by id (the removal set holds it twice); r7x names it without a common signer;
			// r8c and the ordinary c7 name a response of another id / an oracle response at all.
			Name: "overlap-oracle",
			Txs: []txSpec{
				{Name: "b", Signers: []string{"S3"}, Net: 1000},                                            // bystander, lowest priority
				{Name: "o7", Signers: []string{"S1"}, Net: 10000, Oracle: 7},                               //
				{Name: "r7c", Signers: []string{"S2", "S1"}, Net: 20000, Oracle: 7, Confl: []string{"o7"}}, // same id AND names it; other payer
				{Name: "r7s", Signers: []string{"S1"}, Net: 20000, Oracle: 7, Confl: []string{"o7"}},       // same id AND names it; same payer (credit once)
				{Name: "r7x", Signers: []string{"S2"}, Net: 25000, Oracle: 7, Confl: []string{"o7"}},       // names it without a common signer: must fail, o7 stays
				{Name: "r8c", Signers: []string{"S1"}, Net: 12000, Oracle: 8, Confl: []string{"o7"}},       // other id, names the response
				{Name: "r7p", Signers: []string{"S2"}, Net: 15000, Oracle: 7},                              // plain replacement of o7, replaced by r7c/r7s
				{Name: "c7", Signers: []string{"S1"}, Net: 25000, Confl: []string{"o7"}},                   // ordinary tx naming an oracle response
			},
			Bal:  map[string]int64{"S1": 29999, "S2": 45000, "S3": 1000},
			Caps: []int{2, 3},
			Blocks: []op{keepAll,
				{Kind: opBlock, Name: "Block(drop o7)", Drop: []int{1}},
			},
		},
		{
			// the SAME hash in two Conflicts attributes (of the new transaction: dd, de, d3; of a pooled
			// transaction naming the new one: yy), with another transaction k of the same payer, a
			// lowest-priority bystander q and a high-priority low-fee bystander hb.
			Name: "overlap-dup",
			Txs: []txSpec{
				{Name: "z", Signers: []string{"S1"}, Net: 5000},
				{Name: "k", Signers: []string{"S1"}, Net: 15000},
				{Name: "q", Signers: []string{"S3"}, Net: 1000},
				{Name: "dd", Signers: []string{"S1"}, Net: 20000, Confl: []string{"z", "z"}},       // same payer as z
				{Name: "de", Signers: []string{"S2", "S1"}, Net: 20000, Confl: []string{"z", "z"}}, // other payer, shares signer S1
				{Name: "d3", Signers: []string{"S1"}, Net: 10000, Confl: []string{"z", "z"}},       // pays more than z, not more than z counted twice
				{Name: "yy", Signers: []string{"S2"}, Net: 3000, Confl: []string{"dd", "dd"}},      // pooled namer of dd, twice
				{Name: "hb", Signers: []string{"S3"}, Net: 100, High: true},
			},
			Bal:  map[string]int64{"S1": 34999, "S2": 23000, "S3": 1100},
			Caps: []int{2, 3},
			Blocks: []op{keepAll,
				{Kind: opBlock, Name: "Block(S1:=35000)", Bal: map[string]int64{"S1": 35000}},
			},
		},
		{
			// several DIFFERENT hashes named by one transaction, pooled namers of the new transaction
			// (both directions in one Add: three removals), fee exactly at / one above the sum, a
			// transaction that may replace one of the two it names but not the other.
			Name: "overlap-multi",
			Txs: []txSpec{
				{Name: "z1", Signers: []string{"S1"}, Net: 5000},
				{Name: "z2", Signers: []string{"S2"}, Net: 6000},
				{Name: "q", Signers: []string{"S3"}, Net: 1000},                                      // bystander, lowest
				{Name: "m", Signers: []string{"S1", "S2"}, Net: 11001, Confl: []string{"z1", "z2"}},  // sum+1
				{Name: "me", Signers: []string{"S1", "S2"}, Net: 11000, Confl: []string{"z1", "z2"}}, // exactly the sum
				{Name: "mx", Signers: []string{"S1"}, Net: 12000, Confl: []string{"z1", "z2"}},       // shares a signer with z1 only
				{Name: "y", Signers: []string{"S3"}, Net: 2000, Confl: []string{"m"}},                // pooled namer of m (stranger)
				{Name: "w", Signers: []string{"S2", "S1"}, Net: 30000, Confl: []string{"m", "z1"}},   // names m and what m names
				{Name: "y2", Signers: []string{"S4"}, Net: 2500, Confl: []string{"m"}},               // second pooled namer of m (stranger)
			},
			Bal:  map[string]int64{"S1": 16000, "S2": 36000, "S3": 3000, "S4": 2500},
			Caps: []int{2, 3},
			Blocks: []op{keepAll,
				{Kind: opBlock, Name: "Block(S1:=16001)", Bal: map[string]int64{"S1": 16001}},
			},
		},
		{
			// Conflicts against transactions of notary depositors: same depositor (twice the same
			// hash), another depositor (common signer = the Notary contract), the depositor's own
			// account as an ordinary sender, a stranger, two depositors' transactions at once.
			Name: "overlap-notary",
			Txs: []txSpec{
				{Name: "n1", Signers: []string{"N", "D1"}, Net: 5000},
				{Name: "n1k", Signers: []string{"N", "D1"}, Net: 4000},
				{Name: "n2", Signers: []string{"N", "D2"}, Net: 6000},
				{Name: "nb", Signers: []string{"N", "D3"}, Net: 1000},                               // bystander, lowest
				{Name: "c1", Signers: []string{"N", "D1"}, Net: 11000, Confl: []string{"n1", "n1"}}, // same depositor, same hash twice
				{Name: "c2", Signers: []string{"N", "D2"}, Net: 7000, Confl: []string{"n1"}},        // other depositor
				{Name: "c3", Signers: []string{"D1"}, Net: 6000, Confl: []string{"n1"}},             // D1 as ordinary sender
				{Name: "c4", Signers: []string{"S3"}, Net: 9000, Confl: []string{"n1"}},             // stranger: must fail
				{Name: "c5", Signers: []string{"N", "D1"}, Net: 12000, Confl: []string{"n1", "n2"}}, // names txs of two depositors
			},
			Bal:    map[string]int64{"N/D1": 14999, "N/D2": 13000, "N/D3": 1000, "D1": 6000, "S3": 9000},
			Caps:   []int{2, 3},
			Blocks: []op{keepAll},
		},
	}
}
