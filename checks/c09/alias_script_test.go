package c09

import (
	"encoding/binary"
	"fmt"
	"runtime"
	"sort"
	"strings"

	"github.com/nspcc-dev/neo-go/pkg/core/dao"
	"github.com/nspcc-dev/neo-go/pkg/core/interop"
	"github.com/nspcc-dev/neo-go/pkg/core/interop/interopnames"
	"github.com/nspcc-dev/neo-go/pkg/core/interop/iterator"
	istorage "github.com/nspcc-dev/neo-go/pkg/core/interop/storage"
	"github.com/nspcc-dev/neo-go/pkg/core/state"
	"github.com/nspcc-dev/neo-go/pkg/io"
	"github.com/nspcc-dev/neo-go/pkg/smartcontract/callflag"
	"github.com/nspcc-dev/neo-go/pkg/util"
	"github.com/nspcc-dev/neo-go/pkg/vm/emit"
	"github.com/nspcc-dev/neo-go/pkg/vm/opcode"
	"github.com/nspcc-dev/neo-go/pkg/vm/stackitem"
)

// Round 2: "the answer of a range scan depends on memory the caller still
// owns / on later actions of the caller".
//
// This file: System.Storage.Find / Local.Find driven by REAL SCRIPTS in a real
// VM whose syscalls are the real interop functions. The script keeps its own
// reference to the prefix item (ByteString or Buffer) and mutates the Buffer in
// place (SETITEM / REVERSEITEMS / MEMCPY) after Find, after the first Value or
// after every Value; it mutates the items the iterator returned and asks for
// the same position again; it writes and deletes keys of the scanned range
// while iterating; it creates the iterator in a called subroutine that reuses
// its key buffer before returning. Everything the iterator returned stays on
// the evaluation stack and is rendered only after the script has HALTed and the
// interop context has been finalized ("late rendering"): an item that changes
// after it was handed out is a wrong answer. A second scan with a fresh
// ByteString prefix follows every first one.

// ---- the VM with the real storage/iterator syscalls ---------------------------------

var scriptFuncs []interop.Function

// yieldSyscall: an interop name of the real table, served here by runtime.Gosched().
const yieldSyscall = interopnames.SystemRuntimePlatform

func init() {
	for name, f := range map[string]func(*interop.Context) error{
		interopnames.SystemIteratorNext:              iterator.Next,
		interopnames.SystemIteratorValue:             iterator.Value,
		interopnames.SystemStorageFind:               istorage.Find,
		interopnames.SystemStorageGet:                istorage.Get,
		interopnames.SystemStoragePut:                istorage.Put,
		interopnames.SystemStorageDelete:             istorage.Delete,
		interopnames.SystemStorageGetContext:         istorage.GetContext,
		interopnames.SystemStorageGetReadOnlyContext: istorage.GetReadOnlyContext,
		interopnames.SystemStorageAsReadOnly:         istorage.ContextAsReadOnly,
		interopnames.SystemStorageLocalFind:          istorage.LocalFind,
		interopnames.SystemStorageLocalGet:           istorage.LocalGet,
		interopnames.SystemStorageLocalPut:           istorage.LocalPut,
		interopnames.SystemStorageLocalDelete:        istorage.LocalDelete,
		// round 3: not a storage call at all - it lets the scan goroutine of a
		// preceding Find run (or not) before the script goes on
		yieldSyscall: func(*interop.Context) error { runtime.Gosched(); return nil },
	} {
		scriptFuncs = append(scriptFuncs, interop.Function{ID: interopnames.ToID([]byte(name)), Name: name, Func: f})
	}
	interop.Sort(scriptFuncs)
}

func newScriptIC(d *dao.Simple) *interop.Context {
	ic := newICWith(d, func(*dao.Simple, util.Uint160) (*state.Contract, error) {
		return &state.Contract{ContractBase: state.ContractBase{ID: daoID}}, nil
	})
	ic.Functions = scriptFuncs
	ic.SpawnVM() // syscall handler = the context's own dispatcher
	return ic
}

// runScript executes script and returns what it left on the evaluation stack,
// bottom first, rendered AFTER the context was finalized.
func runScript(d *dao.Simple, script []byte) (out []string, err error) {
	ic := newScriptIC(d)
	defer func() {
		if r := recover(); r != nil {
			func() { defer func() { _ = recover() }(); ic.Finalize() }()
			err = fmt.Errorf("panic: %v", r)
		}
	}()
	// cap == len: nothing behind the script for the decoder to run into
	sc := make([]byte, len(script))
	copy(sc, script)
	ic.VM.LoadScriptWithFlags(sc, callflag.All)
	rerr := ic.VM.Run()
	es := ic.VM.Estack()
	items := make([]stackitem.Item, 0, es.Len())
	for i := es.Len() - 1; i >= 0; i-- {
		items = append(items, es.Peek(i).Item())
	}
	ic.Finalize()
	if rerr != nil {
		return nil, rerr
	}
	for _, it := range items {
		if _, ok := it.(stackitem.Null); ok {
			out = append(out, "|")
			continue
		}
		out = append(out, itemStr(it))
	}
	return out, nil
}

// ---- a tiny assembler with labels ----------------------------------------------------

type asm struct {
	w      *io.BufBinWriter
	labels map[string]int
	fix    []asmFix
	nlab   int
}

type asmFix struct {
	at    int // offset of the jump instruction
	label string
}

func newAsm() *asm { return &asm{w: io.NewBufBinWriter(), labels: map[string]int{}} }

func (a *asm) pos() int                { return a.w.Len() }
func (a *asm) op(ops ...opcode.Opcode) { emit.Opcodes(a.w.BinWriter, ops...) }
func (a *asm) bytes(b []byte)          { emit.Bytes(a.w.BinWriter, b) }
func (a *asm) int(i int64)             { emit.Int(a.w.BinWriter, i) }
func (a *asm) sys(name string)         { emit.Syscall(a.w.BinWriter, name) }
func (a *asm) label(l string)          { a.labels[l] = a.pos() }
func (a *asm) fresh(p string) string   { a.nlab++; return fmt.Sprintf("%s%d", p, a.nlab) }
func (a *asm) ins(o opcode.Opcode, b ...byte) {
	emit.Instruction(a.w.BinWriter, o, b)
}

// jmp emits a long jump/call to a label resolved in finish().
func (a *asm) jmp(o opcode.Opcode, label string) {
	a.fix = append(a.fix, asmFix{a.pos(), label})
	emit.Instruction(a.w.BinWriter, o, []byte{0, 0, 0, 0})
}

func (a *asm) finish() []byte {
	b := a.w.Bytes()
	for _, f := range a.fix {
		to, ok := a.labels[f.label]
		if !ok {
			panic("asm: no label " + f.label)
		}
		binary.LittleEndian.PutUint32(b[f.at+1:], uint32(int32(to-f.at)))
	}
	return b
}

// ---- the script family -----------------------------------------------------------------

const (
	pfxByteString = "ByteString"
	pfxBuffer     = "Buffer"
)

// scriptCase is one generated script (all fields are plain data: replayable).
type scriptCase struct {
	Sub      string `json:"sub_family"`
	API      string `json:"api"` // Find(GetContext) | Find(GetReadOnlyContext) | Find(AsReadOnly) | Local.Find
	User     string `json:"prefix"`
	PfxType  string `json:"prefix_item_type"`
	Opt      int    `json:"option_index"` // index into findOpts
	Bwd      bool   `json:"backwards"`
	Mut      string `json:"prefix_mutation"` // "", SETITEM-last, SETITEM-first, REVERSEITEMS, MEMCPY
	Moment   string `json:"mutation_moment"` // after-find, after-first-value, after-every-value, in-subroutine
	Item     string `json:"item_handling"`   // "", value-twice (mutate the first result if it is compound, ask again)
	Action   string `json:"action_after_first_value"`
	ActKey   string `json:"action_key,omitempty"`
	ActVal   int    `json:"action_value,omitempty"`
	PutLocal bool   `json:"put_via_local,omitempty"`
	// round 3 (sub-family early-action): the action sits between Find and the first Next
	ActWhen string `json:"action_moment,omitempty"` // "" = after the first Value | before-first-next
	ActKey2 string `json:"action_deleted_key,omitempty"`
	Yield   string `json:"gosched,omitempty"` // "" | before-action | after-action
}

func (c scriptCase) String() string {
	d := "fwd"
	if c.Bwd {
		d = "bwd"
	}
	s := fmt.Sprintf("%s %s(prefix=%s %q, %s,%s)", c.Sub, c.API, c.PfxType, c.User, d, findOpts[c.Opt].name)
	if c.Mut != "" {
		s += fmt.Sprintf(" prefix-buffer %s %s", c.Mut, c.Moment)
	}
	if c.Item != "" {
		s += " " + c.Item
	}
	if c.Action != "" && c.ActWhen != "" {
		s += fmt.Sprintf(" then, %s, %s(%q", c.ActWhen, c.Action, c.ActKey)
		if c.Action == "PutDelete" {
			s += fmt.Sprintf(",%q", c.ActKey2)
		}
		s += ")"
		if c.Yield != "" {
			s += " gosched " + c.Yield
		}
	} else if c.Action != "" {
		s += fmt.Sprintf(" then %s(%q)", c.Action, c.ActKey)
	}
	return s
}

// mutated returns what the prefix buffer holds after ONE application of mut.
func mutatedPrefix(p []byte, mut string) []byte {
	o := append([]byte{}, p...)
	switch mut {
	case "SETITEM-last":
		o[len(o)-1] = mutByte(o[len(o)-1])
	case "SETITEM-first":
		o[0] = mutByte(o[0])
	case "REVERSEITEMS":
		for i, j := 0, len(o)-1; i < j; i, j = i+1, j-1 {
			o[i], o[j] = o[j], o[i]
		}
	case "MEMCPY":
		for i := range o {
			o[i] = 'z'
		}
	}
	return o
}

// mutByte: 'a' <-> 'b' (both are key material of every scenario, so an aliased
// answer looks plausible), anything else +1.
func mutByte(b byte) byte {
	switch b {
	case 'a':
		return 'b'
	case 'b':
		return 'a'
	}
	return b + 1
}

func (a *asm) pushCtx(api string) {
	switch api {
	case "Find(GetContext)":
		a.sys(interopnames.SystemStorageGetContext)
	case "Find(GetReadOnlyContext)":
		a.sys(interopnames.SystemStorageGetReadOnlyContext)
	case "Find(AsReadOnly)":
		a.sys(interopnames.SystemStorageGetContext)
		a.sys(interopnames.SystemStorageAsReadOnly)
	}
}

func (a *asm) find(api string) {
	a.pushCtx(api)
	if api == "Local.Find" {
		a.sys(interopnames.SystemStorageLocalFind)
	} else {
		a.sys(interopnames.SystemStorageFind)
	}
}

// emitMut: mutate the Buffer in static slot 0 in place.
func (a *asm) emitMut(c scriptCase) {
	n := len(c.User)
	switch c.Mut {
	case "SETITEM-last":
		a.op(opcode.LDSFLD0)
		a.int(int64(n - 1))
		a.int(int64(mutByte(c.User[n-1])))
		a.op(opcode.SETITEM)
	case "SETITEM-first":
		a.op(opcode.LDSFLD0)
		a.int(0)
		a.int(int64(mutByte(c.User[0])))
		a.op(opcode.SETITEM)
	case "REVERSEITEMS":
		a.op(opcode.LDSFLD0, opcode.REVERSEITEMS)
	case "MEMCPY":
		a.op(opcode.LDSFLD0)
		a.int(0)
		a.bytes([]byte(strings.Repeat("z", n)))
		a.int(0)
		a.int(int64(n))
		a.op(opcode.MEMCPY)
	}
}

// once wraps code so that it runs only the first time (flag in a static slot).
func (a *asm) once(ld, st opcode.Opcode, code func()) {
	skip := a.fresh("skip")
	a.op(ld)
	a.jmp(opcode.JMPIFL, skip)
	code()
	a.op(opcode.PUSHT, st)
	a.label(skip)
}

func (c scriptCase) opts() int64 {
	o := findOpts[c.Opt].opts
	if c.Bwd {
		o |= istorage.FindBackwards
	}
	return o
}

// build assembles the script. Static slots: 0 prefix item, 1 iterator,
// 2 "mutation done", 3 "action done".
func (c scriptCase) build() []byte {
	a := newAsm()
	a.ins(opcode.INITSSLOT, 4)
	a.op(opcode.PUSHF, opcode.STSFLD2, opcode.PUSHF, opcode.STSFLD3)
	if c.Moment == "in-subroutine" {
		a.jmp(opcode.CALLL, "sub")
	} else {
		a.bytes([]byte(c.User))
		if c.PfxType == pfxBuffer {
			a.ins(opcode.CONVERT, byte(stackitem.BufferT))
		}
		a.op(opcode.STSFLD0)
		a.int(c.opts())
		a.op(opcode.LDSFLD0)
		a.find(c.API)
	}
	a.op(opcode.STSFLD1)
	if c.Mut != "" && c.Moment == "after-find" {
		a.emitMut(c)
	}
	if c.Action != "" && c.ActWhen == "before-first-next" {
		if c.Yield == "before-action" {
			a.sys(yieldSyscall)
		}
		a.emitAction(c)
		if c.Yield == "after-action" {
			a.sys(yieldSyscall)
		}
	}
	// first scan
	a.label("loop1")
	a.op(opcode.LDSFLD1)
	a.sys(interopnames.SystemIteratorNext)
	a.jmp(opcode.JMPIFNOTL, "end1")
	a.op(opcode.LDSFLD1)
	a.sys(interopnames.SystemIteratorValue)
	if c.Item == "value-twice" {
		// a compound result is turned over in place, then the same position is read again
		notc := a.fresh("notc")
		a.op(opcode.DUP)
		a.ins(opcode.ISTYPE, byte(stackitem.ByteArrayT))
		a.jmp(opcode.JMPIFL, notc)
		a.op(opcode.DUP, opcode.REVERSEITEMS)
		a.label(notc)
		a.op(opcode.LDSFLD1)
		a.sys(interopnames.SystemIteratorValue)
	}
	if c.Mut != "" {
		switch c.Moment {
		case "after-first-value":
			a.once(opcode.LDSFLD2, opcode.STSFLD2, func() { a.emitMut(c) })
		case "after-every-value":
			a.emitMut(c)
		}
	}
	if c.Action != "" && c.ActWhen == "" {
		a.once(opcode.LDSFLD3, opcode.STSFLD3, func() { a.emitAction(c) })
	}
	a.jmp(opcode.JMPL, "loop1")
	a.label("end1")
	a.op(opcode.PUSHNULL)
	// second scan: fresh ByteString prefix, same options
	a.int(c.opts())
	a.bytes([]byte(c.User))
	a.find(c.API)
	a.op(opcode.STSFLD1)
	a.label("loop2")
	a.op(opcode.LDSFLD1)
	a.sys(interopnames.SystemIteratorNext)
	a.jmp(opcode.JMPIFNOTL, "end2")
	a.op(opcode.LDSFLD1)
	a.sys(interopnames.SystemIteratorValue)
	a.jmp(opcode.JMPL, "loop2")
	a.label("end2")
	a.op(opcode.RET)
	if c.Moment == "in-subroutine" {
		// func sub() Iterator { key := buffer(prefix); it := Find(key); reuse key; return it }
		a.label("sub")
		a.ins(opcode.INITSLOT, 1, 0)
		a.bytes([]byte(c.User))
		if c.PfxType == pfxBuffer {
			a.ins(opcode.CONVERT, byte(stackitem.BufferT))
		}
		a.op(opcode.DUP, opcode.STSFLD0)
		a.op(opcode.STLOC0)
		a.int(c.opts())
		a.op(opcode.LDLOC0)
		a.find(c.API)
		if c.Mut != "" {
			a.emitMut(c)
		}
		a.op(opcode.RET)
	}
	return a.finish()
}

func (a *asm) emitAction(c scriptCase) {
	if c.Action == "PutDelete" {
		p, d := c, c
		p.Action = "Put"
		d.Action, d.ActKey = "Delete", c.ActKey2
		a.emitAction(p)
		a.emitAction(d)
		return
	}
	switch c.Action {
	case "Put":
		a.bytes(vals[c.ActVal])
		a.bytes([]byte(c.ActKey))
		if c.PutLocal {
			a.sys(interopnames.SystemStorageLocalPut)
		} else {
			a.sys(interopnames.SystemStorageGetContext)
			a.sys(interopnames.SystemStoragePut)
		}
	case "Delete":
		a.bytes([]byte(c.ActKey))
		if c.PutLocal {
			a.sys(interopnames.SystemStorageLocalDelete)
		} else {
			a.sys(interopnames.SystemStorageGetContext)
			a.sys(interopnames.SystemStorageDelete)
		}
	}
}

// ---- expected answers ------------------------------------------------------------------

// reverseRendered is what REVERSEITEMS makes of a rendered compound item.
func reverseRendered(s string) string {
	if len(s) < 3 || (s[0] != 'S' && s[0] != 'A') || s[1] != '[' {
		return s
	}
	// split the top level only
	body := s[2 : len(s)-1]
	var parts []string
	depth, start := 0, 0
	for i := 0; i < len(body); i++ {
		switch body[i] {
		case '[':
			depth++
		case ']':
			depth--
		case ',':
			if depth == 0 {
				parts = append(parts, body[start:i])
				start = i + 1
			}
		}
	}
	parts = append(parts, body[start:])
	for i, j := 0, len(parts)-1; i < j; i, j = i+1, j-1 {
		parts[i], parts[j] = parts[j], parts[i]
	}
	return s[:2] + strings.Join(parts, ",") + "]"
}

func sortedOf(view map[string][]byte) []kv {
	l := make([]kv, 0, len(view))
	for k, v := range view {
		l = append(l, kv{k, string(v)})
	}
	sort.Slice(l, func(i, j int) bool { return l[i].K < l[j].K })
	return l
}

// wantScan renders the expected answer of one scan over view.
func (c scriptCase) wantScan(view map[string][]byte, twice bool) ([]string, []kv, bool) {
	q := rangeQ{baseS + c.User, "", c.Bwd}
	exp := append([]kv{}, expectSorted(sortedOf(view), q, nil)...)
	var want []string
	for _, e := range exp {
		w, ok := wantFind(c.User, e, c.opts())
		if !ok {
			return nil, nil, false
		}
		if twice {
			want = append(want, reverseRendered(w))
		}
		want = append(want, w)
	}
	return want, exp, true
}

// judgeScript runs the case on the top layer of s and compares with the model;
// the model follows the case's action. Returns failures (category, want, got).
type scriptFail struct {
	What, Want, Got string
}

func (c scriptCase) run(s *rstack, m *model) (fails []scriptFail, outcome string) {
	t := len(m.ly)
	view1, _ := m.view(t, 0)
	want1, exp1, ok := c.wantScan(view1, c.Item == "value-twice")
	if !ok {
		return nil, "skipped(undeserializable value in range)"
	}
	touched := ""
	early := c.ActWhen == "before-first-next"
	if c.Action != "" && (early || len(exp1) > 0) { // behind the first Value an empty scan never gets to the action
		touched = baseS + c.ActKey
		switch c.Action {
		case "Put":
			m.ly[t-1][touched] = vals[c.ActVal]
		case "PutDelete":
			m.ly[t-1][touched] = vals[c.ActVal]
			m.ly[t-1][baseS+c.ActKey2] = nil
		default:
			m.ly[t-1][touched] = nil
		}
	}
	view2, _ := m.view(t, 0)
	want2, _, ok2 := c.wantScan(view2, false)
	got, err := runScript(s.daos[t-1], c.build())
	if err != nil {
		return []scriptFail{{"error", "HALT", err.Error()}}, "fault"
	}
	sep := -1
	for i, g := range got {
		if g == "|" {
			sep = i
			break
		}
	}
	if sep < 0 {
		return []scriptFail{{"error", "separator on the stack", strings.Join(got, " ")}}, "fault"
	}
	got1, got2 := got[:sep], got[sep+1:]
	outcome = fmt.Sprintf("%dres", min(len(exp1), 3))
	inRange := touched != "" && strings.HasPrefix(touched, baseS+c.User)
	if early {
		// the iterator exists since Find returned: whatever the script writes before its
		// first Next, the scan answers for the content of that moment - exactly
		if inRange || (c.Action == "PutDelete" && strings.HasPrefix(c.ActKey2, c.User)) {
			outcome += ",written-in-range-before-first-next"
		} else {
			outcome += ",written-beside-range-before-first-next"
		}
		if strings.Join(want1, " ") != strings.Join(got1, " ") {
			fails = append(fails, scriptFail{"scan-not-for-the-moment-of-find", "[" + strings.Join(want1, " ") + "]", "[" + strings.Join(got1, " ") + "]"})
		}
	} else if inRange && len(exp1) > 0 {
		// the range was written while it was being scanned: only the untouched
		// keys are judged (each exactly once, in order, right value); the touched
		// key may come with its old or its new value or not at all, but once.
		wTouchedOld, _ := wantFind(c.User, kv{touched, string(view1[touched])}, c.opts())
		wTouchedNew, _ := wantFind(c.User, kv{touched, string(view2[touched])}, c.opts())
		var w, g []string
		for i, e := range exp1 {
			if e.K != touched {
				w = append(w, want1[i])
			}
		}
		seenTouched := 0
		valuesOnly := c.opts()&istorage.FindValuesOnly != 0
		for _, x := range got1 {
			if !valuesOnly && (x == wTouchedOld || x == wTouchedNew) {
				seenTouched++
				continue
			}
			g = append(g, x)
		}
		if valuesOnly {
			// values carry no key: the answer must be the reference with or without the touched pair
			a1 := strings.Join(got1, " ")
			var alts []string
			alts = append(alts, strings.Join(w, " "), strings.Join(want1, " "))
			if v2, _, ok := c.wantScan(view2, false); ok {
				alts = append(alts, strings.Join(v2, " "))
			}
			okAny := false
			for _, x := range alts {
				okAny = okAny || x == a1
			}
			if !okAny {
				fails = append(fails, scriptFail{"scan1", "[" + strings.Join(alts, "] or [") + "]", "[" + a1 + "]"})
			}
		} else {
			if seenTouched > 1 {
				fails = append(fails, scriptFail{"scan1-duplicate", "every key at most once", "[" + strings.Join(got1, " ") + "]"})
			}
			if strings.Join(w, " ") != strings.Join(g, " ") {
				fails = append(fails, scriptFail{"scan1", "untouched keys [" + strings.Join(w, " ") + "]", "[" + strings.Join(got1, " ") + "]"})
			}
		}
		outcome += ",written-in-range"
	} else if strings.Join(want1, " ") != strings.Join(got1, " ") {
		fails = append(fails, scriptFail{"scan1", "[" + strings.Join(want1, " ") + "]", "[" + strings.Join(got1, " ") + "]"})
	}
	if !ok2 {
		return fails, outcome
	}
	if strings.Join(want2, " ") != strings.Join(got2, " ") {
		fails = append(fails, scriptFail{"scan2", "[" + strings.Join(want2, " ") + "]", "[" + strings.Join(got2, " ") + "]"})
	}
	return fails, outcome
}

// ---- enumeration -------------------------------------------------------------------------

var (
	scriptAPIs    = []string{"Find(GetContext)", "Find(GetReadOnlyContext)", "Local.Find", "Find(AsReadOnly)"}
	scriptMuts    = []string{"SETITEM-last", "SETITEM-first", "REVERSEITEMS", "MEMCPY"}
	scriptMoments = []string{"after-find", "in-subroutine", "after-first-value", "after-every-value"}
)

// scriptCases enumerates the read-only sub-families for one scenario:
//
//	prefix: api x prefix x (ByteString | Buffer x mutation x moment) x option set x direction
//	item:   prefix x option set x direction, every position read twice with the first result turned over
//
// and the writing ones (run afterwards, the model follows):
//
//	action: prefix x {ByteString, Buffer+SETITEM after Find} x 3 option sets x direction x
//	        {Put new key in range, overwrite a key in range, Delete a key in range, Put outside}
func scriptCases(sc *scen, thorough bool) (ro, rw []scriptCase) {
	var users []string
	for _, u := range sc.UserPfx {
		if u != "" && len(u) <= 3 {
			users = append(users, u)
		}
	}
	if !thorough && len(users) > 3 {
		users = users[:3]
	}
	apis := scriptAPIs
	if !thorough {
		apis = apis[:3]
	}
	for ai, api := range apis {
		for _, u := range users {
			for oi := range findOpts {
				for _, bw := range []bool{false, true} {
					ro = append(ro, scriptCase{Sub: "prefix", API: api, User: u, PfxType: pfxByteString, Opt: oi, Bwd: bw})
					for _, mut := range scriptMuts {
						for _, mo := range scriptMoments {
							if ai > 0 && mut != "SETITEM-last" && mut != "MEMCPY" {
								continue // the full mutation matrix on the first API, two kinds on the others
							}
							ro = append(ro, scriptCase{Sub: "prefix", API: api, User: u, PfxType: pfxBuffer, Opt: oi, Bwd: bw, Mut: mut, Moment: mo})
						}
					}
				}
			}
		}
	}
	for _, u := range append([]string{""}, users...) {
		for oi := range findOpts {
			for _, bw := range []bool{false, true} {
				ro = append(ro, scriptCase{Sub: "item", API: scriptAPIs[(oi+len(u))%3], User: u, PfxType: pfxByteString, Opt: oi, Bwd: bw, Item: "value-twice"})
			}
		}
	}
	for ui, u := range users {
		var inside []string
		for _, s := range sc.Suffixes {
			if strings.HasPrefix(s, u) {
				inside = append(inside, s)
			}
		}
		if len(inside) == 0 {
			continue
		}
		acts := []scriptCase{
			{Action: "Put", ActKey: u + "\x7fnew", ActVal: 2},
			{Action: "Put", ActKey: inside[len(inside)-1], ActVal: 0},
			{Action: "Delete", ActKey: inside[0]},
			{Action: "Put", ActKey: "\x01x", ActVal: 2},
			{Action: "Delete", ActKey: u + "\x7fnew"},
		}
		for _, oi := range []int{0, 3, 8} {
			for _, bw := range []bool{false, true} {
				for pi, pt := range []string{pfxByteString, pfxBuffer} {
					for xi, act := range acts {
						c := act
						c.Sub, c.API, c.User, c.PfxType, c.Opt, c.Bwd = "action", scriptAPIs[(ui+oi)%3], u, pt, oi, bw
						c.PutLocal = (xi+pi)%2 == 1
						if pt == pfxBuffer {
							c.Mut, c.Moment = "SETITEM-last", "after-find"
						}
						rw = append(rw, c)
					}
				}
			}
		}
	}
	// round 3, early-action: the write sits between Find and the FIRST Next; the
	// scan answers exactly for the content at Find.
	//   prefix x {ByteString, Buffer+SETITEM after Find} x 5 option sets x direction x
	//   {Put new key in range, overwrite, Delete in range, Put outside, Delete the new key,
	//    Put + Delete of two keys in range} x Gosched {none, before the action, after it}
	for ui, u := range users {
		var inside []string
		for _, s := range sc.Suffixes {
			if strings.HasPrefix(s, u) {
				inside = append(inside, s)
			}
		}
		if len(inside) == 0 {
			continue
		}
		acts := []scriptCase{
			{Action: "Put", ActKey: u + "\x7fnew", ActVal: 2},
			{Action: "Put", ActKey: inside[len(inside)-1], ActVal: 0},
			{Action: "Delete", ActKey: inside[0]},
			{Action: "Put", ActKey: "\x01x", ActVal: 2},
			{Action: "Delete", ActKey: u + "\x7fnew"},
			{Action: "PutDelete", ActKey: inside[0], ActVal: 2, ActKey2: inside[len(inside)-1]},
			{Action: "PutDelete", ActKey: inside[len(inside)-1], ActVal: 0, ActKey2: u + "\x7fnew"},
		}
		for _, oi := range []int{0, 2, 3, 4, 8} {
			for _, bw := range []bool{false, true} {
				for pi, pt := range []string{pfxByteString, pfxBuffer} {
					for xi, act := range acts {
						for yi, y := range []string{"", "before-action", "after-action"} {
							c := act
							c.Sub, c.API, c.User, c.PfxType, c.Opt, c.Bwd = "early-action", scriptAPIs[(ui+oi+yi)%3], u, pt, oi, bw
							c.ActWhen, c.Yield = "before-first-next", y
							c.PutLocal = (xi+pi)%2 == 1
							if pt == pfxBuffer {
								c.Mut, c.Moment = "SETITEM-last", "after-find"
							}
							rw = append(rw, c)
						}
					}
				}
			}
		}
	}
	return ro, rw
}

// ---- Put: the key and value items are Buffers the script reuses afterwards --------------

type putCase struct {
	Key     string `json:"key"`
	Val     int    `json:"value"`
	Local   bool   `json:"via_local"`
	KeyMut  string `json:"key_buffer_mutation"`
	ValMut  string `json:"value_buffer_mutation"`
	Deleted bool   `json:"then_delete_with_reused_buffer"`
}

func (c putCase) String() string {
	api := "Put"
	if c.Local {
		api = "Local.Put"
	}
	s := fmt.Sprintf("%s(key=Buffer %q, value=Buffer %s) then key %s, value %s", api, c.Key, valNames[c.Val], c.KeyMut, c.ValMut)
	if c.Deleted {
		s += ", Delete(the reused key buffer)"
	}
	return s
}

// script: Put(keyBuf, valBuf); mutate both buffers; [Delete(keyBuf)];
// Get(original key); Get(what the key buffer holds now); NULL; Find("") keys+values.
func (c putCase) build() []byte {
	a := newAsm()
	a.ins(opcode.INITSSLOT, 2)
	a.bytes([]byte(c.Key))
	a.ins(opcode.CONVERT, byte(stackitem.BufferT))
	a.op(opcode.STSFLD0)
	a.bytes(vals[c.Val])
	a.ins(opcode.CONVERT, byte(stackitem.BufferT))
	a.op(opcode.STSFLD1)
	a.op(opcode.LDSFLD1, opcode.LDSFLD0)
	if c.Local {
		a.sys(interopnames.SystemStorageLocalPut)
	} else {
		a.sys(interopnames.SystemStorageGetContext)
		a.sys(interopnames.SystemStoragePut)
	}
	a.emitMut(scriptCase{User: c.Key, Mut: c.KeyMut})
	switch c.ValMut {
	case "REVERSEITEMS":
		a.op(opcode.LDSFLD1, opcode.REVERSEITEMS)
	case "SETITEM-first":
		a.op(opcode.LDSFLD1)
		a.int(0)
		a.int(int64(vals[c.Val][0] + 1))
		a.op(opcode.SETITEM)
	}
	if c.Deleted {
		a.op(opcode.LDSFLD0)
		if c.Local {
			a.sys(interopnames.SystemStorageLocalDelete)
		} else {
			a.sys(interopnames.SystemStorageGetContext)
			a.sys(interopnames.SystemStorageDelete)
		}
	}
	a.bytes([]byte(c.Key))
	a.sys(interopnames.SystemStorageGetReadOnlyContext)
	a.sys(interopnames.SystemStorageGet)
	a.ins(opcode.ISNULL)
	a.op(opcode.PUSHNULL)
	a.int(0)
	a.bytes(nil)
	a.sys(interopnames.SystemStorageLocalFind)
	a.op(opcode.STSFLD1)
	a.label("loop")
	a.op(opcode.LDSFLD1)
	a.sys(interopnames.SystemIteratorNext)
	a.jmp(opcode.JMPIFNOTL, "end")
	a.op(opcode.LDSFLD1)
	a.sys(interopnames.SystemIteratorValue)
	a.jmp(opcode.JMPL, "loop")
	a.label("end")
	a.op(opcode.RET)
	return a.finish()
}

func (c putCase) run(s *rstack, m *model) []scriptFail {
	t := len(m.ly)
	m.ly[t-1][baseS+c.Key] = vals[c.Val]
	if c.Deleted {
		m.ly[t-1][baseS+string(mutatedPrefix([]byte(c.Key), c.KeyMut))] = nil
	}
	view, _ := m.view(t, 0)
	got, err := runScript(s.daos[t-1], c.build())
	if err != nil {
		return []scriptFail{{"error", "HALT", err.Error()}}
	}
	_, present := view[baseS+c.Key]
	want := []string{fmt.Sprintf("stackitem.Bool:%v", !present), "|"}
	for _, e := range sortedOf(view) {
		if strings.HasPrefix(e.K, baseS) {
			want = append(want, fmt.Sprintf("S[B:%x,B:%x]", e.K[len(baseS):], e.V))
		}
	}
	if strings.Join(want, " ") != strings.Join(got, " ") {
		return []scriptFail{{"put", "[" + strings.Join(want, " ") + "]", "[" + strings.Join(got, " ") + "]"}}
	}
	return nil
}

func putCases(sc *scen) []putCase {
	var out []putCase
	i := 0
	for _, k := range sc.Suffixes {
		if k == "" {
			continue
		}
		for _, km := range []string{"SETITEM-last", "MEMCPY"} {
			for _, vm := range []string{"REVERSEITEMS", "SETITEM-first"} {
				for _, del := range []bool{false, true} {
					out = append(out, putCase{Key: k, Val: []int{0, 2}[i%2], Local: i%3 == 1, KeyMut: km, ValMut: vm, Deleted: del})
					i++
				}
			}
		}
	}
	return out
}
