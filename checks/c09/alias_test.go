package c09

import (
	"context"
	"encoding/json"
	"fmt"
	"os"
	"sort"
	"strings"
	"sync"
	"sync/atomic"

	"github.com/nspcc-dev/neo-go/pkg/core/dao"
	"github.com/nspcc-dev/neo-go/pkg/core/storage"

	"verif/lib/vk"
)

// Round 2, driver and the Go-level half: the slices a caller passes to
// dao.Seek / dao.SeekAsync / MemCachedStore.SeekAsync / Put are overwritten by
// the caller after the call has returned - for the asynchronous scans while the
// scan's goroutine is still working. The answer must be the one for the
// ORIGINAL arguments.
//
// Determinism: the caller's overwrite is placed by a hook store that sits
// between the backend and the cache layers. It runs the overwrite at a chosen
// point of the lower store's scan (stage 0: when the goroutine enters the lower
// store's Seek, i.e. "right after SeekAsync returned"; stage k: after the k-th
// pair of the lower store was handed upwards, i.e. "while delivering"). Every
// such point is a legal moment for a caller that got its channel back.

type hookStore struct {
	storage.Store
	hook func(stage int)
}

func (h *hookStore) Seek(rng storage.SeekRange, f func(k, v []byte) bool) {
	if h.hook != nil {
		h.hook(0)
	}
	n := 0
	h.Store.Seek(rng, func(k, v []byte) bool {
		r := f(k, v)
		n++
		if h.hook != nil {
			h.hook(n)
		}
		return r
	})
}

// ---- content plans ------------------------------------------------------------------------

// A plan spreads the scenario's keys over backend, lowest layer and top layer.
// where[i] for key i: 'b' flushed to the backend, 'l' pending in the lowest
// layer, 't' pending in the top layer, 'o' backend value overridden in the top
// layer, 'x' backend value deleted in the top layer, '-' absent.
type contentPlan struct {
	Name  string
	Where string
}

var contentPlans = []contentPlan{
	{"all-in-backend", "bbbb"},
	{"all-in-top", "tttt"},
	{"interleaved", "btbt"},
	{"override+tombstone", "boxb"},
	{"lower+top", "ltlb"},
}

// aliasJob is one stack with one content.
type aliasJob struct {
	Backend  string `json:"backend"`
	Shape    string `json:"layers_bottom_first"`
	Scenario string `json:"scenario"`
	NKeys    int    `json:"nkeys"`
	Plan     string `json:"content_plan"`
}

func (j aliasJob) String() string {
	return fmt.Sprintf("%s/%s/%s/%s", j.Backend, j.Shape, j.Scenario, j.Plan)
}

func planByName(n string) contentPlan {
	for _, p := range contentPlans {
		if p.Name == n {
			return p
		}
	}
	panic("content plan " + n)
}

// buildAliasStack: backend (emptied, scenario decoys) <- hookStore <- dao layers.
func buildAliasStack(en *env, j aliasJob) (*rstack, *model, *hookStore, *scen) {
	var sc *scen
	for _, x := range buildScenarios(j.NKeys) {
		if x.Name == j.Scenario {
			sc = x
		}
	}
	if sc == nil {
		panic("scenario " + j.Scenario)
	}
	m := newModel(j.Backend, j.Shape, sc)
	s := &rstack{env: en, sc: sc, beKind: j.Backend, be: en.backend(j.Backend, sc)}
	init := level{}
	if j.Backend != "mem" {
		s.be.Seek(storage.SeekRange{}, func(k, v []byte) bool {
			init[string(k)] = nil
			return true
		})
	}
	for k, v := range sc.BeInit {
		init[k] = v
	}
	plan := planByName(j.Plan)
	n := len(j.Shape)
	for i, k := range sc.Keys {
		w := plan.Where[i%len(plan.Where)]
		v := vals[[]int{0, 2}[i%2]]
		switch w {
		case 'b', 'o', 'x':
			init[k] = v
			m.be[k] = v
		}
	}
	a, b := splitCS(init)
	if err := s.be.PutChangeSet(a, b); err != nil {
		panic(err)
	}
	h := &hookStore{Store: s.be}
	d := dao.NewSimple(h, false)
	s.daos = append(s.daos, d)
	s.ly = append(s.ly, d.Store)
	for i := 1; i < n; i++ {
		if j.Shape[i] == 'r' {
			d = d.GetWrapped()
		} else {
			d = d.GetPrivate()
		}
		s.daos = append(s.daos, d)
		s.ly = append(s.ly, d.Store)
	}
	for k, v := range sc.L1Init {
		if v == nil {
			s.ly[0].Delete([]byte(k))
		} else {
			s.ly[0].Put([]byte(k), v)
		}
	}
	for i, k := range sc.Keys {
		w := plan.Where[i%len(plan.Where)]
		v := vals[[]int{2, 0}[i%2]]
		switch w {
		case 'l':
			s.ly[0].Put([]byte(k), v)
			m.ly[0][k] = v
		case 't', 'o':
			s.ly[n-1].Put([]byte(k), v)
			m.ly[n-1][k] = v
		case 'x':
			s.ly[n-1].Delete([]byte(k))
			m.ly[n-1][k] = nil
		}
	}
	return s, m, h, sc
}

// ---- the argument-ownership family ---------------------------------------------------------

type ownCase struct {
	API    string `json:"api"` // store.seekasync | store.seekasync,cut | dao.seekasync | dao.seek | dao.seek,start
	Prefix string `json:"prefix"`
	Start  string `json:"start"`
	Bwd    bool   `json:"backwards"`
	Which  string `json:"overwritten"` // prefix | start | both
	Stage  int    `json:"overwrite_stage"`
	Mut    string `json:"overwrite"` // inc | ff
}

func (c ownCase) String() string {
	return fmt.Sprintf("%s(%s) caller overwrites %s (%s) at stage %d", c.API, rangeQ{c.Prefix, c.Start, c.Bwd}, c.Which, c.Mut, c.Stage)
}

func overwrite(b []byte, mut string) {
	switch mut {
	case "inc":
		if len(b) > 0 {
			b[len(b)-1] = mutByte(b[len(b)-1])
		}
	case "ff":
		for i := range b {
			b[i] = 0xff
		}
	}
}

// run returns (answer, whether the overwrite took place).
func (c ownCase) run(s *rstack, h *hookStore) ([]kv, bool) {
	t := len(s.ly)
	q := rangeQ{c.Prefix, c.Start, c.Bwd}
	isDAO := strings.HasPrefix(c.API, "dao.")
	pbuf := []byte(q.Prefix)
	if isDAO {
		pbuf = []byte(q.Prefix[len(baseS):])
	}
	var sbuf []byte
	if q.Start != "" {
		sbuf = []byte(q.Start)
	}
	applied := false
	mutate := func() {
		if applied {
			return
		}
		applied = true
		if c.Which != "start" {
			overwrite(pbuf, c.Mut)
		}
		if c.Which != "prefix" {
			overwrite(sbuf, c.Mut)
		}
	}
	h.hook = func(stage int) {
		if stage == c.Stage {
			mutate()
		}
	}
	defer func() { h.hook = nil }()
	rng := storage.SeekRange{Prefix: pbuf, Start: sbuf, Backwards: q.Bwd}
	var got []kv
	// what the channel delivered is kept as delivered and read only when the
	// scan is over (System.Storage.Find wraps these very slices into stack items)
	var kept []storage.KeyValue
	switch {
	case strings.HasPrefix(c.API, "store.seekasync"):
		ctx, cancel := context.WithCancel(context.Background())
		for e := range s.ly[t-1].SeekAsync(ctx, rng, strings.HasSuffix(c.API, ",cut")) {
			kept = append(kept, e)
		}
		cancel()
	case c.API == "dao.seekasync":
		ctx, cancel := context.WithCancel(context.Background())
		for e := range s.daos[t-1].SeekAsync(ctx, daoID, rng) {
			kept = append(kept, e)
		}
		cancel()
	default: // dao.seek: the callback is the caller
		s.daos[t-1].Seek(daoID, rng, func(k, v []byte) bool {
			got = append(got, kv{string(k), string(v)})
			return true
		})
	}
	for _, e := range kept {
		got = append(got, kv{string(e.Key), string(e.Value)})
	}
	return got, applied
}

func ownCases(sc *scen, thorough bool) []ownCase {
	var out []ownCase
	for _, q := range sc.Ranges {
		under := strings.HasPrefix(q.Prefix, sc.Base)
		for _, api := range []string{"store.seekasync", "store.seekasync,cut", "dao.seekasync", "dao.seek"} {
			if strings.HasPrefix(api, "dao.") && (!under || sc.Class != "S") {
				continue
			}
			whichs := []string{"prefix"}
			if q.Start != "" {
				whichs = []string{"prefix", "start", "both"}
			}
			for _, w := range whichs {
				if api == "dao.seek" && w != "prefix" {
					continue // a synchronous scan may look at its Start as long as it runs
				}
				if w != "start" && strings.HasPrefix(api, "dao.") && len(q.Prefix) == len(sc.Base) {
					continue // empty user prefix: nothing to overwrite
				}
				for _, st := range []int{0, 1, 2} {
					for _, mu := range []string{"inc", "ff"} {
						if !thorough && mu == "ff" && st == 2 {
							continue
						}
						out = append(out, ownCase{API: api, Prefix: q.Prefix, Start: q.Start, Bwd: q.Bwd, Which: w, Stage: st, Mut: mu})
					}
				}
			}
		}
	}
	return out
}

// ---- Put at store / dao level: key and value slices reused by the caller ---------------------

// storePutReuse: Put(k, v) on the top layer through dao.PutStorageItem (even
// i) or MemCachedStore.Put (odd i), then the caller overwrites both slices;
// point read and whole-class scan must show the original pair.
func storePutReuse(s *rstack, m *model, sc *scen, i int) (string, []scriptFail) {
	t := len(s.ly)
	sfx := sc.Suffixes[i%len(sc.Suffixes)] + "\x7fput"
	full := sc.Base + sfx
	val := append([]byte{}, vals[[]int{0, 2}[i%2]]...)
	orig := string(val)
	name := fmt.Sprintf("MemCachedStore.Put(%q) then the caller overwrites key and value", full)
	if i%2 == 0 && sc.Class == "S" {
		name = fmt.Sprintf("dao.PutStorageItem(%d, %q) then the caller overwrites key and value", daoID, sfx)
		key := []byte(sfx)
		s.daos[t-1].PutStorageItem(daoID, key, val)
		overwrite(key, "ff")
	} else {
		key := []byte(full)
		s.ly[t-1].Put(key, val)
		overwrite(key, "ff")
	}
	overwrite(val, "ff")
	m.ly[t-1][full] = []byte(orig)
	var fails []scriptFail
	got, err := s.ly[t-1].Get([]byte(full))
	if err != nil || string(got) != orig {
		fails = append(fails, scriptFail{"get", valName([]byte(orig)), getStr(got, err)})
	}
	view, _ := m.view(t, 0)
	want := expectSorted(sortedOf(view), rangeQ{sc.Base, "", false}, nil)
	var have []kv
	s.ly[t-1].Seek(storage.SeekRange{Prefix: []byte(sc.Base)}, func(k, v []byte) bool {
		have = append(have, kv{string(k), string(v)})
		return true
	})
	if !matches(have, want, 0, 0, false) {
		fails = append(fails, scriptFail{"seek", kvsStr(want), kvsStr(have)})
	}
	return name, fails
}

// ---- driver ------------------------------------------------------------------------------------

type aliasRec struct {
	AliasFamily string      `json:"alias_family"` // find-script | put-script | arg-own | put-reuse
	Job         aliasJob    `json:"stack"`
	Script      *scriptCase `json:"script_case,omitempty"`
	Put         *putCase    `json:"put_case,omitempty"`
	Own         *ownCase    `json:"own_case,omitempty"`
	Late        *lateCase   `json:"call_snapshot_case,omitempty"`
	PutIdx      int         `json:"put_reuse_index,omitempty"`
	Prior       []string    `json:"earlier_writing_cases_on_this_stack,omitempty"`
	Case        string      `json:"case"`
	What        string      `json:"oracle"`
	Want        string      `json:"want"`
	Got         string      `json:"got"`
	ScriptHex   string      `json:"script,omitempty"`
	State       []string    `json:"model_state,omitempty"`
	order       int
}

type aliasStats struct {
	mu       sync.Mutex
	cases    map[string]int64 // per family
	out      map[string]int64 // family:outcome
	applied  int64
	best     map[string]*aliasRec
	count    map[string]int64
	scripts  int64
	jobsDone int64
	lateJobs int64
	reported map[string]bool
	// observations that are counted but are no outcome classes (they depend on goroutine scheduling)
	notes map[string]int64
}

func newAliasStats() *aliasStats {
	return &aliasStats{cases: map[string]int64{}, out: map[string]int64{}, best: map[string]*aliasRec{}, count: map[string]int64{}, notes: map[string]int64{}}
}

func (st *aliasStats) merge(o *aliasStats) {
	st.mu.Lock()
	defer st.mu.Unlock()
	for k, v := range o.cases {
		st.cases[k] += v
	}
	for k, v := range o.out {
		st.out[k] += v
	}
	for k, v := range o.notes {
		st.notes[k] += v
	}
	st.applied += o.applied
	st.scripts += o.scripts
	st.jobsDone++
	for k, v := range o.count {
		st.count[k] += v
	}
	for k, r := range o.best {
		if b := st.best[k]; b == nil || r.order < b.order {
			st.best[k] = r
		}
	}
}

func (st *aliasStats) fail(bucket string, rec aliasRec) {
	st.count[bucket]++
	if st.best[bucket] == nil {
		r := rec
		st.best[bucket] = &r
	}
}

func aliasJobs(thorough bool) []aliasJob {
	var jobs []aliasJob
	scens := []string{"S/chain", "S/sibling"}
	shapes := []string{"r", "rp", "rr"}
	nkeys := 3
	if thorough {
		scens = []string{"S/chain", "S/sibling", "S/ffmid", "S/fftop", "S/dbl", "M/chain"}
		shapes = []string{"r", "rp", "rr", "rrp", "rpp"}
		nkeys = 4
	}
	// simplest first: memory backend, one layer, everything in the backend
	for _, sn := range scens {
		for _, pl := range contentPlans {
			for _, sh := range shapes {
				for _, be := range allBackends {
					if pl.Name == "lower+top" && len(sh) < 2 {
						continue
					}
					jobs = append(jobs, aliasJob{Backend: be, Shape: sh, Scenario: sn, NKeys: nkeys, Plan: pl.Name})
				}
			}
		}
	}
	return jobs
}

// runAliasJob runs every case of every family on one stack. only != nil: just
// that recorded case (replay), after the writing cases that preceded it.
func runAliasJob(en *env, j aliasJob, thorough bool, order int, only *aliasRec) (st *aliasStats) {
	st = newAliasStats()
	var cur string
	defer func() {
		if r := recover(); r != nil {
			en.drop(j.Backend)
			st.fail("panic:alias:"+j.Backend, aliasRec{AliasFamily: "panic", Job: j, Case: cur, What: "panic", Want: "no panic", Got: fmt.Sprint(r), order: order})
		}
	}()
	s, m, h, sc := buildAliasStack(en, j)
	want := func(fam string) bool { return only == nil || only.AliasFamily == fam }
	// 1. arg-own (reads only)
	if want("arg-own") {
		b := &battery{s: s, m: m, sc: sc, out: map[string]int{}}
		t := len(m.ly)
		cases := ownCases(sc, thorough)
		if only != nil {
			cases = []ownCase{*only.Own}
		}
		for ci := range cases {
			c := cases[ci]
			cur = c.String()
			got, applied := c.run(s, h)
			st.cases["arg-own"]++
			if applied {
				st.applied++
			}
			b.fails = b.fails[:0]
			q := rangeQ{c.Prefix, c.Start, c.Bwd}
			cut := c.API != "store.seekasync"
			b.judge("own."+c.API, t, q, 0, 0, cut, false, got, false)
			st.out[fmt.Sprintf("arg-own:%s:overwritten=%v:%dres", c.API, applied, min(len(got), 3))]++
			for _, f := range b.fails {
				stage := "while-delivering"
				if c.Stage == 0 {
					stage = "before-lower-scan"
				}
				st.fail(fmt.Sprintf("caller-buffer-retained:%s:%s:%s:%s", c.API, c.Which, stage, j.Backend),
					aliasRec{AliasFamily: "arg-own", Job: j, Own: &c, Case: c.String(), What: "answer for the original arguments", Want: f.Want, Got: f.Got, State: m.describe(), order: order})
			}
		}
	}
	if sc.Class != "S" {
		return st
	}
	// 2. scripts that only read
	ro, rw := scriptCases(sc, thorough)
	runScriptCase := func(c scriptCase, prior []string) {
		cur = c.String()
		fails, outc := c.run(s, m)
		st.cases["find-script/"+c.Sub]++
		st.scripts++
		st.out["find-script/"+c.Sub+":"+outc]++
		for _, f := range fails {
			mut := "prefix-untouched"
			if c.Mut != "" {
				mut = "prefix-mutated-in-place"
			}
			bucket := fmt.Sprintf("find-script:%s:%s:%s:%s:%s", c.Sub, f.What, c.PfxType, mut, j.Backend)
			cc := c
			st.fail(bucket, aliasRec{AliasFamily: "find-script", Job: j, Script: &cc, Prior: prior, Case: c.String(), What: f.What, Want: f.Want, Got: f.Got,
				ScriptHex: fmt.Sprintf("%x", c.build()), State: m.describe(), order: order})
		}
	}
	if want("find-script") && (only == nil || only.Script.Action == "") {
		cases := ro
		if only != nil {
			cases = []scriptCase{*only.Script}
		}
		for _, c := range cases {
			runScriptCase(c, nil)
		}
	}
	// 3. scripts that write while scanning; the model follows
	var prior []string
	if only == nil || (only.AliasFamily == "find-script" && only.Script.Action != "") || only.AliasFamily == "put-script" || only.AliasFamily == "put-reuse" {
		for _, c := range rw {
			if only != nil && only.AliasFamily == "find-script" && len(prior) == len(only.Prior) {
				runScriptCase(*only.Script, prior)
				return st
			}
			if only == nil && c.Sub == "early-action" && lateSnapshotSuspected.Load() && j.Shape[len(j.Shape)-1] == 'p' {
				continue
			}
			runScriptCase(c, append([]string{}, prior...))
			prior = append(prior, c.String())
		}
	}
	// 4. Put with reused buffers
	for _, c := range putCases(sc) {
		cur = c.String()
		fails := c.run(s, m)
		st.cases["put-script"]++
		st.scripts++
		st.out[fmt.Sprintf("put-script:deleted=%v", c.Deleted)]++
		for _, f := range fails {
			cc := c
			st.fail(fmt.Sprintf("put-script:%s:local=%v:%s", f.What, c.Local, j.Backend),
				aliasRec{AliasFamily: "put-script", Job: j, Put: &cc, Case: c.String(), What: f.What, Want: f.Want, Got: f.Got, ScriptHex: fmt.Sprintf("%x", c.build()), State: m.describe(), order: order})
		}
	}
	for i := 0; i < 2*len(sc.Suffixes); i++ {
		name, fails := storePutReuse(s, m, sc, i)
		cur = name
		st.cases["put-reuse"]++
		st.out["put-reuse:done"]++
		for _, f := range fails {
			st.fail(fmt.Sprintf("put-reuse:%s:%s:%s", f.What, strings.SplitN(name, "(", 2)[0], j.Backend),
				aliasRec{AliasFamily: "put-reuse", Job: j, PutIdx: i, Case: name, What: f.What, Want: f.Want, Got: f.Got, State: m.describe(), order: order})
		}
	}
	return st
}

// lateSnapshotSuspected: the call-snapshot family failed on the shared (locked)
// layers. A scan that takes its snapshot late reads the maps of a PRIVATE layer
// while the caller writes them - a fatal runtime error that no recover() catches -
// so the cases that write to a private layer between the call and the first
// receive are then left out (the run is reported as not exhaustive).
var lateSnapshotSuspected atomic.Bool

// runAlias is the round-2/3 phase of TestCheck.
func runAlias(r *vk.Run, envs chan *env) *aliasStats {
	jobs := aliasJobs(r.Thorough())
	total := newAliasStats()
	// round 3: the moment a scan answers for (late_test.go), on stacks of its own;
	// shared top layers first
	var lshared, lprivate []aliasJob
	for _, j := range lateJobs(r.Thorough()) {
		if j.Shape[len(j.Shape)-1] == 'p' {
			lprivate = append(lprivate, j)
		} else {
			lshared = append(lshared, j)
		}
	}
	lateOn := os.Getenv("C09_LATE") != "off" // development switch
	runLate := func(ljobs []aliasJob, base int) {
		if !lateOn {
			return
		}
		r.Parallel(len(ljobs), func(i int) {
			en := <-envs
			defer func() { envs <- en }()
			st := runLateJob(en, ljobs[i], r.Thorough(), base+i, nil)
			total.merge(st)
			atomic.AddInt64(&total.lateJobs, 1)
		})
	}
	runLate(lshared, 0)
	total.report(r)
	if len(total.best) > 0 {
		lateSnapshotSuspected.Store(true)
		r.Capped()
		fmt.Println("C09 call-snapshot: failures on shared layers - cases writing to a private layer between call and first receive are skipped (a late snapshot there is a fatal map race, not a recoverable panic)")
	}
	if os.Getenv("C09_LATE") != "only" {
		r.Parallel(len(jobs), func(i int) {
			en := <-envs
			defer func() { envs <- en }()
			total.merge(runAliasJob(en, jobs[i], r.Thorough(), len(lshared)+i, nil))
		})
	}
	if !lateSnapshotSuspected.Load() {
		runLate(lprivate, len(lshared)+len(jobs))
	}
	total.jobsDone -= total.lateJobs
	total.report(r)
	for k := range total.out {
		r.Outcome("alias:" + k)
	}
	fmt.Printf("C09 alias families: stacks=%d/%d call-snapshot stacks=%d/%d cases=%v scripts=%d overwrites_applied=%d distinct_outcomes=%d failing_buckets=%d elapsed=%.0fs\n",
		total.jobsDone, len(jobs), total.lateJobs, len(lshared)+len(lprivate), total.cases, total.scripts, total.applied, len(total.out), len(total.best), r.Elapsed())
	return total
}

// report prints every failing bucket once (it may be called between phases).
func (st *aliasStats) report(r *vk.Run) {
	st.mu.Lock()
	defer st.mu.Unlock()
	var ks []string
	for k := range st.best {
		if !st.reported[k] {
			ks = append(ks, k)
		}
	}
	sort.Strings(ks)
	for _, k := range ks {
		rec := st.best[k]
		if st.reported == nil {
			st.reported = map[string]bool{}
		}
		st.reported[k] = true
		r.Violation(k+":"+rec.Job.String()+":"+rec.Case, *rec)
	}
}

func (st *aliasStats) coverage(cov map[string]any) {
	cov["alias_stacks"] = int(st.jobsDone)
	cov["alias_cases_per_family"] = st.cases
	total := int64(0)
	for f, n := range st.cases { // scalars survive the merge of the parts' evidence
		cov["alias_cases_"+strings.NewReplacer("-", "_", "/", "_").Replace(f)] = int(n)
		total += n
	}
	cov["alias_cases_total"] = int(total)
	cov["alias_family_names"] = "find-script/prefix, find-script/item, find-script/action, find-script/early-action, put-script, arg-own, put-reuse, call-snapshot (+ in the per-state battery: Find with a reused prefix Buffer, results re-read after Finalize)"
	cov["call_snapshot_stacks"] = int(st.lateJobs)
	seen, unseen := int64(0), int64(0)
	for k, n := range st.notes {
		if strings.HasSuffix(k, "seen=true") {
			seen += n
		} else {
			unseen += n
		}
	}
	// scheduling-dependent by nature (the lower layers are snapshotted when the scan goroutine gets there)
	cov["call_snapshot_lower_layer_write_seen_not_judged"] = int(seen)
	cov["call_snapshot_lower_layer_write_unseen_not_judged"] = int(unseen)
	cov["call_snapshot_lower_layer_writes_not_judged"] = st.notes
	cov["alias_scripts_run_in_real_vm"] = int(st.scripts)
	cov["alias_overwrites_applied_during_scan"] = int(st.applied)
	cov["alias_distinct_outcomes"] = len(st.out)
	cov["alias_outcome_counts"] = st.out
	cov["alias_failing_buckets"] = st.count
	cov["alias_families"] = []string{
		"find-script/prefix: real scripts, System.Storage.Find via GetContext / GetReadOnlyContext / AsReadOnly and Local.Find x prefix item ByteString | Buffer mutated in place by SETITEM(last|first) / REVERSEITEMS / MEMCPY after Find | in the subroutine that created the iterator | after the first Value | after every Value x all 10 legal option sets x forwards/backwards; results rendered after HALT + Finalize; second scan with a fresh prefix",
		"find-script/item: every position read twice, the first result (Struct / deserialized Array) reversed in place in between",
		"find-script/action: Put of a new key in the range / overwrite / Delete of a key in the range / Put outside after the first Value (System.Storage.* and Local.*), first scan judged on untouched keys, second scan exactly",
		"put-script: Put / Local.Put with Buffer key and Buffer value, both mutated afterwards, optional Delete with the reused key buffer; Get + whole-contract Find",
		"arg-own: MemCachedStore.SeekAsync (with and without prefix cutting), dao.SeekAsync, dao.Seek: prefix / start / both overwritten (last byte changed, all 0xff) at stage 0 (before the lower store is scanned), 1, 2 (while delivering) over every range of the scenario",
		"put-reuse: dao.PutStorageItem / MemCachedStore.Put, key and value slices overwritten after the call; Get + class scan",
		"find-script/early-action (round 3): the write sits between Find and the FIRST Next (Put new in range / overwrite / Delete in range / Put outside / Delete the new key / Put+Delete of two keys in range; System.Storage.* and Local.*) x Gosched none / before / after the write (a pseudo syscall) x 5 option sets x both directions x ByteString / reused Buffer prefix; first scan = EXACTLY the content at Find, second scan exactly the new content",
		"call-snapshot (round 3): MemCachedStore.SeekAsync plain / cutPrefix / cutPrefix+SearchDepth 1 and dao.SeekAsync on the top layer (shared and private) x every range of the scenario x ONE action between the return of the call and the first receive (put of an invisible key: new in range, beside the range, exactly Prefix+Start, other class / overwrite / delete of a visible key, through dao.PutStorageItem/DeleteStorageItem or the store / PutChangeSet{put,delete} / Persist of the scanned layer (private layer: freshly built stack per case) / caller overwrites its Prefix+Start slices) x runtime.Gosched none / before / after the action; answer = EXACTLY the reference of the moment the call returned, whatever the goroutine scheduling; with no Gosched a synchronous Seek of the same range follows (new content). The model follows the actions, so the layer's content (values, tombstones over lower values) varies along the sequence. A write to the layer BELOW after the call is counted (seen / not seen), not judged",
	}
}

// ---- replay --------------------------------------------------------------------------------------

func isAliasReplay(r *vk.Run) bool {
	var probe struct {
		AliasFamily string `json:"alias_family"`
	}
	return r.ReadReplay(&probe) == nil && probe.AliasFamily != ""
}

func replayAlias(r *vk.Run) {
	var rec aliasRec
	if err := r.ReadReplay(&rec); err != nil {
		fmt.Println("cannot read replay:", err)
		r.Finish(map[string]any{"states": 1, "transitions": 1, "traces_validated_against_impl": 0}, nil)
	}
	total := newAliasStats()
	seen := map[string]int{}
	for i := 0; i < 5; i++ {
		en := newEnv()
		var st *aliasStats
		if rec.AliasFamily == "call-snapshot" {
			st = runLateJob(en, rec.Job, r.Thorough(), 0, &rec)
		} else {
			st = runAliasJob(en, rec.Job, r.Thorough(), 0, &rec)
		}
		en.close()
		hit := "clean"
		for _, b := range st.best {
			if b.Case == rec.Case && b.What == rec.What {
				hit = fmt.Sprintf("reproduced: %s: want=%s got=%s", b.Case, b.Want, b.Got)
			} else if hit == "clean" {
				hit = "other failure: " + b.Case + " " + b.What
			}
		}
		seen[hit]++
		total.merge(st)
	}
	b, _ := json.Marshal(rec.Job)
	fmt.Printf("replayed %s %s 5x:\n", b, rec.Case)
	for k, v := range seen {
		fmt.Printf("  %dx %s\n", v, k)
	}
	total.report(r)
	vk.CleanScratch()
	r.Finish(map[string]any{"states": 1, "transitions": 5, "traces_validated_against_impl": 5}, nil)
}
