package c09

import (
	"context"
	"errors"
	"fmt"
	"sort"
	"strings"

	"github.com/nspcc-dev/neo-go/pkg/core/interop"
	"github.com/nspcc-dev/neo-go/pkg/core/interop/iterator"
	istorage "github.com/nspcc-dev/neo-go/pkg/core/interop/storage"
	"github.com/nspcc-dev/neo-go/pkg/core/storage"
	"github.com/nspcc-dev/neo-go/pkg/vm/stackitem"
)

// failure is one query whose answer differs from the reference.
type failure struct {
	Cat   string `json:"category"` // root-cause bucket: kind:api:flags:backend
	Known string `json:"known_root_cause,omitempty"`
	API   string `json:"api"`
	Level int    `json:"level"` // 0 = backend, t = t-th cache layer
	Query string `json:"query"`
	Want  string `json:"want"`
	Got   string `json:"got"`
	ord   int
}

type battery struct {
	s      *rstack
	m      *model
	sc     *scen
	fullLv []bool // per level: full battery (true) or light one
	nfull  int
	once   bool // initial state of a DAO-built stack: also the token transfer log scans
	fails  []failure
	nq     int
	out    map[string]int
	cur    func() (api string, t int, q string, flags string) // the query being executed (for panics)
	views  map[[2]int]cachedView
	buf    []kv
	ic     *interop.Context
}

func flagsOf(q rangeQ, depth, t, stop int, cut bool) string {
	var f []string
	if q.Bwd {
		f = append(f, "bwd")
	} else {
		f = append(f, "fwd")
	}
	if q.Start != "" {
		f = append(f, "start")
	}
	switch {
	case depth == 0:
	case depth > t:
		f = append(f, "depth>layers")
	default:
		f = append(f, "depth<=layers")
	}
	if stop > 0 {
		f = append(f, "stop")
	}
	if cut {
		f = append(f, "cut")
	}
	return strings.Join(f, ",")
}

func (b *battery) fail(kind, api string, t int, flags, query, want, got, known string) {
	f := failure{Cat: kind + ":" + api + ":" + flags + ":" + b.m.beKind, Known: known, API: api, Level: t, Query: query, Want: want, Got: got, ord: b.nq}
	if known != "" {
		f.Cat = known
	}
	if len(b.fails) < 64 {
		b.fails = append(b.fails, f)
	}
}

func (b *battery) count(api string, n int) {
	if n > 3 {
		n = 3
	}
	b.out[api+"->"+string(rune('0'+n))+"res"]++
}

// sortedView returns (cached) the net effect seen from level t with search
// depth d as a list sorted by key. d = -1: the level's own live entries
// (what SeekGC works on).
func (b *battery) sortedView(t, d int) ([]kv, bool) {
	key := [2]int{t, d}
	if v, ok := b.views[key]; ok {
		return v.l, v.withBE
	}
	var view map[string][]byte
	withBE := false
	if d < 0 {
		view = map[string][]byte{}
		src := b.m.be
		if t > 0 {
			src = b.m.ly[t-1]
		} else {
			withBE = true
		}
		for k, v := range src {
			if v != nil {
				view[k] = v
			}
		}
	} else {
		view, withBE = b.m.view(t, d)
	}
	l := make([]kv, 0, len(view))
	for k, v := range view {
		l = append(l, kv{k, string(v)})
	}
	sort.Slice(l, func(i, j int) bool { return l[i].K < l[j].K })
	if b.views == nil {
		b.views = map[[2]int]cachedView{}
	}
	b.views[key] = cachedView{l, withBE}
	return l, withBE
}

type cachedView struct {
	l      []kv
	withBE bool
}

// expectSorted is expect() on a sorted list (SeekRange as documented).
func expectSorted(l []kv, q rangeQ, buf []kv) []kv {
	out := buf[:0]
	from := q.Prefix + q.Start
	for _, e := range l {
		if !strings.HasPrefix(e.K, q.Prefix) {
			continue
		}
		if q.Start != "" {
			if !q.Bwd && e.K < from {
				continue
			}
			if q.Bwd && e.K > from {
				continue
			}
		}
		out = append(out, e)
	}
	if q.Bwd {
		for i, j := 0, len(out)-1; i < j; i, j = i+1, j-1 {
			out[i], out[j] = out[j], out[i]
		}
	}
	return out
}

// matches compares a real answer with the full reference answer under
// stop-after-n and prefix trimming. loose: the answer of a cancelled
// asynchronous seek may go on after the n-th element, as a continuation of
// the reference.
func matches(got, full []kv, stop, cutLen int, loose bool) bool {
	n := len(full)
	if stop > 0 && n > stop {
		n = stop
	}
	if loose {
		if len(got) < n || len(got) > len(full) {
			return false
		}
		n = len(got)
	} else if len(got) != n {
		return false
	}
	for i := 0; i < n; i++ {
		if got[i].K != full[i].K[cutLen:] || got[i].V != full[i].V {
			return false
		}
	}
	return true
}

func shapeKV(full []kv, stop, cutLen int) []kv {
	if stop > 0 && len(full) > stop {
		full = full[:stop]
	}
	o := make([]kv, len(full))
	for i, e := range full {
		o[i] = kv{e.K[cutLen:], e.V}
	}
	return o
}

// cutSkipDeviation recognises one root cause: with prefix trimming a cache
// layer drops a lower-level pair whose full key equals the already trimmed key
// of the layer's own last pair (key = Prefix+X follows Prefix+Prefix+X in
// iteration order). got must be the reference minus only such pairs.
func cutSkipDeviation(got, full []kv, q rangeQ, stop int, loose bool) bool {
	return dropMatch(len(got), len(full),
		func(gi, fi int) bool { return got[gi].K == full[fi].K[len(q.Prefix):] && got[gi].V == full[fi].V },
		func(fi int) bool { return isCand(full, fi, q.Prefix) },
		loose || (stop > 0 && len(got) == stop))
}

// dropMatch: is the real answer (glen elements) the reference (flen elements)
// minus a non-empty set of candidate elements? partial: the real answer was
// cut short on purpose, the reference tail is not required.
func dropMatch(glen, flen int, eq func(gi, fi int) bool, cand func(fi int) bool, partial bool) bool {
	var rec func(gi, fi, dropped int) bool
	rec = func(gi, fi, dropped int) bool {
		if gi == glen {
			if !partial {
				for ; fi < flen; fi++ {
					if !cand(fi) {
						return false
					}
					dropped++
				}
			}
			return dropped > 0
		}
		if fi == flen {
			return false
		}
		if eq(gi, fi) && rec(gi+1, fi+1, dropped) {
			return true
		}
		return cand(fi) && rec(gi, fi+1, dropped+1)
	}
	return rec(0, 0, 0)
}

func isCand(full []kv, i int, prefix string) bool {
	for j := 0; j < i; j++ {
		if full[j].K == prefix+full[i].K {
			return true
		}
	}
	return false
}

func (b *battery) judge(api string, t int, q rangeQ, depth, stop int, cut, own bool, got []kv, loose bool) {
	b.nq++
	d := depth
	if own {
		d = -1
	}
	view, withBE := b.sortedView(t, d)
	b.buf = expectSorted(view, q, b.buf)
	full := b.buf
	cutLen := 0
	if cut {
		cutLen = len(q.Prefix)
	}
	b.count(api, len(got))
	if matches(got, full, stop, cutLen, loose) {
		return
	}
	query := fmt.Sprintf("%s depth=%d", q, depth)
	if stop > 0 {
		query += fmt.Sprintf(" stop-after=%d", stop)
	}
	if cut {
		query += " cutPrefix"
	}
	known := ""
	vm := map[string][]byte{}
	for _, e := range view {
		vm[e.K] = []byte(e.V)
	}
	if dev, ok := b.m.expectDiskDeviation(vm, withBE, q); ok && matches(got, dev, stop, cutLen, loose) {
		known = "backend-disagree:backwards-start-extension:" + b.m.beKind
	} else if cut && cutSkipDeviation(got, full, q, stop, loose) {
		known = "cutprefix-skip:lower-key-equals-trimmed-cache-key"
	}
	b.fail("mismatch", api, t, flagsOf(q, depth, t, stop, cut), query, kvsStr(shapeKV(full, stop, cutLen)), kvsStr(got), known)
}

func (b *battery) store(t int) storage.Store {
	if t == 0 {
		return b.s.be
	}
	return b.s.ly[t-1]
}

func (b *battery) seek(api string, st storage.Store, t int, q rangeQ, depth, stop int) {
	var got []kv
	after := 0
	stopped := false
	b.cur = func() (string, int, string, string) {
		return api, t, fmt.Sprintf("%s depth=%d stop-after=%d", q, depth, stop), flagsOf(q, depth, t, stop, false)
	}
	rng := storage.SeekRange{Prefix: []byte(q.Prefix), Backwards: q.Bwd, SearchDepth: depth}
	if q.Start != "" {
		rng.Start = []byte(q.Start)
	}
	st.Seek(rng, func(k, v []byte) bool {
		if stopped {
			after++
			return false
		}
		got = append(got, kv{string(k), string(v)})
		if stop > 0 && len(got) == stop {
			stopped = true
			return false
		}
		return true
	})
	if after > 0 {
		b.fail("callback-after-stop", api, t, flagsOf(q, depth, t, stop, false), q.String(), "no call after the callback returned false", fmt.Sprintf("%d more calls", after), "")
	}
	b.judge(api, t, q, depth, stop, false, false, got, false)
}

func (b *battery) seekGC(st storage.Store, t int, q rangeQ) {
	var got []kv
	b.cur = func() (string, int, string, string) { return "seekgc", t, q.String(), flagsOf(q, 0, t, 0, false) }
	rng := storage.SeekRange{Prefix: []byte(q.Prefix), Backwards: q.Bwd}
	if q.Start != "" {
		rng.Start = []byte(q.Start)
	}
	err := st.SeekGC(rng, func(k, v []byte) (bool, bool) {
		got = append(got, kv{string(k), string(v)})
		return true, true
	})
	if err != nil {
		b.fail("error", "seekgc", t, flagsOf(q, 0, t, 0, false), q.String(), "nil", err.Error(), "")
		return
	}
	b.judge("seekgc", t, q, 0, 0, false, true, got, false)
}

func drain(ch chan storage.KeyValue, stop int, cancel context.CancelFunc) []kv {
	var got []kv
	for e := range ch {
		got = append(got, kv{string(e.Key), string(e.Value)})
		if stop > 0 && len(got) == stop {
			cancel()
		}
	}
	return got
}

func (b *battery) seekAsync(c *storage.MemCachedStore, t int, q rangeQ, depth, stop int, cut bool) {
	b.cur = func() (string, int, string, string) {
		return "seekasync", t, fmt.Sprintf("%s depth=%d stop-after=%d cut=%v", q, depth, stop, cut), flagsOf(q, depth, t, stop, cut)
	}
	ctx, cancel := context.WithCancel(context.Background())
	rng := storage.SeekRange{Prefix: []byte(q.Prefix), Backwards: q.Bwd, SearchDepth: depth}
	if q.Start != "" {
		rng.Start = []byte(q.Start)
	}
	got := drain(c.SeekAsync(ctx, rng, cut), stop, cancel)
	cancel()
	b.judge("seekasync", t, q, depth, stop, cut, false, got, stop > 0)
}

// run executes the battery on every level of the stack.
func (b *battery) run() {
	defer func() {
		if r := recover(); r != nil {
			api, t, q, fl := "?", 0, "?", ""
			if b.cur != nil {
				api, t, q, fl = b.cur()
			}
			b.fail("panic", api, t, fl, q, "no panic", fmt.Sprint(r), "")
			if b.ic != nil {
				func() { defer func() { _ = recover() }(); b.ic.Finalize() }()
			}
		}
	}()
	sc, m := b.sc, b.m
	n := len(m.ly)
	for t := 0; t <= n; t++ {
		st := b.store(t)
		top := t == n
		// point reads
		view, _ := m.view(t, 0)
		for _, k := range sc.GetKeys {
			b.cur = func() (string, int, string, string) { return "get", t, fmt.Sprintf("%q", k), "" }
			v, err := st.Get([]byte(k))
			b.nq++
			w, found := view[k]
			switch {
			case err != nil && !errors.Is(err, storage.ErrKeyNotFound):
				b.fail("error", "get", t, "", fmt.Sprintf("Get(%q)", k), "value or ErrKeyNotFound", err.Error(), "")
			case found && (err != nil || string(v) != string(w)):
				b.fail("mismatch", "get", t, "present", fmt.Sprintf("Get(%q)", k), valName(w), getStr(v, err), "")
			case !found && err == nil:
				b.fail("mismatch", "get", t, "absent", fmt.Sprintf("Get(%q)", k), "ErrKeyNotFound", getStr(v, err), "")
			}
			if found {
				b.out["get->found"]++
			} else {
				b.out["get->notfound"]++
			}
		}
		if !b.fullLv[t] {
			// light battery (this level over the same lower levels was already
			// examined in full on this stack): whole-class scans in both directions.
			for _, bw := range []bool{false, true} {
				b.seek("seek", st, t, rangeQ{sc.Base, "", bw}, 0, 0)
			}
			continue
		}
		b.nfull++
		ranges := sc.Ranges
		if t == 0 && m.beKind != "mem" {
			ranges = append(append([]rangeQ{}, sc.Ranges...), sc.BeRanges...)
		}
		for _, q := range ranges {
			b.seek("seek", st, t, q, 0, 0)
			if top || t == 0 {
				b.seek("seek", st, t, q, 0, 1)
				if q.Start == "" {
					b.seek("seek", st, t, q, 0, 2)
				}
			}
			switch {
			case top && q.Start == "":
				for d := 1; d <= t+1; d++ {
					b.seek("seek", st, t, q, d, 0)
				}
			case top:
				b.seek("seek", st, t, q, 1, 0)
				if t > 1 {
					b.seek("seek", st, t, q, t, 0)
				}
			case q.Start == "":
				// an intermediate layer is the top of a smaller stack that is
				// explored on its own; here only the depth extremes
				b.seek("seek", st, t, q, 1, 0)
			}
			// SeekGC as a pure query (keep everything). On disk it opens a write
			// transaction, so only the class-wide ranges are used there.
			if (top && t > 0) || (t == 0 && !isRO(m.beKind) && (m.beKind == "mem" || (q.Prefix == sc.Base && (q.Start == "" || q.Bwd)))) {
				b.seekGC(st, t, q)
			}
		}
		if t == 0 {
			continue
		}
		b.changeSets(t)
		c := b.s.ly[t-1]
		for _, q := range sc.Ranges {
			if top || q.Start == "" {
				b.seekAsync(c, t, q, 0, 0, true)
			}
			if q.Start == "" {
				b.seekAsync(c, t, q, 0, 0, false)
				if top {
					b.seekAsync(c, t, q, 0, 1, true)
					b.seekAsync(c, t, q, 1, 0, true)
				}
			}
		}
		if b.s.daos == nil || sc.Class != "S" {
			continue
		}
		d := b.s.daos[t-1]
		for _, q := range sc.Ranges {
			if !strings.HasPrefix(q.Prefix, sc.Base) {
				continue
			}
			user := q.Prefix[len(sc.Base):]
			depths := []int{0}
			if top && q.Start == "" {
				depths = []int{0, 1}
			}
			for _, dep := range depths {
				var got []kv
				b.cur = func() (string, int, string, string) {
					return "dao.seek", t, fmt.Sprintf("%s depth=%d", q, dep), flagsOf(q, dep, t, 0, true)
				}
				rng := storage.SeekRange{Prefix: []byte(user), Backwards: q.Bwd, SearchDepth: dep}
				if q.Start != "" {
					rng.Start = []byte(q.Start)
				}
				d.Seek(daoID, rng, func(k, v []byte) bool {
					got = append(got, kv{string(k), string(v)})
					return true
				})
				b.judge("dao.seek", t, q, dep, 0, true, false, got, false)
			}
			if top || q.Start == "" {
				b.daoSeekReading(t, q, user, "get-other")
				b.daoSeekReading(t, q, user, "get-same")
			}
			if top && q.Start == "" {
				b.daoSeekReading(t, q, user, "async,get-other")
			}
			if q.Start == "" {
				b.cur = func() (string, int, string, string) { return "dao.seekasync", t, q.String(), flagsOf(q, 0, t, 0, true) }
				ctx, cancel := context.WithCancel(context.Background())
				rng := storage.SeekRange{Prefix: []byte(user), Backwards: q.Bwd}
				if q.Start != "" {
					rng.Start = []byte(q.Start)
				}
				got := drain(d.SeekAsync(ctx, daoID, rng), 0, cancel)
				cancel()
				b.judge("dao.seekasync", t, q, 0, 0, true, false, got, false)
			}
		}
		if top {
			b.interopBattery(t)
			b.find(t)
			b.daoSeekWriting(t)
			if b.once {
				b.transferLogs()
			}
		}
	}
}

// ---- dao.Simple.Seek with callbacks that use the same DAO ("f() can use dao too") ----

var otherKeys = []string{"a", "b", "c", "zz"}

// daoSeekReading: the callback reads, through the same DAO, an item of another
// contract (beh "get-other") or another item of the scanned contract
// ("get-same"), the way native contracts do from their Seek handlers. The
// delivered sequence must be the reference one and every nested read must
// return the current value. "async,get-other": the same reads between two
// receives from dao.SeekAsync's channel.
func (b *battery) daoSeekReading(t int, q rangeQ, user, beh string) {
	sc := b.sc
	d := b.s.daos[t-1]
	api := "dao.seek[" + beh + "]"
	if strings.HasPrefix(beh, "async") {
		api = "dao.seekasync[get-other]"
	}
	b.cur = func() (string, int, string, string) { return api, t, q.String(), flagsOf(q, 0, t, 0, true) }
	sv, _ := b.sortedView(t, 0)
	lookup := func(full string) (string, bool) {
		i := sort.Search(len(sv), func(i int) bool { return sv[i].K >= full })
		if i < len(sv) && sv[i].K == full {
			return sv[i].V, true
		}
		return "", false
	}
	badRead := ""
	var got []kv
	nested := func() {
		i := len(got) - 1
		var full string
		var r []byte
		if beh == "get-same" {
			sfx := sc.Suffixes[i%len(sc.Suffixes)]
			full = sc.Base + sfx
			r = d.GetStorageItem(daoID, []byte(sfx))
		} else {
			ok := otherKeys[i%len(otherKeys)]
			full = baseS2 + ok
			r = d.GetStorageItem(otherID, []byte(ok))
		}
		w, found := lookup(full)
		if badRead == "" && ((found && w != "" && (r == nil || string(r) != w)) || (found && w == "" && len(r) != 0) || (!found && r != nil)) {
			want := "absent"
			if found {
				want = valName([]byte(w))
			}
			have := "absent"
			if r != nil {
				have = valName(r)
			}
			badRead = fmt.Sprintf("GetStorageItem(%q) inside the callback #%d: want %s, got %s", full, i, want, have)
		}
	}
	rng := storage.SeekRange{Prefix: []byte(user), Backwards: q.Bwd}
	if q.Start != "" {
		rng.Start = []byte(q.Start)
	}
	if strings.HasPrefix(beh, "async") {
		ctx, cancel := context.WithCancel(context.Background())
		for e := range d.SeekAsync(ctx, daoID, rng) {
			got = append(got, kv{string(e.Key), string(e.Value)})
			nested()
		}
		cancel()
	} else {
		d.Seek(daoID, rng, func(k, v []byte) bool {
			got = append(got, kv{string(k), string(v)})
			nested()
			return true
		})
	}
	b.judge(api, t, q, 0, 0, true, false, got, false)
	if badRead != "" {
		b.fail("mismatch", api+":nested-read", t, flagsOf(q, 0, t, 0, true), q.String(), "current value", badRead, "")
	}
}

// daoSeekWriting: callbacks that write through the same DAO while the scan is
// running. Writes to another contract or to keys of the scanned contract outside
// the range: the delivered sequence must be exactly the reference computed from
// the content at Seek start. Writes inside the scanned range: only the keys
// that were not touched are judged (each exactly once, in order, right value);
// nothing may be delivered twice. The writes are real: the model's top layer
// follows them, which is why this runs last.
func (b *battery) daoSeekWriting(t int) {
	sc, m := b.sc, b.m
	d := b.s.daos[t-1]
	users := sc.UserPfx
	if len(users) > 2 {
		users = users[:2]
	}
	for _, user := range users {
		var outside, inside []string
		for _, s := range append(append([]string{}, sc.Suffixes...), "\x01", "\x01x", user+"\x7fnew") {
			if strings.HasPrefix(s, user) {
				inside = append(inside, s)
			} else {
				outside = append(outside, s)
			}
		}
		for _, bw := range []bool{false, true} {
			for _, beh := range []string{"put-other", "delete-other", "put-outside-range", "delete-outside-range", "put-inside-range", "delete-inside-range"} {
				pool := otherKeys
				base, id := baseS2, int32(otherID)
				switch beh {
				case "put-outside-range", "delete-outside-range":
					pool, base, id = outside, sc.Base, daoID
				case "put-inside-range", "delete-inside-range":
					pool, base, id = inside, sc.Base, daoID
				}
				if len(pool) == 0 {
					continue
				}
				q := rangeQ{sc.Base + user, "", bw}
				api := "dao.seek[" + beh + "]"
				flags := flagsOf(q, 0, t, 0, true)
				b.cur = func() (string, int, string, string) { return api, t, q.String(), flags }
				b.views = nil
				sv, _ := b.sortedView(t, 0)
				full := append([]kv{}, expectSorted(sv, q, nil)...)
				var got []kv
				touched := map[string]bool{}
				var wrote []string
				d.Seek(daoID, storage.SeekRange{Prefix: []byte(user), Backwards: bw}, func(k, v []byte) bool {
					got = append(got, kv{sc.Base + user + string(k), string(v)})
					i := len(got) - 1
					key := pool[i%len(pool)]
					touched[base+key] = true
					if strings.HasPrefix(beh, "put") {
						val := vals[i%2]
						d.PutStorageItem(id, []byte(key), val)
						m.ly[t-1][base+key] = val
						wrote = append(wrote, fmt.Sprintf("#%d Put(%d,%q,%s)", i, id, key, valNames[i%2]))
					} else {
						d.DeleteStorageItem(id, []byte(key))
						m.ly[t-1][base+key] = nil
						wrote = append(wrote, fmt.Sprintf("#%d Delete(%d,%q)", i, id, key))
					}
					return true
				})
				b.views = nil
				b.nq++
				b.count(api, len(got))
				want, have := full, got
				if strings.HasSuffix(beh, "inside-range") {
					want, have = nil, nil
					for _, e := range full {
						if !touched[e.K] {
							want = append(want, e)
						}
					}
					seen := map[string]bool{}
					for _, e := range got {
						if seen[e.K] {
							b.fail("duplicate", api, t, flags, q.String()+" callback writes: "+strings.Join(wrote, " "), "every key at most once", kvsStr(got), "")
						}
						seen[e.K] = true
						if !touched[e.K] {
							have = append(have, e)
						}
					}
				}
				if !matches(have, want, 0, 0, false) {
					b.fail("mismatch", api, t, flags, q.String()+" callback writes: "+strings.Join(wrote, " "), kvsStr(want), kvsStr(have), "")
				}
			}
		}
	}
}

func getStr(v []byte, err error) string {
	if err != nil {
		return err.Error()
	}
	return valName(v)
}

// ---- System.Storage.Find through the real interop --------------------------------

type findOpt struct {
	name string
	opts int64
}

var findOpts = []findOpt{
	{"None", istorage.FindDefault},
	{"KeysOnly", istorage.FindKeysOnly},
	{"RemovePrefix", istorage.FindRemovePrefix},
	{"KeysOnly|RemovePrefix", istorage.FindKeysOnly | istorage.FindRemovePrefix},
	{"ValuesOnly", istorage.FindValuesOnly},
	{"DeserializeValues", istorage.FindDeserialize},
	{"DeserializeValues|ValuesOnly", istorage.FindDeserialize | istorage.FindValuesOnly},
	{"DeserializeValues|PickField0", istorage.FindDeserialize | istorage.FindPick0},
	{"DeserializeValues|PickField1|ValuesOnly", istorage.FindDeserialize | istorage.FindPick1 | istorage.FindValuesOnly},
	{"DeserializeValues|PickField1|RemovePrefix", istorage.FindDeserialize | istorage.FindPick1 | istorage.FindRemovePrefix},
}

func itemStr(it stackitem.Item) string {
	switch v := it.(type) {
	case *stackitem.ByteArray:
		return fmt.Sprintf("B:%x", v.Value().([]byte))
	case *stackitem.Buffer:
		return fmt.Sprintf("U:%x", v.Value().([]byte))
	case *stackitem.Struct:
		var p []string
		for _, e := range v.Value().([]stackitem.Item) {
			p = append(p, itemStr(e))
		}
		return "S[" + strings.Join(p, ",") + "]"
	case *stackitem.Array:
		var p []string
		for _, e := range v.Value().([]stackitem.Item) {
			p = append(p, itemStr(e))
		}
		return "A[" + strings.Join(p, ",") + "]"
	}
	return fmt.Sprintf("%T:%v", it, it.Value())
}

// wantFind renders what the documented options make of one key/value pair.
func wantFind(user string, e kv, opts int64) (string, bool) {
	key := e.K[len(baseS):]
	if opts&istorage.FindRemovePrefix != 0 {
		key = key[len(user):]
	}
	ks := fmt.Sprintf("B:%x", key)
	if opts&istorage.FindKeysOnly != 0 {
		return ks, true
	}
	vs := fmt.Sprintf("B:%x", e.V)
	if opts&istorage.FindDeserialize != 0 {
		i := valIndex([]byte(e.V))
		if i < 0 || valDeser[i][0] == "" {
			return "", false // not deserializable: the option is not applicable to this result
		}
		vs = valDeser[i][0]
		if opts&istorage.FindPick0 != 0 {
			vs = valDeser[i][1]
		} else if opts&istorage.FindPick1 != 0 {
			vs = valDeser[i][2]
		}
	}
	if opts&istorage.FindValuesOnly != 0 {
		return vs, true
	}
	return "S[" + ks + "," + vs + "]", true
}

func (b *battery) find(t int) {
	sc := b.sc
	d := b.s.daos[t-1]
	ic := newIC(d)
	b.ic = ic
	sv, _ := b.sortedView(t, 0)
	for ui, user := range sc.UserPfx {
		for _, bw := range []bool{false, true} {
			q := rangeQ{sc.Base + user, "", bw}
			exp := expectSorted(sv, q, nil)
			for oi, fo := range findOpts {
				if ui > 0 && oi != 0 && oi != 3 {
					continue // the option matrix runs on the whole-contract prefix; other prefixes: None and KeysOnly|RemovePrefix
				}
				opts := fo.opts
				if bw {
					opts |= istorage.FindBackwards
				}
				var want []string
				applicable := true
				for _, e := range exp {
					w, ok := wantFind(user, e, opts)
					if !ok {
						applicable = false
						break
					}
					want = append(want, w)
				}
				if !applicable {
					b.out["find->skipped(undeserializable value in range)"]++
					continue
				}
				stops := []int{0}
				if oi == 0 {
					stops = []int{0, 1}
				}
				// round 2: the prefix item is a ByteString, or (non-empty prefixes) a Buffer
				// whose bytes the caller overwrites after Find returned / after the first
				// Value; every returned item is rendered when it is handed out AND again
				// after the iteration and Finalize: both must be the reference.
				ptypes := []string{""}
				if user != "" {
					ptypes = []string{"", ",prefix-buffer-reused"}
				}
				for _, stop := range stops {
					for pi, ptype := range ptypes {
						flags := "fwd," + fo.name
						if bw {
							flags = "bwd," + fo.name
						}
						if stop > 0 {
							flags += ",stop"
						}
						flags += ptype
						query := fmt.Sprintf("Find(id=%d, prefix=%q, %s)", daoID, user, flags)
						b.cur = func() (string, int, string, string) { return "find", t, query, flags }
						ic.VM.Estack().PushVal(opts)
						var pbuf []byte
						if pi == 0 {
							ic.VM.Estack().PushVal([]byte(user))
						} else {
							pbuf = []byte(user)
							ic.VM.Estack().PushItem(stackitem.NewBuffer(pbuf))
						}
						reuseAfterFirst := pi == 1 && (oi+stop)%2 == 1
						if pi == 1 {
							b.out[fmt.Sprintf("find:prefix-buffer-reused(after-first-value=%v)", reuseAfterFirst)]++
						}
						b.nq++
						var err error
						if oi%2 == 1 { // System.Storage.Local.Find: the context comes from the executing contract
							err = istorage.LocalFind(ic)
						} else {
							ic.VM.Estack().PushVal(stackitem.NewInterop(&istorage.Context{ID: daoID}))
							err = istorage.Find(ic)
						}
						if err != nil {
							b.fail("error", "find", t, flags, query, "iterator", err.Error(), "")
							continue
						}
						if pi == 1 && !reuseAfterFirst {
							overwrite(pbuf, "inc")
						}
						it := ic.VM.Estack().Pop().Item()
						var got []string
						var items []stackitem.Item
						for {
							ic.VM.Estack().PushVal(it)
							_ = iterator.Next(ic)
							if !ic.VM.Estack().Pop().Bool() {
								break
							}
							ic.VM.Estack().PushVal(it)
							_ = iterator.Value(ic)
							items = append(items, ic.VM.Estack().Pop().Item())
							got = append(got, itemStr(items[len(items)-1]))
							if reuseAfterFirst && len(got) == 1 {
								overwrite(pbuf, "inc")
							}
							if stop > 0 && len(got) == stop {
								break
							}
						}
						ic.Finalize()
						late := make([]string, len(items))
						for i, x := range items {
							late[i] = itemStr(x)
						}
						w := want
						if stop > 0 && len(w) > stop {
							w = w[:stop]
						}
						b.count("find", len(got))
						if strings.Join(got, " ") != strings.Join(w, " ") {
							known := ""
							if dropMatch(len(got), len(want), func(gi, fi int) bool { return got[gi] == want[fi] },
								func(fi int) bool { return isCand(exp, fi, q.Prefix) }, stop > 0 && len(got) == stop) {
								known = "cutprefix-skip:lower-key-equals-trimmed-cache-key"
							}
							b.fail("mismatch", "find", t, flags, query, "["+strings.Join(w, " ")+"]", "["+strings.Join(got, " ")+"]", known)
						} else if strings.Join(late, " ") != strings.Join(w, " ") {
							b.fail("mismatch", "find:item-changed-after-it-was-returned", t, flags, query, "["+strings.Join(w, " ")+"]", "["+strings.Join(late, " ")+"]", "")
						}
					}
				}
			}
		}
	}
	b.ic = nil
}
