package c09

import (
	"crypto/md5"
	"encoding/json"
	"fmt"
	"os"
	"sort"
	"strings"
	"sync"
	"testing"
	"time"

	"github.com/nspcc-dev/neo-go/pkg/core/storage"
	"github.com/nspcc-dev/neo-go/pkg/core/storage/dbconfig"

	"verif/lib/vk"
)

// ---- exploration plan --------------------------------------------------------------

// family is one set of stacks explored to one depth.
type family struct {
	Name        string
	Shapes      []string // bottom layer first; r = NewMemCachedStore/GetWrapped, p = NewPrivateMemCachedStore/GetPrivate
	Backends    []string
	Scens       []string // scenario names, nil = all
	Depth       int
	NKeys       int
	NVals       int
	LowerWrites bool
	Reopen      bool // alphabet includes closing the stack and reopening the database
}

var allBackends = []string{"mem", "bolt", "level"}

var (
	scS   = []string{"S/chain", "S/sibling", "S/ffmid", "S/fftop", "S/dbl"}
	scM   = []string{"M/chain", "M/sibling", "M/ffmid", "M/fftop", "M/dbl"}
	scMix = []string{"S/chain", "S/sibling", "S/ffmid", "S/fftop", "S/dbl", "M/chain", "M/dbl"}
)

func plan(thorough bool) []family {
	disk := []string{"bolt", "level"}
	if !thorough {
		return []family{
			{Name: "1-layer/mem", Shapes: []string{"r", "p"}, Backends: []string{"mem"}, Depth: 3, NKeys: 3, NVals: 2, LowerWrites: true},
			{Name: "1-layer/disk", Shapes: []string{"r", "p"}, Backends: disk, Depth: 2, NKeys: 3, NVals: 2, LowerWrites: true},
			{Name: "1-layer/bolt-deep", Shapes: []string{"r"}, Backends: []string{"bolt"}, Scens: []string{"S/chain", "S/ffmid"}, Depth: 3, NKeys: 3, NVals: 2, LowerWrites: true},
			{Name: "1-layer/level-deep", Shapes: []string{"p"}, Backends: []string{"level"}, Scens: []string{"S/sibling", "M/dbl"}, Depth: 3, NKeys: 3, NVals: 2, LowerWrites: true},
			{Name: "2-layers", Shapes: []string{"rr", "rp", "pp", "pr"}, Backends: allBackends, Scens: scMix, Depth: 2, NKeys: 3, NVals: 2, LowerWrites: true},
			{Name: "3-layers", Shapes: []string{"rrr", "rpp"}, Backends: allBackends, Scens: []string{"S/chain", "S/sibling", "S/dbl", "M/ffmid", "M/fftop"}, Depth: 2, NKeys: 3, NVals: 2, LowerWrites: true},
			{Name: "read-only-backend", Shapes: []string{"r", "p", "rp"}, Backends: []string{"bolt-ro", "level-ro"}, Scens: []string{"S/chain", "M/dbl"}, Depth: 2, NKeys: 3, NVals: 2, LowerWrites: true},
			{Name: "restart", Shapes: []string{"r", "rp"}, Backends: []string{"bolt", "level"}, Scens: []string{"S/chain", "M/sibling"}, Depth: 2, NKeys: 3, NVals: 2, LowerWrites: true, Reopen: true},
			{Name: "3-layers/private-over-wrapped", Shapes: []string{"rrp"}, Backends: allBackends, Scens: []string{"S/chain", "S/sibling", "S/dbl"}, Depth: 1, NKeys: 3, NVals: 2, LowerWrites: true},
		}
	}
	return []family{
		{Name: "1-layer", Shapes: []string{"r", "p"}, Backends: allBackends, Depth: 4, NKeys: 3, NVals: 2, LowerWrites: true},
		{Name: "1-layer/4keys-3values", Shapes: []string{"r", "p"}, Backends: allBackends, Depth: 3, NKeys: 4, NVals: 3, LowerWrites: true},
		{Name: "2-layers", Shapes: []string{"rr", "rp", "pp", "pr"}, Backends: allBackends, Scens: scMix, Depth: 3, NKeys: 3, NVals: 2, LowerWrites: true},
		{Name: "2-layers/M", Shapes: []string{"rr", "rp", "pp", "pr"}, Backends: allBackends, Scens: scM, Depth: 2, NKeys: 3, NVals: 2, LowerWrites: true},
		{Name: "3-layers", Shapes: []string{"rrr", "rrp", "rpr", "rpp", "prr", "prp", "ppr", "ppp"}, Backends: allBackends, Depth: 2, NKeys: 3, NVals: 2, LowerWrites: true},
		{Name: "3-layers/deep", Shapes: []string{"rrr", "rpp"}, Backends: allBackends, Scens: scMix, Depth: 3, NKeys: 2, NVals: 2, LowerWrites: true},
		{Name: "4-layers", Shapes: []string{"rrrr", "rrpp", "rppp", "pppp"}, Backends: allBackends, Scens: scMix, Depth: 2, NKeys: 3, NVals: 2, LowerWrites: true},
		{Name: "read-only-backend", Shapes: []string{"r", "p", "rp", "pp"}, Backends: []string{"bolt-ro", "level-ro"}, Scens: scMix, Depth: 3, NKeys: 3, NVals: 2, LowerWrites: true},
		{Name: "restart", Shapes: []string{"r", "p", "rp", "rr"}, Backends: []string{"bolt", "level"}, Scens: scMix, Depth: 3, NKeys: 3, NVals: 2, LowerWrites: true, Reopen: true},
	}
}

// stackCase is one concrete stack + scenario + alphabet.
type stackCase struct {
	idx     int
	fam     *family
	sc      *scen
	backend string
	shape   string
	ops     []op
	depth   int
}

func (c *stackCase) name() string { return c.backend + "/" + c.shape + "/" + c.sc.Name }

func buildCases(fams []family) []*stackCase {
	var out []*stackCase
	byKey := map[string]*stackCase{}
	scCache := map[int][]*scen{}
	for fi := range fams {
		f := &fams[fi]
		if scCache[f.NKeys] == nil {
			scCache[f.NKeys] = buildScenarios(f.NKeys)
		}
		for _, shape := range f.Shapes {
			for _, sc := range scCache[f.NKeys] {
				if f.Scens != nil && !contains(f.Scens, sc.Name) {
					continue
				}
				for _, be := range f.Backends {
					key := fmt.Sprintf("%s/%s/%s/%d/%d/%v/%v", be, shape, sc.Name, f.NKeys, f.NVals, f.LowerWrites, f.Reopen)
					if c := byKey[key]; c != nil { // the same stack in two families: explore it once, to the greater depth
						if f.Depth > c.depth {
							c.depth, c.fam = f.Depth, f
						}
						continue
					}
					c := &stackCase{idx: len(out), fam: f, sc: sc, backend: be, shape: shape, ops: alphabet(sc, shape, f.NVals, f.LowerWrites, f.Reopen), depth: f.Depth}
					byKey[key] = c
					out = append(out, c)
				}
			}
		}
	}
	return out
}

func contains(l []string, s string) bool {
	for _, x := range l {
		if x == s {
			return true
		}
	}
	return false
}

// ---- recorded case ----------------------------------------------------------------

type caseRec struct {
	Family      string   `json:"family"`
	Backend     string   `json:"backend"`
	Shape       string   `json:"layers_bottom_first"`
	Scenario    string   `json:"scenario"`
	NKeys       int      `json:"nkeys"`
	NVals       int      `json:"nvals"`
	LowerWrites bool     `json:"lower_writes"`
	Reopen      bool     `json:"reopen_op,omitempty"`
	Keys        []string `json:"keys,omitempty"`
	Ops         []string `json:"ops"`
	OpIdx       []int    `json:"op_idx"`
	State       []string `json:"model_state,omitempty"`
	Fail        *failure `json:"failure,omitempty"`
	Occurrences int64    `json:"occurrences_in_run,omitempty"`
	order       string
}

func (c *stackCase) rec(seq []int, m *model, f *failure) caseRec {
	r := caseRec{Family: c.fam.Name, Backend: c.backend, Shape: c.shape, Scenario: c.sc.Name, NKeys: c.fam.NKeys, NVals: c.fam.NVals,
		LowerWrites: c.fam.LowerWrites, Reopen: c.fam.Reopen, OpIdx: append([]int{}, seq...), Fail: f}
	for _, k := range c.sc.Keys {
		r.Keys = append(r.Keys, fmt.Sprintf("%q", k))
	}
	for _, k := range seq {
		r.Ops = append(r.Ops, c.ops[k].Name)
	}
	if m != nil {
		r.State = m.describe()
	}
	return r
}

// collector keeps, per root-cause bucket, the smallest failing case (depth,
// then stack order, then operation order, then query order) and reports each
// bucket once, at the end of the depth phase in which it first appeared.
type collector struct {
	mu       sync.Mutex
	best     map[string]*caseRec
	count    map[string]int64
	reported map[string]bool
}

func (co *collector) add(c *stackCase, seq []int, m *model, f failure) {
	var ob strings.Builder
	fmt.Fprintf(&ob, "%02d/%05d/", len(seq), c.idx)
	for _, k := range seq {
		fmt.Fprintf(&ob, "%03d.", k)
	}
	fmt.Fprintf(&ob, "/%07d", f.ord)
	order := ob.String()
	co.mu.Lock()
	defer co.mu.Unlock()
	co.count[f.Cat]++
	if co.reported[f.Cat] {
		return
	}
	if b := co.best[f.Cat]; b == nil || order < b.order {
		r := c.rec(seq, m, &f)
		r.order = order
		co.best[f.Cat] = &r
	}
}

func (co *collector) flush(r *vk.Run) {
	co.mu.Lock()
	defer co.mu.Unlock()
	var cats []string
	for c := range co.best {
		if !co.reported[c] {
			cats = append(cats, c)
		}
	}
	sort.Strings(cats)
	for _, cat := range cats {
		co.reported[cat] = true
		rec := co.best[cat]
		rec.Occurrences = co.count[cat]
		key := cat
		if rec.Fail.Known == "" {
			key = fmt.Sprintf("%s:%s/%s/%s:%s:%s", cat, rec.Backend, rec.Shape, rec.Scenario, strings.Join(rec.Ops, ","), rec.Fail.Query)
		}
		r.Violation(key, *rec)
	}
}

// digest shortens a dedupe key (millions of them are kept in the thorough tier).
func digest(s string) string {
	h := md5.Sum([]byte(s))
	return string(h[:])
}

// ---- running one sequence ----------------------------------------------------------

type explorer struct {
	r        *vk.Run
	co       *collector
	envs     chan *env
	states   *vk.Set
	levels   *vk.Set
	nodes    vk.Counter
	fullB    vk.Counter
	queries  vk.Counter
	nontriv  vk.Counter
	opsRun   vk.Counter
	countMis vk.Counter
	outMu    sync.Mutex
	out      map[string]int
	famStat  map[string]*[3]int64 // nodes, full level batteries, queries
}

func (e *explorer) stat(f string, nodes, full, q int) {
	e.outMu.Lock()
	st := e.famStat[f]
	if st == nil {
		st = &[3]int64{}
		e.famStat[f] = st
	}
	st[0] += int64(nodes)
	st[1] += int64(full)
	st[2] += int64(q)
	e.outMu.Unlock()
}

// runSeq executes seq on a fresh real stack and on the model, then runs the
// query battery on the final state. It returns the failures found.
func (e *explorer) runSeq(en *env, c *stackCase, seq []int, forceFull bool, out map[string]int) ([]failure, *model) {
	sc := c.sc
	m := newModel(c.backend, c.shape, sc)
	var s *rstack
	var fails []failure
	func() {
		defer func() {
			if r := recover(); r != nil {
				fails = append(fails, failure{Cat: "panic:setup::" + c.backend, API: "setup", Query: "newStack", Want: "no panic", Got: fmt.Sprint(r)})
				en.drop(c.backend)
			}
		}()
		s = newStack(en, sc, c.backend, c.shape)
	}()
	if s == nil {
		return fails, m
	}
	for i, k := range seq {
		o := c.ops[k]
		res := s.apply(m, o)
		e.opsRun.Inc()
		applyModel(m, sc, o)
		kind := o.Name[:strings.IndexAny(o.Name+"(", "({")]
		if i == len(seq)-1 {
			out[kind+"->"+strings.SplitN(res, ":", 2)[0]]++
		}
		if !strings.HasPrefix(res, "ok") {
			if strings.HasPrefix(res, "persisted") {
				e.countMis.Inc()
				continue
			}
			kk := "error"
			if strings.HasPrefix(res, "panic") {
				kk = "panic"
				en.drop(c.backend)
			}
			fails = append(fails, failure{Cat: kk + ":op:" + kind + ":" + c.backend, API: "op", Query: o.Name, Want: "ok", Got: res})
			return fails, m
		}
	}
	// per level: the full battery runs the first time this level is seen over
	// these lower levels on this stack.
	fullLv := make([]bool, len(m.ly)+1)
	keys := m.levelKeys()
	for t := range fullLv {
		fullLv[t] = forceFull
		if e.levels.Add(digest(fmt.Sprintf("%d/%d/%s", c.idx, t, keys[t]))) {
			fullLv[t] = true
		}
	}
	if e.states.Add(digest(fmt.Sprintf("%d/%s", c.idx, keys[len(keys)-1]))) {
		live := 0
		for _, l := range m.ly {
			if len(l) > 0 {
				live++
			}
		}
		if live > 0 && len(m.be) > len(sc.BeInit) || live > 1 {
			e.nontriv.Inc()
		}
	}
	b := &battery{s: s, m: m, sc: sc, fullLv: fullLv, out: out, once: len(seq) == 0 && sc.Name == "S/chain" && !isRO(c.backend)}
	report := m
	if fullLv[len(fullLv)-1] && s.daos != nil && sc.Class == "S" {
		// the battery ends with Seek callbacks that write: report the state before them
		report = m.clone()
	}
	b.run()
	e.fullB.Add(b.nfull)
	e.stat(c.fam.Name, 1, b.nfull, b.nq)
	e.queries.Add(b.nq)
	for _, f := range b.fails {
		if strings.HasPrefix(f.Cat, "panic") {
			en.drop(c.backend)
		}
	}
	return append(fails, b.fails...), report
}

func (e *explorer) node(en *env, c *stackCase, seq []int, out map[string]int) {
	e.nodes.Inc()
	fails, m := e.runSeq(en, c, seq, false, out)
	for _, f := range fails {
		e.co.add(c, seq, m, f)
	}
	if len(seq) <= 2 && len(fails) == 0 {
		e.r.Sample(map[string]any{"stack": c.name(), "ops": c.rec(seq, nil, nil).Ops, "state": m.describe()})
	}
}

// enumerate all legal sequences of exactly `depth` operations that start with
// `first` (legality is decided on the model; it only depends on which layers
// are still alive).
func (e *explorer) enumerate(en *env, c *stackCase, depth int, first int, out map[string]int) {
	m0 := newModel(c.backend, c.shape, c.sc)
	var rec func(m *model, seq []int)
	rec = func(m *model, seq []int) {
		if e.r.Expired() {
			return
		}
		if len(seq) == depth {
			e.node(en, c, seq, out)
			return
		}
		for k, o := range c.ops {
			if len(seq) == 0 && k != first {
				continue
			}
			if !legal(m, o) {
				continue
			}
			// only layer liveness matters for legality: track it cheaply
			m2 := &model{beKind: m.beKind, be: m.be, ly: m.ly, kinds: m.kinds}
			if persistPops(m, o) {
				m2.ly = m.ly[:len(m.ly)-1]
				m2.kinds = m.kinds[:len(m.kinds)-1]
			}
			rec(m2, append(append([]int{}, seq...), k))
		}
	}
	rec(m0, nil)
}

func (e *explorer) mergeOut(out map[string]int) {
	e.outMu.Lock()
	for k, v := range out {
		e.out[k] += v
	}
	e.outMu.Unlock()
}

func TestCheck(t *testing.T) {
	vk.UseT(t)
	// the other parts of C09 (conc, concrace) run after this one: leave them room
	r := vk.Start("C09", "model_checking", 150*time.Second, 23*time.Minute)
	defer vk.CleanScratch()
	if r.Replay != "" {
		if isAliasReplay(r) {
			replayAlias(r)
			return
		}
		replay(r)
		return
	}
	if st, err := storage.NewStore(dbconfig.DBConfiguration{Type: "nosuchdb"}); err == nil || st != nil {
		r.Violation("newstore:unknown-type-accepted", fmt.Sprintf("NewStore(Type=nosuchdb) returned %T, %v", st, err))
	}
	fams := plan(r.Thorough())
	cases := buildCases(fams)
	e := &explorer{r: r, co: &collector{best: map[string]*caseRec{}, count: map[string]int64{}, reported: map[string]bool{}},
		states: vk.NewSet(), levels: vk.NewSet(), famStat: map[string]*[3]int64{}, out: map[string]int{}, envs: make(chan *env, r.Workers())}
	for i := 0; i < r.Workers(); i++ {
		e.envs <- newEnv()
	}
	// round 2: answers must not depend on memory the caller still owns (alias_*.go)
	alias := newAliasStats()
	if os.Getenv("C09_PHASE") != "noalias" { // development switch: skip the round-2 phase
		alias = runAlias(r, e.envs)
	}
	maxDepth := 0
	for _, f := range fams {
		if f.Depth > maxDepth {
			maxDepth = f.Depth
		}
	}
	type job struct {
		c     *stackCase
		first int
	}
	depthDone := map[string]int{}
	if os.Getenv("C09_PHASE") == "alias" { // development switch: only the round-2 phase
		maxDepth = -1
	}
	for depth := 0; depth <= maxDepth; depth++ {
		var jobs []job
		for _, c := range cases {
			if c.depth < depth {
				continue
			}
			if depth == 0 {
				jobs = append(jobs, job{c, -1})
				continue
			}
			m0 := newModel(c.backend, c.shape, c.sc)
			for k, o := range c.ops {
				if legal(m0, o) {
					jobs = append(jobs, job{c, k})
				}
			}
		}
		// big subtrees first within a phase would defeat "simplest first"; keep order.
		done := r.Parallel(len(jobs), func(i int) {
			en := <-e.envs
			defer func() { e.envs <- en }()
			out := map[string]int{}
			j := jobs[i]
			if j.first < 0 {
				e.node(en, j.c, nil, out)
			} else {
				e.enumerate(en, j.c, depth, j.first, out)
			}
			e.mergeOut(out)
		})
		e.co.flush(r)
		if done == len(jobs) && !r.IsCapped() {
			for _, f := range fams {
				if f.Depth >= depth {
					depthDone[f.Name] = depth
				}
			}
		}
		fmt.Printf("C09 depth %d: jobs=%d nodes=%d states=%d full_batteries=%d queries=%d elapsed=%.0fs\n", depth, len(jobs), e.nodes.Get(), e.states.Len(), e.fullB.Get(), e.queries.Get(), r.Elapsed())
		if r.Expired() || r.TooMany() {
			break
		}
	}
	close(e.envs)
	for en := range e.envs {
		en.close()
	}
	for k, v := range e.out {
		for i := 0; i < 1; i++ {
			_ = v
			r.Outcome(k)
		}
	}
	var famDesc []string
	for _, f := range fams {
		nops := 0
		for _, c := range cases {
			if c.fam.Name == f.Name && len(c.ops) > nops {
				nops = len(c.ops)
			}
		}
		nsc := len(f.Scens)
		if f.Scens == nil {
			nsc = len(buildScenarios(f.NKeys))
		}
		st := e.famStat[f.Name]
		if st == nil {
			st = &[3]int64{}
		}
		famDesc = append(famDesc, fmt.Sprintf("%s: shapes %v x backends %v x %d scenarios, %d keys, %d values, <=%d ops, all sequences of length <= %d (completed to %d): %d sequences run, %d full level batteries, %d queries",
			f.Name, f.Shapes, f.Backends, nsc, f.NKeys, f.NVals, nops, f.Depth, depthDone[f.Name], st[0], st[1], st[2]))
	}
	var scDesc []string
	for _, sc := range buildScenarios(4) {
		var ks []string
		for _, k := range sc.Keys {
			ks = append(ks, fmt.Sprintf("%q", k))
		}
		scDesc = append(scDesc, fmt.Sprintf("%s keys %s: %d ranges (+%d empty-prefix ranges on disk backends), %d Find prefixes", sc.Name, strings.Join(ks, " "), len(sc.Ranges), len(sc.BeRanges), len(sc.UserPfx)))
	}
	vk.CleanScratch()
	outc := map[string]int{}
	for k, v := range e.out {
		outc[k] = v
	}
	cov := map[string]any{
		"states":                        e.states.Len(),
		"transitions":                   int(e.opsRun.Get()),
		"traces_validated_against_impl": int(e.nodes.Get()),
		"evaluations":                   int(e.queries.Get()),
		"distinct_nontrivial":           int(e.nontriv.Get()),
		"rule":                          "every legal operation sequence up to the family depth on a fresh real stack; a state is distinct by stack + per-level content (values and tombstones); non-trivial = pending entries in a cache layer over a non-initial backend, or in two cache layers at once",
		"full_batteries":                int(e.fullB.Get()),
		"queries_compared":              int(e.queries.Get()),
		"stack_scenario_combinations":   len(cases),
		"families":                      famDesc,
		"scenarios_4keys":               scDesc,
		"query_outcome_counts":          outc,
		"persist_count_differs":         int(e.countMis.Get()),
		"root_cause_occurrences":        e.co.count,
	}
	alias.coverage(cov)
	r.Finish(cov, []string{
		"reference = one Go map per level; Seek semantics are those of SeekRange's doc comment (forwards: keys >= Prefix+Start, backwards: keys <= Prefix+Start, within Prefix); SearchDepth k = net effect of the top k cache layers, 0 or k > layers = everything",
		"every model state of a stack gets the full battery once (first time it is reached, by the shortest sequences); later visits of the same state run point reads of every key and whole-class scans on every level",
		"cache layers are queried with non-empty prefixes only (documented restriction); the empty prefix is used on BoltDB/LevelDB directly",
		"a private layer is flushed only while it is the top layer and is not used afterwards (documented: closed after Persist)",
		"disk backends are real files under /dev/shm, opened once per worker and emptied between cases; replay uses freshly created files",
		"a cancelled SeekAsync may deliver further results: they must continue the expected sequence",
		"the count returned by Persist is recorded, not judged; SeekAsync on non-top layers only without Start; values are not mutated through returned slices",
		"round 2 (alias_*.go): a caller may reuse the memory it passed in (Find prefix Buffer, SeekAsync/dao.Seek range slices, Put key/value) as soon as the call has returned; the caller's overwrite of SeekAsync arguments is placed deterministically by a hook store between backend and layers (when the scan goroutine enters the lower store's Seek, or after its 1st/2nd pair) - each is a legal moment for a caller holding the returned channel; a synchronous Store.Seek may keep reading its range while it runs (only dao.Seek's user prefix is overwritten inside the callback)",
		"round 2: stack items returned by Iterator.Value and pairs delivered by SeekAsync are read again after the scan is over (and after Finalize) and must still be the reference; reading one position twice gives two independent items",
		"round 2: a scan whose range is written during the iteration (not documented as a snapshot) is judged on the untouched keys only (each once, in order, right value; the touched key at most once); the following scan is judged exactly",
		"PutChangeSet keeps the maps' value slices by design (bulk hand-over used by Persist): not part of the reuse oracle",
		"round 3 (late_test.go, early-action scripts): SeekAsync / dao.SeekAsync / System.Storage.Find answer for the content the scanned layer had when the call RETURNED (the layer's snapshot is taken synchronously by design: prepareSeekMemSnapshot's doc comment); writes to that layer, its Persist and the reuse of the argument slices between the return and the first receive / Next change nothing. Only writes to the scanned layer itself are judged: lower layers are snapshotted when the goroutine reaches them (a write below after the call is counted, not judged); write + Persist between call and lower scan is the open finding seek-not-atomic and is not produced here (one action per case)",
		"round 3: Persist of a private layer that sits on another PRIVATE layer is not combined with a running scan (the flush writes the lower layer's maps unlocked while the scan goroutine may read them; private layers are documented as single-threaded)",
	})
}

// ---- replay -------------------------------------------------------------------------

func replay(r *vk.Run) {
	var c caseRec
	if err := r.ReadReplay(&c); err != nil {
		fmt.Println("cannot read replay:", err)
		r.Finish(map[string]any{"states": 1, "transitions": 1, "traces_validated_against_impl": 0}, nil)
	}
	fam := family{Name: c.Family, Shapes: []string{c.Shape}, Backends: []string{c.Backend}, Scens: []string{c.Scenario}, Depth: len(c.OpIdx), NKeys: c.NKeys, NVals: c.NVals, LowerWrites: c.LowerWrites, Reopen: c.Reopen}
	cases := buildCases([]family{fam})
	if len(cases) != 1 {
		fmt.Println("replay: cannot rebuild the stack")
		r.Finish(map[string]any{"states": 1, "transitions": 1, "traces_validated_against_impl": 0}, nil)
	}
	sc := cases[0]
	e := &explorer{r: r, co: &collector{best: map[string]*caseRec{}, count: map[string]int64{}, reported: map[string]bool{}}, states: vk.NewSet(), levels: vk.NewSet(), famStat: map[string]*[3]int64{}, out: map[string]int{}}
	seen := map[string]int{}
	for i := 0; i < 5; i++ {
		en := newEnv() // fresh database files every time
		fails, _ := e.runSeq(en, sc, c.OpIdx, true, map[string]int{})
		en.close()
		hit := "clean"
		for _, f := range fails {
			if c.Fail != nil && f.Cat == c.Fail.Cat && f.Query == c.Fail.Query && f.Level == c.Fail.Level {
				hit = fmt.Sprintf("reproduced: %s level=%d %s want=%s got=%s", f.API, f.Level, f.Query, f.Want, f.Got)
			}
		}
		if hit == "clean" && len(fails) > 0 {
			hit = fmt.Sprintf("other failures (%d), first: %s %s", len(fails), fails[0].Cat, fails[0].Query)
		}
		seen[hit]++
		for _, f := range fails {
			e.co.add(sc, c.OpIdx, nil, f)
		}
	}
	b, _ := json.Marshal(c.Ops)
	fmt.Printf("replayed %s/%s/%s %s 5x:\n", c.Backend, c.Shape, c.Scenario, b)
	for k, v := range seen {
		fmt.Printf("  %dx %s\n", v, k)
	}
	e.co.flush(r)
	vk.CleanScratch()
	r.Finish(map[string]any{"states": 1, "transitions": 5 * len(c.OpIdx), "traces_validated_against_impl": 5}, nil)
}
