// C09, concurrent half: the real storage.MemCachedStore / MemoryStore code
// (built with the storage overlay: package sync goes through verif/shim/vsync)
// under the controlled scheduler; the history of every schedule up to the
// preemption bound is checked for linearizability with porcupine.
package conc

import (
	"testing"
	"time"

	"verif/checks/c09/conch"
	"verif/lib/sched"
	"verif/lib/vk"
)

func configs() []*sched.Config {
	var cfgs []*sched.Config
	for _, sc := range conch.Scenarios() {
		sc := sc
		cfgs = append(cfgs, &sched.Config{Name: sc.Name, Body: func(r *sched.Run) { conch.Run(sc, r) }})
	}
	return cfgs
}

func TestCheck(t *testing.T) {
	vk.UseT(t)
	cfgs := configs()
	sched.WorkerMain(cfgs)
	r := vk.Start("C09", "model_checking", 150*time.Second, 18*time.Minute)
	sched.RunCheck(r, cfgs, sched.CheckOpts{
		MaxBound:  vk.Pick(r, 3, 4),
		JobMillis: vk.Pick(r, 1500, 4000),
		What:      "all schedules of Persist + reader (Get, Seek, SeekAsync) + writer (Put, Delete, PutChangeSet) threads on one shared MemCachedStore up to the preemption bound; every history checked for linearizability (porcupine v1.3.0) against an ordered map (Seek = atomic range read, SeekAsync = atomic range read within the SeekAsync CALL, PutChangeSet = atomic multi-write, Persist = no-op)",
		Assumptions: []string{
			"cooperative scheduling: interleavings are explored at mutex operations only (the package has no other synchronisation); unsynchronised accesses are covered by the separate -race part",
			"only combinations the doc comments allow: shared (non-private) MemCachedStore, any of Get/Put/Delete/PutChangeSet/Seek concurrent with Persist, concurrent Persist calls (plock)",
			"SeekAsync (round 3): the overlay turns its go statement into a logical thread, so the scan goroutine is schedule-explored (start, lock operations of the lower store); its unbuffered result channel stays a real channel and is drained by a free-running helper goroutine that touches nothing of the subject, so receives are no scheduling points. The operation of the history is the SeekAsync call (the layer's own content is fixed when it returns); for the per-key reading every key is read between the call and the end of the drain. A scan whose result no single moment of its call explains is reported as scan-not-for-the-moment-of-the-call:* when the scenario has no write+flush pair (the only known way into the lower store, key seek-not-atomic:*)",
			"RWMutex writer preference is not modelled",
		},
	})
}
