// C09, concurrent half: the real storage.MemCachedStore / MemoryStore code
// (built with the storage overlay: package sync goes through verif/shim/vsync)
// under the controlled scheduler; the history of every schedule up to the
// preemption bound is checked for linearizability with porcupine.
package conc

import (
	"testing"
	"time"

	"verif/checks/c09/conch"
	"verif/lib/sched"
	"verif/lib/vk"
)

func configs() []*sched.Config {
	var cfgs []*sched.Config
	for _, sc := range conch.Scenarios() {
		sc := sc
		cfgs = append(cfgs, &sched.Config{Name: sc.Name, MaxBound: sc.MaxBound, Body: func(r *sched.Run) { conch.Run(sc, r) }})
	}
	return cfgs
}

// ppCounters: what the round 4 family (PersistPrivate as a thread body) consists of.
func ppCounters() map[string]any {
	n, calls, layers, empty, viaDAO, mixed, twoLayer, flushing := 0, 0, 0, 0, 0, 0, 0, 0
	for _, sc := range conch.Scenarios() {
		has, fl := false, false
		for _, ops := range sc.Threads {
			for _, o := range ops {
				switch o.Kind {
				case "pp":
					has = true
					calls++
					layers += len(o.Privs)
					for _, l := range o.Privs {
						if len(l) == 0 {
							empty++
						}
					}
				case "persist", "persist2":
					fl = true
				}
			}
		}
		if fl {
			flushing++
		}
		if !has {
			continue
		}
		n++
		if sc.ViaDAO {
			viaDAO++
		}
		if sc.Class2 != 0 {
			mixed++
		}
		if sc.Layers == 2 {
			twoLayer++
		}
	}
	return map[string]any{
		"r4_family":                         "persist-private (scenarios pp-*, pp3-*: schedules and distinct observations of each in per_config_at_last_bound)",
		"r4_pp_scenarios":                   n,
		"r4_pp_calls":                       calls,
		"r4_pp_private_layers":              layers,
		"r4_pp_empty_private_layers":        empty,
		"r4_pp_scenarios_via_dao":           viaDAO,
		"r4_pp_scenarios_both_key_classes":  mixed,
		"r4_pp_scenarios_two_shared_layers": twoLayer,
		"r4_scenarios_with_flush_oracle":    flushing,
		"r4_oracles":                        "flush-not-a-batch-boundary (third porcupine model over writes + what the hook stores below the shared layers received), flush-outside-persist",
	}
}

func TestCheck(t *testing.T) {
	vk.UseT(t)
	cfgs := configs()
	sched.WorkerMain(cfgs)
	r := vk.Start("C09", "model_checking", 150*time.Second, 18*time.Minute)
	sched.RunCheck(r, cfgs, sched.CheckOpts{
		MaxBound:  vk.Pick(r, 3, 4),
		JobMillis: vk.Pick(r, 1500, 4000),
		Extra:     ppCounters(),
		What:      "all schedules of Persist + reader (Get, Seek, SeekAsync) + writer (Put, Delete, PutChangeSet, PersistPrivate of 1-3 private layers) threads on one shared MemCachedStore up to the preemption bound; every history checked for linearizability (porcupine v1.3.0) against an ordered map (Seek = atomic range read, SeekAsync = atomic range read within the SeekAsync CALL, PutChangeSet = atomic multi-write, PersistPrivate(p1, p2, ...) = ONE atomic multi-write, Persist = no-op) and, for what reaches the lower stores, against the set of unflushed changes (a Persist hands down exactly the layer's set of one moment)",
		Assumptions: []string{
			"cooperative scheduling: interleavings are explored at mutex operations only (the package has no other synchronisation); unsynchronised accesses are covered by the separate -race part",
			"only combinations the doc comments allow: shared (non-private) MemCachedStore, any of Get/Put/Delete/PutChangeSet/Seek concurrent with Persist, concurrent Persist calls (plock)",
			"SeekAsync (round 3): the overlay turns its go statement into a logical thread, so the scan goroutine is schedule-explored (start, lock operations of the lower store); its unbuffered result channel stays a real channel and is drained by a free-running helper goroutine that touches nothing of the subject, so receives are no scheduling points. The operation of the history is the SeekAsync call (the layer's own content is fixed when it returns); for the per-key reading every key is read between the call and the end of the drain. A scan whose result no single moment of its call explains is reported as scan-not-for-the-moment-of-the-call:* when the scenario has no write+flush pair (the only known way into the lower store, key seek-not-atomic:*)",
			"RWMutex writer preference is not modelled",
			"round 4, PersistPrivate: the private layers are created over the shared layer and filled by the publishing thread itself right before the call (a private layer has no locks, so this adds no scheduling points); the count PersistPrivate returns is not judged. Scenarios pp-dao*: the shared layer is dao.NewSimple(...).Store, the private layers dao.GetPrivate(), published by dao.Simple.PersistPrivate - dao's own nativeCacheLock stays a REAL lock under this overlay, which is sound only because a single thread of the scenario ever takes it",
			"round 4: the thorough-only scenario pp3-two-layers-mixed (5 threads, two shared layers, both key classes) is explored up to preemption bound 3, all others up to the tier's bound",
			"round 4, flush oracle: a recording hook store (no synchronisation towards the subject) sits below every shared layer; a changeset is attributed to the Persist in progress on the goroutine that delivers it (Persist calls the lower PutChangeSet synchronously). A Persist is judged as two events: capture (call .. entry of the lower PutChangeSet) must equal the layer's unflushed set of one moment with every PutChangeSet / PersistPrivate applied as a whole; delivery (the lower PutChangeSet call) adds it to the middle layer's set in two-layer stacks. Reads are not part of this model (they keep their own two)",
		},
	})
}
