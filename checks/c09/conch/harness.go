// Package conch is the C09 concurrent harness: threads on one shared
// storage.MemCachedStore (over a MemoryStore, optionally over a second shared
// MemCachedStore layer): Persist, a reader (Get + Seek over colliding keys)
// and a writer (Put, Delete, PutChangeSet). The call/return history of every
// execution is checked for linearizability (porcupine) against an ordered-map
// model in which Seek is an atomic range read, PutChangeSet an atomic
// multi-write and Persist a no-op.
//
// Round 4: a thread body PersistPrivate(p1, p2[, p3]) - private layers over the
// shared layer under test, published as ONE batch (blockchain.go publishes a
// whole block with bc.dao.PersistPrivate(aerCache, cache)); in the model it is
// one atomic multi-write. Every PutChangeSet that reaches a lower store during
// the schedule is recorded by a hook store below every shared layer and judged
// by a second model: what a Persist hands down is exactly the set of changes
// the layer holds at ONE moment of the Persist call (a flushed batch contains
// a whole PutChangeSet / PersistPrivate or nothing of it).
//
// Used by checks/c09/conc (controlled scheduler, overlay build) and
// checks/c09/concrace (free-running under -race on the unmodified package).
//
// Concurrency contract exercised (doc comments of memcached_store.go): a
// non-private MemCachedStore "remains accessible for the most part" of
// Persist (any new changes are cached in memory), plock protects Persist from
// double entrance; private stores are single-threaded and are not used here.
package conch

import (
	"context"
	"errors"
	"fmt"
	"runtime"
	"sort"
	"strings"
	"sync"
	"sync/atomic"
	"time"

	"github.com/anishathalye/porcupine"
	"github.com/nspcc-dev/neo-go/pkg/core/dao"
	"github.com/nspcc-dev/neo-go/pkg/core/storage"

	"verif/lib/sched"
)

// Op is one store operation.
type Op struct {
	Kind  string            // get put del batch pp seek seekasync persist persist2
	Key   string            // get put del
	Val   string            // put
	Batch map[string]string // batch: value "" = delete
	// pp: PersistPrivate(privs...) - one private layer over the shared layer per
	// element, filled by the calling thread (value "" = delete, an empty map = an
	// empty private layer), then published with ONE PersistPrivate call.
	Privs []map[string]string
	Pfx   string // seek prefix (after the class byte)
	Start string
	Back  bool
}

func (o Op) String() string {
	switch o.Kind {
	case "get", "del":
		return fmt.Sprintf("%s(%s)", o.Kind, o.Key)
	case "put":
		return fmt.Sprintf("put(%s=%s)", o.Key, o.Val)
	case "batch":
		var ks []string
		for k, v := range o.Batch {
			if v == "" {
				v = "<del>"
			}
			ks = append(ks, k+"="+v)
		}
		sort.Strings(ks)
		return "batch{" + strings.Join(ks, ",") + "}"
	case "pp":
		var ls []string
		for _, l := range o.Privs {
			var ks []string
			for k, v := range l {
				if v == "" {
					v = "<del>"
				}
				ks = append(ks, k+"="+v)
			}
			sort.Strings(ks)
			ls = append(ls, "{"+strings.Join(ks, ",")+"}")
		}
		return "PersistPrivate(" + strings.Join(ls, ", ") + ")"
	case "seek", "seekasync":
		d := ""
		if o.Back {
			d = ",backwards"
		}
		return fmt.Sprintf("%s(%q,start=%q%s)", o.Kind, o.Pfx, o.Start, d)
	}
	return o.Kind
}

// Scenario is one configuration.
type Scenario struct {
	Name     string
	Class    byte              // first key byte: storage.STStorage (stor map) or another prefix (mem map)
	Class2   byte              // first key byte of the keys written "~..." in the scenario (0: none); the other map of the layer
	ViaDAO   bool              // the shared layer is dao.NewSimple(lower).Store, private layers are dao.GetPrivate(), published by dao.PersistPrivate (one pp thread at most: dao's own lock is a real one)
	Layers   int               // 1: S over MemoryStore; 2: S over shared MemCachedStore over MemoryStore
	Bottom   map[string]string // contents of the MemoryStore at start
	Middle   map[string]string // unflushed contents of the middle layer (Layers == 2)
	Top      map[string]string // unflushed contents of S at start ("" = tombstone)
	Threads  map[string][]Op   // thread name -> ops (run concurrently)
	Final    []Op              // ops of the main thread after the concurrent phase
	MaxBound int               // preemption bound of this scenario when smaller than the tier's (0: the tier's)
}

const nf = "<notfound>"

// writesAndFlushes: some thread writes to the layer and some thread flushes it.
func (sc *Scenario) writesAndFlushes() bool {
	w, f := false, false
	for _, ops := range sc.Threads {
		for _, o := range ops {
			switch o.Kind {
			case "put", "del", "batch", "pp":
				w = true
			case "persist", "persist2":
				f = true
			}
		}
	}
	return w && f
}

// ---- model -------------------------------------------------------------------------

type kv struct{ k, v string }

func parseState(s string) map[string]string {
	m := map[string]string{}
	if s == "" {
		return m
	}
	for _, p := range strings.Split(s, ";") {
		i := strings.IndexByte(p, '=')
		m[p[:i]] = p[i+1:]
	}
	return m
}

func serState(m map[string]string) string {
	ks := make([]string, 0, len(m))
	for k := range m {
		ks = append(ks, k)
	}
	sort.Strings(ks)
	for i, k := range ks {
		ks[i] = k + "=" + m[k]
	}
	return strings.Join(ks, ";")
}

// inRange: key k belongs to the range of the scan o. Keys written "~..." live
// in the second key class (another first byte): a scan never crosses classes.
func inRange(k string, o Op) bool {
	if strings.HasPrefix(k, "~") != strings.HasPrefix(o.Pfx, "~") || !strings.HasPrefix(k, o.Pfx) {
		return false
	}
	suf := k[len(o.Pfx):]
	if o.Start != "" && ((!o.Back && suf < o.Start) || (o.Back && suf > o.Start)) {
		return false
	}
	return true
}

func seekModel(m map[string]string, o Op) string {
	var ks []string
	for k := range m {
		if inRange(k, o) {
			ks = append(ks, k)
		}
	}
	sort.Strings(ks)
	if o.Back {
		for i, j := 0, len(ks)-1; i < j; i, j = i+1, j-1 {
			ks[i], ks[j] = ks[j], ks[i]
		}
	}
	for i, k := range ks {
		ks[i] = k + "=" + m[k]
	}
	return strings.Join(ks, ",")
}

// Model is the ordered-map specification.
func Model(init map[string]string) porcupine.Model {
	return porcupine.Model{
		Init: func() any { return serState(init) },
		Step: func(state, input, output any) (bool, any) {
			o := input.(Op)
			out := output.(string)
			switch o.Kind {
			case "persist", "persist2":
				return true, state
			case "get":
				m := parseState(state.(string))
				v, ok := m[o.Key]
				if !ok {
					v = nf
				}
				return v == out, state
			case "seek", "seekasync":
				return seekModel(parseState(state.(string)), o) == out, state
			case "put":
				m := parseState(state.(string))
				m[o.Key] = o.Val
				return true, serState(m)
			case "del":
				m := parseState(state.(string))
				delete(m, o.Key)
				return true, serState(m)
			case "batch":
				m := parseState(state.(string))
				for k, v := range o.Batch {
					if v == "" {
						delete(m, k)
					} else {
						m[k] = v
					}
				}
				return true, serState(m)
			case "pp": // ONE atomic multi-write: the layers in argument order
				m := parseState(state.(string))
				for _, l := range o.Privs {
					for k, v := range l {
						if v == "" {
							delete(m, k)
						} else {
							m[k] = v
						}
					}
				}
				return true, serState(m)
			}
			return false, state
		},
		DescribeOperation: func(in, out any) string { return fmt.Sprintf("%v -> %v", in, out) },
	}
}

// FlushModel is the specification of what reaches the lower stores: the state
// is the set of unflushed changes of the shared layer S and of the middle
// layer M, "" = tombstone. Writes add to S's set (a batch / PersistPrivate as a
// whole). A Persist is two events: "capture" (between its call and the moment
// the lower store's PutChangeSet is entered; the whole call when nothing is
// handed down) takes exactly the layer's set of ONE moment - its output, what
// the hook store below the layer recorded - and empties it; "deliver" (the
// lower PutChangeSet call itself, two-layer stacks only) adds that changeset to
// M's set.
func FlushModel(top, mid map[string]string) porcupine.Model {
	ser := func(t, m map[string]string) string { return serState(t) + "|" + serState(m) }
	return porcupine.Model{
		Init: func() any { return ser(top, mid) },
		Step: func(state, input, output any) (bool, any) {
			o := input.(Op)
			parts := strings.SplitN(state.(string), "|", 2)
			t, m := parseState(parts[0]), parseState(parts[1])
			switch o.Kind {
			case "put":
				t[o.Key] = o.Val
			case "del":
				t[o.Key] = ""
			case "batch":
				for k, v := range o.Batch {
					t[k] = v
				}
			case "pp":
				for _, l := range o.Privs {
					for k, v := range l {
						t[k] = v
					}
				}
			case "capture":
				if o.Key == "S" {
					if output.(string) != serState(t) {
						return false, state
					}
					t = map[string]string{}
				} else {
					if output.(string) != serState(m) {
						return false, state
					}
					m = map[string]string{}
				}
			case "deliver":
				for k, v := range o.Batch {
					m[k] = v
				}
			default:
				return false, state
			}
			return true, ser(t, m)
		},
		DescribeOperation: func(in, out any) string { return fmt.Sprintf("%v -> {%v}", in, out) },
	}
}

// ---- execution -----------------------------------------------------------------------

type rec struct {
	client int
	op     Op
	call   int64
	ret    int64
	out    string
	// seekasync: the moment the channel was known to be drained (the lower
	// store is read by the scan goroutine up to then); ret is the return of the
	// SeekAsync CALL - the layer's own content is fixed there.
	drained int64
	// persist / persist2: the changesets the hook store below the flushed layer
	// received during the call ("" = none), serialised like a model state
	flushed         string
	hookIn, hookOut int64 // clock at the entry / after the return of the lower store's PutChangeSet (0: not called)
}

// flushHook sits below a shared layer and records every changeset handed down.
type flushHook struct {
	storage.Store
	h     *harness
	layer string
}

func (f *flushHook) PutChangeSet(puts, stores map[string][]byte) error {
	c := f.h.noteFlush(f.layer, puts, stores)
	err := f.Store.PutChangeSet(puts, stores)
	if c != nil {
		c.out = f.h.clock.Add(1)
	}
	return err
}

// gid: id of the calling goroutine. Persist calls the lower store's PutChangeSet
// on its own goroutine, so the id attributes a recorded changeset to the persist
// operation in progress on that goroutine (in both modes: a logical thread of
// the scheduler is one goroutine for its whole life).
func gid() uint64 {
	var buf [64]byte
	n := runtime.Stack(buf[:], false)
	var id uint64
	for _, c := range buf[len("goroutine "):n] {
		if c < '0' || c > '9' {
			break
		}
		id = id*10 + uint64(c-'0')
	}
	return id
}

func (h *harness) noteFlush(layer string, puts, stores map[string][]byte) *capture {
	m := map[string]string{}
	for _, src := range []map[string][]byte{puts, stores} {
		for k, v := range src {
			m[h.unkey([]byte(k))] = string(v)
		}
	}
	h.mu.Lock()
	defer h.mu.Unlock()
	h.nflush++
	c := h.capt[gid()]
	if c == nil || c.layer != layer {
		h.stray = append(h.stray, layer+"{"+serState(m)+"}")
		return nil
	}
	c.sets = append(c.sets, serState(m))
	if c.in == 0 {
		c.in = h.clock.Add(2) - 1 // c.in: end of the capture event, c.in+1: start of the delivery
	}
	return c
}

type capture struct {
	layer   string
	sets    []string
	in, out int64
}

// asyncScan is a SeekAsync whose channel is being drained by a free-running
// helper goroutine (it only receives; it touches nothing of the subject).
type asyncScan struct {
	client int
	op     Op
	call   int64
	ret    int64
	res    []string
	done   chan struct{}
}

type harness struct {
	sc     *Scenario
	s      *storage.MemCachedStore
	mid    *storage.MemCachedStore
	clock  atomic.Int64
	mu     sync.Mutex
	hist   []rec
	univ   []string
	async  []*asyncScan
	d      *dao.Simple // ViaDAO
	capt   map[uint64]*capture
	stray  []string // changesets that reached a lower store outside a persist operation of that layer
	nflush int
}

// universe: every key the scenario mentions.
func (h *harness) universe() []string {
	if h.univ != nil {
		return h.univ
	}
	set := map[string]bool{}
	for _, m := range []map[string]string{h.sc.Bottom, h.sc.Middle, h.sc.Top} {
		for k := range m {
			set[k] = true
		}
	}
	add := func(ops []Op) {
		for _, o := range ops {
			if o.Key != "" {
				set[o.Key] = true
			}
			for k := range o.Batch {
				set[k] = true
			}
			for _, l := range o.Privs {
				for k := range l {
					set[k] = true
				}
			}
		}
	}
	for _, ops := range h.sc.Threads {
		add(ops)
	}
	add(h.sc.Final)
	for k := range set {
		h.univ = append(h.univ, k)
	}
	sort.Strings(h.univ)
	return h.univ
}

func (h *harness) key(k string) []byte {
	if strings.HasPrefix(k, "~") {
		if h.sc.Class2 == 0 || h.sc.Class2 == h.sc.Class {
			panic("scenario " + h.sc.Name + ": key " + k + " needs Class2")
		}
		return append([]byte{h.sc.Class2}, k[1:]...)
	}
	return append([]byte{h.sc.Class}, k...)
}

// unkey: the scenario's name of a store key.
func (h *harness) unkey(k []byte) string {
	if h.sc.Class2 != 0 && k[0] == h.sc.Class2 {
		return "~" + string(k[1:])
	}
	return string(k[1:])
}

func isStor(class byte) bool {
	return storage.KeyPrefix(class) == storage.STStorage || storage.KeyPrefix(class) == storage.STTempStorage
}

func (h *harness) changeSet(b map[string]string) (puts, stores map[string][]byte) {
	puts, stores = map[string][]byte{}, map[string][]byte{}
	for k, v := range b {
		m := puts
		if isStor(h.key(k)[0]) {
			m = stores
		}
		if v == "" {
			m[string(h.key(k))] = nil
		} else {
			m[string(h.key(k))] = []byte(v)
		}
	}
	return
}

func (h *harness) do(client int, o Op) {
	call := h.clock.Add(1)
	out, flushed := "", ""
	var hookIn, hookOut int64
	switch o.Kind {
	case "get":
		v, err := h.s.Get(h.key(o.Key))
		switch {
		case errors.Is(err, storage.ErrKeyNotFound):
			out = nf
		case err != nil:
			out = "error:" + err.Error()
		default:
			out = string(v)
		}
	case "put":
		h.s.Put(h.key(o.Key), []byte(o.Val))
	case "del":
		h.s.Delete(h.key(o.Key))
	case "batch":
		p, s := h.changeSet(o.Batch)
		if err := h.s.PutChangeSet(p, s); err != nil {
			out = "error:" + err.Error()
		}
	case "pp":
		if h.d != nil {
			ps := make([]*dao.Simple, len(o.Privs))
			for i, l := range o.Privs {
				ps[i] = h.d.GetPrivate()
				h.fill(ps[i].Store, l)
			}
			h.d.PersistPrivate(ps...)
		} else {
			ps := make([]*storage.MemCachedStore, len(o.Privs))
			for i, l := range o.Privs {
				ps[i] = storage.NewPrivateMemCachedStore(h.s)
				h.fill(ps[i], l)
			}
			h.s.PersistPrivate(ps...)
		}
	case "seek":
		var res []string
		h.s.Seek(storage.SeekRange{Prefix: h.key(o.Pfx), Start: []byte(o.Start), Backwards: o.Back}, func(k, v []byte) bool {
			res = append(res, h.unkey(k)+"="+string(v))
			return true
		})
		out = strings.Join(res, ",")
	case "seekasync":
		// The call is the event: SeekAsync snapshots the layer it is called on before it
		// returns; its goroutine (a logical thread of its own under the scheduler: the
		// overlay turns the go statement into sched.Go) scans the lower store later. The
		// unbuffered channel is real, so a free-running helper receives - the scan
		// goroutine never waits for a parked logical thread.
		ch := h.s.SeekAsync(context.Background(), storage.SeekRange{Prefix: h.key(o.Pfx), Start: []byte(o.Start), Backwards: o.Back}, false)
		a := &asyncScan{client: client, op: o, call: call, ret: h.clock.Add(1), done: make(chan struct{})}
		go func() {
			for e := range ch {
				a.res = append(a.res, h.unkey(e.Key)+"="+string(e.Value))
			}
			close(a.done)
		}()
		h.mu.Lock()
		h.async = append(h.async, a)
		h.mu.Unlock()
		return
	case "persist", "persist2":
		st, layer := h.s, "S"
		if o.Kind == "persist2" {
			st, layer = h.mid, "M"
		}
		g := gid()
		c := &capture{layer: layer}
		h.mu.Lock()
		h.capt[g] = c
		h.mu.Unlock()
		_, err := st.Persist()
		h.mu.Lock()
		delete(h.capt, g)
		h.mu.Unlock()
		if err != nil {
			out = "error:" + err.Error()
		}
		flushed = strings.Join(c.sets, " + ")
		hookIn, hookOut = c.in, c.out
	default:
		panic("bad op " + o.Kind)
	}
	ret := h.clock.Add(1)
	h.mu.Lock()
	h.hist = append(h.hist, rec{client: client, op: o, call: call, ret: ret, out: out, flushed: flushed, hookIn: hookIn, hookOut: hookOut})
	h.mu.Unlock()
}

// fill writes a private layer the way its owner does: Put / Delete (no locks on a private layer).
func (h *harness) fill(p *storage.MemCachedStore, l map[string]string) {
	for k, v := range l {
		if v == "" {
			p.Delete(h.key(k))
		} else {
			p.Put(h.key(k), []byte(v))
		}
	}
}

// Outcome of one run.
type Outcome struct {
	Fails []sched.Fail
	Obs   string
}

// Run executes the scenario once; r == nil: free-running.
func Run(sc *Scenario, r *sched.Run) *Outcome {
	h := &harness{sc: sc, capt: map[uint64]*capture{}}
	bottom := storage.NewMemoryStore()
	init := map[string]string{}
	load := func(st storage.Store, m map[string]string) {
		if len(m) == 0 {
			return
		}
		p, s := h.changeSet(m)
		_ = st.PutChangeSet(p, s)
		for k, v := range m {
			if v == "" {
				delete(init, k)
			} else {
				init[k] = v
			}
		}
	}
	load(bottom, sc.Bottom)
	// a recording hook below every shared layer (it has no synchronisation of its
	// own towards the subject: no scheduling point is added or removed)
	var lower storage.Store = &flushHook{Store: bottom, h: h, layer: "S"}
	if sc.Layers == 2 {
		h.mid = storage.NewMemCachedStore(&flushHook{Store: bottom, h: h, layer: "M"})
		load(h.mid, sc.Middle)
		lower = &flushHook{Store: h.mid, h: h, layer: "S"}
	}
	if sc.ViaDAO {
		h.d = dao.NewSimple(lower, false)
		h.s = h.d.Store
	} else {
		h.s = storage.NewMemCachedStore(lower)
	}
	load(h.s, sc.Top)

	out := &Outcome{}
	judge := func(end string) {
		h.mu.Lock()
		hist := append([]rec{}, h.hist...)
		h.mu.Unlock()
		ops := make([]porcupine.Operation, len(hist))
		for i, x := range hist {
			ops[i] = porcupine.Operation{ClientId: x.client, Input: x.op, Call: x.call, Output: x.out, Return: x.ret}
		}
		res := porcupine.CheckOperationsTimeout(Model(init), ops, 20*time.Second)
		// Weaker specification that is checked as well: Seek as a NON-atomic
		// scan, i.e. every key of the range is read atomically at some moment
		// of the call, but not all at the same moment (what a sequence of Gets
		// would give). A committed key missing or a stale value violates
		// already this one; only "half of a batch" needs the atomic one.
		var weak []porcupine.Operation
		orderOK := true
		for i, x := range hist {
			if x.op.Kind != "seek" && x.op.Kind != "seekasync" {
				weak = append(weak, ops[i])
				continue
			}
			wret := x.ret
			if x.op.Kind == "seekasync" {
				wret = x.drained
			}
			got := map[string]string{}
			prev := ""
			if x.out != "" {
				for j, p := range strings.Split(x.out, ",") {
					e := strings.IndexByte(p, '=')
					k := p[:e]
					got[k] = p[e+1:]
					if !strings.HasPrefix(k, x.op.Pfx) || (j > 0 && ((!x.op.Back && k <= prev) || (x.op.Back && k >= prev))) {
						orderOK = false
					}
					prev = k
				}
			}
			for j, k := range h.universe() {
				if !inRange(k, x.op) {
					continue
				}
				v, ok := got[k]
				if !ok {
					v = nf
				}
				weak = append(weak, porcupine.Operation{ClientId: 100 + 10*i + j, Input: Op{Kind: "get", Key: k}, Call: x.call, Output: v, Return: wret})
			}
			for k := range got {
				found := false
				for _, u := range h.universe() {
					if u == k {
						found = true
					}
				}
				if !found {
					orderOK = false
				}
			}
		}
		resWeak := porcupine.CheckOperationsTimeout(Model(init), weak, 20*time.Second)
		// Round 4, what reached the lower stores: writes and flushes only, the output
		// of a flush is what the hook below the layer recorded during the call.
		var fl []porcupine.Operation
		nPersist := 0
		for _, x := range hist {
			switch x.op.Kind {
			case "persist", "persist2":
				nPersist++
				layer := "S"
				if x.op.Kind == "persist2" {
					layer = "M"
				}
				capt := porcupine.Operation{ClientId: x.client, Input: Op{Kind: "capture", Key: layer}, Call: x.call, Output: x.flushed, Return: x.ret}
				if x.hookIn != 0 {
					capt.Return = x.hookIn
					if layer == "S" && sc.Layers == 2 && !strings.Contains(x.flushed, " + ") {
						fl = append(fl, porcupine.Operation{ClientId: 50 + x.client, Input: Op{Kind: "deliver", Batch: parseState(x.flushed)}, Call: x.hookIn + 1, Output: "", Return: x.hookOut})
					}
				}
				fl = append(fl, capt)
			case "put", "del", "batch", "pp":
				fl = append(fl, porcupine.Operation{ClientId: x.client, Input: x.op, Call: x.call, Output: "", Return: x.ret})
			}
		}
		resFlush := porcupine.Ok
		if nPersist > 0 {
			top := map[string]string{}
			for k, v := range sc.Top {
				top[k] = v
			}
			mid := map[string]string{}
			for k, v := range sc.Middle {
				mid[k] = v
			}
			resFlush = porcupine.CheckOperationsTimeout(FlushModel(top, mid), fl, 20*time.Second)
		}
		if len(h.stray) > 0 {
			out.Fails = append(out.Fails, sched.Fail{Key: "flush-outside-persist:" + sc.Name, Msg: "a lower store received a changeset although no Persist of the layer above it was in progress on that goroutine: " + strings.Join(h.stray, " ")})
		}
		if !orderOK {
			out.Fails = append(out.Fails, sched.Fail{Key: "seek-order:" + sc.Name, Msg: "a Seek result is not strictly ordered / leaves the prefix / contains an unknown key"})
		}
		// observation: per-client outputs in program order
		by := map[int][]string{}
		for _, x := range hist {
			if x.op.Kind == "get" || x.op.Kind == "seek" || x.op.Kind == "seekasync" {
				by[x.client] = append(by[x.client], x.op.String()+"->"+x.out)
			}
			if x.op.Kind == "persist" || x.op.Kind == "persist2" {
				by[x.client] = append(by[x.client], x.op.String()+"->flushed{"+x.flushed+"}")
			}
			if strings.HasPrefix(x.out, "error:") {
				out.Fails = append(out.Fails, sched.Fail{Key: "store-error:" + sc.Name, Msg: x.op.String() + " -> " + x.out})
			}
		}
		var cl []int
		for c := range by {
			cl = append(cl, c)
		}
		sort.Ints(cl)
		var b strings.Builder
		fmt.Fprintf(&b, "end=%s atomic=%s perkey=%s flush=%s", end, res, resWeak, resFlush)
		for _, c := range cl {
			fmt.Fprintf(&b, " c%d=%v", c, by[c])
		}
		out.Obs = b.String()
		if res != porcupine.Ok || resWeak != porcupine.Ok || resFlush != porcupine.Ok {
			sort.Slice(hist, func(i, j int) bool { return hist[i].call < hist[j].call })
			var hs []string
			for _, x := range hist {
				if x.op.Kind == "persist" || x.op.Kind == "persist2" {
					hs = append(hs, fmt.Sprintf("[%d..%d] c%d %s -> handed down {%s}", x.call, x.ret, x.client, x.op, x.flushed))
					continue
				}
				hs = append(hs, fmt.Sprintf("[%d..%d] c%d %s -> %q", x.call, x.ret, x.client, x.op, x.out))
			}
			msg := fmt.Sprintf("initial contents %v (unflushed in the layer: {%s}, in the middle layer: {%s}); history (call..return timestamps): %s", serState(init), serState(sc.Top), serState(sc.Middle), strings.Join(hs, " | "))
			if resFlush == porcupine.Illegal {
				out.Fails = append(out.Fails, sched.Fail{Key: "flush-not-a-batch-boundary:" + sc.Name, Msg: "what the Persist calls handed to the lower store is not the layer's set of unflushed changes at one moment of each call with every PutChangeSet / PersistPrivate written as a whole (a flushed batch holds half of a batch, loses or repeats a change): " + msg})
			}
			if res == porcupine.Unknown || resWeak == porcupine.Unknown || resFlush == porcupine.Unknown {
				out.Fails = append(out.Fails, sched.Fail{Key: "linearizability-check-timeout:" + sc.Name, Msg: msg})
			}
			if resWeak == porcupine.Illegal {
				// a committed key missing or a stale value, even with Seek read key by key
				out.Fails = append(out.Fails, sched.Fail{Key: "not-linearizable-per-key:" + sc.Name, Msg: "no linearization even when every Seek is taken as a non-atomic scan (key missing / stale value): " + msg})
			}
			if res == porcupine.Illegal && resWeak == porcupine.Ok && !sc.writesAndFlushes() {
				// The one known way to a mixed result needs a write to the layer AND its flush between
				// the layer's snapshot and the lower scan. Without a writer or without a flush every
				// range scan is an atomic read; a SeekAsync is one AT ITS CALL (interval = the call).
				out.Fails = append(out.Fails, sched.Fail{Key: "scan-not-for-the-moment-of-the-call:" + sc.Name, Msg: "no linearization with every range scan as an atomic read within its call (SeekAsync: within the SeekAsync call itself; the drain comes later), although no write+flush pair exists that could have reached the lower store: " + msg})
			} else if res == porcupine.Illegal && resWeak == porcupine.Ok {
				// only the atomic-range-read reading of Seek fails: values of different moments in one result (half of a batch)
				out.Fails = append(out.Fails, sched.Fail{Key: "seek-not-atomic:" + sc.Name, Msg: "no linearization with Seek as an atomic range read (one result mixes the states of different moments: half of a batch / of a write sequence): " + msg})
			}
		}
	}
	if r != nil {
		r.OnEnd(func(end sched.EndKind) {
			switch end {
			case sched.EndFinished:
			case sched.EndPanic:
				msg := r.PanicMsg()
				first := msg
				if i := strings.Index(first, "\n"); i > 0 {
					first = first[:i]
				}
				out.Fails = append(out.Fails, sched.Fail{Key: "panic:" + sc.Name + ":" + first, Msg: msg})
			default:
				out.Fails = append(out.Fails, sched.Fail{Key: "deadlock:" + sc.Name, Msg: "threads blocked: " + end.String()})
			}
			judge(end.String())
			for _, f := range out.Fails {
				r.Fail(f.Key, f.Msg)
			}
			r.SetObs(out.Obs)
		})
	}
	var names []string
	for n := range sc.Threads {
		names = append(names, n)
	}
	sort.Strings(names)
	var wg sync.WaitGroup
	for i, n := range names {
		ops := sc.Threads[n]
		client := i + 1
		n := n
		body := func() {
			for _, o := range ops {
				if r != nil {
					r.Logf("%s: %s ...", n, o)
				}
				h.do(client, o)
				if r != nil && o.Kind == "seekasync" {
					r.Logf("%s: %s returned its channel", n, o)
				} else if r != nil {
					h.mu.Lock()
					last := h.hist[len(h.hist)-1]
					h.mu.Unlock()
					r.Logf("%s: %s -> %q", n, o, last.out)
				}
			}
		}
		if r != nil {
			r.Go(n, body)
		} else {
			wg.Add(1)
			go func() { defer wg.Done(); body() }()
		}
	}
	if r != nil {
		r.WaitIdle()
		r.NoBranch()
	} else {
		wg.Wait()
	}
	// every scan goroutine has finished by now (it is a thread of the execution /
	// the channel gets closed): collect what the helpers received
	h.mu.Lock()
	pend := h.async
	h.mu.Unlock()
	for _, a := range pend {
		out := ""
		select {
		case <-a.done:
			out = strings.Join(a.res, ",")
		case <-time.After(20 * time.Second):
			out = "error:the channel of SeekAsync was not closed"
		}
		h.mu.Lock()
		h.hist = append(h.hist, rec{client: a.client, op: a.op, call: a.call, ret: a.ret, out: out, drained: h.clock.Add(1)})
		h.mu.Unlock()
	}
	for _, o := range sc.Final {
		h.do(0, o)
	}
	if r == nil {
		judge("free")
	}
	return out
}

// Scenarios returns the configurations, simplest first.
func Scenarios() []*Scenario {
	st := byte(storage.STStorage)
	ex := byte(storage.DataExecutable)
	final := []Op{{Kind: "seek", Pfx: ""}, {Kind: "get", Key: "a"}, {Kind: "get", Key: "ab"}}
	g := func(k string) Op { return Op{Kind: "get", Key: k} }
	put := func(k, v string) Op { return Op{Kind: "put", Key: k, Val: v} }
	del := func(k string) Op { return Op{Kind: "del", Key: k} }
	seek := func(p string) Op { return Op{Kind: "seek", Pfx: p} }
	sa := func(p string) Op { return Op{Kind: "seekasync", Pfx: p} }
	batch := func(kv ...string) Op {
		m := map[string]string{}
		for i := 0; i < len(kv); i += 2 {
			m[kv[i]] = kv[i+1]
		}
		return Op{Kind: "batch", Batch: m}
	}
	persist := Op{Kind: "persist"}
	scs := []*Scenario{
		{Name: "get-vs-persist", Class: st, Layers: 1,
			Bottom: map[string]string{"a": "a0"}, Top: map[string]string{"ab": "ab0", "b": "b0"},
			Threads: map[string][]Op{
				"T1persist": {persist},
				"T2reader":  {g("ab"), g("b"), g("a"), g("ab")},
				"T3writer":  {put("ab", "ab1"), del("b"), put("a", "a1")},
			}, Final: final},
		{Name: "seek-vs-persist", Class: st, Layers: 1,
			Bottom: map[string]string{"a": "a0"}, Top: map[string]string{"ab": "ab0", "b": "b0"},
			Threads: map[string][]Op{
				"T1persist": {persist},
				"T2reader":  {seek("a"), g("abc"), seek("")},
				"T3writer":  {del("ab"), put("abc", "abc1"), put("a", "a1")},
			}, Final: final},
		{Name: "batch-vs-get", Class: ex, Layers: 1,
			Bottom: map[string]string{"a": "a0"}, Top: map[string]string{"ab": "ab0"},
			Threads: map[string][]Op{
				"T1persist": {persist},
				"T2reader":  {g("ab"), g("abc"), g("ab"), g("a")},
				"T3writer":  {batch("ab", "", "abc", "abc1"), put("ab", "ab2"), batch("a", "", "ab", "ab3")},
			}, Final: final},
		{Name: "batch-vs-seek", Class: ex, Layers: 1,
			Bottom: map[string]string{"a": "a0"}, Top: map[string]string{"ab": "ab0"},
			Threads: map[string][]Op{
				"T1persist": {persist},
				"T2reader":  {seek("a"), g("ab"), seek("ab")},
				"T3writer":  {batch("ab", "", "abc", "abc1"), batch("ab", "ab2", "a", "")},
			}, Final: final},
		{Name: "two-persists", Class: st, Layers: 1,
			Bottom: map[string]string{"a": "a0"}, Top: map[string]string{"a": "", "ab": "ab0"},
			Threads: map[string][]Op{
				"T1persist": {persist, persist},
				"T2reader":  {g("a"), g("ab"), {Kind: "seek", Pfx: "a", Back: true}, g("a")},
				"T3writer":  {put("a", "a1"), put("ab", "ab1"), del("a")},
			}, Final: final},
		{Name: "persist-race", Class: ex, Layers: 1,
			Bottom: map[string]string{}, Top: map[string]string{"a": "a0", "ab": "ab0"},
			Threads: map[string][]Op{
				"T1persist": {persist},
				"T4persist": {persist},
				"T2reader":  {g("a"), {Kind: "seek", Pfx: "a", Start: "b"}, g("ab")},
				"T3writer":  {del("a"), put("ab", "ab1")},
			}, Final: final},
		{Name: "two-readers", Class: st, Layers: 1,
			Bottom: map[string]string{"a": "a0", "ab": "ab0"}, Top: map[string]string{"ab": ""},
			Threads: map[string][]Op{
				"T1persist": {persist},
				"T2reader":  {g("ab"), g("a")},
				"T5reader":  {seek("a"), g("ab")},
				"T3writer":  {put("ab", "ab1"), del("a")},
			}, Final: final},
		{Name: "two-layers", Class: st, Layers: 2,
			Bottom: map[string]string{"a": "a0"}, Middle: map[string]string{"ab": "ab0", "a": ""}, Top: map[string]string{"abc": "abc0", "ab": "ab1"},
			Threads: map[string][]Op{
				"T1persist": {persist, {Kind: "persist2"}},
				"T2reader":  {g("ab"), seek("a"), g("a"), g("abc")},
				"T3writer":  {put("a", "a2"), del("abc"), put("ab", "ab2")},
			}, Final: final},
		{Name: "two-layers-mem", Class: ex, Layers: 2,
			Bottom: map[string]string{"a": "a0", "ab": "ab0"}, Middle: map[string]string{"ab": ""}, Top: map[string]string{"a": "a1"},
			Threads: map[string][]Op{
				"T1persist": {persist},
				"T4persist": {{Kind: "persist2"}},
				"T2reader":  {g("ab"), g("a"), seek("")},
				"T3writer":  {batch("ab", "ab1", "a", ""), put("a", "a2")},
			}, Final: final},
		// round 3: SeekAsync as a thread body. The call is the operation (the layer's own
		// content is fixed when it returns), the drain is done by a free-running helper.
		{Name: "seekasync-vs-writer", Class: st, Layers: 1,
			Bottom: map[string]string{"a": "a0", "abd": "abd0"}, Top: map[string]string{"ab": "ab0", "b": "b0", "abd": ""},
			Threads: map[string][]Op{
				"T2scan":   {sa("a"), g("abc"), {Kind: "seekasync", Pfx: "a", Back: true}},
				"T3writer": {del("ab"), put("abc", "abc1"), batch("a", "a1", "abd", "abd1")},
			}, Final: final},
		{Name: "seekasync-vs-persist", Class: ex, Layers: 1,
			Bottom: map[string]string{"a": "a0", "ab": "ab0"}, Top: map[string]string{"ab": "", "abc": "abc0"},
			Threads: map[string][]Op{
				"T1persist": {persist},
				"T2scan":    {sa("a"), {Kind: "seekasync", Pfx: "", Back: true}},
				"T5reader":  {seek("a")},
			}, Final: final},
		{Name: "seekasync-vs-writer-persist", Class: st, Layers: 1,
			Bottom: map[string]string{"a": "a0"}, Top: map[string]string{"ab": "ab0"},
			Threads: map[string][]Op{
				"T1persist": {persist},
				"T2scan":    {sa("a"), g("ab")},
				"T3writer":  {batch("ab", "", "abc", "abc1"), put("a", "a1")},
			}, Final: final},
		{Name: "seekasync-two-layers-writer", Class: st, Layers: 2,
			Bottom: map[string]string{"a": "a0"}, Middle: map[string]string{"ab": "ab0", "a": ""}, Top: map[string]string{"abc": "abc0", "ab": "ab1"},
			Threads: map[string][]Op{
				"T2scan":   {sa("a"), sa("")},
				"T3writer": {put("a", "a2"), del("abc"), put("ab", "ab2")},
			}, Final: final},
	}
	return append(scs, ppScenarios(Thorough())...)
}
