package conch

// Round 4 scenarios: PersistPrivate(p1, p2[, p3]) as a thread body.
//
// blockchain.go publishes a whole block with ONE call
// bc.dao.PersistPrivate(aerCache, cache): several private layers over the
// shared layer become visible together. Readers of the shared layer (Get of a
// key of each private layer, in argument order and against it; Seek over the
// keys of all of them) and a concurrent Persist of the shared layer must see
// all of the call or nothing of it. The private layers are created and filled
// by the publishing thread itself (a private layer has no locks: no scheduling
// points), their keys collide with the readers' keys, with the unflushed
// content of the layer and with each other (the later argument wins).

import (
	"os"

	"github.com/nspcc-dev/neo-go/pkg/core/storage"
)

// Thorough reports the tier of the run (the worker processes of the scheduler
// inherit the environment of the parent).
func Thorough() bool { return os.Getenv("VERIF_TIER") == "thorough" }

type l = map[string]string

func ppScenarios(thorough bool) []*Scenario {
	st := byte(storage.STStorage)
	ex := byte(storage.DataExecutable)
	g := func(k string) Op { return Op{Kind: "get", Key: k} }
	put := func(k, v string) Op { return Op{Kind: "put", Key: k, Val: v} }
	del := func(k string) Op { return Op{Kind: "del", Key: k} }
	seek := func(p string) Op { return Op{Kind: "seek", Pfx: p} }
	back := func(p string) Op { return Op{Kind: "seek", Pfx: p, Back: true} }
	pp := func(ls ...l) Op { return Op{Kind: "pp", Privs: ls} }
	persist := Op{Kind: "persist"}
	persist2 := Op{Kind: "persist2"}
	final := []Op{seek(""), g("a"), g("ab"), g("abc")}
	scs := []*Scenario{
		// reader: a key of p1, then a key of p2 (new value of p1 seen => p2 applied as well), tombstone of p1, value of p2
		{Name: "pp-vs-get-persist", Class: st, Layers: 1,
			Bottom: l{"a": "a0"}, Top: l{"ab": "ab0"},
			Threads: map[string][]Op{
				"T1pp":      {pp(l{"ab": "", "abc": "abc1"}, l{"a": "a1", "abd": "abd1"})},
				"T2reader":  {g("abc"), g("abd"), g("ab"), g("a"), seek("a")},
				"T3persist": {persist},
			}, Final: final},
		// reader against the argument order: a key of p2, then a key of p1
		{Name: "pp-vs-get-reverse", Class: ex, Layers: 1,
			Bottom: l{"a": "a0", "abd": "abd0"}, Top: l{"ab": "ab0"},
			Threads: map[string][]Op{
				"T1pp":      {pp(l{"ab": "ab1", "abd": ""}, l{"a": "", "abc": "abc1"})},
				"T2reader":  {g("abc"), g("ab"), g("a"), g("abd")},
				"T3persist": {persist},
			}, Final: final},
		// no flush anywhere: every range scan is an atomic read, also with respect to the publication
		{Name: "pp-vs-seek", Class: ex, Layers: 1,
			Bottom: l{"a": "a0", "abd": "abd0"}, Top: l{"ab": "ab0"},
			Threads: map[string][]Op{
				"T1pp":     {pp(l{"ab": "", "abc": "abc1"}, l{"a": "a1", "abd": ""})},
				"T2reader": {seek("a"), g("abc"), back("")},
				"T3writer": {put("ab", "ab2"), del("abc")},
			}, Final: final},
		{Name: "pp-vs-seekasync", Class: st, Layers: 1,
			Bottom: l{"a": "a0", "abd": "abd0"}, Top: l{"ab": "ab0"},
			Threads: map[string][]Op{
				"T1pp":   {pp(l{"ab": "", "abc": "abc1"}, l{"a": "a1", "abd": ""})},
				"T2scan": {{Kind: "seekasync", Pfx: "a"}, g("abd"), {Kind: "seekasync", Pfx: "", Back: true}},
			}, Final: final},
		// the same key in both layers: p1's value of it must never be visible, nor flushed
		{Name: "pp-same-key", Class: st, Layers: 1,
			Bottom: l{"a": "a0"}, Top: l{"ab": "ab0"},
			Threads: map[string][]Op{
				"T1pp":      {pp(l{"ab": "ab1", "a": ""}, l{"ab": "", "a": "a2", "abc": "abc2"})},
				"T2reader":  {g("ab"), g("a"), g("abc"), seek("a")},
				"T3persist": {persist},
			}, Final: final},
		// both maps of the layer: p1 holds only keys of the second class (the
		// execution results' layer of a block), p2 keys of both
		{Name: "pp-mixed-class", Class: st, Class2: ex, Layers: 1,
			Bottom: l{"a": "a0", "~a": "xa0"}, Top: l{"~ab": "xab0"},
			Threads: map[string][]Op{
				"T1pp":      {pp(l{"~a": "xa1", "~ab": ""}, l{"a": "a1", "ab": "ab1", "~abc": "xabc1"})},
				"T2reader":  {g("~a"), g("ab"), g("~abc"), g("a"), seek("~a"), seek("a")},
				"T3persist": {persist},
			}, Final: append([]Op{seek("~")}, final...)},
		// one private layer mixed, the changes of one class in each half
		{Name: "pp-mixed-class-batch", Class: ex, Class2: st, Layers: 1,
			Bottom: l{"a": "a0", "~a": "xa0"}, Top: l{"ab": "ab0"},
			Threads: map[string][]Op{
				"T1pp":      {pp(l{"a": "a1", "~a": ""}), {Kind: "batch", Batch: l{"ab": "", "~ab": "xab2"}}},
				"T2reader":  {g("a"), g("~a"), g("~ab"), g("ab"), g("~ab"), g("a")},
				"T3persist": {persist},
			}, Final: append([]Op{seek("~")}, final...)},
		// empty private layers at every position, and a call with nothing at all
		{Name: "pp-empty-halves", Class: st, Layers: 1,
			Bottom: l{"a": "a0"}, Top: l{"ab": "ab0"},
			Threads: map[string][]Op{
				"T1pp":      {pp(l{}, l{"ab": "ab1", "a": ""}), pp(l{"abc": "abc1", "ab": ""}, l{}), pp(l{}, l{}), pp(l{}, l{"a": "a3"}, l{})},
				"T2reader":  {g("ab"), g("abc"), g("a"), seek("a")},
				"T3persist": {persist, persist},
			}, Final: final},
		// two publishers: the two batches are ordered one way for every key
		{Name: "pp-vs-pp", Class: ex, Layers: 1,
			Bottom: l{"a": "a0"}, Top: l{"ab": "ab0"},
			Threads: map[string][]Op{
				"T1pp":      {pp(l{"a": "a1", "ab": "ab1"}, l{"abc": "abc1"})},
				"T4pp":      {pp(l{"a": "a2"}, l{"abc": "", "ab": "ab2"})},
				"T2reader":  {g("a"), g("abc"), g("ab")},
				"T3persist": {persist},
			}, Final: final},
		// two shared layers: the batch passes two flushes whole
		{Name: "pp-two-layers", Class: st, Layers: 2,
			Bottom: l{"a": "a0"}, Middle: l{"ab": "ab0"}, Top: l{"abc": "abc0"},
			Threads: map[string][]Op{
				"T1pp":      {pp(l{"ab": "", "abd": "abd1"}, l{"a": "a1", "abc": ""})},
				"T2reader":  {g("abd"), g("abc"), g("a"), seek("a")},
				"T3persist": {persist, persist2},
			}, Final: final},
		// the other entry path: dao.Simple.PersistPrivate over dao.GetPrivate() layers
		{Name: "pp-dao", Class: st, Layers: 1, ViaDAO: true,
			Bottom: l{"a": "a0", "abd": "abd0"}, Top: l{"ab": "ab0"},
			Threads: map[string][]Op{
				"T1pp":      {pp(l{"abc": "abc1", "abd": ""}, l{"ab": "", "a": "a1"})},
				"T2reader":  {g("abc"), g("a"), g("abd"), g("ab"), back("a")},
				"T3persist": {persist},
			}, Final: final},
		{Name: "pp-dao-mixed", Class: ex, Class2: st, Layers: 1, ViaDAO: true,
			Bottom: l{"a": "a0", "~a": "xa0"}, Top: l{"ab": "ab0"},
			Threads: map[string][]Op{
				"T1pp":      {pp(l{"a": "a1", "ab": ""}, l{"~a": "", "~ab": "xab1", "abc": "abc1"})},
				"T2reader":  {g("a"), g("~ab"), g("abc"), g("~a")},
				"T3persist": {persist},
				"T3writer":  {put("~a", "xa2")},
			}, Final: append([]Op{seek("~")}, final...)},
	}
	// three private layers, a second writer, both kinds of flush
	three := []*Scenario{
		{Name: "pp3-writer-persist", Class: st, Layers: 1,
			Bottom: l{"a": "a0", "abd": "abd0"}, Top: l{"ab": "ab0"},
			Threads: map[string][]Op{
				"T1pp":      {pp(l{"ab": "", "abc": "abc1"}, l{"a": "a1"}, l{"abd": "", "abc": "abc3"})},
				"T2reader":  {g("abc"), g("a"), g("abd"), seek("a")},
				"T3persist": {persist},
				"T4writer":  {put("a", "a4"), {Kind: "batch", Batch: l{"ab": "ab4", "abd": "abd4"}}},
			}, Final: final},
		// (6 threads made 7.3 million schedules at bound 3: flushes in one thread, bound 3 at most)
		{Name: "pp3-two-layers-mixed", Class: st, Class2: ex, Layers: 2, MaxBound: 3,
			Bottom: l{"a": "a0", "~a": "xa0"}, Middle: l{"ab": "ab0", "~a": ""}, Top: l{"abc": "abc0"},
			Threads: map[string][]Op{
				"T1pp":      {pp(l{"~a": "xa1"}, l{"ab": "", "a": "a1"}, l{"~ab": "xab1", "abc": ""})},
				"T2reader":  {g("~a"), g("a"), g("~ab"), g("abc")},
				"T3persist": {persist, persist2},
				"T4writer":  {del("a"), put("~ab", "xab4")},
			}, Final: append([]Op{seek("~")}, final...)},
	}
	// the three-layer publication without the second writer (both tiers)
	scs = append(scs, &Scenario{Name: "pp3-persist", Class: st, Layers: 1,
		Bottom: l{"a": "a0", "abd": "abd0"}, Top: l{"ab": "ab0"},
		Threads: map[string][]Op{
			"T1pp":      {pp(l{"ab": "", "abc": "abc1"}, l{"a": "a1"}, l{"abd": "", "abc": "abc3"})},
			"T2reader":  {g("abc"), g("a"), g("abd"), seek("a")},
			"T3persist": {persist},
		}, Final: final})
	if thorough {
		scs = append(scs, three...)
	}
	for _, sc := range scs {
		n := 0
		for _, ops := range sc.Threads {
			for _, o := range ops {
				if o.Kind == "pp" {
					n++
					break
				}
			}
		}
		if sc.ViaDAO && n > 1 {
			panic("scenario " + sc.Name + ": dao.PersistPrivate holds a real lock: one publishing thread only")
		}
	}
	return scs
}
