// C09, concurrent half, data-race part: the harness bodies of checks/c09/conc
// run free (real goroutines) on the UNMODIFIED storage package under -race;
// every history is also checked for linearizability.
package concrace

import (
	"sync"
	"testing"
	"time"

	"verif/checks/c09/conch"
	"verif/lib/sched"
	"verif/lib/vk"
)

func child(deadline time.Time) *sched.RaceSummary {
	s := &sched.RaceSummary{PerConfig: map[string]int{}, Fails: map[string]string{}, Notes: map[string]int{}}
	obs := map[string]bool{}
	var mu sync.Mutex
	var wg sync.WaitGroup
	sem := make(chan struct{}, 8)
	scs := conch.Scenarios()
	privateFlush(s) // round 3: scan on private-over-private, then the flush (pflush.go)
	for round := 0; round < 400 && !s.Capped; round++ {
		for _, sc := range scs {
			if time.Now().After(deadline) {
				s.Capped = true
				break
			}
			sem <- struct{}{}
			wg.Add(1)
			go func() {
				defer func() { <-sem; wg.Done() }()
				out := conch.Run(sc, nil)
				mu.Lock()
				defer mu.Unlock()
				s.Iterations++
				s.PerConfig[sc.Name]++
				obs[sc.Name+" "+out.Obs] = true
				for _, f := range out.Fails {
					if _, ok := s.Fails[f.Key]; !ok {
						s.Fails[f.Key] = f.Msg
					}
				}
			}()
		}
	}
	wg.Wait()
	s.Distinct = len(obs)
	return s
}

func TestCheck(t *testing.T) {
	vk.UseT(t)
	pflushScenario()
	sched.RaceChild(child)
	r := vk.Start("C09", "model_checking", 60*time.Second, 4*time.Minute)
	sched.RunRaceParent(r, vk.Pick(r, 20, 120),
		"data-race pass: the C09 concurrent harness bodies (Persist + readers + writers incl. PersistPrivate of 1-3 private layers, also through dao.Simple.PersistPrivate, on one shared MemCachedStore; flushed changesets recorded below the layer and judged) free-running on the unmodified storage package under the Go race detector, histories checked with porcupine; a race report or an oracle failure is a violation",
		[]string{"the race pass is a sample of free-running schedules (the exhaustive part is the scheduler part); it exists because unsynchronised accesses are invisible to a cooperative scheduler",
			"round 3, private-flush scenario (one process per backend, deterministic): transaction layer = GetPrivate(), callee layer = GetPrivate() of it, callee.SeekAsync, callee.Persist() once the scan goroutine has been seen inside the backend's Seek (marker file: real-time separation without a synchronisation edge, so the detector reports the unordered accesses and no fatal map error can occur), drain; the answer itself must be the reference"})
}
