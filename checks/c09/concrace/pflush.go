package concrace

// Round 3: a range scan started on a private layer that sits on another
// PRIVATE layer, then the flush of the upper layer - what
// interop/contract/call.go does around a try-wrapped call whose callee used
// System.Storage.Find (call.go: ic.DAO = ic.DAO.GetPrivate() ... onUnload:
// ic.DAO.Persist(); the iterator's goroutine lives until ic.Finalize()).
//
// MemCachedStore.SeekAsync snapshots only the layer it is called on; its
// goroutine reaches the lower layers later (performSeek -> ps.Seek ->
// prepareSeekMemSnapshot) and ranges over the lower PRIVATE layer's map
// without a lock, while Persist of the upper layer writes that very map. In
// production the accesses can overlap ("fatal error: concurrent map iteration
// and map write"); here they are kept apart in real time - the flush is made
// only after the scan goroutine has been seen inside the BACKEND's Seek, i.e.
// far behind both layers - by a marker file, which is no synchronisation the
// race detector knows of. The detector therefore still reports the two
// unordered accesses, and nothing can crash.
//
// The scenario runs in a process of its own (the race child re-executes the
// test binary once per backend) with its own race log, so that the report is
// classified here and gets the key scan-races-private-flush:wrapped-call:<backend>.

import (
	"context"
	"fmt"
	"os"
	"os/exec"
	"path/filepath"
	"strings"
	"time"

	"github.com/nspcc-dev/neo-go/pkg/core/dao"
	"github.com/nspcc-dev/neo-go/pkg/core/storage"
	"github.com/nspcc-dev/neo-go/pkg/core/storage/dbconfig"

	"verif/lib/sched"
	"verif/lib/vk"
)

const (
	pflushEnv    = "VERIF_C09_PFLUSH"     // backend kind: this process is the scenario process
	pflushDirEnv = "VERIF_C09_PFLUSH_DIR" // its scratch directory
)

var pflushBackends = []string{"mem", "bolt", "level"}

// markStore tells (through the file system only) that a scan has arrived at the backend.
type markStore struct {
	storage.Store
	path string
}

func (m *markStore) Seek(rng storage.SeekRange, f func(k, v []byte) bool) {
	_ = os.WriteFile(m.path, []byte("x"), 0o644)
	m.Store.Seek(rng, f)
}

func pflushOpen(kind, dir string) storage.Store {
	var cfg dbconfig.DBConfiguration
	switch kind {
	case "mem":
		cfg.Type = dbconfig.InMemoryDB
	case "bolt":
		cfg.Type = dbconfig.BoltDB
		cfg.BoltDBOptions = dbconfig.BoltDBOptions{FilePath: filepath.Join(dir, "bolt.db")}
	case "level":
		cfg.Type = dbconfig.LevelDB
		cfg.LevelDBOptions = dbconfig.LevelDBOptions{DataDirectoryPath: filepath.Join(dir, "level")}
	}
	st, err := storage.NewStore(cfg)
	if err != nil {
		panic(err)
	}
	return st
}

// pflushScenario is the body of the scenario process.
func pflushScenario() {
	kind := os.Getenv(pflushEnv)
	if kind == "" {
		return
	}
	dir := os.Getenv(pflushDirEnv)
	be := pflushOpen(kind, dir)
	_ = be.PutChangeSet(nil, map[string][]byte{"p\x01\x00\x00\x00kb": []byte("flushed")})
	mark := filepath.Join(dir, "reached")
	for round := 0; round < 3; round++ {
		_ = os.Remove(mark)
		base := dao.NewSimple(&markStore{Store: be, path: mark}, false)
		icDAO := base.GetPrivate() // interop.NewContext: the transaction's layer
		icDAO.PutStorageItem(1, []byte("ka"), []byte("caller"))
		icDAO.PutStorageItem(1, []byte("x"), []byte("caller"))
		callee := icDAO.GetPrivate() // call.go: try-wrapped call
		callee.PutStorageItem(1, []byte("kc"), []byte("callee"))
		callee.PutStorageItem(1, []byte("y"), []byte("callee"))
		ctx, cancel := context.WithCancel(context.Background())
		ch := callee.SeekAsync(ctx, 1, storage.SeekRange{Prefix: []byte("k")}) // System.Storage.Find in the callee
		reached := false
		for i := 0; i < 20000 && !reached; i++ { // the scan goroutine is inside the backend's Seek: behind both private layers
			if _, err := os.Stat(mark); err == nil {
				reached = true
			} else {
				time.Sleep(500 * time.Microsecond)
			}
		}
		if !reached {
			fmt.Println("pflush: the scan never reached the backend")
			os.Exit(4)
		}
		if _, err := callee.Persist(); err != nil { // call.go onUnload(commit): writes icDAO's maps
			panic(err)
		}
		var got []string
		for e := range ch {
			got = append(got, string(e.Key)+"="+string(e.Value))
		}
		cancel()
		fmt.Printf("pflush %s round %d: %s\n", kind, round, strings.Join(got, ","))
		if strings.Join(got, ",") != "a=caller,b=flushed,c=callee" {
			os.Exit(5)
		}
	}
	_ = be.Close()
	os.Exit(0)
}

// privateFlush runs the scenario process once per backend and files what its
// race log holds: the reports of THIS root cause (a scan's prepareSeekMemSnapshot
// against the changeset a flush writes) under scan-races-private-flush:*,
// anything else under keys of its own.
func privateFlush(s *sched.RaceSummary) {
	for _, kind := range pflushBackends {
		dir, clean := vk.Scratch("c09-pflush-")
		cmd := exec.Command(os.Args[0], "-test.run", "^TestCheck$", "-test.timeout", "0", "-test.count", "1")
		for _, e := range os.Environ() {
			if strings.HasPrefix(e, "GORACE=") || strings.HasPrefix(e, "VERIF_RACE_CHILD=") {
				continue
			}
			cmd.Env = append(cmd.Env, e)
		}
		cmd.Env = append(cmd.Env, pflushEnv+"="+kind, pflushDirEnv+"="+dir,
			"GORACE=log_path="+filepath.Join(dir, "race")+" exitcode=0 halt_on_error=0 history_size=3")
		out, err := cmd.CombinedOutput()
		text := ""
		logs, _ := filepath.Glob(filepath.Join(dir, "race.*"))
		for _, l := range logs {
			b, _ := os.ReadFile(l)
			text += string(b)
		}
		key := "scan-races-private-flush:wrapped-call:" + kind
		hits := 0
		for _, rep := range strings.Split(text, "==================") {
			if !strings.Contains(rep, "WARNING: DATA RACE") {
				continue
			}
			// stale frames can make a report very long: classify the whole text, keep its head
			mine := strings.Contains(rep, "prepareSeekMemSnapshot") && (strings.Contains(rep, "putChangeSet") || strings.Contains(rep, "PutChangeSet")) && strings.Contains(rep, ").persist")
			if len(rep) > 5000 {
				rep = rep[:5000]
			}
			if mine {
				hits++
				if _, ok := s.Fails[key]; !ok {
					s.Fails[key] = "dao.NewSimple(" + kind + ") -> GetPrivate() [transaction] -> GetPrivate() [try-wrapped callee]; callee.SeekAsync(prefix k); (scan goroutine seen inside the backend's Seek); callee.Persist(); drain:\n" + rep
				}
				continue
			}
			s.Fails["data-race:private-flush-scenario:"+kind] = rep
		}
		s.Notes["private-flush-scenario:"+kind+":race-reports-of-the-root-cause"] = hits
		if err != nil {
			o := string(out)
			if len(o) > 3000 {
				o = o[len(o)-3000:]
			}
			if strings.Contains(o, "concurrent map iteration and map write") && strings.Contains(o, "prepareSeekMemSnapshot") {
				if _, ok := s.Fails[key]; !ok {
					s.Fails[key] = "the scenario process died: " + o
				}
			} else {
				s.Fails["private-flush-scenario-failed:"+kind] = fmt.Sprintf("%v\n%s", err, o)
			}
		}
		s.Iterations += 3
		s.PerConfig["private-flush:"+kind] += 3
		clean()
	}
}
