package c09

import (
	"fmt"
	"testing"
	"time"

	"github.com/nspcc-dev/neo-go/pkg/core/storage"
	"github.com/nspcc-dev/neo-go/pkg/core/storage/dbconfig"
	"verif/lib/vk"
)

func TestDbgLevel(t *testing.T) {
	dir, clean := vk.Scratch("dbg")
	defer clean()
	t0 := time.Now()
	lvl, err := storage.NewLevelDBStore(dbconfig.LevelDBOptions{DataDirectoryPath: dir + "/l"})
	if err != nil {
		t.Fatal(err)
	}
	fmt.Println("open", time.Since(t0))
	for round := 0; round < 8; round++ {
		t0 = time.Now()
		for i := 0; i < 2000; i++ {
			lvl.Seek(storage.SeekRange{Prefix: []byte("m")}, func(k, v []byte) bool { return true })
		}
		fmt.Printf("after %d txns: seek %.1fus\n", round*30, float64(time.Since(t0).Microseconds())/2000)
		t0 = time.Now()
		for i := 0; i < 30; i++ {
			lvl.PutChangeSet(map[string][]byte{"ma": []byte("x"), "mb": nil, "l": []byte("z")}, nil)
		}
		fmt.Printf("  txn %.1fus\n", float64(time.Since(t0).Microseconds())/30)
	}
	t0 = time.Now()
	lvl.Close()
	fmt.Println("close", time.Since(t0))
}
