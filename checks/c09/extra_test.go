package c09

import (
	"fmt"
	"sort"
	"strings"

	"github.com/nspcc-dev/neo-go/pkg/core/storage"
)

func isStorKey(k string) bool {
	return k[0] == byte(storage.STStorage) || k[0] == byte(storage.STTempStorage)
}

// changeSets: the pending change set of cache layer t as reported by
// GetBatch (with the "exists below" flag of every entry, which is a point read
// through the lower levels), its rendering by BatchToOperations, and, for a
// private layer, GetStorageChanges (what the state root is computed from).
func (b *battery) changeSets(t int) {
	m := b.m
	own := m.ly[t-1]
	lower, _ := m.view(t-1, 0)
	c := b.s.ly[t-1]
	b.cur = func() (string, int, string, string) { return "getbatch", t, "GetBatch()", "" }
	b.nq++
	batch := c.GetBatch()
	var want, got, wantOps, gotOps []string
	for k, v := range own {
		_, ex := lower[k]
		if v == nil {
			want = append(want, fmt.Sprintf("del %q exists=%v", k, ex))
			if ex && isStorKey(k) {
				wantOps = append(wantOps, fmt.Sprintf("Deleted %q", k[1:]))
			}
		} else {
			want = append(want, fmt.Sprintf("put %q=%s exists=%v", k, valName(v), ex))
			if isStorKey(k) {
				st := "Added"
				if ex {
					st = "Changed"
				}
				wantOps = append(wantOps, fmt.Sprintf("%s %q=%s", st, k[1:], valName(v)))
			}
		}
	}
	for _, e := range batch.Put {
		got = append(got, fmt.Sprintf("put %q=%s exists=%v", e.Key, valName(e.Value), e.Exists))
	}
	for _, e := range batch.Deleted {
		got = append(got, fmt.Sprintf("del %q exists=%v", e.Key, e.Exists))
	}
	for _, o := range storage.BatchToOperations(batch) {
		if o.State == "Deleted" {
			gotOps = append(gotOps, fmt.Sprintf("Deleted %q", o.Key))
		} else {
			gotOps = append(gotOps, fmt.Sprintf("%s %q=%s", o.State, o.Key, valName(o.Value)))
		}
	}
	sort.Strings(want)
	sort.Strings(got)
	sort.Strings(wantOps)
	sort.Strings(gotOps)
	b.out[fmt.Sprintf("getbatch->%dentries", min(len(got), 3))]++
	if strings.Join(want, "|") != strings.Join(got, "|") {
		b.fail("mismatch", "getbatch", t, "", "GetBatch()", strings.Join(want, " | "), strings.Join(got, " | "), "")
	}
	if strings.Join(wantOps, "|") != strings.Join(gotOps, "|") {
		b.fail("mismatch", "batchtooperations", t, "", "BatchToOperations(GetBatch())", strings.Join(wantOps, " | "), strings.Join(gotOps, " | "), "")
	}
	if m.kinds[t-1] != 'p' {
		return
	}
	b.cur = func() (string, int, string, string) { return "getstoragechanges", t, "GetStorageChanges()", "" }
	b.nq++
	want, got = nil, nil
	for k, v := range own {
		if isStorKey(k) {
			want = append(want, fmt.Sprintf("%q=%s", k, valName(v)))
		}
	}
	for k, v := range c.GetStorageChanges() {
		got = append(got, fmt.Sprintf("%q=%s", k, valName(v)))
	}
	sort.Strings(want)
	sort.Strings(got)
	if strings.Join(want, "|") != strings.Join(got, "|") {
		b.fail("mismatch", "getstoragechanges", t, "", "GetStorageChanges()", strings.Join(want, " | "), strings.Join(got, " | "), "")
	}
}
