package c09

import (
	"encoding/binary"
	"fmt"
	"math"
	"math/big"
	"sort"
	"strings"

	"github.com/nspcc-dev/neo-go/pkg/core/state"
	"github.com/nspcc-dev/neo-go/pkg/core/storage"
	"github.com/nspcc-dev/neo-go/pkg/util"
)

func isStorKey(k string) bool {
	return k[0] == byte(storage.STStorage) || k[0] == byte(storage.STTempStorage)
}

// changeSets: the pending change set of cache layer t as reported by
// GetBatch (with the "exists below" flag of every entry, which is a point read
// through the lower levels), its rendering by BatchToOperations, and, for a
// private layer, GetStorageChanges (what the state root is computed from).
func (b *battery) changeSets(t int) {
	m := b.m
	own := m.ly[t-1]
	lower, _ := m.view(t-1, 0)
	c := b.s.ly[t-1]
	b.cur = func() (string, int, string, string) { return "getbatch", t, "GetBatch()", "" }
	b.nq++
	batch := c.GetBatch()
	var want, got, wantOps, gotOps []string
	for k, v := range own {
		_, ex := lower[k]
		if v == nil {
			want = append(want, fmt.Sprintf("del %q exists=%v", k, ex))
			if ex && isStorKey(k) {
				wantOps = append(wantOps, fmt.Sprintf("Deleted %q", k[1:]))
			}
		} else {
			want = append(want, fmt.Sprintf("put %q=%s exists=%v", k, valName(v), ex))
			if isStorKey(k) {
				st := "Added"
				if ex {
					st = "Changed"
				}
				wantOps = append(wantOps, fmt.Sprintf("%s %q=%s", st, k[1:], valName(v)))
			}
		}
	}
	for _, e := range batch.Put {
		got = append(got, fmt.Sprintf("put %q=%s exists=%v", e.Key, valName(e.Value), e.Exists))
	}
	for _, e := range batch.Deleted {
		got = append(got, fmt.Sprintf("del %q exists=%v", e.Key, e.Exists))
	}
	for _, o := range storage.BatchToOperations(batch) {
		if o.State == "Deleted" {
			gotOps = append(gotOps, fmt.Sprintf("Deleted %q", o.Key))
		} else {
			gotOps = append(gotOps, fmt.Sprintf("%s %q=%s", o.State, o.Key, valName(o.Value)))
		}
	}
	sort.Strings(want)
	sort.Strings(got)
	sort.Strings(wantOps)
	sort.Strings(gotOps)
	b.out[fmt.Sprintf("getbatch->%dentries", min(len(got), 3))]++
	if strings.Join(want, "|") != strings.Join(got, "|") {
		b.fail("mismatch", "getbatch", t, "", "GetBatch()", strings.Join(want, " | "), strings.Join(got, " | "), "")
	}
	if strings.Join(wantOps, "|") != strings.Join(gotOps, "|") {
		b.fail("mismatch", "batchtooperations", t, "", "BatchToOperations(GetBatch())", strings.Join(wantOps, " | "), strings.Join(gotOps, " | "), "")
	}
	if m.kinds[t-1] != 'p' {
		return
	}
	b.cur = func() (string, int, string, string) { return "getstoragechanges", t, "GetStorageChanges()", "" }
	b.nq++
	want, got = nil, nil
	for k, v := range own {
		if isStorKey(k) {
			want = append(want, fmt.Sprintf("%q=%s", k, valName(v)))
		}
	}
	for k, v := range c.GetStorageChanges() {
		got = append(got, fmt.Sprintf("%q=%s", k, valName(v)))
	}
	sort.Strings(want)
	sort.Strings(got)
	if strings.Join(want, "|") != strings.Join(got, "|") {
		b.fail("mismatch", "getstoragechanges", t, "", "GetStorageChanges()", strings.Join(want, " | "), strings.Join(got, " | "), "")
	}
}

// ---- dao.Simple.SeekNEP17TransferLog / SeekNEP11TransferLog ------------------------
//
// The only range scans of the node that go backwards from a start point. Run
// once per DAO-built stack (initial state): logs of one account are spread over
// the backend (flushed), the lowest layer (pending) and the top layer (one
// added, one deleted); a neighbouring account and a NEP-11 log must stay out.
// Reference: all transfers of logs with timestamp <= newestTimestamp that are
// visible from the level, newest log first (timestamp, then batch index),
// within a log newest first. The bound is inclusive: the RPC server passes its
// inclusive `end` and only skips transfers with Timestamp > end.

type tlog struct {
	ts     uint64
	idx    uint32
	blocks []uint32
}

func tlogKey(nep11 bool, acc util.Uint160, ts uint64, idx uint32) []byte {
	k := make([]byte, 1+util.Uint160Size+12)
	k[0] = byte(storage.STNEP17Transfers)
	if nep11 {
		k[0] = byte(storage.STNEP11Transfers)
	}
	copy(k[1:], acc.BytesBE())
	binary.BigEndian.PutUint64(k[1+util.Uint160Size:], ts)
	binary.BigEndian.PutUint32(k[1+util.Uint160Size+8:], idx)
	return k
}

func (b *battery) transferLogs() {
	daos := b.s.daos
	n := len(daos)
	acc, acc2 := util.Uint160{0xaa}, util.Uint160{0xaa, 1}
	mk := func(ts uint64, blocks ...uint32) *state.TokenTransferLog {
		lg := new(state.TokenTransferLog)
		for _, bl := range blocks {
			if err := lg.Append(&state.NEP17Transfer{Asset: 1, Amount: big.NewInt(int64(bl)), Block: bl, Timestamp: ts}); err != nil {
				panic(err)
			}
		}
		return lg
	}
	b.cur = func() (string, int, string, string) { return "dao.seeknep17", 0, "setup", "" }
	d0 := daos[0]
	d0.PutTokenTransferLog(acc, 10, 0, false, mk(10, 101, 102))
	d0.PutTokenTransferLog(acc, 20, 0, false, mk(20, 201))
	d0.PutTokenTransferLog(acc, 20, 1, false, mk(20, 202))
	d0.PutTokenTransferLog(acc2, 15, 0, false, mk(15, 901))
	lg11 := new(state.TokenTransferLog)
	if err := lg11.Append(&state.NEP11Transfer{NEP17Transfer: state.NEP17Transfer{Asset: 1, Amount: big.NewInt(1), Block: 1101, Timestamp: 12}, ID: []byte{7}}); err != nil {
		panic(err)
	}
	d0.PutTokenTransferLog(acc, 12, 0, true, lg11)
	if _, err := d0.Persist(); err != nil {
		panic(err)
	}
	perLevel := make([][]tlog, n+1) // visible logs of acc per dao level (1-based)
	flushed := []tlog{{10, 0, []uint32{101, 102}}, {20, 0, []uint32{201}}, {20, 1, []uint32{202}}}
	d0.PutTokenTransferLog(acc, 30, 0, false, mk(30, 301))
	l1 := append(append([]tlog{}, flushed...), tlog{30, 0, []uint32{301}})
	for t := 1; t <= n; t++ {
		perLevel[t] = l1
	}
	top := daos[n-1]
	top.PutTokenTransferLog(acc, 40, 0, false, mk(40, 401))
	top.Store.Delete(tlogKey(false, acc, 20, 1))
	var lt []tlog
	for _, l := range l1 {
		if !(l.ts == 20 && l.idx == 1) {
			lt = append(lt, l)
		}
	}
	perLevel[n] = append(lt, tlog{40, 0, []uint32{401}})

	for t := 1; t <= n; t++ {
		d := daos[t-1]
		for _, newest := range []uint64{5, 10, 11, 19, 20, 21, 30, 39, 40, 1 << 63, math.MaxUint64} {
			for _, stop := range []int{0, 2} {
				var want, wantExcl []uint32
				logs := append([]tlog{}, perLevel[t]...)
				sort.Slice(logs, func(i, j int) bool {
					if logs[i].ts != logs[j].ts {
						return logs[i].ts > logs[j].ts
					}
					return logs[i].idx > logs[j].idx
				})
				for _, l := range logs {
					if l.ts > newest {
						continue
					}
					for i := len(l.blocks) - 1; i >= 0; i-- {
						want = append(want, l.blocks[i])
						if l.ts != newest {
							wantExcl = append(wantExcl, l.blocks[i])
						}
					}
				}
				if stop > 0 && len(want) > stop {
					want = want[:stop]
				}
				if stop > 0 && len(wantExcl) > stop {
					wantExcl = wantExcl[:stop]
				}
				query := fmt.Sprintf("SeekNEP17TransferLog(acc, newestTimestamp=%d) stop-after=%d", newest, stop)
				b.cur = func() (string, int, string, string) { return "dao.seeknep17", t, query, "" }
				b.nq++
				var got []uint32
				err := d.SeekNEP17TransferLog(acc, newest, func(tr *state.NEP17Transfer) (bool, error) {
					got = append(got, tr.Block)
					return !(stop > 0 && len(got) == stop), nil
				})
				b.out[fmt.Sprintf("dao.seeknep17->%dres", min(len(got), 3))]++
				if err != nil {
					b.fail("error", "dao.seeknep17", t, "", query, "nil", err.Error(), "")
					continue
				}
				if fmt.Sprint(got) != fmt.Sprint(want) {
					known := ""
					if fmt.Sprint(got) == fmt.Sprint(wantExcl) {
						known = "transferlog-seek:log-with-timestamp-equal-to-newest-skipped"
					}
					flags := "newest-between-logs"
					for _, l := range logs {
						if l.ts == newest {
							flags = "newest-equals-log-timestamp"
						}
					}
					b.fail("mismatch", "dao.seeknep17", t, flags, query, fmt.Sprintf("transfers of blocks %v", want), fmt.Sprintf("%v", got), known)
				}
			}
		}
		b.cur = func() (string, int, string, string) { return "dao.seeknep11", t, "SeekNEP11TransferLog(acc, max)", "" }
		b.nq++
		var got11 []uint32
		_ = d.SeekNEP11TransferLog(acc, math.MaxUint64, func(tr *state.NEP11Transfer) (bool, error) {
			got11 = append(got11, tr.Block)
			return true, nil
		})
		if fmt.Sprint(got11) != "[1101]" {
			b.fail("mismatch", "dao.seeknep11", t, "", "SeekNEP11TransferLog(acc, max)", "[1101]", fmt.Sprint(got11), "")
		}
	}
}
