package c09

import (
	"errors"
	"fmt"
	"strings"

	"github.com/nspcc-dev/neo-go/pkg/config"
	"github.com/nspcc-dev/neo-go/pkg/core/block"
	"github.com/nspcc-dev/neo-go/pkg/core/dao"
	"github.com/nspcc-dev/neo-go/pkg/core/interop"
	istorage "github.com/nspcc-dev/neo-go/pkg/core/interop/storage"
	"github.com/nspcc-dev/neo-go/pkg/core/state"
	"github.com/nspcc-dev/neo-go/pkg/smartcontract/trigger"
	"github.com/nspcc-dev/neo-go/pkg/util"
	"github.com/nspcc-dev/neo-go/pkg/vm"
	"github.com/nspcc-dev/neo-go/pkg/vm/opcode"
	"github.com/nspcc-dev/neo-go/pkg/vm/stackitem"
)

// System.Storage.* through the real interop functions on a real
// interop.Context: no chain is needed, the context gets a stub ledger and a
// contract lookup that answers "contract id 1" for the loaded script.

type stubLedger struct{}

func (stubLedger) BlockHeight() uint32                         { return 0 }
func (stubLedger) CurrentBlockHash() util.Uint256              { return util.Uint256{} }
func (stubLedger) GetBlock(util.Uint256) (*block.Block, error) { return nil, errors.New("no blocks") }
func (stubLedger) GetConfig() config.Blockchain                { return config.Blockchain{} }
func (stubLedger) GetHeaderHash(uint32) util.Uint256           { return util.Uint256{} }
func (stubLedger) NativeManagementID() int32                   { return -1 }

func newIC(d *dao.Simple) *interop.Context {
	return newICWith(d, func(*dao.Simple, util.Uint160) (*state.Contract, error) {
		return &state.Contract{ContractBase: state.ContractBase{ID: daoID}}, nil
	})
}

func newICWith(d *dao.Simple, getContract func(*dao.Simple, util.Uint160) (*state.Contract, error)) *interop.Context {
	ic := interop.NewContext(trigger.Application, stubLedger{}, d, 0, 1000, getContract, nil, nil, nil, nil, nil)
	ic.DAO = d // work on the layer itself, not on NewContext's private wrapper
	ic.VM = vm.New()
	ic.VM.SetGasLimit(-1)
	ic.VM.LoadScript([]byte{byte(opcode.RET)})
	return ic
}

// storageCtx obtains a storage context item the way a contract does.
func storageCtx(ic *interop.Context, readOnly bool, viaAsReadOnly bool) (stackitem.Item, error) {
	var err error
	if readOnly && !viaAsReadOnly {
		err = istorage.GetReadOnlyContext(ic)
	} else {
		err = istorage.GetContext(ic)
	}
	if err != nil {
		return nil, err
	}
	if readOnly && viaAsReadOnly {
		if err = istorage.ContextAsReadOnly(ic); err != nil {
			return nil, err
		}
	}
	return ic.VM.Estack().Pop().Item(), nil
}

// interopPut: even variants use GetContext + System.Storage.Put, odd ones
// System.Storage.Local.Put.
func interopPut(ic *interop.Context, key, val []byte, variant int) error {
	es := ic.VM.Estack()
	if variant%2 == 1 {
		es.PushVal(val)
		es.PushVal(key)
		return istorage.LocalPut(ic)
	}
	c, err := storageCtx(ic, false, false)
	if err != nil {
		return err
	}
	es.PushVal(val)
	es.PushVal(key)
	es.PushVal(c)
	return istorage.Put(ic)
}

func interopDelete(ic *interop.Context, key []byte, variant int) error {
	es := ic.VM.Estack()
	if variant%2 == 1 {
		es.PushVal(key)
		return istorage.LocalDelete(ic)
	}
	c, err := storageCtx(ic, false, false)
	if err != nil {
		return err
	}
	es.PushVal(key)
	es.PushVal(c)
	return istorage.Delete(ic)
}

// interopGet returns (value, found).
func interopGet(ic *interop.Context, key []byte, variant int) ([]byte, bool, error) {
	es := ic.VM.Estack()
	var err error
	if variant%3 == 2 {
		es.PushVal(key)
		err = istorage.LocalGet(ic)
	} else {
		var c stackitem.Item
		c, err = storageCtx(ic, true, variant%3 == 1)
		if err != nil {
			return nil, false, err
		}
		es.PushVal(key)
		es.PushVal(c)
		err = istorage.Get(ic)
	}
	if err != nil {
		return nil, false, err
	}
	it := es.Pop().Item()
	if _, null := it.(stackitem.Null); null {
		return nil, false, nil
	}
	b, err := it.TryBytes()
	return b, true, err
}

// interopBattery: (1) calls that must fail and change nothing (the rest of
// the battery then sees the unchanged content), (2) System.Storage.Get of every
// key of the scanned contract, (3) Local.Find.
func (b *battery) interopBattery(t int) {
	sc := b.sc
	ic := newIC(b.s.daos[t-1])
	es := ic.VM.Estack()
	api := "interop"
	expectErr := func(name string, f func() error) {
		b.cur = func() (string, int, string, string) { return api, t, name, "must-fail" }
		b.nq++
		n := es.Len()
		err := f()
		if err == nil {
			b.fail("mismatch", api, t, "must-fail", name, "error, nothing stored", "nil error", "")
		}
		for es.Len() > n { // arguments of a failed call are not our business
			es.Pop()
		}
		b.out["interop:"+strings.SplitN(name, "(", 2)[0]+"->error"]++
	}
	key := []byte(sc.Suffixes[0])
	long := []byte(strings.Repeat("k", 65))
	big := make([]byte, 65536)
	roPut := func(as bool) func() error {
		return func() error {
			c, err := storageCtx(ic, true, as)
			if err != nil {
				return nil // reported as "nil error": the context must be obtainable
			}
			es.PushVal(vals[0])
			es.PushVal(key)
			es.PushVal(c)
			return istorage.Put(ic)
		}
	}
	expectErr("Put(GetReadOnlyContext)", roPut(false))
	expectErr("Put(AsReadOnly(GetContext))", roPut(true))
	expectErr("Delete(GetReadOnlyContext)", func() error {
		c, err := storageCtx(ic, true, false)
		if err != nil {
			return nil
		}
		es.PushVal(key)
		es.PushVal(c)
		return istorage.Delete(ic)
	})
	expectErr("Put(key of 65 bytes)", func() error { return interopPut(ic, long, vals[0], 0) })
	expectErr("Local.Put(key of 65 bytes)", func() error { return interopPut(ic, long, vals[0], 1) })
	expectErr("Put(value of 65536 bytes)", func() error { return interopPut(ic, key, big, 0) })
	expectErr("Put(not a context)", func() error {
		es.PushVal(vals[0])
		es.PushVal(key)
		es.PushVal(stackitem.NewInterop(42))
		return istorage.Put(ic)
	})
	expectErr("Get(not a context)", func() error {
		es.PushVal(key)
		es.PushVal(stackitem.NewInterop(42))
		return istorage.Get(ic)
	})
	expectErr("Delete(not a context)", func() error {
		es.PushVal(key)
		es.PushVal(stackitem.NewInterop(42))
		return istorage.Delete(ic)
	})
	expectErr("Find(not a context)", func() error {
		es.PushVal(int64(0))
		es.PushVal(key)
		es.PushVal(stackitem.NewInterop(42))
		return istorage.Find(ic)
	})
	for _, o := range []int64{
		istorage.FindKeysOnly | istorage.FindValuesOnly,
		^int64(istorage.FindAll),
		istorage.FindKeysOnly | istorage.FindDeserialize,
		istorage.FindValuesOnly | istorage.FindRemovePrefix,
		istorage.FindPick0,
		istorage.FindPick0 | istorage.FindPick1 | istorage.FindDeserialize,
	} {
		expectErr(fmt.Sprintf("Find(options %#x)", o), func() error {
			es.PushVal(o)
			es.PushVal(key)
			es.PushVal(stackitem.NewInterop(&istorage.Context{ID: daoID}))
			return istorage.Find(ic)
		})
	}
	expectErr("AsReadOnly(not a context)", func() error {
		es.PushVal(stackitem.NewInterop(42))
		return istorage.ContextAsReadOnly(ic)
	})
	// out of gas: the storage fee of a new item cannot be paid, nothing may be stored
	fresh := []byte("zz-gas")
	low := newIC(b.s.daos[t-1])
	low.VM.SetGasLimit(0)
	expectErr("Put(new item, gas limit 0)", func() error { return interopPut(low, fresh, vals[0], 0) })
	expectErr("Local.Put(new item, gas limit 0)", func() error { return interopPut(low, fresh, vals[0], 1) })
	if _, err := b.s.ly[t-1].Get(append([]byte(baseS), fresh...)); err == nil {
		b.fail("mismatch", api, t, "must-fail", "Put(new item, gas limit 0)", "nothing stored", "item stored", "")
	}
	// dynamic script: the executing contract is unknown, no context, no Local.* access
	dyn := newICWith(b.s.daos[t-1], func(*dao.Simple, util.Uint160) (*state.Contract, error) {
		return nil, errors.New("unknown contract")
	})
	des := dyn.VM.Estack()
	expectErr("GetContext(dynamic script)", func() error { return istorage.GetContext(dyn) })
	expectErr("GetReadOnlyContext(dynamic script)", func() error { return istorage.GetReadOnlyContext(dyn) })
	expectErr("Local.Get(dynamic script)", func() error { des.PushVal(key); return istorage.LocalGet(dyn) })
	expectErr("Local.Put(dynamic script)", func() error { des.PushVal(vals[0]); des.PushVal(fresh); return istorage.LocalPut(dyn) })
	expectErr("Local.Delete(dynamic script)", func() error { des.PushVal(key); return istorage.LocalDelete(dyn) })
	expectErr("Local.Find(dynamic script)", func() error { des.PushVal(int64(0)); des.PushVal(key); return istorage.LocalFind(dyn) })
	des.Clear()
	// the long key and the big value must not have been stored
	if _, err := b.s.ly[t-1].Get(append([]byte(baseS), long...)); err == nil {
		b.fail("mismatch", api, t, "must-fail", "Put(key of 65 bytes)", "nothing stored", "item stored", "")
	}

	sv, _ := b.sortedView(t, 0)
	present := map[string]string{}
	for _, e := range sv {
		present[e.K] = e.V
	}
	for i, s := range append(append([]string{}, sc.Suffixes...), "\x01", "zz") {
		for variant := 0; variant < 3; variant++ {
			if variant != i%3 && i >= len(sc.Suffixes) {
				continue
			}
			name := fmt.Sprintf("System.Storage.Get(%q) variant %d", s, variant)
			b.cur = func() (string, int, string, string) { return "interop.get", t, name, "" }
			b.nq++
			v, found, err := interopGet(ic, []byte(s), variant)
			w, ok := present[sc.Base+s]
			switch {
			case err != nil:
				b.fail("error", "interop.get", t, "", name, "value or Null", err.Error(), "")
			case ok != found || (ok && string(v) != w):
				have := "Null"
				if found {
					have = valName(v)
				}
				want := "Null"
				if ok {
					want = valName([]byte(w))
				}
				b.fail("mismatch", "interop.get", t, fmt.Sprint(ok), name, want, have, "")
			}
			if found {
				b.out["interop.get->value"]++
			} else {
				b.out["interop.get->null"]++
			}
		}
	}
}
