package c09

import (
	"context"
	"fmt"
	"runtime"
	"sort"
	"strings"

	"github.com/nspcc-dev/neo-go/pkg/core/storage"
)

// Round 3: WHICH MOMENT a range scan answers for.
//
// MemCachedStore.SeekAsync takes the snapshot of the layer it is called on
// (tombstones included) synchronously, before it returns
// (prepareSeekMemSnapshot: "in order not to hold the lock ... throughout the
// whole Seek operation"); only the lower store is scanned by the goroutine. A
// caller that got its channel back may therefore write to the SAME layer before
// it receives the first pair: the scan still answers for the content the layer
// had when SeekAsync returned. At contract level: it := Storage.Find(p);
// Put/Delete in the range; Next(it).
//
// Family `call-snapshot` (this file, Go level; the contract-level half is the
// sub-family `early-action` of find-script in alias_script_test.go): on every
// alias stack, for every range of the scenario and every entry path
// (MemCachedStore.SeekAsync plain / with prefix cutting / with SearchDepth 1,
// dao.SeekAsync), ONE action is placed between the return of the call and the
// first receive:
//
//	put        a key that is not visible (new in the range, beside the range, exactly Prefix+Start, another class)
//	overwrite  a visible key with another value
//	delete     a visible key
//	changeset  PutChangeSet{k1: value, k2: deleted} on the layer
//	persist    Persist() of the layer itself (shared top layer: the layer lives on; private top
//	           layer: on a freshly built stack, the layer is gone afterwards)
//	overwrite-args  the caller reuses the Prefix/Start slices it passed
//
// through dao.PutStorageItem/DeleteStorageItem (the DAO's shared key buffer is
// reused by them) or through the store. Every case runs with three placements of
// a runtime.Gosched(): none, between call and action, between action and first
// receive. With a snapshot taken at call time the answer does not depend on the
// scheduling of the scan goroutine; any deviation from the reference computed
// from the model BEFORE the action is a violation. The model follows the action;
// with no Gosched a synchronous Seek of the same range follows and must answer
// for the new content.
//
// Not judged (reported as counters only): a write to a LOWER layer after the
// call. The lower layers are snapshotted by the goroutine when it gets there, so
// such a write may or may not be seen; neither the property nor the doc comments
// pin that down.

var lateYields = []string{"none", "gosched-before-action", "gosched-after-action"}

type lateCase struct {
	Seq    int    `json:"sequence_number_on_this_stack"`
	API    string `json:"api"`
	Prefix string `json:"prefix"`
	Start  string `json:"start"`
	Bwd    bool   `json:"backwards"`
	Action string `json:"action_between_return_and_first_receive"`
	Key    string `json:"key,omitempty"`
	Key2   string `json:"deleted_key,omitempty"`
	Val    int    `json:"value,omitempty"`
	Via    string `json:"via,omitempty"`
	Mut    string `json:"args_overwrite,omitempty"`
	Yield  string `json:"gosched"`
	Fresh  bool   `json:"on_freshly_built_stack,omitempty"`
}

func (c lateCase) String() string {
	var act string
	switch c.Action {
	case "put", "overwrite":
		act = fmt.Sprintf("%s(%q,%s) via %s", c.Action, c.Key, valNames[c.Val], c.Via)
	case "delete":
		act = fmt.Sprintf("delete(%q) via %s", c.Key, c.Via)
	case "changeset":
		act = fmt.Sprintf("PutChangeSet{%q:%s,%q:deleted}", c.Key, valNames[c.Val], c.Key2)
	case "persist":
		act = "Persist() of the scanned layer"
		if c.Fresh {
			act = fmt.Sprintf("Persist() of the scanned private layer (holding put(%q,%s), delete(%q))", c.Key, valNames[c.Val], c.Key2)
		}
	case "overwrite-args":
		act = "caller overwrites prefix and start slices (" + c.Mut + ")"
	case "lower-put":
		act = fmt.Sprintf("put(%q) on the layer BELOW", c.Key)
	}
	return fmt.Sprintf("#%d %s(%s); %s; %s; drain", c.Seq, c.API, rangeQ{c.Prefix, c.Start, c.Bwd}, act, c.Yield)
}

type lateRunner struct {
	s   *rstack
	m   *model
	sc  *scen
	b   *battery
	st  *aliasStats
	j   aliasJob
	cnt map[string]int
	seq int
	// replay
	only  *lateCase
	order int
	// content of the stack when the current case's call was made (for the record)
	stateBefore []string
	// a flush running beside the drain (BoltDB directly below the scanned layer)
	pending chan error
}

func (lr *lateRunner) depthCut(api string) (depth int, cut bool) {
	switch api {
	case "store.seekasync":
		return 0, false
	case "store.seekasync,cut,depth1":
		return 1, true
	}
	return 0, true
}

// write applies one resolved write action to the top layer and to the model.
func (lr *lateRunner) write(c *lateCase) {
	s, m := lr.s, lr.m
	t := len(s.ly)
	daoKey := func(k string) (int32, []byte) {
		if strings.HasPrefix(k, baseS) {
			return daoID, []byte(k[len(baseS):])
		}
		return otherID, []byte(k[len(baseS2):])
	}
	switch c.Action {
	case "put", "overwrite":
		if c.Via == "dao" {
			id, uk := daoKey(c.Key)
			s.daos[t-1].PutStorageItem(id, uk, vals[c.Val])
		} else {
			s.ly[t-1].Put([]byte(c.Key), vals[c.Val])
		}
		m.ly[t-1][c.Key] = vals[c.Val]
	case "delete":
		if c.Via == "dao" {
			id, uk := daoKey(c.Key)
			s.daos[t-1].DeleteStorageItem(id, uk)
		} else {
			s.ly[t-1].Delete([]byte(c.Key))
		}
		m.ly[t-1][c.Key] = nil
	case "changeset":
		cs := level{c.Key: append([]byte{}, vals[c.Val]...), c.Key2: nil}
		a, b := splitCS(cs)
		if err := s.ly[t-1].PutChangeSet(a, b); err != nil {
			panic(err)
		}
		m.ly[t-1][c.Key] = vals[c.Val]
		m.ly[t-1][c.Key2] = nil
	case "persist":
		persist := func() error {
			if s.daos != nil {
				_, err := s.daos[t-1].Persist()
				return err
			}
			_, err := s.ly[t-1].Persist()
			return err
		}
		if t == 1 && s.beKind == "bolt" {
			// The scan goroutine sits in a BoltDB read transaction until the channel is
			// drained, and a BoltDB write transaction that has to grow the file waits for
			// every read transaction: a flush into BoltDB can only be made by ANOTHER
			// goroutine than the one that drains (as in the node: the persist timer).
			lr.pending = make(chan error, 1)
			go func(ch chan error) { ch <- persist() }(lr.pending)
		} else if err := persist(); err != nil {
			panic(err)
		}
		m.flush(t - 1)
	}
}

// exec runs one case: call, [yield], action, [yield], drain; judges the answer
// against the reference of the moment the call returned.
func (lr *lateRunner) exec(c lateCase) {
	s, m, b := lr.s, lr.m, lr.b
	t := len(s.ly)
	q := rangeQ{c.Prefix, c.Start, c.Bwd}
	depth, cut := lr.depthCut(c.API)
	isDAO := c.API == "dao.seekasync"
	pbuf := []byte(q.Prefix)
	if isDAO {
		pbuf = []byte(q.Prefix[len(baseS):])
	}
	var sbuf []byte
	if q.Start != "" {
		sbuf = []byte(q.Start)
	}
	rng := storage.SeekRange{Prefix: pbuf, Start: sbuf, Backwards: q.Bwd, SearchDepth: depth}
	// the reference of this very moment
	b.views = nil
	b.sortedView(t, depth)
	ctx, cancel := context.WithCancel(context.Background())
	var ch chan storage.KeyValue
	if isDAO {
		ch = s.daos[t-1].SeekAsync(ctx, daoID, rng)
	} else {
		ch = s.ly[t-1].SeekAsync(ctx, rng, cut)
	}
	if c.Yield == "gosched-before-action" {
		runtime.Gosched()
	}
	switch c.Action {
	case "overwrite-args":
		overwrite(pbuf, c.Mut)
		overwrite(sbuf, c.Mut)
	case "lower-put":
		s.ly[t-2].Put([]byte(c.Key), vals[c.Val])
	default:
		lr.write(&c)
	}
	if c.Yield == "gosched-after-action" {
		runtime.Gosched()
	}
	var kept []storage.KeyValue
	for e := range ch {
		kept = append(kept, e)
	}
	cancel()
	if lr.pending != nil {
		err := <-lr.pending
		lr.pending = nil
		if err != nil {
			panic(err)
		}
	}
	got := make([]kv, 0, len(kept))
	for _, e := range kept {
		got = append(got, kv{string(e.Key), string(e.Value)})
	}
	fam := "call-snapshot"
	lr.st.cases[fam]++
	record := lr.only == nil || lr.only.Seq == c.Seq
	if c.Action == "lower-put" {
		// not judged: seen or not seen, both are counted
		seen := false
		for _, e := range got {
			seen = seen || e.K == c.Key
		}
		lr.st.notes[fmt.Sprintf("%s:seen=%v", c.Yield, seen)]++
		m.ly[t-2][c.Key] = vals[c.Val]
		b.views = nil
		return
	}
	b.fails = b.fails[:0]
	b.judge("late."+c.API, t, q, depth, 0, cut, false, got, false)
	inRange := "n/a"
	if c.Key != "" {
		inRange = "beside-range"
		if len(expectSorted([]kv{{c.Key, ""}}, q, nil)) > 0 {
			inRange = "in-range"
		}
	}
	lr.st.out[fmt.Sprintf("call-snapshot:%s:%s:%s:%dres", strings.SplitN(c.API, ",", 2)[0], c.Action, inRange, min(len(got), 3))]++
	if record {
		for _, f := range b.fails {
			lr.st.fail(fmt.Sprintf("scan-not-for-the-moment-of-the-call:%s:%s:%s", c.API, c.Action, lr.j.Backend),
				aliasRec{AliasFamily: fam, Job: lr.j, Late: &c, Case: c.String(), What: "answer for the layer's content when the call returned", Want: f.Want, Got: f.Got, State: lr.stateBefore, order: lr.order})
		}
	}
	b.views = nil
	if c.Yield != "none" || c.Action == "overwrite-args" || c.Fresh {
		return
	}
	// the next (synchronous) scan answers for the new content
	var have []kv
	rng2 := storage.SeekRange{Prefix: []byte(q.Prefix), Backwards: q.Bwd, SearchDepth: depth}
	if q.Start != "" {
		rng2.Start = []byte(q.Start)
	}
	s.ly[t-1].Seek(rng2, func(k, v []byte) bool {
		have = append(have, kv{string(k), string(v)})
		return true
	})
	b.fails = b.fails[:0]
	b.judge("late.seek-after", t, q, depth, 0, false, false, have, false)
	lr.st.cases["call-snapshot/seek-after"]++
	if record {
		for _, f := range b.fails {
			lr.st.fail(fmt.Sprintf("mismatch:seek-after-late-write:%s:%s", c.Action, lr.j.Backend),
				aliasRec{AliasFamily: fam, Job: lr.j, Late: &c, Case: c.String(), What: "synchronous Seek after the drained scan", Want: f.Want, Got: f.Got, State: lr.stateBefore, order: lr.order})
		}
	}
}

// resolve turns a target key into the action the current content calls for.
func (lr *lateRunner) resolve(k string) (action string, val int, via string) {
	t := len(lr.m.ly)
	view, _ := lr.m.view(t, 0)
	n := lr.cnt[k]
	lr.cnt[k]++
	via = "store"
	if lr.s.daos != nil && (strings.HasPrefix(k, baseS) || strings.HasPrefix(k, baseS2)) && n%3 != 2 {
		via = "dao"
	}
	cur, present := view[k]
	switch {
	case !present:
		return "put", []int{0, 2, 1}[n%3], via
	case n%2 == 0:
		return "overwrite", (valIndex(cur) + 1 + n/2%2) % 3, via
	}
	return "delete", 0, via
}

func lateAPIs(sc *scen, q rangeQ) []string {
	apis := []string{"store.seekasync", "store.seekasync,cut"}
	if q.Start == "" {
		apis = append(apis, "store.seekasync,cut,depth1")
	}
	if sc.Class == "S" && strings.HasPrefix(q.Prefix, sc.Base) {
		apis = append(apis, "dao.seekasync")
	}
	return apis
}

// latePool: the keys an action may touch for range q.
func latePool(sc *scen, q rangeQ) []string {
	pool := append([]string{}, sc.Keys...)
	pool = append(pool, q.Prefix+"\x7fn")
	if q.Start != "" {
		pool = append(pool, q.Prefix+q.Start)
	}
	if sc.Class == "S" {
		pool = append(pool, baseS2+"a")
	} else {
		pool = append(pool, "n")
	}
	sort.Strings(pool)
	return uniq(pool)
}

// runLateJob runs the family on a stack of its own (the alias stack of job j,
// freshly built). only != nil: replay of that recorded case (the sequence up to
// it is executed, only its verdict is recorded).
func runLateJob(en *env, j aliasJob, thorough bool, order int, only *aliasRec) (st *aliasStats) {
	st = newAliasStats()
	var cur string
	defer func() {
		if r := recover(); r != nil {
			en.drop(j.Backend)
			st.fail("panic:call-snapshot:"+j.Backend, aliasRec{AliasFamily: "call-snapshot", Job: j, Case: cur, What: "panic", Want: "no panic", Got: fmt.Sprint(r), order: order})
		}
	}()
	var onlyCase *lateCase
	if only != nil {
		onlyCase = only.Late
	}
	topPrivate := j.Shape[len(j.Shape)-1] == 'p'
	lowerPrivate := len(j.Shape) >= 2 && j.Shape[len(j.Shape)-2] == 'p'
	if onlyCase == nil || !onlyCase.Fresh {
		s, m, _, sc := buildAliasStack(en, j)
		lr := &lateRunner{s: s, m: m, sc: sc, st: st, j: j, cnt: map[string]int{}, only: onlyCase, order: order,
			b: &battery{s: s, m: m, sc: sc, out: map[string]int{}}}
		t := len(s.ly)
		run := func(c lateCase) bool {
			lr.seq++
			c.Seq = lr.seq
			cur = c.String()
			lr.stateBefore = nil
			if onlyCase == nil || onlyCase.Seq == c.Seq {
				lr.stateBefore = m.describe()
			}
			lr.exec(c)
			return onlyCase != nil && onlyCase.Seq == c.Seq
		}
	ranges:
		for _, q := range sc.Ranges {
			pool := latePool(sc, q)
			for _, api := range lateAPIs(sc, q) {
				base := lateCase{API: api, Prefix: q.Prefix, Start: q.Start, Bwd: q.Bwd}
				for _, y := range lateYields {
					// single-key writes
					for _, k := range pool {
						c := base
						c.Yield, c.Key = y, k
						c.Action, c.Val, c.Via = lr.resolve(k)
						if run(c) {
							break ranges
						}
					}
					// a batch of two
					for i := 0; i < len(pool); i += 2 {
						c := base
						c.Yield, c.Action = y, "changeset"
						c.Key, c.Key2 = pool[i], pool[(i+1)%len(pool)]
						c.Val = []int{2, 0}[lr.cnt["cs:"+c.Key]%2]
						lr.cnt["cs:"+c.Key]++
						if run(c) {
							break ranges
						}
					}
					// the caller reuses its slices
					if len(q.Prefix)+len(q.Start) > 0 && !(api == "dao.seekasync" && len(q.Prefix) == len(baseS) && q.Start == "") {
						c := base
						c.Yield, c.Action, c.Mut = y, "overwrite-args", []string{"inc", "ff"}[lr.seq%2]
						if run(c) {
							break ranges
						}
					}
					// a write below the scanned layer: counted, not judged
					if t >= 2 && j.Shape[t-2] == 'r' && q.Start == "" && api == "store.seekasync" && y != "gosched-after-action" {
						c := base
						c.Yield, c.Action, c.Key, c.Val = y, "lower-put", q.Prefix+"\x7fl"+fmt.Sprint(lr.seq), 0
						if run(c) {
							break ranges
						}
					}
					// flush of the scanned layer (a shared layer lives on)
					if !topPrivate {
						c := base
						c.Yield, c.Action = y, "persist"
						if run(c) {
							break ranges
						}
					}
				}
			}
		}
		if onlyCase != nil {
			return st
		}
	}
	// a private top layer is gone after its flush: every such case gets its own stack.
	// (Over a private layer the flush writes the lower layer's maps unlocked while the scan
	// goroutine may be reading them - private layers are documented as single-threaded, left out.)
	if !topPrivate || lowerPrivate {
		return st
	}
	var sc0 *scen
	for _, x := range buildScenarios(j.NKeys) {
		if x.Name == j.Scenario {
			sc0 = x
		}
	}
	seq := 1 << 20
	for _, q := range sc0.Ranges {
		if q.Start != "" && !thorough && q.Bwd {
			continue // quick: start points forwards only
		}
		for _, api := range lateAPIs(sc0, q) {
			for yi, y := range lateYields {
				seq++
				c := lateCase{Seq: seq, API: api, Prefix: q.Prefix, Start: q.Start, Bwd: q.Bwd, Action: "persist", Yield: y, Fresh: true, Via: "store"}
				n := len(sc0.Keys)
				c.Key, c.Key2, c.Val = sc0.Keys[(seq+yi)%n], sc0.Keys[(seq+yi+1)%n], []int{2, 0}[seq%2]
				if onlyCase != nil {
					if onlyCase.Seq != c.Seq {
						continue
					}
				}
				cur = c.String()
				s, m, _, sc := buildAliasStack(en, j)
				t := len(s.ly)
				lr := &lateRunner{s: s, m: m, sc: sc, st: st, j: j, cnt: map[string]int{}, only: onlyCase, order: order,
					b: &battery{s: s, m: m, sc: sc, out: map[string]int{}}}
				// the layer holds something of its own when it is scanned and flushed
				s.ly[t-1].Put([]byte(c.Key), vals[c.Val])
				m.ly[t-1][c.Key] = vals[c.Val]
				s.ly[t-1].Delete([]byte(c.Key2))
				m.ly[t-1][c.Key2] = nil
				lr.stateBefore = m.describe()
				lr.exec(c)
				// the layer below now holds everything
				s.pop()
				m.pop()
				lr.b.views = nil
				var have []kv
				rng2 := storage.SeekRange{Prefix: []byte(q.Prefix), Backwards: q.Bwd}
				if q.Start != "" {
					rng2.Start = []byte(q.Start)
				}
				var lower storage.Store = s.be
				if t >= 2 {
					lower = s.ly[t-2]
				}
				lower.Seek(rng2, func(k, v []byte) bool {
					have = append(have, kv{string(k), string(v)})
					return true
				})
				lr.b.fails = lr.b.fails[:0]
				lr.b.judge("late.seek-below-after-flush", t-1, q, 0, 0, false, false, have, false)
				st.cases["call-snapshot/seek-after"]++
				for _, f := range lr.b.fails {
					st.fail(fmt.Sprintf("mismatch:seek-after-late-write:persist-private:%s", j.Backend),
						aliasRec{AliasFamily: "call-snapshot", Job: j, Late: &c, Case: c.String(), What: "Seek on the layer below after the flush", Want: f.Want, Got: f.Got, State: lr.stateBefore, order: order})
				}
			}
		}
	}
	return st
}

// lateJobs: the stacks of the family (alias stacks plus a key class kept in the
// layers' other map).
func lateJobs(thorough bool) []aliasJob {
	jobs := aliasJobs(thorough)
	scens := []string{"M/chain"}
	shapes := []string{"r", "rp", "rr"}
	nkeys := 3
	if thorough {
		scens = []string{"M/sibling", "M/dbl"}
		shapes = []string{"r", "rp", "rr", "rrp"}
		nkeys = 4
	}
	for _, sn := range scens {
		for _, pl := range contentPlans {
			for _, sh := range shapes {
				for _, be := range allBackends {
					if pl.Name == "lower+top" && len(sh) < 2 {
						continue
					}
					jobs = append(jobs, aliasJob{Backend: be, Shape: sh, Scenario: sn, NKeys: nkeys, Plan: pl.Name})
				}
			}
		}
	}
	return jobs
}
